//! C14: schema evolution preserves untouched data.
//!
//! Interpreter of the C14 op lines against the REAL lance code (`Dataset::add_columns` with SqlExpressions / AllNulls /
//! Reader, `Dataset::alter_columns`, `Dataset::drop_columns`, interleaved with `Dataset::write(Append)`,
//! `Dataset::delete` and `compact_files`), a seeded generator of histories, and the property oracle.
//!
//! # Op lines (tokens separated by one space; names are `[a-z][a-z0-9]*`)
//!
//! ```text
//! create <coldefs> <rows>           coldefs = name:ty(,name:ty)*   ty: i = Int32, l = Int64, I / L = the same, NOT NULL
//! append <rows>                     one new fragment; rows in the current schema (order and width), >= 1 row
//! delete <col> <lt|eq|ge> <k>       Dataset::delete("<col> < k") / "= k" / ">= k"
//! compact                           compact_files, default options except materialize_deletions_threshold = 0
//! add_sql <bs> <name>=<expr>(;…)    NewColumnTransform::SqlExpressions; bs = batch size (`d` = default)
//!                                   expr ::= <col> | <col>+<k> | null:i | null:l   (`CAST(NULL AS int|bigint)`)
//! add_nulls <coldefs>               NewColumnTransform::AllNulls
//! add_reader <bs> <coldefs> <batches>   NewColumnTransform::Reader; one value row per live row, cut into batches
//! alter <col>[/r=<new>][/n=<0|1>][/t=<i|l>](;…)     Dataset::alter_columns (rename, nullability, cast)
//! drop <col>(,<col>)*               Dataset::drop_columns
//! merge <col> <coldefs> <rows>     Dataset::merge(right batch, left_on = right_on = <col>): rows = key cell, then one cell per
//!                                   coldef (nullable, new names); right keys non-NULL and pairwise different
//! ```
//!
//! # Output lines
//!
//! `ok schema=<name:ty:id,…> frags=<id:phys:dels:<file>/<file>…,…> rows=<ordered scan>` with `<file>` = the data file's
//! field ids joined by `.`, `frags=-` when there is no fragment; or `err <kind>` with the kit's error kinds plus `parse`
//! (line outside the grammar, an op naming a column twice, rows that do not fit the schema), `no_table`, `exists`,
//! `unreadable` (the op succeeded but the table can no longer be scanned: the case is dead, every later line prints `skip`).
//!
//! # Oracle (never looks at the Lean model)
//!
//! * `untouched_column_changed` / `row_count_changed`: after add / alter / drop every column the op does not name scans
//!   to exactly the cells it had before the op, and the number of rows is the same;
//! * `altered_column_changed`: a renamed / re-typed / nullability-changed column keeps its cells;
//! * `added_column_wrong_values` / `readd_column_wrong_values` (the latter when the name had been dropped before): the new
//!   column holds exactly the requested values (expression over the old row, NULL, or the reader's stream);
//! * `scan_differs_from_replay`: the whole scan equals the harness's own flat replay of the history (named columns of cells);
//! * `field_ids_not_unique`: schema ids pairwise different, within a fragment no live id in two places, every id
//!   <= `Manifest::max_field_id`; `new_field_id_not_fresh`: an id handed out by add / cast is stored by no data file of the
//!   version before; `reopen_differs`: a fresh handle scans to the same rows;
//! * `fragment_without_data_files` (open known finding): after a drop the scan fails "Fragment N does not contain any data";
//!   `valid_<op>_refused`, `invalid_<op>_accepted`, `failed_op_changed_table`, `<op>_panic`, `dead_file_kept`.
//!   The Updater's documented refusal ("Missing too many rows in merge") is tagged, not counted.

use std::collections::{BTreeMap, BTreeSet};
use std::sync::Arc;

use arrow_array::cast::AsArray;
use arrow_array::types::{Int32Type, Int64Type};
use arrow_array::{Array, ArrayRef, Int32Array, Int64Array, RecordBatch, RecordBatchIterator};
use arrow_schema::{DataType, Field, Schema as ArrowSchema};
use hcommon::*;
use lance::dataset::optimize::{compact_files, CompactionOptions};
use lance::dataset::{ColumnAlteration, NewColumnTransform, WriteDestination, WriteMode, WriteParams};
use lance::Dataset;

#[path = "../tablekit.rs"]
#[allow(dead_code)]
mod tablekit;
use tablekit::{parse_batches, parse_rows, show_batches, show_rows, Cell, Kit, KitError, KitResult, Row};

// ------------------------------------------------------------------------------------------------
// op language
// ------------------------------------------------------------------------------------------------

#[derive(Clone, Copy, Debug, PartialEq, Eq)]
enum Ty {
    I32,
    I64,
}

#[derive(Clone, Debug, PartialEq, Eq)]
struct ColDef {
    name: String,
    ty: Ty,
    nullable: bool,
}

impl ColDef {
    fn letter(&self) -> char {
        match (self.ty, self.nullable) {
            (Ty::I32, true) => 'i',
            (Ty::I64, true) => 'l',
            (Ty::I32, false) => 'I',
            (Ty::I64, false) => 'L',
        }
    }
    fn show(&self) -> String {
        format!("{}:{}", self.name, self.letter())
    }
    fn parse(s: &str) -> Option<Self> {
        let (n, t) = s.split_once(':')?;
        if !name_ok(n) {
            return None;
        }
        let (ty, nullable) = match t {
            "i" => (Ty::I32, true),
            "l" => (Ty::I64, true),
            "I" => (Ty::I32, false),
            "L" => (Ty::I64, false),
            _ => return None,
        };
        Some(Self { name: n.to_string(), ty, nullable })
    }
    fn arrow(&self) -> Field {
        Field::new(&self.name, self.ty.arrow(), self.nullable)
    }
}

impl Ty {
    fn arrow(&self) -> DataType {
        match self {
            Ty::I32 => DataType::Int32,
            Ty::I64 => DataType::Int64,
        }
    }
}

fn name_ok(n: &str) -> bool {
    let mut cs = n.chars();
    matches!(cs.next(), Some(c) if c.is_ascii_lowercase()) && cs.all(|c| c.is_ascii_lowercase() || c.is_ascii_digit())
}

fn parse_coldefs(s: &str) -> Option<Vec<ColDef>> {
    s.split(',').map(ColDef::parse).collect()
}

fn show_coldefs(cs: &[ColDef]) -> String {
    cs.iter().map(|c| c.show()).collect::<Vec<_>>().join(",")
}

#[derive(Clone, Debug, PartialEq, Eq)]
enum Expr {
    Col(String),
    Plus(String, i64),
    Null(Ty),
}

impl Expr {
    fn show(&self) -> String {
        match self {
            Expr::Col(c) => c.clone(),
            Expr::Plus(c, k) => format!("{c}+{k}"),
            Expr::Null(Ty::I32) => "null:i".into(),
            Expr::Null(Ty::I64) => "null:l".into(),
        }
    }
    fn parse(s: &str) -> Option<Self> {
        if s == "null:i" {
            return Some(Expr::Null(Ty::I32));
        }
        if s == "null:l" {
            return Some(Expr::Null(Ty::I64));
        }
        if let Some((c, k)) = s.split_once('+') {
            if !name_ok(c) {
                return None;
            }
            let k = parse_small(k)?;
            if k < 0 {
                return None;
            }
            return Some(Expr::Plus(c.to_string(), k));
        }
        if name_ok(s) {
            Some(Expr::Col(s.to_string()))
        } else {
            None
        }
    }
    fn sql(&self) -> String {
        match self {
            Expr::Col(c) => c.clone(),
            Expr::Plus(c, k) => format!("{c} + {k}"),
            Expr::Null(Ty::I32) => "CAST(NULL AS int)".into(),
            Expr::Null(Ty::I64) => "CAST(NULL AS bigint)".into(),
        }
    }
}

/// strict decimal within +-2^20 (all keys of this check are small so that Int32 <-> Int64 casts are the identity)
fn parse_small(s: &str) -> Option<i64> {
    let d = s.strip_prefix('-').unwrap_or(s);
    if d.is_empty() || d.len() > 7 || !d.bytes().all(|b| b.is_ascii_digit()) {
        return None;
    }
    let v: i64 = s.parse().ok()?;
    if v.abs() > (1 << 20) {
        return None;
    }
    Some(v)
}

#[derive(Clone, Copy, Debug, PartialEq, Eq)]
enum Cmp {
    Lt,
    Eq,
    Ge,
}

#[derive(Clone, Debug, PartialEq, Eq)]
struct Alt {
    col: String,
    rename: Option<String>,
    nullable: Option<bool>,
    cast: Option<Ty>,
}

#[derive(Clone, Debug, PartialEq, Eq)]
enum Op {
    Create(Vec<ColDef>, Vec<Row>),
    Append(Vec<Row>),
    Delete(String, Cmp, i64),
    Compact,
    AddSql(Option<u32>, Vec<(String, Expr)>),
    AddNulls(Vec<ColDef>),
    AddReader(Option<u32>, Vec<ColDef>, Vec<Vec<Row>>),
    Alter(Vec<Alt>),
    Drop(Vec<String>),
    Merge(String, Vec<ColDef>, Vec<Row>),
}

fn show_bs(b: &Option<u32>) -> String {
    b.map(|v| v.to_string()).unwrap_or_else(|| "d".into())
}

fn parse_bs(s: &str) -> Option<Option<u32>> {
    if s == "d" {
        return Some(None);
    }
    if s.is_empty() || s.len() > 6 || !s.bytes().all(|b| b.is_ascii_digit()) {
        return None;
    }
    let v: u32 = s.parse().ok()?;
    if v == 0 {
        return None;
    }
    Some(Some(v))
}

fn show_op(op: &Op) -> String {
    match op {
        Op::Create(cs, rows) => format!("create {} {}", show_coldefs(cs), show_rows(rows)),
        Op::Append(rows) => format!("append {}", show_rows(rows)),
        Op::Delete(c, cmp, k) => format!(
            "delete {c} {} {k}",
            match cmp {
                Cmp::Lt => "lt",
                Cmp::Eq => "eq",
                Cmp::Ge => "ge",
            }
        ),
        Op::Compact => "compact".into(),
        Op::AddSql(bs, es) => format!(
            "add_sql {} {}",
            show_bs(bs),
            es.iter().map(|(n, e)| format!("{n}={}", e.show())).collect::<Vec<_>>().join(";")
        ),
        Op::AddNulls(cs) => format!("add_nulls {}", show_coldefs(cs)),
        Op::AddReader(bs, cs, b) => format!("add_reader {} {} {}", show_bs(bs), show_coldefs(cs), show_batches(b)),
        Op::Alter(alts) => format!(
            "alter {}",
            alts.iter()
                .map(|a| {
                    let mut s = a.col.clone();
                    if let Some(r) = &a.rename {
                        s.push_str(&format!("/r={r}"));
                    }
                    if let Some(n) = a.nullable {
                        s.push_str(&format!("/n={}", n as u8));
                    }
                    if let Some(t) = a.cast {
                        s.push_str(if t == Ty::I32 { "/t=i" } else { "/t=l" });
                    }
                    s
                })
                .collect::<Vec<_>>()
                .join(";")
        ),
        Op::Drop(cs) => format!("drop {}", cs.join(",")),
        Op::Merge(c, cs, rows) => format!("merge {c} {} {}", show_coldefs(cs), show_rows(rows)),
    }
}

fn cells_small(rows: &[Row]) -> bool {
    rows.iter().all(|r| r.iter().all(|c| c.map(|v| v.abs() <= (1 << 20)).unwrap_or(true)))
}

fn parse_alt(s: &str) -> Option<Alt> {
    let mut parts = s.split('/');
    let col = parts.next()?;
    if !name_ok(col) {
        return None;
    }
    let mut a = Alt { col: col.to_string(), rename: None, nullable: None, cast: None };
    // fixed order r, n, t; each at most once
    let mut stage = 0;
    for p in parts {
        if let Some(r) = p.strip_prefix("r=") {
            if stage > 0 || !name_ok(r) {
                return None;
            }
            a.rename = Some(r.to_string());
            stage = 1;
        } else if let Some(n) = p.strip_prefix("n=") {
            if stage > 1 {
                return None;
            }
            a.nullable = Some(match n {
                "0" => false,
                "1" => true,
                _ => return None,
            });
            stage = 2;
        } else if let Some(t) = p.strip_prefix("t=") {
            if stage > 2 {
                return None;
            }
            a.cast = Some(match t {
                "i" => Ty::I32,
                "l" => Ty::I64,
                _ => return None,
            });
            stage = 3;
        } else {
            return None;
        }
    }
    Some(a)
}

fn distinct<'a, I: IntoIterator<Item = &'a String>>(names: I) -> bool {
    let v: Vec<&String> = names.into_iter().collect();
    v.iter().collect::<BTreeSet<_>>().len() == v.len()
}

/// the grammar also refuses an op that names a column twice (lance's behaviour there is not part of the check)
fn parse_op(line: &str) -> Option<Op> {
    let op = parse_op_raw(line)?;
    let ok = match &op {
        Op::AddSql(_, es) => distinct(es.iter().map(|e| &e.0)),
        Op::AddNulls(cs) | Op::AddReader(_, cs, _) => distinct(cs.iter().map(|c| &c.name)),
        Op::Alter(alts) => distinct(alts.iter().map(|a| &a.col)),
        Op::Drop(cs) => distinct(cs.iter()),
        Op::Merge(c, cs, rows) => {
            let keys: Vec<Cell> = rows.iter().map(|r| r.first().copied().flatten()).collect();
            distinct(cs.iter().map(|d| &d.name))
                && cs.iter().all(|d| d.nullable && &d.name != c)
                && rows.iter().all(|r| r.len() == cs.len() + 1 && r[0].is_some())
                && keys.iter().collect::<BTreeSet<_>>().len() == keys.len()
        }
        _ => true,
    };
    if ok {
        Some(op)
    } else {
        None
    }
}

fn parse_op_raw(line: &str) -> Option<Op> {
    let t: Vec<&str> = line.split(' ').filter(|s| !s.is_empty()).collect();
    match t.as_slice() {
        ["create", cs, rows] => {
            let cs = parse_coldefs(cs)?;
            let rows = parse_rows(rows)?;
            if !cells_small(&rows) || rows.iter().any(|r| r.len() != cs.len()) {
                return None;
            }
            Some(Op::Create(cs, rows))
        }
        ["append", rows] => {
            let rows = parse_rows(rows)?;
            if rows.is_empty() || !cells_small(&rows) {
                return None;
            }
            Some(Op::Append(rows))
        }
        ["delete", c, cmp, k] => {
            if !name_ok(c) {
                return None;
            }
            let cmp = match *cmp {
                "lt" => Cmp::Lt,
                "eq" => Cmp::Eq,
                "ge" => Cmp::Ge,
                _ => return None,
            };
            Some(Op::Delete(c.to_string(), cmp, parse_small(k)?))
        }
        ["compact"] => Some(Op::Compact),
        ["add_sql", bs, es] => {
            let bs = parse_bs(bs)?;
            let es = es
                .split(';')
                .map(|e| {
                    let (n, x) = e.split_once('=')?;
                    if !name_ok(n) {
                        return None;
                    }
                    Some((n.to_string(), Expr::parse(x)?))
                })
                .collect::<Option<Vec<_>>>()?;
            Some(Op::AddSql(bs, es))
        }
        ["add_nulls", cs] => Some(Op::AddNulls(parse_coldefs(cs)?)),
        ["add_reader", bs, cs, b] => {
            let bs = parse_bs(bs)?;
            let cs = parse_coldefs(cs)?;
            let b = parse_batches(b)?;
            if b.iter().any(|rows| !cells_small(rows) || rows.iter().any(|r| r.len() != cs.len())) {
                return None;
            }
            Some(Op::AddReader(bs, cs, b))
        }
        ["merge", c, cs, rows] => {
            if !name_ok(c) {
                return None;
            }
            let cs = parse_coldefs(cs)?;
            let rows = parse_rows(rows)?;
            if !cells_small(&rows) {
                return None;
            }
            Some(Op::Merge(c.to_string(), cs, rows))
        }
        ["alter", alts] => Some(Op::Alter(alts.split(';').map(parse_alt).collect::<Option<Vec<_>>>()?)),
        ["drop", cs] => {
            let cs: Vec<String> = cs.split(',').map(|s| s.to_string()).collect();
            if !cs.iter().all(|c| name_ok(c)) {
                return None;
            }
            Some(Op::Drop(cs))
        }
        _ => None,
    }
}

fn op_kind(op: &Op) -> &'static str {
    match op {
        Op::Create(..) => "create",
        Op::Append(..) => "append",
        Op::Delete(..) => "delete",
        Op::Compact => "compact",
        Op::AddSql(..) => "add_sql",
        Op::AddNulls(..) => "add_nulls",
        Op::AddReader(..) => "add_reader",
        Op::Alter(..) => "alter",
        Op::Drop(..) => "drop",
        Op::Merge(..) => "merge",
    }
}

// ------------------------------------------------------------------------------------------------
// the harness's own flat replay (oracle side and generator side; independent of the Lean model)
// ------------------------------------------------------------------------------------------------

#[derive(Clone, Debug, Default)]
struct Flat {
    cols: Vec<(ColDef, Vec<Cell>)>,
    n: usize,
    dropped: BTreeSet<String>,
}

impl Flat {
    fn col(&self, name: &str) -> Option<&(ColDef, Vec<Cell>)> {
        self.cols.iter().find(|c| c.0.name == name)
    }
    fn defs(&self) -> Vec<ColDef> {
        self.cols.iter().map(|c| c.0.clone()).collect()
    }
    fn rows_fit(defs: &[ColDef], rows: &[Row]) -> bool {
        rows.iter().all(|r| r.len() == defs.len() && r.iter().zip(defs).all(|(c, d)| d.nullable || c.is_some()))
    }
    fn eval(&self, e: &Expr) -> Option<(Ty, bool, Vec<Cell>)> {
        match e {
            Expr::Col(c) => self.col(c).map(|(d, v)| (d.ty, d.nullable, v.clone())),
            Expr::Plus(c, k) => {
                self.col(c).map(|(d, v)| (d.ty, d.nullable, v.iter().map(|x| x.map(|x| x + k)).collect()))
            }
            Expr::Null(t) => Some((*t, true, vec![None; self.n])),
        }
    }
    /// `None` = the op is expected to fail (the replay does not predict the error kind)
    fn apply(&self, op: &Op) -> Option<Flat> {
        let mut f = self.clone();
        match op {
            Op::Create(..) => return None,
            Op::Append(rows) => {
                if !Self::rows_fit(&self.defs(), rows) {
                    return None;
                }
                for (i, c) in f.cols.iter_mut().enumerate() {
                    c.1.extend(rows.iter().map(|r| r[i]));
                }
                f.n += rows.len();
            }
            Op::Delete(c, cmp, k) => {
                let (_, v) = self.col(c)?;
                let keep: Vec<bool> = v
                    .iter()
                    .map(|x| match x {
                        None => true,
                        Some(x) => !match cmp {
                            Cmp::Lt => x < k,
                            Cmp::Eq => x == k,
                            Cmp::Ge => x >= k,
                        },
                    })
                    .collect();
                for c in f.cols.iter_mut() {
                    let mut i = 0;
                    c.1.retain(|_| {
                        i += 1;
                        keep[i - 1]
                    });
                }
                f.n = keep.iter().filter(|k| **k).count();
            }
            Op::Compact => {}
            Op::AddSql(_, es) => {
                let mut seen = BTreeSet::new();
                for (n, e) in es {
                    if self.col(n).is_some() || !seen.insert(n.clone()) {
                        return None;
                    }
                    let (ty, nullable, v) = self.eval(e)?;
                    f.cols.push((ColDef { name: n.clone(), ty, nullable }, v));
                }
            }
            Op::AddNulls(cs) => {
                let mut seen = BTreeSet::new();
                for c in cs {
                    if self.col(&c.name).is_some() || !seen.insert(c.name.clone()) || !c.nullable {
                        return None;
                    }
                    f.cols.push((c.clone(), vec![None; self.n]));
                }
            }
            Op::AddReader(_, cs, b) => {
                let rows: Vec<Row> = b.iter().flatten().cloned().collect();
                // add_columns_from_stream asks the stream for one more batch after the last row: a trailing EMPTY batch
                // is "more values than expected" (mirrored, not counted as a violation: the op is refused, nothing changes)
                if rows.len() != self.n || !Self::rows_fit(cs, &rows) || b.last().map(|l| l.is_empty()).unwrap_or(false) {
                    return None;
                }
                let mut seen = BTreeSet::new();
                for (i, c) in cs.iter().enumerate() {
                    if self.col(&c.name).is_some() || !seen.insert(c.name.clone()) {
                        return None;
                    }
                    f.cols.push((c.clone(), rows.iter().map(|r| r[i]).collect()));
                }
            }
            Op::Alter(alts) => {
                for a in alts {
                    // source looked up in the OLD table by name; destination is the same column (by position)
                    let pos = self.cols.iter().position(|c| c.0.name == a.col)?;
                    let src = &self.cols[pos].0;
                    if let Some(n) = a.nullable {
                        if src.nullable && !n {
                            return None;
                        }
                    }
                    let d = &mut f.cols[pos].0;
                    if let Some(r) = &a.rename {
                        d.name = r.clone();
                    }
                    if let Some(n) = a.nullable {
                        d.nullable = n;
                    }
                    if let Some(t) = a.cast {
                        d.ty = t;
                    }
                }
                let names: BTreeSet<&String> = f.cols.iter().map(|c| &c.0.name).collect();
                if names.len() != f.cols.len() {
                    return None;
                }
            }
            Op::Drop(cs) => {
                for c in cs {
                    self.col(c)?;
                }
                f.cols.retain(|c| !cs.contains(&c.0.name));
                if f.cols.is_empty() {
                    return None;
                }
                for c in cs {
                    f.dropped.insert(c.clone());
                }
            }
            Op::Merge(c, cs, rows) => {
                let (_, keys) = self.col(c)?;
                for (j, d) in cs.iter().enumerate() {
                    if self.col(&d.name).is_some() {
                        return None;
                    }
                    let v: Vec<Cell> = keys
                        .iter()
                        .map(|k| match k {
                            None => None,
                            Some(k) => rows.iter().find(|r| r[0] == Some(*k)).and_then(|r| r[j + 1]),
                        })
                        .collect();
                    // HashJoiner::collect refuses to fill NULLs into Int32 / Int64 columns (legacy nulls rule): mirrored as a
                    // refusal, see the module doc
                    if v.iter().any(|x| x.is_none()) {
                        return None;
                    }
                    f.cols.push((d.clone(), v));
                }
            }
        }
        Some(f)
    }
    fn rows(&self) -> Vec<Row> {
        (0..self.n).map(|i| self.cols.iter().map(|c| c.1[i]).collect()).collect()
    }
}

// ------------------------------------------------------------------------------------------------
// real side
// ------------------------------------------------------------------------------------------------

fn make_batch(defs: &[ColDef], rows: &[Row]) -> std::result::Result<RecordBatch, arrow_schema::ArrowError> {
    let schema = Arc::new(ArrowSchema::new(defs.iter().map(|d| d.arrow()).collect::<Vec<_>>()));
    let cols: Vec<ArrayRef> = defs
        .iter()
        .enumerate()
        .map(|(i, d)| -> ArrayRef {
            match d.ty {
                Ty::I32 => Arc::new(Int32Array::from(rows.iter().map(|r| r[i].map(|v| v as i32)).collect::<Vec<_>>())),
                Ty::I64 => Arc::new(Int64Array::from(rows.iter().map(|r| r[i]).collect::<Vec<_>>())),
            }
        })
        .collect();
    RecordBatch::try_new_with_options(schema, cols, &arrow_array::RecordBatchOptions::new().with_row_count(Some(rows.len())))
}

/// the observable state of a dataset version
#[derive(Clone, Debug, PartialEq)]
struct Obs {
    /// (name, type letter, field id)
    schema: Vec<(String, char, i32)>,
    /// (fragment id, physical rows, deletions, field ids of each data file)
    frags: Vec<(u64, usize, usize, Vec<Vec<i32>>)>,
    rows: Vec<Row>,
    max_field_id: i32,
}

impl Obs {
    fn show(&self) -> String {
        let schema = self.schema.iter().map(|(n, t, i)| format!("{n}:{t}:{i}")).collect::<Vec<_>>().join(",");
        let frags = if self.frags.is_empty() {
            "-".to_string()
        } else {
            self.frags
                .iter()
                .map(|(id, p, d, files)| {
                    let fs = files
                        .iter()
                        .map(|f| f.iter().map(|i| i.to_string()).collect::<Vec<_>>().join("."))
                        .collect::<Vec<_>>()
                        .join("/");
                    format!("{id}:{p}:{d}:{fs}")
                })
                .collect::<Vec<_>>()
                .join(",")
        };
        format!("ok schema={schema} frags={frags} rows={}", show_rows(&self.rows))
    }
    fn column(&self, name: &str) -> Option<Vec<Cell>> {
        let p = self.schema.iter().position(|c| c.0 == name)?;
        Some(self.rows.iter().map(|r| r[p]).collect())
    }
    fn file_ids(&self) -> BTreeSet<i32> {
        self.frags.iter().flat_map(|f| f.3.iter().flatten().copied()).collect()
    }
}

fn observe(kit: &Kit, ds: &Dataset) -> KitResult<Obs> {
    let mut schema = vec![];
    for f in ds.schema().fields.iter() {
        let t = match (f.data_type(), f.nullable) {
            (DataType::Int32, true) => 'i',
            (DataType::Int64, true) => 'l',
            (DataType::Int32, false) => 'I',
            (DataType::Int64, false) => 'L',
            (other, _) => return Err(KitError::other(format!("observe: column {} has type {other:?}", f.name))),
        };
        schema.push((f.name.clone(), t, f.id));
    }
    let frags = ds
        .get_fragments()
        .iter()
        .map(|f| {
            let m = f.metadata();
            (
                m.id,
                m.physical_rows.unwrap_or(usize::MAX),
                m.deletion_file.as_ref().and_then(|d| d.num_deleted_rows).unwrap_or(0),
                m.files.iter().map(|df| df.fields.clone()).collect(),
            )
        })
        .collect();
    let mut sc = ds.scan();
    sc.scan_in_order(true);
    let batch = kit.lance_call("scan", sc.try_into_batch())?;
    let bs = batch.schema();
    if bs.fields().len() != schema.len() || bs.fields().iter().zip(&schema).any(|(f, s)| f.name() != &s.0) {
        return Err(KitError::other(format!(
            "observe: scan columns {:?} differ from the schema {:?}",
            bs.fields().iter().map(|f| f.name().clone()).collect::<Vec<_>>(),
            schema
        )));
    }
    let mut rows: Vec<Row> = vec![Vec::with_capacity(schema.len()); batch.num_rows()];
    for (ci, (name, t, _)) in schema.iter().enumerate() {
        let a = batch.column(ci);
        match (t.to_ascii_lowercase(), a.data_type()) {
            ('i', DataType::Int32) => {
                let a = a.as_primitive::<Int32Type>();
                for (r, row) in rows.iter_mut().enumerate() {
                    row.push(if a.is_null(r) { None } else { Some(a.value(r) as i64) });
                }
            }
            ('l', DataType::Int64) => {
                let a = a.as_primitive::<Int64Type>();
                for (r, row) in rows.iter_mut().enumerate() {
                    row.push(if a.is_null(r) { None } else { Some(a.value(r)) });
                }
            }
            (_, other) => {
                return Err(KitError::other(format!("observe: scanned column {name} has type {other:?}, schema says {t}")))
            }
        }
    }
    Ok(Obs { schema, frags, rows, max_field_id: ds.manifest().max_field_id() })
}

fn run_real(kit: &Kit, uri: &str, ds: &mut Option<Dataset>, op: &Op) -> KitResult<()> {
    match op {
        Op::Create(defs, rows) => {
            let batch = make_batch(defs, rows)?;
            let schema = batch.schema();
            let reader = RecordBatchIterator::new(vec![Ok(batch)].into_iter(), schema);
            let params = WriteParams { mode: WriteMode::Create, session: Some(kit.session.clone()), ..Default::default() };
            let d = kit.lance_call("create", Dataset::write(reader, uri, Some(params)))?;
            *ds = Some(d);
            Ok(())
        }
        Op::Append(rows) => {
            let d = ds.as_ref().unwrap();
            // the current schema as the harness reads it from the dataset
            let defs: Vec<ColDef> = d
                .schema()
                .fields
                .iter()
                .map(|f| ColDef {
                    name: f.name.clone(),
                    ty: if f.data_type() == DataType::Int32 { Ty::I32 } else { Ty::I64 },
                    nullable: f.nullable,
                })
                .collect();
            let batch = make_batch(&defs, rows)?;
            let schema = batch.schema();
            let reader = RecordBatchIterator::new(vec![Ok(batch)].into_iter(), schema);
            let params = WriteParams { mode: WriteMode::Append, session: Some(kit.session.clone()), ..Default::default() };
            let nd = kit.lance_call("append", Dataset::write(reader, WriteDestination::Dataset(Arc::new(d.clone())), Some(params)))?;
            *ds = Some(nd);
            Ok(())
        }
        Op::Delete(c, cmp, k) => {
            let d = ds.as_mut().unwrap();
            let pred = format!(
                "{c} {} {k}",
                match cmp {
                    Cmp::Lt => "<",
                    Cmp::Eq => "=",
                    Cmp::Ge => ">=",
                }
            );
            kit.lance_call("delete", d.delete(&pred))
        }
        Op::Compact => {
            let d = ds.as_mut().unwrap();
            let opts = CompactionOptions { materialize_deletions_threshold: 0.0, ..Default::default() };
            kit.lance_call("compact", compact_files(d, opts, None)).map(|_| ())
        }
        Op::AddSql(bs, es) => {
            let d = ds.as_mut().unwrap();
            let t = NewColumnTransform::SqlExpressions(es.iter().map(|(n, e)| (n.clone(), e.sql())).collect());
            kit.lance_call("add_columns", d.add_columns(t, None, *bs))
        }
        Op::AddNulls(cs) => {
            let d = ds.as_mut().unwrap();
            let schema = Arc::new(ArrowSchema::new(cs.iter().map(|c| c.arrow()).collect::<Vec<_>>()));
            kit.lance_call("add_columns", d.add_columns(NewColumnTransform::AllNulls(schema), None, None))
        }
        Op::AddReader(bs, cs, b) => {
            let d = ds.as_mut().unwrap();
            let schema = Arc::new(ArrowSchema::new(cs.iter().map(|c| c.arrow()).collect::<Vec<_>>()));
            let batches: Vec<_> = b.iter().map(|rows| make_batch(cs, rows)).collect();
            let reader = RecordBatchIterator::new(batches.into_iter(), schema);
            kit.lance_call("add_columns", d.add_columns(NewColumnTransform::Reader(Box::new(reader)), None, *bs))
        }
        Op::Alter(alts) => {
            let d = ds.as_mut().unwrap();
            let alts: Vec<ColumnAlteration> = alts
                .iter()
                .map(|a| {
                    let mut c = ColumnAlteration::new(a.col.clone());
                    if let Some(r) = &a.rename {
                        c = c.rename(r.clone());
                    }
                    if let Some(n) = a.nullable {
                        c = c.set_nullable(n);
                    }
                    if let Some(t) = a.cast {
                        c = c.cast_to(t.arrow());
                    }
                    c
                })
                .collect();
            kit.lance_call("alter_columns", d.alter_columns(&alts))
        }
        Op::Drop(cs) => {
            let d = ds.as_mut().unwrap();
            let cs: Vec<&str> = cs.iter().map(|s| s.as_str()).collect();
            kit.lance_call("drop_columns", d.drop_columns(&cs))
        }
        Op::Merge(c, cs, rows) => {
            let d = ds.as_mut().unwrap();
            // the right-hand key column has the type of the left one
            let kty = match d.schema().field(c).map(|f| f.data_type()) {
                Some(DataType::Int32) => Ty::I32,
                _ => Ty::I64,
            };
            let mut defs = vec![ColDef { name: c.clone(), ty: kty, nullable: false }];
            defs.extend(cs.iter().cloned());
            let batch = make_batch(&defs, rows)?;
            let schema = batch.schema();
            let reader = RecordBatchIterator::new(vec![Ok(batch)].into_iter(), schema);
            kit.lance_call("merge", d.merge(reader, c, c))
        }
    }
}

// ------------------------------------------------------------------------------------------------
// the property
// ------------------------------------------------------------------------------------------------

struct C14 {
    kit: Kit,
}

const NAMES: [&str; 8] = ["a", "b", "c", "d", "e", "x", "y", "z"];

fn gen_cell(rng: &mut Rng, nullable: bool) -> Cell {
    if nullable && rng.chance(1, 6) {
        None
    } else {
        Some(rng.below(12) as i64 - 2)
    }
}

fn gen_rows(rng: &mut Rng, defs: &[ColDef], n: usize) -> Vec<Row> {
    (0..n).map(|_| defs.iter().map(|d| gen_cell(rng, d.nullable)).collect()).collect()
}

fn cut(rng: &mut Rng, rows: Vec<Row>) -> Vec<Vec<Row>> {
    // cut into 1..3 batches, possibly with an empty one
    let mut out = vec![];
    let mut rest = rows;
    let k = 1 + rng.usize(3);
    for i in 0..k {
        if i + 1 == k {
            if !rest.is_empty() || (out.is_empty() && rng.chance(1, 2)) {
                out.push(std::mem::take(&mut rest));
            }
        } else {
            let n = rng.usize(rest.len() + 1);
            let tail = rest.split_off(n);
            out.push(rest);
            rest = tail;
        }
    }
    out
}

impl C14 {
    fn fresh_name(rng: &mut Rng, flat: &Flat, odds: (u64, u64)) -> String {
        let prefer_dropped = odds.0 > 0 && rng.chance(odds.0, odds.1);
        if prefer_dropped {
            let free: Vec<&String> = flat.dropped.iter().filter(|n| flat.col(n).is_none()).collect();
            if !free.is_empty() {
                return (*rng.pick(&free)).clone();
            }
        }
        let free: Vec<&str> = NAMES.iter().copied().filter(|n| flat.col(n).is_none()).collect();
        if free.is_empty() {
            format!("n{}", rng.below(1000))
        } else {
            rng.pick(&free).to_string()
        }
    }
    fn some_col(rng: &mut Rng, flat: &Flat) -> String {
        flat.cols[rng.usize(flat.cols.len())].0.name.clone()
    }
    fn gen_bs(rng: &mut Rng) -> Option<u32> {
        match rng.below(5) {
            0 => Some(1),
            1 => Some(2),
            2 => Some(3),
            _ => None,
        }
    }
    fn gen_expr(rng: &mut Rng, flat: &Flat) -> Expr {
        match rng.below(10) {
            0..=3 => Expr::Col(Self::some_col(rng, flat)),
            4..=8 => Expr::Plus(Self::some_col(rng, flat), rng.below(4) as i64),
            _ => Expr::Null(if rng.chance(1, 2) { Ty::I32 } else { Ty::I64 }),
        }
    }
    fn gen_merge(rng: &mut Rng, flat: &Flat) -> Op {
        // prefer a key column without NULLs (a NULL key matches nothing and lance refuses to write the NULL)
        let full: Vec<&(ColDef, Vec<Cell>)> = flat.cols.iter().filter(|c| c.1.iter().all(|x| x.is_some())).collect();
        let c = if !full.is_empty() && rng.chance(9, 10) { rng.pick(&full).0.name.clone() } else { Self::some_col(rng, flat) };
        let partial = rng.chance(1, 6);
        let k = 1 + rng.usize(2);
        let mut cs = vec![];
        let mut f2 = flat.clone();
        for _ in 0..k {
            let n = Self::fresh_name(rng, &f2, (2, 3));
            let d = ColDef { name: n, ty: if rng.chance(1, 2) { Ty::I32 } else { Ty::I64 }, nullable: true };
            f2.cols.push((d.clone(), vec![]));
            cs.push(d);
        }
        // right keys: most of the left keys, a few that match nothing
        let mut keys: BTreeSet<i64> = flat.col(&c).unwrap().1.iter().flatten().copied().filter(|_| !partial || rng.chance(3, 4)).collect();
        for _ in 0..rng.usize(3) {
            keys.insert(20 + rng.below(5) as i64);
        }
        let rows: Vec<Row> = keys
            .into_iter()
            .map(|k| {
                let mut r = vec![Some(k)];
                r.extend(cs.iter().map(|_| gen_cell(rng, partial)));
                r
            })
            .collect();
        Op::Merge(c, cs, rows)
    }
    fn gen_valid(rng: &mut Rng, flat: &Flat) -> Op {
        loop {
            let op = match rng.below(112) {
                100..=111 => Self::gen_merge(rng, flat),
                0..=11 => {
                    let n = 1 + rng.usize(4);
                    Op::Append(gen_rows(rng, &flat.defs(), n))
                }
                12..=21 => {
                    let c = Self::some_col(rng, flat);
                    let cmp = *rng.pick(&[Cmp::Lt, Cmp::Eq, Cmp::Ge, Cmp::Eq]);
                    let k = match cmp {
                        Cmp::Lt => rng.below(5) as i64 - 2,
                        Cmp::Eq => rng.below(12) as i64 - 2,
                        Cmp::Ge => 5 + rng.below(6) as i64,
                    };
                    Op::Delete(c, cmp, k)
                }
                22..=29 => Op::Compact,
                30..=47 => {
                    let k = 1 + rng.usize(2);
                    let mut es = vec![];
                    let mut f2 = flat.clone();
                    for _ in 0..k {
                        let n = Self::fresh_name(rng, &f2, (2, 3));
                        f2.cols.push((ColDef { name: n.clone(), ty: Ty::I64, nullable: true }, vec![]));
                        es.push((n, Self::gen_expr(rng, flat)));
                    }
                    Op::AddSql(Self::gen_bs(rng), es)
                }
                48..=55 => {
                    let n = Self::fresh_name(rng, flat, (2, 3));
                    Op::AddNulls(vec![ColDef { name: n, ty: if rng.chance(1, 2) { Ty::I32 } else { Ty::I64 }, nullable: true }])
                }
                56..=63 => {
                    let k = 1 + rng.usize(2);
                    let mut cs = vec![];
                    let mut f2 = flat.clone();
                    for _ in 0..k {
                        let n = Self::fresh_name(rng, &f2, (2, 3));
                        let c = ColDef { name: n, ty: if rng.chance(1, 2) { Ty::I32 } else { Ty::I64 }, nullable: rng.chance(4, 5) };
                        f2.cols.push((c.clone(), vec![]));
                        cs.push(c);
                    }
                    let rows = gen_rows(rng, &cs, flat.n);
                    Op::AddReader(Self::gen_bs(rng), cs, cut(rng, rows))
                }
                64..=83 => {
                    let k = 1 + rng.usize(2).min(flat.cols.len() - 1);
                    let mut alts: Vec<Alt> = vec![];
                    let mut f2 = flat.clone();
                    for _ in 0..k {
                        let col = Self::some_col(rng, flat);
                        if alts.iter().any(|a| a.col == col) {
                            continue;
                        }
                        let def = flat.col(&col).unwrap().0.clone();
                        let mut a = Alt { col: col.clone(), rename: None, nullable: None, cast: None };
                        match rng.below(10) {
                            0..=3 => {
                                let n = Self::fresh_name(rng, &f2, (1, 2));
                                f2.cols.push((ColDef { name: n.clone(), ty: Ty::I64, nullable: true }, vec![]));
                                a.rename = Some(n);
                            }
                            4..=7 => a.cast = Some(if def.ty == Ty::I32 || rng.chance(1, 5) { Ty::I64 } else { Ty::I32 }),
                            8 => a.nullable = Some(true),
                            _ => {
                                let n = Self::fresh_name(rng, &f2, (0, 1));
                                f2.cols.push((ColDef { name: n.clone(), ty: Ty::I64, nullable: true }, vec![]));
                                a.rename = Some(n);
                                a.cast = Some(if def.ty == Ty::I32 { Ty::I64 } else { Ty::I32 });
                                if !def.nullable {
                                    a.nullable = Some(true);
                                }
                            }
                        }
                        alts.push(a);
                    }
                    // sometimes a swap of two names in one call
                    if flat.cols.len() >= 2 && rng.chance(1, 12) {
                        let x = flat.cols[0].0.name.clone();
                        let y = flat.cols[1].0.name.clone();
                        alts = vec![
                            Alt { col: x.clone(), rename: Some(y.clone()), nullable: None, cast: None },
                            Alt { col: y, rename: Some(x), nullable: None, cast: None },
                        ];
                    }
                    Op::Alter(alts)
                }
                _ => {
                    if flat.cols.len() < 2 {
                        continue;
                    }
                    let mut cs = vec![if rng.chance(1, 2) { flat.cols.last().unwrap().0.name.clone() } else { Self::some_col(rng, flat) }];
                    if flat.cols.len() > 2 && rng.chance(1, 4) {
                        let c = Self::some_col(rng, flat);
                        if !cs.contains(&c) {
                            cs.push(c);
                        }
                    }
                    Op::Drop(cs)
                }
            };
            if flat.apply(&op).is_some() {
                return op;
            }
        }
    }
    fn gen_malformed(rng: &mut Rng, flat: &Flat) -> String {
        let c = Self::some_col(rng, flat);
        match rng.below(12) {
            0 => format!("add_sql d {c}={c}+1"),
            1 => format!("add_nulls {c}:l"),
            2 => "drop nosuch".into(),
            3 => format!("drop {}", flat.cols.iter().map(|c| c.0.name.clone()).collect::<Vec<_>>().join(",")),
            4 => "alter nosuch/r=q".into(),
            5 => {
                if flat.cols.len() >= 2 {
                    format!("alter {}/r={}", flat.cols[0].0.name, flat.cols[1].0.name)
                } else {
                    "alter".into()
                }
            }
            6 => format!("alter {c}/n=0"),
            7 => "add_nulls q1:L".into(),
            8 => {
                // reader with one row too few / too many
                let n = if rng.chance(1, 2) { flat.n + 1 } else { flat.n.saturating_sub(1) };
                let cs = vec![ColDef { name: "q2".into(), ty: Ty::I64, nullable: true }];
                let rows = gen_rows(rng, &cs, n);
                show_op(&Op::AddReader(None, cs, cut(rng, rows)))
            }
            9 => {
                if rng.chance(1, 2) {
                    "add_sql d q3=nosuch+1".into()
                } else {
                    let opts = [
                        "merge nosuch q4:l 1,2".to_string(),
                        format!("merge {c} {c}:l 1,2"),
                        format!("merge {c} q4:L 1,2"),
                        format!("merge {c} q4:l 1,2;1,3"),
                        format!("merge {c} q4:l n,2"),
                        format!("merge {c} {}:l 1,2", flat.cols[0].0.name),
                    ];
                    rng.pick(&opts).clone()
                }
            }
            10 => "append 1,2,3,4,5,6,7,8,9,10,11,12".into(),
            _ => "frobnicate 1".into(),
        }
    }
}

impl Prop for C14 {
    fn id(&self) -> &'static str {
        "C14"
    }
    fn budget(&self, tier: Tier) -> usize {
        match tier {
            Tier::Quick => 1200,
            Tier::Thorough => 20000,
            Tier::Search => 4000,
        }
    }
    fn gen_case(&mut self, rng: &mut Rng, _tier: Tier, _idx: usize) -> Vec<String> {
        let k = 1 + rng.usize(3);
        let defs: Vec<ColDef> = (0..k)
            .map(|i| ColDef {
                name: NAMES[i].to_string(),
                ty: if rng.chance(1, 2) { Ty::I32 } else { Ty::I64 },
                nullable: rng.chance(4, 5),
            })
            .collect();
        let n0 = rng.usize(5);
        let rows = gen_rows(rng, &defs, n0);
        let mut lines = vec![show_op(&Op::Create(defs.clone(), rows.clone()))];
        let mut flat = Flat { cols: defs.iter().enumerate().map(|(i, d)| (d.clone(), rows.iter().map(|r| r[i]).collect())).collect(), n: rows.len(), dropped: BTreeSet::new() };
        // a few appends early so that most histories have several fragments
        let len = 2 + rng.usize(7);
        let mut after_drop = 0u8;
        for i in 0..len {
            if rng.chance(1, 9) {
                lines.push(Self::gen_malformed(rng, &flat));
                continue;
            }
            let op = if i < 2 && rng.chance(1, 2) {
                let n = 1 + rng.usize(4);
                Op::Append(gen_rows(rng, &flat.defs(), n))
            } else if after_drop == 1 && rng.chance(1, 2) {
                Self::gen_merge(rng, &flat)
            } else if after_drop == 2 && rng.chance(2, 3) {
                Self::gen_merge(rng, &flat)
            } else {
                Self::gen_valid(rng, &flat)
            };
            after_drop = match &op {
                Op::Drop(..) => 1,
                Op::AddSql(..) | Op::AddNulls(..) | Op::AddReader(..) if after_drop == 1 => 2,
                _ => 0,
            };
            if let Some(f) = flat.apply(&op) {
                flat = f;
            }
            lines.push(show_op(&op));
        }
        lines
    }

    fn exec_case(&mut self, lines: &[String]) -> CaseResult {
        self.kit.reset_session();
        let uri = self.kit.fresh_uri();
        let kit = &self.kit;
        let mut res = CaseResult::default();
        let mut ds: Option<Dataset> = None;
        let mut flat: Option<Flat> = None;
        let mut prev: Option<Obs> = None;
        let mut evolved = 0usize;
        let mut dead = false;
        let debug = std::env::var("C14_DEBUG").is_ok();
        for (ln, line) in lines.iter().enumerate() {
            if dead {
                res.outputs.push("skip".into());
                continue;
            }
            let Some(op) = parse_op(line) else {
                res.outputs.push("err parse".into());
                res.tags.push("err:parse".into());
                continue;
            };
            res.tags.push(format!("op:{}", op_kind(&op)));
            match (&op, ds.is_some()) {
                (Op::Create(..), true) => {
                    res.outputs.push("err exists".into());
                    continue;
                }
                (Op::Create(defs, rows), false) => {
                    if !Flat::rows_fit(defs, rows) || defs.iter().map(|d| &d.name).collect::<BTreeSet<_>>().len() != defs.len() {
                        res.outputs.push("err parse".into());
                        continue;
                    }
                }
                (_, false) => {
                    res.outputs.push("err no_table".into());
                    continue;
                }
                _ => {}
            }
            // rows that do not fit the current schema never reach lance (RecordBatch::try_new would refuse them)
            if let (Op::Append(rows), Some(p)) = (&op, &prev) {
                let fits = rows.iter().all(|r| {
                    r.len() == p.schema.len() && r.iter().zip(&p.schema).all(|(c, s)| s.1.is_ascii_lowercase() || c.is_some())
                });
                if !fits {
                    res.outputs.push("err parse".into());
                    res.tags.push("err:parse".into());
                    continue;
                }
            }
            if let Op::AddReader(_, cs, b) = &op {
                if !b.iter().all(|rows| Flat::rows_fit(cs, rows)) {
                    res.outputs.push("err parse".into());
                    res.tags.push("err:parse".into());
                    continue;
                }
            }
            let r = std::panic::catch_unwind(std::panic::AssertUnwindSafe(|| run_real(kit, &uri, &mut ds, &op)));
            let r = match r {
                Ok(r) => r,
                Err(e) => {
                    let msg = e
                        .downcast_ref::<String>()
                        .cloned()
                        .or_else(|| e.downcast_ref::<&str>().map(|s| s.to_string()))
                        .unwrap_or_else(|| "panic".into());
                    res.failures.push(OracleFailure { what: format!("{} panicked: {msg}", op_kind(&op)), key: Some(format!("{}_panic", op_kind(&op))), line: ln });
                    res.outputs.push("err panic".into());
                    continue;
                }
            };
            let expected = match (&op, &flat) {
                (Op::Create(defs, rows), _) => Some(Flat {
                    cols: defs.iter().enumerate().map(|(i, d)| (d.clone(), rows.iter().map(|r| r[i]).collect())).collect(),
                    n: rows.len(),
                    dropped: BTreeSet::new(),
                }),
                (_, Some(f)) => f.apply(&op),
                _ => None,
            };
            match r {
                Err(e) => {
                    if debug {
                        eprintln!("line {ln}: {:?}: {}", e.kind, e.msg);
                    }
                    if e.msg.starts_with("timeout:") {
                        res.failures.push(OracleFailure { what: e.msg.clone(), key: Some("op_timeout".into()), line: ln });
                    }
                    res.outputs.push(format!("err {}", e.kind.as_str()));
                    res.tags.push(format!("err:{}:{}", op_kind(&op), e.kind.as_str()));
                    if e.msg.contains("Lance does not yet support nulls for type") && expected.is_none() {
                        res.tags.push("refused:merge_null_fill".into());
                    }
                    if e.msg.contains("Missing too many rows in merge") {
                        // documented limitation of the Updater (the first read batch of a fragment holds only deleted rows)
                        res.tags.push("refused:missing_too_many_rows".into());
                    } else if expected.is_some() {
                        res.failures.push(OracleFailure {
                            what: format!("a valid {} was refused: {}", op_kind(&op), e.msg),
                            key: Some(format!("valid_{}_refused", op_kind(&op))),
                            line: ln,
                        });
                    }
                    // a failed op leaves the table as it was
                    if let (Some(d), Some(p)) = (&ds, &prev) {
                        match observe(kit, d) {
                            Ok(o) if &o == p => {}
                            other => res.failures.push(OracleFailure {
                                what: format!("after a failed {} the table changed: {:?}", op_kind(&op), other.map(|o| o.show()).map_err(|e| e.msg)),
                                key: Some("failed_op_changed_table".into()),
                                line: ln,
                            }),
                        }
                    }
                }
                Ok(()) => {
                    let d = ds.as_ref().unwrap();
                    let obs = match observe(kit, d) {
                        Ok(o) => o,
                        Err(e) => {
                            let key = if e.msg.contains("does not contain any data") { "fragment_without_data_files" } else { "unreadable_after_op" };
                            res.failures.push(OracleFailure { what: format!("cannot read the table after {}: {}", op_kind(&op), e.msg), key: Some(key.into()), line: ln });
                            res.tags.push(format!("unreadable:{}", op_kind(&op)));
                            res.outputs.push("err unreadable".to_string());
                            // the table is lost for every later op of the case (both sides print `skip`)
                            dead = true;
                            continue;
                        }
                    };
                    res.outputs.push(obs.show());
                    let mut fail = |what: String, key: &str| res.failures.push(OracleFailure { what, key: Some(key.into()), line: ln });
                    // ---- field ids
                    let ids: Vec<i32> = obs.schema.iter().map(|s| s.2).collect();
                    if ids.iter().collect::<BTreeSet<_>>().len() != ids.len() || ids.iter().any(|i| *i < 0) {
                        fail(format!("schema field ids {ids:?} are not unique / assigned"), "field_ids_not_unique");
                    }
                    for f in &obs.frags {
                        let live: Vec<i32> = f.3.iter().flatten().copied().filter(|i| *i >= 0).collect();
                        if live.iter().collect::<BTreeSet<_>>().len() != live.len() {
                            fail(format!("fragment {} stores a field id twice: {:?}", f.0, f.3), "field_ids_not_unique");
                        }
                        if f.3.iter().any(|file| !file.iter().any(|i| ids.contains(i))) {
                            fail(format!("fragment {} keeps a data file without any live field: {:?} (schema ids {ids:?})", f.0, f.3), "dead_file_kept");
                        }
                    }
                    if ids.iter().chain(obs.file_ids().iter()).any(|i| *i > obs.max_field_id) {
                        fail(format!("max_field_id {} below an id in use", obs.max_field_id), "field_ids_not_unique");
                    }
                    if let Some(p) = &prev {
                        let old_ids: BTreeSet<i32> = p.schema.iter().map(|s| s.2).collect();
                        let stored = p.file_ids();
                        for (n, _, id) in &obs.schema {
                            if !old_ids.contains(id) && stored.contains(id) {
                                fail(format!("new field {n} got id {id}, which data files of the previous version store"), "new_field_id_not_fresh");
                            }
                        }
                    }
                    // ---- Dataset::validate, and the new fields of merge / reader are stored by every fragment
                    if let Err(e) = kit.lance_call("validate", d.validate()) {
                        fail(format!("Dataset::validate fails after {}: {}", op_kind(&op), e.msg), "validate_failed");
                    }
                    if let (Some(p), true) = (&prev, matches!(op, Op::Merge(..) | Op::AddReader(..))) {
                        let old_ids: BTreeSet<i32> = p.schema.iter().map(|s| s.2).collect();
                        for (n, _, id) in &obs.schema {
                            if !old_ids.contains(id) {
                                for f in &obs.frags {
                                    if !f.3.iter().flatten().any(|i| i == id) {
                                        fail(format!("new field {n} has id {id}, fragment {} stores {:?}", f.0, f.3), "new_field_id_not_in_files");
                                    }
                                }
                            }
                        }
                        if matches!(op, Op::Merge(..)) && !p.schema.is_empty() && p.frags.iter().any(|f| f.3.iter().flatten().any(|i| *i > *old_ids.iter().max().unwrap())) {
                            res.tags.push("merge_after_drop_of_highest_id".into());
                        }
                    }
                    // ---- frame
                    if let (Some(p), true) = (&prev, matches!(op, Op::AddSql(..) | Op::AddNulls(..) | Op::AddReader(..) | Op::Alter(..) | Op::Drop(..) | Op::Merge(..))) {
                        evolved += 1;
                        if p.rows.len() != obs.rows.len() {
                            fail(format!("{} changed the number of rows {} -> {}", op_kind(&op), p.rows.len(), obs.rows.len()), "row_count_changed");
                        } else {
                            let mut renamed: BTreeMap<String, String> = BTreeMap::new();
                            let mut named: BTreeSet<String> = BTreeSet::new();
                            match &op {
                                Op::Alter(alts) => {
                                    for a in alts {
                                        named.insert(a.col.clone());
                                        renamed.insert(a.col.clone(), a.rename.clone().unwrap_or(a.col.clone()));
                                    }
                                }
                                Op::Drop(cs) => named.extend(cs.iter().cloned()),
                                _ => {}
                            }
                            for (n, _, _) in &p.schema {
                                let before = p.column(n).unwrap();
                                if !named.contains(n) {
                                    match obs.column(n) {
                                        Some(after) if after == before => {}
                                        other => fail(format!("column {n} not named by {} changed: {:?} -> {:?}", op_kind(&op), before, other), "untouched_column_changed"),
                                    }
                                } else if let Some(nn) = renamed.get(n) {
                                    match obs.column(nn) {
                                        Some(after) if after == before => {}
                                        other => fail(format!("altered column {n} -> {nn} changed its values: {:?} -> {:?}", before, other), "altered_column_changed"),
                                    }
                                }
                            }
                        }
                    }
                    // ---- replay
                    match &expected {
                        None => fail(format!("{} was accepted although the replay refuses it", op_kind(&op)), &format!("invalid_{}_accepted", op_kind(&op))),
                        Some(f) => {
                            let want_schema: Vec<(String, char)> = f.cols.iter().map(|c| (c.0.name.clone(), c.0.letter())).collect();
                            let got_schema: Vec<(String, char)> = obs.schema.iter().map(|s| (s.0.clone(), s.1)).collect();
                            if want_schema != got_schema {
                                fail(format!("schema {got_schema:?}, replay says {want_schema:?}"), "schema_differs_from_replay");
                            } else if f.rows() != obs.rows {
                                // which column? a new one / a re-added one / an old one
                                let mut key = "scan_differs_from_replay";
                                for (i, c) in f.cols.iter().enumerate() {
                                    let got: Vec<Cell> = obs.rows.iter().map(|r| r[i]).collect();
                                    if obs.rows.len() == f.n && got != c.1 {
                                        let is_new = prev.as_ref().map(|p| p.column(&c.0.name).is_none()).unwrap_or(false);
                                        if is_new {
                                            key = if flat.as_ref().map(|f| f.dropped.contains(&c.0.name)).unwrap_or(false) { "readd_column_wrong_values" } else { "added_column_wrong_values" };
                                        }
                                    }
                                }
                                fail(format!("scan {} differs from the replay {}", show_rows(&obs.rows), show_rows(&f.rows())), key);
                            }
                        }
                    }
                    // ---- tags
                    if obs.frags.iter().any(|f| f.3.len() > 1) {
                        res.tags.push("state:multi_file_fragment".into());
                    }
                    if obs.frags.iter().any(|f| obs.schema.iter().any(|s| !f.3.iter().flatten().any(|i| *i == s.2))) {
                        res.tags.push("state:column_without_file".into());
                    }
                    if obs.frags.iter().any(|f| f.3.iter().flatten().any(|i| !ids.contains(i))) {
                        res.tags.push("state:dropped_id_still_stored".into());
                    }
                    if obs.frags.iter().any(|f| f.2 > 0) && matches!(op, Op::AddSql(..) | Op::AddReader(..) | Op::Alter(..) | Op::Merge(..)) {
                        res.tags.push("evolve_with_deletions".into());
                    }
                    if let (Some(fl), Some(p)) = (&flat, &prev) {
                        if obs.schema.iter().any(|s| p.column(&s.0).is_none() && fl.dropped.contains(&s.0)) {
                            res.tags.push("readd_dropped_name".into());
                        }
                    }
                    if let Op::Alter(alts) = &op {
                        if alts.iter().any(|a| a.cast.is_some()) {
                            res.tags.push("alter:cast".into());
                        }
                        if alts.iter().any(|a| a.rename.is_some()) {
                            res.tags.push("alter:rename".into());
                        }
                        if alts.iter().any(|a| a.nullable.is_some()) {
                            res.tags.push("alter:nullable".into());
                        }
                    }
                    if let Some(f) = expected {
                        flat = Some(f);
                    }
                    prev = Some(obs);
                }
            }
        }
        // a fresh handle sees the same table
        if let (Some(_), Some(p), false) = (&ds, &prev, dead) {
            match kit.open(&uri, None).and_then(|fresh| observe(kit, &fresh)) {
                Ok(o) if &o == p => {}
                other => res.failures.push(OracleFailure {
                    what: format!("a fresh handle reads {:?}, the writing handle read {}", other.map(|o| o.show()).map_err(|e| e.msg), p.show()),
                    key: Some("reopen_differs".into()),
                    line: lines.len() - 1,
                }),
            }
        }
        res.nontrivial = evolved >= 1;
        res
    }

    fn rule(&self) -> String {
        "create (1-3 Int32/Int64 columns, 1 in 5 NOT NULL, 0-4 rows) then 2-8 ops: append 12% / delete by predicate 10% / compact_files 8% / \
         add_columns SqlExpressions 18% (col, col+k, CAST(NULL..), 1-2 columns, batch size 1/2/3/default) / AllNulls 8% / Reader 8% (1-3 batches) / \
         alter_columns 20% (rename, cast Int32<->Int64, nullability, 1-2 alterations, name swaps) / drop_columns 16% (half of them the last column) / Dataset::merge 11% and after half of the drops (right batch keyed on an existing column: all left keys + keys that match nothing, 1 in 6 partial = refused, 1-2 new columns); new names prefer \
         previously dropped names; 1 line in 9 is malformed or invalid (existing name, missing column, drop all, duplicate rename, \
         non-null AllNulls, short/long reader, unknown op). Non-trivial = at least one successful add/alter/drop compared before/after."
            .into()
    }
}

fn main() {
    run_main(C14 { kit: Kit::new() })
}
