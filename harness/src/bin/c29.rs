//! C29 — statistics-based pruning is conservative.
//!
//! One case = one legacy (v0.1) dataset with an `id` column and two value columns `v`, `w`, written through the REAL
//! `Dataset::write` (the legacy `FileWriter` collects the page statistics with `collect_statistics`), followed by
//! queries.  Interpreter:
//!
//! ```text
//! data <vt> <vn> <wt> <wn> <g> <splits> <cell>:<cell> ...     types i32|i64|f32|f64|utf8|bin ; vn/wn = nullable 0|1 ;
//!                                                              g = max_rows_per_group ; splits = input batch sizes
//!   -> pages=<k> <rows>:<nc>,<min>,<max>/<nc>,<min>,<max>|...  the page statistics READ BACK from the file
//! q <pred>                                                      prefix form, see `parse_pred`
//!   -> dec=<F|T|O per page> on=<ids> off=<ids>                  per-page decision of the pushdown scan (hook), the ids
//!                                                              returned with use_stats(true) and with use_stats(false)
//! ```
//! cell ::= n | <int> | x<hex>.  Floats travel as their total-order key (`fkey32` / `fkey64`): +0.0 = 0, -0.0 = -1,
//! +inf = P, -inf = -P-1, NaN outside [-P-1, P]; no float is ever printed.
//!
//! Oracles (independent of the Lean model): (1) `on == off` — pruning never changes a query result; (2) for every
//! page and every non-null, non-NaN stored value: `min <= v <= max` under the order the scan compares with (total
//! order of floats, byte-wise order of strings), and `null_count` is the number of NULLs.

use std::sync::Arc;

use arrow_array::{
    Array, ArrayRef, BinaryArray, Float32Array, Float64Array, Int32Array, Int64Array, RecordBatch, RecordBatchIterator,
    StringArray, StructArray,
};
use arrow_schema::{DataType, Field, Schema as ArrowSchema};
use datafusion::physical_plan::ExecutionPlan;
use datafusion::prelude::{col, lit, Expr};
use datafusion::scalar::ScalarValue;
use futures::TryStreamExt;
use hcommon::*;
use lance::dataset::{Dataset, WriteParams};
use lance::io::exec::LancePushdownScanExec;
use lance_file::version::LanceFileVersion;

const PREFIX: usize = 64; // BINARY_PREFIX_LENGTH of the legacy statistics collector

// ------------------------------------------------------------------------------------------------
// values
// ------------------------------------------------------------------------------------------------

#[derive(Clone, Copy, Debug, PartialEq, Eq)]
enum Ty {
    I32,
    I64,
    F32,
    F64,
    Utf8,
    Bin,
}

impl Ty {
    fn parse(s: &str) -> Option<Self> {
        Some(match s {
            "i32" => Self::I32,
            "i64" => Self::I64,
            "f32" => Self::F32,
            "f64" => Self::F64,
            "utf8" => Self::Utf8,
            "bin" => Self::Bin,
            _ => return None,
        })
    }
    fn show(&self) -> &'static str {
        match self {
            Self::I32 => "i32",
            Self::I64 => "i64",
            Self::F32 => "f32",
            Self::F64 => "f64",
            Self::Utf8 => "utf8",
            Self::Bin => "bin",
        }
    }
    fn arrow(&self) -> DataType {
        match self {
            Self::I32 => DataType::Int32,
            Self::I64 => DataType::Int64,
            Self::F32 => DataType::Float32,
            Self::F64 => DataType::Float64,
            Self::Utf8 => DataType::Utf8,
            Self::Bin => DataType::Binary,
        }
    }
    fn is_bytes(&self) -> bool {
        matches!(self, Self::Utf8 | Self::Bin)
    }
    fn is_float(&self) -> bool {
        matches!(self, Self::F32 | Self::F64)
    }
    /// key of +inf
    fn pinf(&self) -> i128 {
        match self {
            Self::F32 => 0x7F80_0000,
            Self::F64 => 0x7FF0_0000_0000_0000,
            _ => 0,
        }
    }
}

/// a non-null value: an integer key (ints: the value; floats: the total-order key) or a byte string
#[derive(Clone, Debug, PartialEq, Eq, PartialOrd, Ord)]
enum Val {
    Int(i128),
    Bytes(Vec<u8>),
}
type Cell = Option<Val>;

fn fkey32(x: f32) -> i128 {
    let i = x.to_bits() as i32;
    (i ^ ((((i >> 31) as u32) >> 1) as i32)) as i128
}
fn unkey32(k: i128) -> f32 {
    let k = k as i32;
    f32::from_bits((k ^ ((((k >> 31) as u32) >> 1) as i32)) as u32)
}
fn fkey64(x: f64) -> i128 {
    let i = x.to_bits() as i64;
    (i ^ ((((i >> 63) as u64) >> 1) as i64)) as i128
}
fn unkey64(k: i128) -> f64 {
    let k = k as i64;
    f64::from_bits((k ^ ((((k >> 63) as u64) >> 1) as i64)) as u64)
}

fn hex(b: &[u8]) -> String {
    let mut s = String::with_capacity(1 + 2 * b.len());
    s.push('x');
    for x in b {
        s.push_str(&format!("{x:02x}"));
    }
    s
}
fn unhex(s: &str) -> Option<Vec<u8>> {
    let s = s.strip_prefix('x')?;
    if s.len() % 2 != 0 {
        return None;
    }
    (0..s.len() / 2).map(|i| u8::from_str_radix(s.get(2 * i..2 * i + 2)?, 16).ok()).collect()
}

fn show_cell(c: &Cell) -> String {
    match c {
        None => "n".into(),
        Some(Val::Int(k)) => k.to_string(),
        Some(Val::Bytes(b)) => hex(b),
    }
}

fn in_range(ty: Ty, k: i128) -> bool {
    match ty {
        Ty::I32 | Ty::F32 => k >= i32::MIN as i128 && k <= i32::MAX as i128,
        Ty::I64 | Ty::F64 => k >= i64::MIN as i128 && k <= i64::MAX as i128,
        _ => false,
    }
}

/// parse a non-null literal of type `ty`
fn parse_val(ty: Ty, s: &str) -> Option<Val> {
    if ty.is_bytes() {
        let b = unhex(s)?;
        if ty == Ty::Utf8 && std::str::from_utf8(&b).is_err() {
            return None;
        }
        Some(Val::Bytes(b))
    } else {
        if s.starts_with('+') {
            return None;
        }
        let k: i128 = s.parse().ok()?;
        if !in_range(ty, k) {
            return None;
        }
        Some(Val::Int(k))
    }
}
fn parse_cell(ty: Ty, s: &str) -> Option<Cell> {
    if s == "n" {
        Some(None)
    } else {
        parse_val(ty, s).map(Some)
    }
}

fn scalar(ty: Ty, v: &Val) -> ScalarValue {
    match (ty, v) {
        (Ty::I32, Val::Int(k)) => ScalarValue::Int32(Some(*k as i32)),
        (Ty::I64, Val::Int(k)) => ScalarValue::Int64(Some(*k as i64)),
        (Ty::F32, Val::Int(k)) => ScalarValue::Float32(Some(unkey32(*k))),
        (Ty::F64, Val::Int(k)) => ScalarValue::Float64(Some(unkey64(*k))),
        (Ty::Utf8, Val::Bytes(b)) => ScalarValue::Utf8(Some(String::from_utf8(b.clone()).unwrap())),
        (Ty::Bin, Val::Bytes(b)) => ScalarValue::Binary(Some(b.clone())),
        _ => unreachable!(),
    }
}

fn build_array(ty: Ty, cells: &[Cell]) -> ArrayRef {
    let int = |c: &Cell| match c {
        Some(Val::Int(k)) => Some(*k),
        _ => None,
    };
    match ty {
        Ty::I32 => Arc::new(Int32Array::from_iter(cells.iter().map(|c| int(c).map(|k| k as i32)))),
        Ty::I64 => Arc::new(Int64Array::from_iter(cells.iter().map(|c| int(c).map(|k| k as i64)))),
        Ty::F32 => Arc::new(Float32Array::from_iter(cells.iter().map(|c| int(c).map(unkey32)))),
        Ty::F64 => Arc::new(Float64Array::from_iter(cells.iter().map(|c| int(c).map(unkey64)))),
        Ty::Utf8 => Arc::new(StringArray::from_iter(cells.iter().map(|c| match c {
            Some(Val::Bytes(b)) => Some(String::from_utf8(b.clone()).unwrap()),
            _ => None,
        }))),
        Ty::Bin => Arc::new(BinaryArray::from_iter(cells.iter().map(|c| match c {
            Some(Val::Bytes(b)) => Some(b.clone()),
            _ => None,
        }))),
    }
}

/// value `i` of a (statistics) array as a cell
fn array_cell(ty: Ty, a: &ArrayRef, i: usize) -> Cell {
    if a.is_null(i) {
        return None;
    }
    let any = a.as_any();
    Some(match ty {
        Ty::I32 => Val::Int(any.downcast_ref::<Int32Array>().unwrap().value(i) as i128),
        Ty::I64 => Val::Int(any.downcast_ref::<Int64Array>().unwrap().value(i) as i128),
        Ty::F32 => Val::Int(fkey32(any.downcast_ref::<Float32Array>().unwrap().value(i))),
        Ty::F64 => Val::Int(fkey64(any.downcast_ref::<Float64Array>().unwrap().value(i))),
        Ty::Utf8 => Val::Bytes(any.downcast_ref::<StringArray>().unwrap().value(i).as_bytes().to_vec()),
        Ty::Bin => Val::Bytes(any.downcast_ref::<BinaryArray>().unwrap().value(i).to_vec()),
    })
}

fn is_nan(ty: Ty, v: &Val) -> bool {
    match v {
        Val::Int(k) if ty.is_float() => *k > ty.pinf() || *k < -ty.pinf() - 1,
        _ => false,
    }
}

/// length of the utf8 truncation of `b` to at most PREFIX bytes (largest char boundary <= PREFIX)
fn utf8_trunc_len(b: &[u8]) -> usize {
    let mut i = PREFIX.min(b.len());
    while i > 0 && i < b.len() && (b[i] & 0xC0) == 0x80 {
        i -= 1;
    }
    i
}

// ------------------------------------------------------------------------------------------------
// predicates
// ------------------------------------------------------------------------------------------------

#[derive(Clone, Debug)]
enum Pred {
    Cmp(usize, &'static str, Val),
    IsNull(usize),
    NotNull(usize),
    In(usize, bool, Vec<Val>),
    And(Box<Pred>, Box<Pred>),
    Or(Box<Pred>, Box<Pred>),
    Not(Box<Pred>),
}

const OPS: [&str; 6] = ["eq", "ne", "lt", "le", "gt", "ge"];

fn parse_col(s: &str) -> Option<usize> {
    match s {
        "v" => Some(0),
        "w" => Some(1),
        _ => None,
    }
}
fn col_name(c: usize) -> &'static str {
    ["v", "w"][c]
}

fn parse_pred<'a>(tys: &[Ty; 2], toks: &'a [&'a str], depth: usize) -> Option<(Pred, &'a [&'a str])> {
    if depth > 40 {
        return None;
    }
    let (h, rest) = toks.split_first()?;
    match *h {
        "c" => {
            let c = parse_col(rest.first()?)?;
            let opname = *rest.get(1)?;
            let op = OPS.iter().find(|o| **o == opname)?;
            let v = parse_val(tys[c], rest.get(2)?)?;
            Some((Pred::Cmp(c, op, v), &rest[3..]))
        }
        "nul" => Some((Pred::IsNull(parse_col(rest.first()?)?), &rest[1..])),
        "nn" => Some((Pred::NotNull(parse_col(rest.first()?)?), &rest[1..])),
        "in" | "nin" => {
            let c = parse_col(rest.first()?)?;
            let k: usize = rest.get(1)?.parse().ok()?;
            if k == 0 || k > 16 || rest.len() < 2 + k {
                return None;
            }
            let items: Option<Vec<Val>> = rest[2..2 + k].iter().map(|s| parse_val(tys[c], s)).collect();
            Some((Pred::In(c, *h == "nin", items?), &rest[2 + k..]))
        }
        "and" | "or" => {
            let (a, r1) = parse_pred(tys, rest, depth + 1)?;
            let (b, r2) = parse_pred(tys, r1, depth + 1)?;
            Some((if *h == "and" { Pred::And(Box::new(a), Box::new(b)) } else { Pred::Or(Box::new(a), Box::new(b)) }, r2))
        }
        "not" => {
            let (a, r1) = parse_pred(tys, rest, depth + 1)?;
            Some((Pred::Not(Box::new(a)), r1))
        }
        _ => None,
    }
}

fn show_pred(p: &Pred, out: &mut Vec<String>) {
    match p {
        Pred::Cmp(c, op, v) => {
            out.push(format!("c {} {} {}", col_name(*c), op, show_cell(&Some(v.clone()))));
        }
        Pred::IsNull(c) => out.push(format!("nul {}", col_name(*c))),
        Pred::NotNull(c) => out.push(format!("nn {}", col_name(*c))),
        Pred::In(c, neg, items) => {
            let its: Vec<String> = items.iter().map(|v| show_cell(&Some(v.clone()))).collect();
            out.push(format!("{} {} {} {}", if *neg { "nin" } else { "in" }, col_name(*c), items.len(), its.join(" ")));
        }
        Pred::And(a, b) => {
            out.push("and".into());
            show_pred(a, out);
            show_pred(b, out);
        }
        Pred::Or(a, b) => {
            out.push("or".into());
            show_pred(a, out);
            show_pred(b, out);
        }
        Pred::Not(a) => {
            out.push("not".into());
            show_pred(a, out);
        }
    }
}

fn to_expr(tys: &[Ty; 2], p: &Pred) -> Expr {
    match p {
        Pred::Cmp(c, op, v) => {
            let l = col(col_name(*c));
            let r = lit(scalar(tys[*c], v));
            match *op {
                "eq" => l.eq(r),
                "ne" => l.not_eq(r),
                "lt" => l.lt(r),
                "le" => l.lt_eq(r),
                "gt" => l.gt(r),
                _ => l.gt_eq(r),
            }
        }
        Pred::IsNull(c) => col(col_name(*c)).is_null(),
        Pred::NotNull(c) => col(col_name(*c)).is_not_null(),
        Pred::In(c, neg, items) => {
            col(col_name(*c)).in_list(items.iter().map(|v| lit(scalar(tys[*c], v))).collect(), *neg)
        }
        Pred::And(a, b) => to_expr(tys, a).and(to_expr(tys, b)),
        Pred::Or(a, b) => to_expr(tys, a).or(to_expr(tys, b)),
        Pred::Not(a) => Expr::Not(Box::new(to_expr(tys, a))),
    }
}

fn pred_cols(p: &Pred, out: &mut [bool; 2]) {
    match p {
        Pred::Cmp(c, _, _) | Pred::IsNull(c) | Pred::NotNull(c) | Pred::In(c, _, _) => out[*c] = true,
        Pred::And(a, b) | Pred::Or(a, b) => {
            pred_cols(a, out);
            pred_cols(b, out);
        }
        Pred::Not(a) => pred_cols(a, out),
    }
}

// ------------------------------------------------------------------------------------------------
// the table of a case
// ------------------------------------------------------------------------------------------------

struct PageStat {
    rows: usize,
    cols: [(i64, Cell, Cell); 2], // null_count, min, max
}

struct Table {
    tys: [Ty; 2],
    g: usize,
    rows: Vec<[Cell; 2]>,
    ds: Dataset,
    stats: Vec<PageStat>,
}

struct C29 {
    rt: tokio::runtime::Runtime,
    n_uri: u64,
}

fn find_pushdown(plan: &Arc<dyn ExecutionPlan>) -> Option<LancePushdownScanExec> {
    if let Some(p) = plan.as_any().downcast_ref::<LancePushdownScanExec>() {
        return Some(p.clone());
    }
    for c in plan.children() {
        if let Some(p) = find_pushdown(c) {
            return Some(p);
        }
    }
    None
}

impl C29 {
    fn write(&mut self, tys: [Ty; 2], nullable: [bool; 2], g: usize, splits: &[u64], rows: &[[Cell; 2]]) -> Result<Table, String> {
        self.n_uri += 1;
        let uri = format!("memory://c29_{}", self.n_uri);
        let schema = Arc::new(ArrowSchema::new(vec![
            Field::new("id", DataType::Int32, false),
            Field::new("v", tys[0].arrow(), nullable[0]),
            Field::new("w", tys[1].arrow(), nullable[1]),
        ]));
        // chop the rows into the input batches named by `splits` (the writer re-chunks them into pages of g rows,
        // a page may therefore be made of several arrays)
        let mut batches = vec![];
        let mut start = 0usize;
        let mut cuts: Vec<usize> = splits.iter().map(|s| *s as usize).collect();
        cuts.push(usize::MAX);
        for s in cuts {
            if start >= rows.len() {
                break;
            }
            let end = rows.len().min(start.saturating_add(s.max(1)));
            let part = &rows[start..end];
            let ids: Vec<i32> = (start..end).map(|i| i as i32).collect();
            let vs: Vec<Cell> = part.iter().map(|r| r[0].clone()).collect();
            let ws: Vec<Cell> = part.iter().map(|r| r[1].clone()).collect();
            let b = RecordBatch::try_new(
                schema.clone(),
                vec![Arc::new(Int32Array::from(ids)), build_array(tys[0], &vs), build_array(tys[1], &ws)],
            )
            .map_err(|e| format!("batch: {e}"))?;
            batches.push(b);
            start = end;
        }
        let reader = RecordBatchIterator::new(batches.into_iter().map(Ok), schema.clone());
        let params = WriteParams {
            max_rows_per_group: g,
            data_storage_version: Some(LanceFileVersion::Legacy),
            ..Default::default()
        };
        let ds = self
            .rt
            .block_on(async { tokio::time::timeout(std::time::Duration::from_secs(30), Dataset::write(reader, &uri, Some(params))).await })
            .map_err(|_| "timeout".to_string())?
            .map_err(|e| format!("write: {e}"))?;

        // read the page statistics back through the public legacy reader
        let frags = ds.fragments().clone();
        if frags.len() != 1 || frags[0].files.len() != 1 {
            return Err(format!("expected one fragment with one file, got {}", frags.len()));
        }
        let path = ds.data_dir().child(frags[0].files[0].path.as_str());
        let schema_l = ds.schema().clone();
        let vid = schema_l.field("v").unwrap().id;
        let wid = schema_l.field("w").unwrap().id;
        let (stats_batch, lens) = self
            .rt
            .block_on(async {
                let r = lance_file::previous::reader::FileReader::try_new(ds.object_store(), &path, schema_l.clone()).await?;
                let lens: Vec<usize> = (0..r.num_batches()).map(|b| r.num_rows_in_batch(b as i32)).collect();
                let s = r.read_page_stats(&[vid, wid]).await?;
                Ok::<_, lance::Error>((s, lens))
            })
            .map_err(|e| format!("stats: {e}"))?;
        let sb = stats_batch.ok_or("no statistics")?;
        let mut stats = vec![];
        for (p, rows_p) in lens.iter().enumerate() {
            let mut cols = vec![];
            for (c, id) in [vid, wid].iter().enumerate() {
                let st = sb.column_by_name(&id.to_string()).ok_or("missing stats column")?;
                let st = st.as_any().downcast_ref::<StructArray>().ok_or("stats not a struct")?;
                let nc = st.column_by_name("null_count").unwrap().as_any().downcast_ref::<Int64Array>().unwrap().value(p);
                let mn = array_cell(tys[c], st.column_by_name("min_value").unwrap(), p);
                let mx = array_cell(tys[c], st.column_by_name("max_value").unwrap(), p);
                cols.push((nc, mn, mx));
            }
            stats.push(PageStat { rows: *rows_p, cols: [cols[0].clone(), cols[1].clone()] });
        }
        if sb.num_rows() != lens.len() {
            return Err("stats rows != pages".into());
        }
        Ok(Table { tys, g, rows: rows.to_vec(), ds, stats })
    }

    fn scan(&self, t: &Table, e: &Expr, use_stats: bool) -> Result<Vec<u64>, String> {
        self.rt.block_on(async {
            let mut sc = t.ds.scan();
            sc.filter_expr(e.clone());
            sc.project(&["id"]).map_err(|e| format!("project: {e}"))?;
            sc.use_stats(use_stats);
            let st = sc.try_into_stream().await.map_err(|e| format!("scan: {e}"))?;
            let bs: Vec<RecordBatch> = st.try_collect().await.map_err(|e| format!("scan: {e}"))?;
            let mut ids = vec![];
            for b in bs {
                let a = b.column_by_name("id").ok_or("no id")?.as_any().downcast_ref::<Int32Array>().ok_or("id type")?.clone();
                ids.extend(a.values().iter().map(|x| *x as u64));
            }
            Ok(ids)
        })
    }

    fn decisions(&self, t: &Table, e: &Expr) -> Result<String, String> {
        self.rt.block_on(async {
            let mut sc = t.ds.scan();
            sc.filter_expr(e.clone());
            sc.project(&["id"]).map_err(|e| format!("project: {e}"))?;
            sc.use_stats(true);
            let plan = sc.create_plan().await.map_err(|e| format!("plan: {e}"))?;
            let Some(node) = find_pushdown(&plan) else { return Ok("none".to_string()) };
            let preds = node.verif_simplified_predicates().await.map_err(|e| format!("hook: {e}"))?;
            let mut s = String::new();
            for frag in preds {
                for p in frag {
                    s.push(match p {
                        Expr::Literal(ScalarValue::Boolean(Some(false)), _) => 'F',
                        Expr::Literal(ScalarValue::Boolean(Some(true)), _) => 'T',
                        _ => 'O',
                    });
                }
            }
            Ok(s)
        })
    }
}

fn short_err(e: &str) -> String {
    let k = e.split(':').next().unwrap_or("other");
    format!("err {k}")
}

// ------------------------------------------------------------------------------------------------
// generator
// ------------------------------------------------------------------------------------------------

fn gen_float_key(rng: &mut Rng, ty: Ty, pool: &[i128]) -> i128 {
    let p = ty.pinf();
    match rng.below(16) {
        0 => p + 1 + rng.below(3) as i128, // +NaN
        1 => -p - 2 - rng.below(3) as i128, // -NaN
        2 => p,                            // +inf
        3 => -p - 1,                       // -inf
        4 => 0,                            // +0.0
        5 => -1,                           // -0.0
        6 => p - 1,                        // MAX
        7 => -p,                           // -MAX
        8 => 1,                            // smallest subnormal
        9 => -2,                           // its negative
        _ => *rng.pick(pool),
    }
}

fn gen_bytes(rng: &mut Rng, ty: Ty, style: u64) -> Vec<u8> {
    // style 0: short; 1: long common prefix around the 64-byte boundary; 2: 0xFF-heavy (binary) / multi-byte (utf8)
    let mut out: Vec<u8> = vec![];
    if ty == Ty::Bin {
        let len = match style {
            0 => rng.below(4) as usize,
            1 => 60 + rng.below(10) as usize,
            _ => 62 + rng.below(6) as usize,
        };
        for i in 0..len {
            let b = match style {
                0 => *rng.pick(&[0u8, 1, 0x61, 0x62, 0xFE, 0xFF]),
                1 => {
                    if i < 61 {
                        0x61
                    } else {
                        *rng.pick(&[0u8, 0x61, 0x62, 0xFF])
                    }
                }
                _ => {
                    if i < 62 && !rng.chance(1, 40) {
                        0xFF
                    } else {
                        *rng.pick(&[0u8, 0xFE, 0xFF])
                    }
                }
            };
            out.push(b);
        }
    } else {
        let target = match style {
            0 => rng.below(4) as usize,
            1 => 60 + rng.below(10) as usize,
            _ => 61 + rng.below(8) as usize,
        };
        let mut s = String::new();
        while s.len() < target {
            let c = match style {
                0 => *rng.pick(&['a', 'b', 'z', 'é', '\u{10FFFF}', '\u{7f}']),
                1 => {
                    if s.len() < 61 {
                        'a'
                    } else {
                        *rng.pick(&['a', 'b', 'é', '€'])
                    }
                }
                _ => {
                    if s.len() < 58 {
                        if rng.chance(1, 30) {
                            'é'
                        } else {
                            'a'
                        }
                    } else {
                        *rng.pick(&['a', 'b', 'c', 'é', '€', '\u{10FFFF}', '\u{7f}', '😀'])
                    }
                }
            };
            s.push(c);
        }
        out = s.into_bytes();
    }
    out
}

struct GenCol {
    ty: Ty,
    nullable: bool,
    pool: Vec<Val>,
}

fn gen_col(rng: &mut Rng, allow_long: bool) -> GenCol {
    let ty = *rng.pick(&[Ty::I32, Ty::I64, Ty::F32, Ty::F32, Ty::F64, Ty::Utf8, Ty::Utf8, Ty::Bin, Ty::Bin]);
    let nullable = ty.is_bytes() && rng.chance(3, 4) || rng.chance(1, 4);
    let mut pool = vec![];
    let n = 2 + rng.usize(5);
    match ty {
        Ty::I32 | Ty::I64 => {
            let (lo, hi) = if ty == Ty::I32 { (i32::MIN as i128, i32::MAX as i128) } else { (i64::MIN as i128, i64::MAX as i128) };
            for _ in 0..n {
                pool.push(Val::Int(match rng.below(10) {
                    0 => lo,
                    1 => hi,
                    2 => lo + 1,
                    3 => hi - 1,
                    _ => rng.below(9) as i128 - 4,
                }));
            }
        }
        Ty::F32 | Ty::F64 => {
            // keys of a few ordinary numbers
            let base: Vec<i128> = [-3.5f64, -1.0, -0.5, 0.5, 1.0, 2.0, 2.5, 7.0]
                .iter()
                .map(|x| if ty == Ty::F32 { fkey32(*x as f32) } else { fkey64(*x) })
                .collect();
            for _ in 0..n {
                pool.push(Val::Int(gen_float_key(rng, ty, &base)));
            }
        }
        Ty::Utf8 | Ty::Bin => {
            let style = if allow_long { rng.below(3) } else { 0 };
            for _ in 0..n {
                let st = if style == 0 { 0 } else if rng.chance(1, 4) { 0 } else { style };
                let mut b = gen_bytes(rng, ty, st);
                if b.is_empty() {
                    b.push(if ty == Ty::Bin { *rng.pick(&[0u8, 0x61, 0xFF]) } else { b'a' });
                }
                pool.push(Val::Bytes(b));
            }
        }
    }
    GenCol { ty, nullable, pool }
}

fn gen_lit(rng: &mut Rng, c: &GenCol, stats: bool) -> Val {
    // mostly a value of the pool (so that bounds are hit exactly), sometimes a neighbour
    let _ = stats;
    let v = rng.pick(&c.pool).clone();
    match (&v, rng.below(6)) {
        (Val::Int(k), 0) if in_range(c.ty, k + 1) => Val::Int(k + 1),
        (Val::Int(k), 1) if in_range(c.ty, k - 1) => Val::Int(k - 1),
        (Val::Bytes(b), 0) => {
            // the string cut at the prefix boundary, or bumped in its last byte
            let mut b = b.clone();
            if c.ty == Ty::Bin {
                b.truncate(PREFIX);
                if let Some(l) = b.last_mut() {
                    *l = l.wrapping_add(1);
                }
            } else {
                let n = utf8_trunc_len(&b);
                b.truncate(n);
                b.push(b'c');
            }
            Val::Bytes(b)
        }
        (Val::Bytes(b), 1) => {
            let mut b = b.clone();
            if c.ty == Ty::Bin {
                b.truncate(PREFIX);
            } else {
                let n = utf8_trunc_len(&b);
                b.truncate(n);
            }
            Val::Bytes(b)
        }
        _ => v,
    }
}

/// `eqfam[c]`: an `=`, `!=`, `IN` or `NOT IN` leaf on column `c` is already in the predicate.  DataFusion's simplifier
/// merges such leaves on one column (`x IN (..) AND x IN (..)` → intersection, `x = a OR x = b` → `x IN (a, b)` …), which
/// is its own business and not mirrored by the model: at most one of them per column and predicate.
fn gen_pred(rng: &mut Rng, cols: &[GenCol; 2], depth: usize, eqfam: &mut [bool; 2]) -> Pred {
    let leaf = depth == 0 || rng.chance(3, 5);
    if leaf {
        let c = if rng.chance(2, 3) { 0 } else { 1 };
        let range_only = eqfam[c];
        match rng.below(12) {
            0 => Pred::IsNull(c),
            1 => Pred::NotNull(c),
            2 | 3 if !range_only => {
                eqfam[c] = true;
                let k = 1 + rng.usize(4);
                let mut items: Vec<Val> = vec![];
                for _ in 0..k {
                    let v = gen_lit(rng, &cols[c], true);
                    if !items.contains(&v) {
                        items.push(v);
                    }
                }
                Pred::In(c, rng.chance(1, 3), items)
            }
            _ => {
                let op = if range_only { OPS[2 + rng.usize(4)] } else { OPS[rng.usize(6)] };
                if op == "eq" || op == "ne" {
                    eqfam[c] = true;
                }
                Pred::Cmp(c, op, gen_lit(rng, &cols[c], true))
            }
        }
    } else {
        match rng.below(5) {
            0 | 1 => {
                let a = gen_pred(rng, cols, depth - 1, eqfam);
                let b = gen_pred(rng, cols, depth - 1, eqfam);
                Pred::And(Box::new(a), Box::new(b))
            }
            2 | 3 => {
                let a = gen_pred(rng, cols, depth - 1, eqfam);
                let b = gen_pred(rng, cols, depth - 1, eqfam);
                Pred::Or(Box::new(a), Box::new(b))
            }
            _ => Pred::Not(Box::new(gen_pred(rng, cols, depth - 1, eqfam))),
        }
    }
}

// ------------------------------------------------------------------------------------------------
// Prop
// ------------------------------------------------------------------------------------------------

impl Prop for C29 {
    fn id(&self) -> &'static str {
        "C29"
    }
    fn budget(&self, tier: Tier) -> usize {
        match tier {
            Tier::Quick => 1000,
            Tier::Thorough => 20000,
            Tier::Search => 5000,
        }
    }

    fn gen_case(&mut self, rng: &mut Rng, _tier: Tier, idx: usize) -> Vec<String> {
        let malformed = idx % 12 == 11;
        let cols = [gen_col(rng, true), gen_col(rng, false)];
        let g = 1 + rng.usize(5);
        let npages = 1 + rng.usize(4);
        let nrows = (g * npages).saturating_sub(rng.usize(g.min(2) + 1)).max(1);
        // pages tend to be homogeneous (one pool value, or all NULL) so that single-valued and all-NULL pages occur
        let mut rows: Vec<[Cell; 2]> = vec![];
        let mut page_mode = [0u64; 2];
        let mut page_val: [Cell; 2] = [None, None];
        for i in 0..nrows {
            if i % g == 0 {
                for c in 0..2 {
                    page_mode[c] = rng.below(6);
                    page_val[c] = Some(rng.pick(&cols[c].pool).clone());
                }
            }
            let mut r: [Cell; 2] = [None, None];
            for c in 0..2 {
                let nulls_ok = cols[c].nullable && cols[c].ty.is_bytes();
                r[c] = match page_mode[c] {
                    0 if nulls_ok => None,                                        // all-NULL page
                    1 => page_val[c].clone(),                                    // single-valued page
                    2 if nulls_ok => if rng.chance(1, 3) { None } else { page_val[c].clone() }, // single value + NULLs
                    _ => if nulls_ok && rng.chance(1, 5) { None } else { Some(rng.pick(&cols[c].pool).clone()) },
                };
                if r[c].is_none() && !nulls_ok {
                    r[c] = page_val[c].clone();
                }
            }
            rows.push(r);
        }
        let splits: Vec<u64> = (0..rng.usize(3)).map(|_| 1 + rng.below(4)).collect();
        let cells: Vec<String> = rows.iter().map(|r| format!("{}:{}", show_cell(&r[0]), show_cell(&r[1]))).collect();
        let mut lines = vec![format!(
            "data {} {} {} {} {} {} {}",
            cols[0].ty.show(),
            cols[0].nullable as u8,
            cols[1].ty.show(),
            cols[1].nullable as u8,
            g,
            show_nat_list(splits),
            cells.join(" ")
        )];
        let nq = 4 + rng.usize(6);
        for _ in 0..nq {
            let p = gen_pred(rng, &cols, 2, &mut [false, false]);
            let mut toks = vec![];
            show_pred(&p, &mut toks);
            lines.push(format!("q {}", toks.join(" ")));
        }
        if malformed {
            let k = rng.usize(lines.len());
            let bad = match rng.below(5) {
                0 => "q c v zz 1".to_string(),
                1 => "q and nul v".to_string(),
                2 => "data i32 0 i32 0 0 - 1:1".to_string(),
                3 => "q c x eq 1".to_string(),
                _ => "frobnicate".to_string(),
            };
            lines.insert(k + 1, bad);
        }
        lines
    }

    fn exec_case(&mut self, lines: &[String]) -> CaseResult {
        let mut res = CaseResult::default();
        let mut table: Option<Table> = None;
        for (ln, line) in lines.iter().enumerate() {
            let toks: Vec<&str> = line.split(' ').filter(|t| !t.is_empty()).collect();
            let out = match toks.first().copied() {
                Some("data") => (|| -> Option<String> {
                    table = None;
                    if toks.len() < 8 {
                        return None;
                    }
                    let tys = [Ty::parse(toks[1])?, Ty::parse(toks[3])?];
                    let nb = |s: &str| match s {
                        "0" => Some(false),
                        "1" => Some(true),
                        _ => None,
                    };
                    let nullable = [nb(toks[2])?, nb(toks[4])?];
                    let g: usize = toks[5].parse().ok()?;
                    if g == 0 || g > 4096 {
                        return None;
                    }
                    let splits = parse_nat_list(toks[6])?;
                    let mut rows = vec![];
                    for t in &toks[7..] {
                        let (a, b) = t.split_once(':')?;
                        let r = [parse_cell(tys[0], a)?, parse_cell(tys[1], b)?];
                        for c in 0..2 {
                            // NULLs only in nullable variable-width columns (the legacy format reads a NULL of a
                            // fixed-width column back as 0: C11 legacy_nulls_lost)
                            if r[c].is_none() && !(nullable[c] && tys[c].is_bytes()) {
                                return None;
                            }
                            // the legacy format reads an empty string / binary back as NULL (data and statistics
                            // pages alike): not a statistics matter, kept out of the tables
                            if matches!(&r[c], Some(Val::Bytes(b)) if b.is_empty()) {
                                return None;
                            }
                        }
                        rows.push(r);
                    }
                    let written = match std::panic::catch_unwind(std::panic::AssertUnwindSafe(|| self.write(tys, nullable, g, &splits, &rows))) {
                        Ok(r) => r,
                        Err(e) => {
                            let msg = e
                                .downcast_ref::<String>()
                                .cloned()
                                .or_else(|| e.downcast_ref::<&str>().map(|s| s.to_string()))
                                .unwrap_or_else(|| "panic".into());
                            // a NULL max (all-0xFF prefix that cannot be incremented) in the statistics of a
                            // NON-NULLABLE column: StatisticsCollector::finish declares min/max with the field's
                            // nullability and StructArray::new(..) panics
                            let known = msg.contains("Found unmasked nulls for non-nullable StructArray field");
                            res.failures.push(OracleFailure {
                                what: format!("Dataset::write panicked: {msg}"),
                                key: Some(if known { "stats_null_max_nonnullable_panic" } else { "panic" }.to_string()),
                                line: ln,
                            });
                            res.tags.push("write_panic".into());
                            return Some("err write_panic".into());
                        }
                    };
                    Some(match written {
                        Ok(t) => {
                            let mut parts = vec![];
                            for (p, ps) in t.stats.iter().enumerate() {
                                let cs: Vec<String> = ps
                                    .cols
                                    .iter()
                                    .map(|(nc, mn, mx)| format!("{},{},{}", nc, show_cell(mn), show_cell(mx)))
                                    .collect();
                                parts.push(format!("{}:{}", ps.rows, cs.join("/")));
                                // oracle 2: recorded statistics bound the page
                                let lo = p * t.g;
                                let page = &t.rows[lo..(lo + ps.rows).min(t.rows.len())];
                                for c in 0..2 {
                                    let (nc, mn, mx) = &ps.cols[c];
                                    let nulls = page.iter().filter(|r| r[c].is_none()).count() as i64;
                                    if *nc != nulls {
                                        res.failures.push(OracleFailure {
                                            what: format!("page {p} col {}: null_count {nc} but {nulls} NULLs", col_name(c)),
                                            key: None,
                                            line: ln,
                                        });
                                    }
                                    for r in page {
                                        let Some(v) = &r[c] else { continue };
                                        if is_nan(tys[c], v) {
                                            continue;
                                        }
                                        let below = mn.as_ref().map(|m| v < m).unwrap_or(false);
                                        let above = mx.as_ref().map(|m| v > m).unwrap_or(false);
                                        if below || above {
                                            let key = match v {
                                                Val::Bytes(b) if tys[c] == Ty::Utf8 && b.len() > PREFIX && utf8_trunc_len(b) < PREFIX => {
                                                    Some("utf8_truncated_max_too_small".to_string())
                                                }
                                                _ => None,
                                            };
                                            res.failures.push(OracleFailure {
                                                what: format!(
                                                    "page {p} col {}: value {} outside recorded [{}, {}]",
                                                    col_name(c),
                                                    show_cell(&Some(v.clone())),
                                                    show_cell(mn),
                                                    show_cell(mx)
                                                ),
                                                key,
                                                line: ln,
                                            });
                                        }
                                    }
                                }
                            }
                            res.tags.push(format!("type:{}", tys[0].show()));
                            res.tags.push(format!("pages:{}", t.stats.len().min(5)));
                            let s = format!("pages={} {}", t.stats.len(), parts.join("|"));
                            table = Some(t);
                            s
                        }
                        Err(e) => {
                            res.tags.push("write_err".into());
                            short_err(&e)
                        }
                    })
                })()
                .unwrap_or_else(|| "err parse".into()),
                Some("q") => (|| -> Option<String> {
                    let t = table.as_ref()?;
                    let (p, rest) = parse_pred(&t.tys, &toks[1..], 0)?;
                    if !rest.is_empty() {
                        return None;
                    }
                    let e = to_expr(&t.tys, &p);
                    let dec = match self.decisions(t, &e) {
                        Ok(d) => d,
                        Err(e) => return Some(short_err(&e)),
                    };
                    let on = match self.scan(t, &e, true) {
                        Ok(x) => x,
                        Err(e) => return Some(short_err(&e)),
                    };
                    let off = match self.scan(t, &e, false) {
                        Ok(x) => x,
                        Err(e) => return Some(short_err(&e)),
                    };
                    for ch in dec.chars() {
                        res.tags.push(format!("dec:{ch}"));
                    }
                    if dec.contains('F') || dec.contains('T') {
                        res.nontrivial = true;
                    }
                    // oracle 1: pruning never changes the result
                    if on != off {
                        let diff: Vec<u64> = on
                            .iter()
                            .filter(|i| !off.contains(i))
                            .chain(off.iter().filter(|i| !on.contains(i)))
                            .cloned()
                            .collect();
                        let mut used = [false; 2];
                        pred_cols(&p, &mut used);
                        // class of a differing row: it holds a NaN in a float column of the predicate / an over-long
                        // utf8 string whose truncation is shorter than the prefix / it lies in a page where a predicate
                        // column has NULLs and min = max.  Every differing row must be explained by one of them.
                        let class_of = |i: usize| -> Option<&'static str> {
                            let nan = (0..2).any(|c| used[c] && t.rows[i][c].as_ref().map(|v| is_nan(t.tys[c], v)).unwrap_or(false));
                            if nan {
                                return Some("nan_outside_minmax");
                            }
                            let trunc = (0..2).any(|c| {
                                used[c]
                                    && t.tys[c] == Ty::Utf8
                                    && matches!(&t.rows[i][c], Some(Val::Bytes(b)) if b.len() > PREFIX && utf8_trunc_len(b) < PREFIX)
                            });
                            if trunc {
                                return Some("utf8_truncated_max_too_small");
                            }
                            let ps = &t.stats[i / t.g];
                            let single = (0..2).any(|c| {
                                let (nc, mn, mx) = &ps.cols[c];
                                used[c] && *nc > 0 && (*nc as usize) < ps.rows && mn.is_some() && mn == mx
                            });
                            if single {
                                return Some("maybenull_single_value_column_replaced");
                            }
                            None
                        };
                        let classes: Vec<Option<&'static str>> = diff.iter().map(|i| class_of(*i as usize)).collect();
                        let key = if !classes.is_empty() && classes.iter().all(|c| c.is_some()) { classes[0] } else { None };
                        res.failures.push(OracleFailure {
                            what: format!(
                                "use_stats(true) returned {} but use_stats(false) returned {} (decisions {dec})",
                                show_nat_list(on.clone()),
                                show_nat_list(off.clone())
                            ),
                            key: key.map(|s| s.to_string()),
                            line: ln,
                        });
                    }
                    Some(format!("dec={} on={} off={}", dec, show_nat_list(on), show_nat_list(off)))
                })()
                .unwrap_or_else(|| "err parse".into()),
                _ => "err parse".into(),
            };
            if out == "err parse" {
                res.tags.push("malformed".into());
            }
            res.outputs.push(out);
        }
        res
    }

    fn rule(&self) -> String {
        "one legacy dataset per case: two typed value columns (i32/i64/f32/f64/utf8/binary; floats incl. NaN of both signs, +-0, +-inf, +-MAX, subnormals; strings around the 64-byte prefix bound with multi-byte characters, binaries with 0xFF runs; NULLs in variable-width columns; homogeneous, all-NULL and mixed pages of 1..5 rows, 1..4 pages, input batches split at random), 4..9 random predicates (=,!=,<,<=,>,>=,IS [NOT] NULL,[NOT] IN, AND/OR/NOT depth <= 2) whose literals are page values or their neighbours / truncations; every 12th case carries a malformed line; non-trivial = some page was skipped or read unfiltered".into()
    }
}

fn main() {
    let rt = tokio::runtime::Builder::new_current_thread().enable_all().build().unwrap();
    run_main(C29 { rt, n_uri: 0 })
}
