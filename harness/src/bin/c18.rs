//! C18: stable row ids are stable and resolvable.
//!
//! Interpreter of the C18 op lines against the REAL lance code on tables with stable row ids (`Dataset::write`,
//! `DeleteBuilder`, `UpdateBuilder`, `MergeInsertBuilder` with a full or a partial source schema, `compact_files`,
//! `Dataset::restore`, `Scanner` with `_rowid` / `_rowaddr`, `Dataset::take_rows`, and `Transaction::assign_row_ids` reached
//! through `CommitBuilder` with hand-built fragments), a seeded generator of multi-fragment histories with CONCURRENT
//! writers (stale handles) and restores, and the property oracle.  Every step runs through a fresh `Session` (row-id
//! sequences are cached by fragment id — C38 — and an overwrite / restore re-uses fragment ids).
//!
//! Op lines (cells / rows: canonical forms of `../tablekit.rs`; a table has `K` ∈ {2,3} Int64 columns, `c0` is the key):
//!
//! ```text
//! [H] create    f=<nat> k=<K> <rows>   WriteMode::Create, enable_stable_row_ids, max_rows_per_file = f
//! [H] append    f=<nat> <rows>         WriteMode::Append
//! [H] overwrite f=<nat> <rows>         WriteMode::Overwrite (same K)
//! [H] delete    <pred>                 DeleteBuilder              pred ::= lt <int> | ge <int> | in <int,…> | all   (on c0)
//! [H] update    <pred> <int>           UpdateBuilder: set c1 = <int> where pred                   (Update / RewriteRows)
//! [H] upsert    <rows>                 MergeInsertBuilder on c0, UpdateAll / InsertAll; rows of width K (Update /
//!                                      RewriteRows) or of width 2 on a K = 3 table (partial schema: Update / RewriteColumns)
//! [H] compact   t=<nat> m=<0|1>        compact_files, target_rows_per_fragment = t, materialize_deletions = m (threshold 0)
//!     restore   <ver>                  checkout_version(ver) + Dataset::restore
//!     assign    n=<nat> <phys>:<-|e|ids>;…   (phys >= 1) scratch table with n rows (next_row_id = n): commit Operation::Append of
//!                                      hand-built fragments (physical_rows, row_id_meta: none / empty / the ids)
//! H   ::= @<ver>                       the call goes through a handle that has read version <ver> (a STALE handle when
//!                                      <ver> is not the latest version) with conflict_retries(0); only append / delete /
//!                                      update / full-schema upsert are offered through it (`err stale_unsupported` else)
//! ver ::= <nat> | ~<nat>               absolute, or relative to the latest version (`~0` = latest, `~1` = the one before)
//! ```
//!
//! Output of a table op:
//! `ok v=<version> nrid=<next_row_id> mfid=<max_fragment_id|none> meta=<per fragment: id[rid[x],…]> scan=<ordered scan:
//! cells…,_rowid,_rowaddr>` or `err <kind>`; of `assign`: `ok nrid=<next_row_id> ids=<ids>|<ids>…` or `err internal`.
//! `err parse`, `err no_table`, `err no_version`, `err stale_unsupported`, `err width`, `err keys`, `err ambiguous`, `err ids`
//! (assign: ids not below n or repeated), `err empty_target` (upsert when the version read shows no row: lance then writes
//! the new rows in hash-join order) are decided
//! by the interpreter alone, identically on both sides.
//!
//! Oracle (independent of the Lean model), after every step that published a version:
//!   (1) no `_rowid` twice in the scan;  (2) over the whole history a row id always shows the same key (`c0`);
//!   (3) every key that is visible (once) before and after a step that is not an overwrite / restore keeps its row id;
//!   (4) ids that appear are new: never seen in any version, and not below the previous `next_row_id`;
//!   (5) `next_row_id` exceeds every id ever seen;  (6) the manifest's row id sequences and deletion vectors give the scan;
//!   (7) `take_rows` of every visible id (reversed order) returns exactly those rows; ids that are not visible (deleted
//!       earlier, never assigned) return no row;  (8) a restored version shows the rows and ids of the version restored;
//!   (9) versions are dense.

use std::collections::{BTreeMap, BTreeSet};
use std::sync::Arc;

use arrow_array::RecordBatchIterator;
use hcommon::*;
use lance::dataset::optimize::{compact_files, CompactionOptions};
use lance::dataset::transaction::{Operation, Transaction};
use lance::dataset::{
    CommitBuilder, DeleteBuilder, MergeInsertBuilder, ProjectionRequest, UpdateBuilder, WhenMatched, WhenNotMatched,
};
use lance::session::Session;
use lance::Dataset;
use lance_table::format::{Fragment, RowIdMeta};
use lance_table::rowids::{write_row_ids, RowIdSequence};

#[path = "../tablekit.rs"]
#[allow(dead_code)]
mod tablekit;
use tablekit::*;

struct C18 {
    kit: Kit,
}

#[derive(Clone, Debug)]
enum Pred {
    Lt(i64),
    Ge(i64),
    In(Vec<i64>),
    All,
}

impl Pred {
    fn sql(&self) -> String {
        match self {
            Pred::Lt(x) => format!("c0 < {x}"),
            Pred::Ge(x) => format!("c0 >= {x}"),
            Pred::In(xs) => format!("c0 IN ({})", xs.iter().map(|x| x.to_string()).collect::<Vec<_>>().join(", ")),
            Pred::All => "true".into(),
        }
    }
    fn show(&self) -> String {
        match self {
            Pred::Lt(x) => format!("lt {x}"),
            Pred::Ge(x) => format!("ge {x}"),
            Pred::In(xs) => format!("in {}", xs.iter().map(|x| x.to_string()).collect::<Vec<_>>().join(",")),
            Pred::All => "all".into(),
        }
    }
}

/// a version reference: absolute, or relative to the latest version
#[derive(Clone, Copy, Debug)]
enum Ver {
    Abs(u64),
    Rel(u64),
}

impl Ver {
    fn show(&self) -> String {
        match self {
            Ver::Abs(v) => v.to_string(),
            Ver::Rel(k) => format!("~{k}"),
        }
    }
    /// 0 = no such version
    fn resolve(&self, latest: u64) -> u64 {
        match self {
            Ver::Abs(v) => *v,
            Ver::Rel(k) => latest.saturating_sub(*k),
        }
    }
}

#[derive(Clone, Debug)]
enum Op {
    Create { f: usize, k: usize, rows: Vec<Row> },
    Append { f: usize, rows: Vec<Row> },
    Overwrite { f: usize, rows: Vec<Row> },
    Delete(Pred),
    Update(Pred, i64),
    Upsert(Vec<Row>),
    Compact { t: usize, m: bool },
}

#[derive(Clone, Debug)]
struct RawFrag {
    phys: usize,
    /// None = no row_id_meta
    ids: Option<Vec<u64>>,
}

#[derive(Clone, Debug)]
enum Cmd {
    Call { rv: Option<Ver>, op: Op },
    Restore(Ver),
    Assign { n: usize, frags: Vec<RawFrag> },
}

fn show_op(op: &Op) -> String {
    match op {
        Op::Create { f, k, rows } => format!("create f={f} k={k} {}", show_rows(rows)),
        Op::Append { f, rows } => format!("append f={f} {}", show_rows(rows)),
        Op::Overwrite { f, rows } => format!("overwrite f={f} {}", show_rows(rows)),
        Op::Delete(p) => format!("delete {}", p.show()),
        Op::Update(p, y) => format!("update {} {y}", p.show()),
        Op::Upsert(rows) => format!("upsert {}", show_rows(rows)),
        Op::Compact { t, m } => format!("compact t={t} m={}", *m as u8),
    }
}

fn show_cmd(c: &Cmd) -> String {
    match c {
        Cmd::Call { rv: None, op } => show_op(op),
        Cmd::Call { rv: Some(v), op } => format!("@{} {}", v.show(), show_op(op)),
        Cmd::Restore(v) => format!("restore {}", v.show()),
        Cmd::Assign { n, frags } => format!(
            "assign n={n} {}",
            frags
                .iter()
                .map(|f| format!(
                    "{}:{}",
                    f.phys,
                    match &f.ids {
                        None => "-".to_string(),
                        Some(v) if v.is_empty() => "e".to_string(),
                        Some(v) => v.iter().map(|x| x.to_string()).collect::<Vec<_>>().join(","),
                    }
                ))
                .collect::<Vec<_>>()
                .join(";")
        ),
    }
}

fn op_name(op: &Op) -> &'static str {
    match op {
        Op::Create { .. } => "create",
        Op::Append { .. } => "append",
        Op::Overwrite { .. } => "overwrite",
        Op::Delete(_) => "delete",
        Op::Update(..) => "update",
        Op::Upsert(_) => "upsert",
        Op::Compact { .. } => "compact",
    }
}

fn parse_nat(s: &str) -> Option<u64> {
    if s.is_empty() || s.len() > 9 || !s.bytes().all(|b| b.is_ascii_digit()) {
        return None;
    }
    s.parse().ok()
}

fn parse_ver(s: &str) -> Option<Ver> {
    match s.strip_prefix('~') {
        Some(k) => parse_nat(k).map(Ver::Rel),
        None => parse_nat(s).map(Ver::Abs),
    }
}

fn parse_int(s: &str) -> Option<i64> {
    parse_cell(s)?
}

/// rows of one common width (>= 1 row: the width is taken from the first row)
fn rows_same_width(s: &str) -> Option<Vec<Row>> {
    let rows = parse_rows(s)?;
    if let Some(first) = rows.first() {
        if !rows.iter().all(|r| r.len() == first.len()) {
            return None;
        }
    }
    Some(rows)
}

fn parse_pred(t: &[&str]) -> Option<Pred> {
    match t {
        ["all"] => Some(Pred::All),
        ["lt", x] => Some(Pred::Lt(parse_int(x)?)),
        ["ge", x] => Some(Pred::Ge(parse_int(x)?)),
        ["in", xs] => {
            let v: Option<Vec<i64>> = xs.split(',').map(parse_int).collect();
            Some(Pred::In(v?))
        }
        _ => None,
    }
}

fn parse_base(t: &[&str]) -> Option<Op> {
    match t {
        ["create", f, k, rows] => {
            let f = parse_nat(f.strip_prefix("f=")?)? as usize;
            let k = parse_nat(k.strip_prefix("k=")?)? as usize;
            if !(2..=3).contains(&k) {
                return None;
            }
            let rows = rows_same_width(rows)?;
            if !rows.iter().all(|r| r.len() == k) {
                return None;
            }
            Some(Op::Create { f, k, rows })
        }
        ["append", f, rows] => Some(Op::Append { f: parse_nat(f.strip_prefix("f=")?)? as usize, rows: rows_same_width(rows)? }),
        ["overwrite", f, rows] => {
            Some(Op::Overwrite { f: parse_nat(f.strip_prefix("f=")?)? as usize, rows: rows_same_width(rows)? })
        }
        ["delete", rest @ ..] => Some(Op::Delete(parse_pred(rest)?)),
        ["update", rest @ .., y] if !rest.is_empty() => Some(Op::Update(parse_pred(rest)?, parse_int(y)?)),
        ["upsert", rows] => {
            let rows = rows_same_width(rows)?;
            if rows.is_empty() {
                return None;
            }
            Some(Op::Upsert(rows))
        }
        ["compact", t, m] => {
            let t = parse_nat(t.strip_prefix("t=")?)? as usize;
            let m = match m.strip_prefix("m=")? {
                "0" => false,
                "1" => true,
                _ => return None,
            };
            Some(Op::Compact { t, m })
        }
        _ => None,
    }
}

fn parse_raw(s: &str) -> Option<RawFrag> {
    let (p, ids) = s.split_once(':')?;
    if ids.contains(':') {
        return None;
    }
    let phys = parse_nat(p)? as usize;
    if phys == 0 {
        // a fragment without rows never reaches the manifest
        return None;
    }
    let ids = match ids {
        "-" => None,
        "e" => Some(vec![]),
        l => Some(l.split(',').map(parse_nat).collect::<Option<Vec<u64>>>()?),
    };
    Some(RawFrag { phys, ids })
}

fn parse_cmd(line: &str) -> Option<Cmd> {
    let t: Vec<&str> = line.split(' ').filter(|s| !s.is_empty()).collect();
    match t.as_slice() {
        ["restore", v] => match parse_ver(v)? {
            // the Lean driver reads the argument of `restore` with the same two forms
            v => Some(Cmd::Restore(v)),
        },
        ["assign", n, frags] => {
            let n = parse_nat(n.strip_prefix("n=")?)? as usize;
            let frags: Option<Vec<RawFrag>> = frags.split(';').map(parse_raw).collect();
            Some(Cmd::Assign { n, frags: frags? })
        }
        [h, rest @ ..] if h.starts_with('@') => {
            let v = parse_ver(&h[1..])?;
            Some(Cmd::Call { rv: Some(v), op: parse_base(rest)? })
        }
        t => Some(Cmd::Call { rv: None, op: parse_base(t)? }),
    }
}

#[derive(Clone, Debug, PartialEq)]
struct FragDump {
    id: u64,
    /// (row id, deleted)
    rows: Vec<(u64, bool)>,
}

/// one visible row: cells, `_rowid`, `_rowaddr`
#[derive(Clone, Debug, PartialEq)]
struct Vis {
    cells: Row,
    rid: u64,
    addr: u64,
}

#[derive(Clone, Debug)]
struct Obs {
    version: u64,
    k: usize,
    nrid: u64,
    mfid: Option<u32>,
    frags: Vec<FragDump>,
    scan: Vec<Vis>,
}

fn fmt_obs(o: &Obs) -> String {
    let meta = if o.frags.is_empty() {
        "-".to_string()
    } else {
        o.frags
            .iter()
            .map(|f| {
                let rows: Vec<String> = f.rows.iter().map(|r| format!("{}{}", r.0, if r.1 { "x" } else { "" })).collect();
                format!("{}[{}]", f.id, rows.join(","))
            })
            .collect::<Vec<_>>()
            .join("")
    };
    let scan: Vec<Row> = o
        .scan
        .iter()
        .map(|v| {
            let mut r = v.cells.clone();
            r.push(Some(v.rid as i64));
            r.push(Some(v.addr as i64));
            r
        })
        .collect();
    format!(
        "ok v={} nrid={} mfid={} meta={} scan={}",
        o.version,
        o.nrid,
        o.mfid.map(|m| m.to_string()).unwrap_or_else(|| "none".into()),
        meta,
        show_rows(&scan)
    )
}

fn panic_text(e: Box<dyn std::any::Any + Send>) -> String {
    e.downcast_ref::<String>().cloned().or_else(|| e.downcast_ref::<&str>().map(|s| s.to_string())).unwrap_or_else(|| "panic".into())
}

impl C18 {
    fn fresh_session(&mut self) {
        let reg = self.kit.session.store_registry();
        self.kit.session = Arc::new(Session::new(64 << 20, 64 << 20, reg));
    }

    /// ordered scan with `_rowid` and `_rowaddr`
    fn scan_meta(&self, ds: &Dataset, k: usize) -> Result<Vec<Vis>, KitError> {
        let spec = SchemaSpec::ints(k);
        let rows = self.kit.scan(ds, &spec, &ScanOpts { with_row_id: true, with_row_addr: true, ..ScanOpts::ordered() })?;
        rows.into_iter()
            .map(|r| {
                let m = |i: usize| r[k + i].map(|x| x as u64).ok_or_else(|| KitError::other("decode: NULL meta column"));
                Ok(Vis { cells: r[..k].to_vec(), rid: m(0)?, addr: m(1)? })
            })
            .collect()
    }

    fn dump(&self, ds: &Dataset) -> Result<Vec<FragDump>, KitError> {
        let mut out = vec![];
        for f in ds.get_fragments() {
            let m = f.metadata().clone();
            let phys = m.physical_rows.unwrap_or(0);
            let rids: Vec<u64> = match &m.row_id_meta {
                Some(RowIdMeta::Inline(data)) => lance_table::rowids::read_row_ids(data).map_err(KitError::from)?.iter().collect(),
                Some(RowIdMeta::External(_)) => return Err(KitError::other("external row id sequence")),
                None => return Err(KitError::other("fragment without row id sequence")),
            };
            if rids.len() != phys {
                return Err(KitError::other(format!("fragment {}: physical_rows={phys} but {} row ids", m.id, rids.len())));
            }
            let dv = self.kit.block_on(f.get_deletion_vector()).map_err(KitError::from)?;
            let rows = (0..phys).map(|i| (rids[i], dv.as_ref().map(|d| d.contains(i as u32)).unwrap_or(false))).collect();
            out.push(FragDump { id: m.id, rows });
        }
        Ok(out)
    }

    fn observe(&self, ds: &Dataset) -> Result<Obs, KitError> {
        let spec = Kit::spec_of(ds).ok_or_else(|| KitError::other("not a kit schema"))?;
        let k = spec.ints;
        let scan = self.scan_meta(ds, k)?;
        let frags = self.dump(ds)?;
        let m = ds.manifest();
        Ok(Obs { version: m.version, k, nrid: m.next_row_id, mfid: m.max_fragment_id, frags, scan })
    }

    /// `take_rows(ids)` projected on the data columns and `_rowid`
    fn take_rows(&self, ds: &Dataset, k: usize, ids: &[u64]) -> Result<Vec<(Row, u64)>, KitError> {
        let spec = SchemaSpec::ints(k);
        let mut cols: Vec<String> = spec.column_names();
        cols.push("_rowid".into());
        let pr = ProjectionRequest::from_columns(cols.iter().map(|s| s.as_str()), ds.schema());
        let r = std::panic::catch_unwind(std::panic::AssertUnwindSafe(|| self.kit.lance_call("take_rows", ds.take_rows(ids, pr))));
        let batch = match r {
            Ok(b) => b?,
            Err(e) => return Err(KitError::other(format!("PANIC {}", panic_text(e)))),
        };
        let rows = spec.decode(&batch, &["_rowid"]).map_err(|e| KitError::other(format!("decode: {}", e.0)))?;
        rows.into_iter()
            .map(|r| {
                let rid = r[k].map(|x| x as u64).ok_or_else(|| KitError::other("decode: NULL _rowid"))?;
                Ok((r[..k].to_vec(), rid))
            })
            .collect()
    }

    /// `assign`: `Transaction::assign_row_ids` through `CommitBuilder` on a scratch table whose `next_row_id` is `n`
    fn run_assign(&mut self, n: usize, frags: &[RawFrag]) -> String {
        self.fresh_session();
        let uri = self.kit.fresh_uri();
        let spec = SchemaSpec::ints(2);
        let rows: Vec<Row> = (0..n).map(|i| vec![Some(i as i64), Some(0)]).collect();
        let knobs = Knobs { max_rows_per_file: Some(1000), stable_row_ids: true, ..Default::default() };
        let ds = match self.kit.write(Err(&uri), Mode::Create, &spec, &[rows], &knobs) {
            Ok(d) => d,
            Err(e) => return format!("err scratch_{}", e.kind.as_str()),
        };
        if ds.manifest().next_row_id != n as u64 {
            return format!("err scratch_next_row_id_{}", ds.manifest().next_row_id);
        }
        let fragments: Vec<Fragment> = frags
            .iter()
            .map(|f| Fragment {
                id: 0,
                files: vec![],
                deletion_file: None,
                row_id_meta: f.ids.as_ref().map(|ids| RowIdMeta::Inline(write_row_ids(&RowIdSequence::from(ids.as_slice())))),
                physical_rows: Some(f.phys),
                last_updated_at_version_meta: None,
                created_at_version_meta: None,
            })
            .collect();
        let txn = Transaction::new(ds.manifest().version, Operation::Append { fragments }, None);
        let r = std::panic::catch_unwind(std::panic::AssertUnwindSafe(|| {
            self.kit.block_on(CommitBuilder::new(Arc::new(ds.clone())).execute(txn))
        }));
        match r {
            Err(e) => format!("err panic {}", panic_text(e).chars().take(60).collect::<String>().replace(' ', "_")),
            Ok(Err(lance::Error::Internal { .. })) => "err internal".into(),
            Ok(Err(e)) => format!("err {}", canon_err(&e).as_str()),
            Ok(Ok(new)) => {
                let m = new.manifest();
                // the fragments the commit added (the scratch table had one fragment, or none when n = 0)
                let old = ds.manifest().fragments.len();
                let mut parts = vec![];
                for f in m.fragments.iter().skip(old) {
                    let ids: Vec<u64> = match &f.row_id_meta {
                        Some(RowIdMeta::Inline(data)) => match lance_table::rowids::read_row_ids(data) {
                            Ok(s) => s.iter().collect(),
                            Err(_) => return "err unreadable_sequence".into(),
                        },
                        _ => return "err no_inline_sequence".into(),
                    };
                    parts.push(show_nat_list(ids));
                }
                format!("ok nrid={} ids={}", m.next_row_id, parts.join("|"))
            }
        }
    }

    // ------------------------------------------------------------------------------------------ generator

    fn gen_f(rng: &mut Rng) -> usize {
        match rng.below(10) {
            0..=5 => 1 + rng.usize(3),
            6..=7 => 4 + rng.usize(3),
            _ => 1000,
        }
    }

    fn gen_pred(rng: &mut Rng, keys: &[i64]) -> Pred {
        let pick = |rng: &mut Rng| -> i64 {
            if !keys.is_empty() && rng.chance(5, 6) {
                *rng.pick(keys)
            } else {
                rng.below(40) as i64
            }
        };
        match rng.below(12) {
            0 => Pred::All,
            1..=2 => Pred::Lt(pick(rng)),
            3..=4 => Pred::Ge(pick(rng)),
            _ => {
                let n = 1 + rng.usize(3);
                Pred::In((0..n).map(|_| pick(rng)).collect())
            }
        }
    }

    fn gen_assign(rng: &mut Rng) -> Vec<String> {
        let mut lines = vec![];
        for _ in 0..(2 + rng.usize(4)) {
            // next_row_id of the scratch table; ids a fragment already carries were handed out earlier: below it, distinct
            let n = 6 + rng.usize(30);
            let nf = 1 + rng.usize(4);
            let mut pool: Vec<u64> = (0..n as u64).collect();
            for i in (1..pool.len()).rev() {
                pool.swap(i, rng.usize(i + 1));
            }
            let mut take = |k: usize, sorted: bool| -> Vec<u64> {
                let k = k.min(pool.len());
                let mut v: Vec<u64> = pool.drain(..k).collect();
                if sorted {
                    v.sort();
                }
                v
            };
            let frags: Vec<RawFrag> = (0..nf)
                .map(|_| {
                    let phys = 1 + rng.usize(6);
                    let sorted = rng.chance(2, 3);
                    let ids = match rng.below(10) {
                        0..=2 => None,
                        3 => Some(vec![]),
                        4..=5 => Some(take(phys, sorted)),
                        6..=8 => Some(take(rng.usize(phys + 1), sorted)),
                        _ => Some(take(phys + 1 + rng.usize(2), sorted)),
                    };
                    RawFrag { phys, ids }
                })
                .collect();
            lines.push(show_cmd(&Cmd::Assign { n, frags }));
        }
        lines
    }
}

/// generator-side picture of the table: the live keys (assumes ops succeed)
struct GenTable {
    k: usize,
    keys: Vec<i64>,
    next_key: i64,
}

impl GenTable {
    fn fresh_rows(&mut self, rng: &mut Rng, n: usize, dup: bool) -> Vec<Row> {
        (0..n)
            .map(|_| {
                let key = if dup && !self.keys.is_empty() && rng.chance(1, 5) {
                    *rng.pick(&self.keys)
                } else {
                    self.next_key += 1;
                    self.next_key
                };
                self.keys.push(key);
                let c0 = if rng.chance(1, 25) { None } else { Some(key) };
                let mut r = vec![c0];
                for _ in 1..self.k {
                    r.push(if rng.chance(1, 12) { None } else { Some(rng.below(50) as i64) });
                }
                r
            })
            .collect()
    }
    fn n_rows(rng: &mut Rng) -> usize {
        match rng.below(10) {
            0 => 0,
            1..=5 => 1 + rng.usize(3),
            6..=8 => 3 + rng.usize(4),
            _ => 6 + rng.usize(5),
        }
    }
    fn upsert_rows(&mut self, rng: &mut Rng, w: usize, malformed: bool) -> Vec<Row> {
        let n = 1 + rng.usize(4);
        let mut keys: Vec<i64> = vec![];
        for _ in 0..n {
            let key = if !self.keys.is_empty() && rng.chance(3, 5) {
                *rng.pick(&self.keys)
            } else {
                self.next_key += 1;
                self.next_key
            };
            if !keys.contains(&key) || (malformed && rng.chance(1, 3)) {
                keys.push(key);
            }
        }
        for key in &keys {
            if !self.keys.contains(key) {
                self.keys.push(*key);
            }
        }
        keys.iter()
            .map(|key| {
                let mut r = vec![Some(*key)];
                for _ in 1..w {
                    r.push(Some(rng.below(90) as i64 + 200));
                }
                r
            })
            .collect()
    }
    /// an operation that may go through a stale handle
    fn stale_op(&mut self, rng: &mut Rng, malformed: bool) -> Op {
        match rng.below(10) {
            0..=2 => {
                let n = 1 + rng.usize(3);
                Op::Append { f: C18::gen_f(rng), rows: self.fresh_rows(rng, n, false) }
            }
            3..=5 => {
                let n = 1 + rng.usize(2);
                let ks: Vec<i64> = (0..n).map(|_| if self.keys.is_empty() { 1 } else { *rng.pick(&self.keys) }).collect();
                let p = if rng.chance(1, 6) { C18::gen_pred(rng, &self.keys) } else { Pred::In(ks) };
                Op::Update(p, rng.below(90) as i64 + 100)
            }
            6..=7 => {
                let ks: Vec<i64> = vec![if self.keys.is_empty() { 1 } else { *rng.pick(&self.keys) }];
                let p = if rng.chance(1, 5) { C18::gen_pred(rng, &self.keys) } else { Pred::In(ks) };
                Op::Delete(p)
            }
            _ => {
                let w = if self.k == 3 && rng.chance(1, 6) { 2 } else { self.k };
                Op::Upsert(self.upsert_rows(rng, w, malformed))
            }
        }
    }
}

impl Prop for C18 {
    fn id(&self) -> &'static str {
        "C18"
    }

    fn budget(&self, tier: Tier) -> usize {
        match tier {
            Tier::Quick => 260,
            Tier::Thorough => 5000,
            Tier::Search => 2000,
        }
    }

    fn gen_case(&mut self, rng: &mut Rng, _tier: Tier, idx: usize) -> Vec<String> {
        if idx % 9 == 8 {
            return Self::gen_assign(rng);
        }
        let malformed = rng.chance(3, 20);
        let k = if idx % 3 == 2 { 3 } else { 2 };
        let len = 4 + rng.usize(7); // 4..=10 ops
        let mut t = GenTable { k, keys: vec![], next_key: rng.below(5) as i64 };
        let mut cmds: Vec<Cmd> = vec![];
        if malformed && rng.chance(1, 4) {
            cmds.push(Cmd::Call { rv: None, op: Op::Delete(Pred::All) });
        }
        let n0 = 2 + GenTable::n_rows(rng);
        cmds.push(Cmd::Call { rv: None, op: Op::Create { f: Self::gen_f(rng), k, rows: t.fresh_rows(rng, n0, false) } });
        while cmds.len() < len {
            match rng.below(100) {
                0..=13 => {
                    let n = GenTable::n_rows(rng);
                    let rows = t.fresh_rows(rng, n, malformed);
                    cmds.push(Cmd::Call { rv: None, op: Op::Append { f: Self::gen_f(rng), rows } });
                }
                14..=24 => {
                    let p = Self::gen_pred(rng, &t.keys);
                    cmds.push(Cmd::Call { rv: None, op: Op::Update(p, rng.below(90) as i64 + 100) });
                }
                25..=36 => {
                    let w = if k == 3 && rng.chance(1, 2) { 2 } else { k };
                    let rows = t.upsert_rows(rng, w, malformed);
                    cmds.push(Cmd::Call { rv: None, op: Op::Upsert(rows) });
                }
                37..=44 => {
                    let p = Self::gen_pred(rng, &t.keys);
                    let op = if matches!(p, Pred::All) && rng.chance(2, 3) { Op::Delete(Pred::Ge(t.next_key / 2)) } else { Op::Delete(p) };
                    cmds.push(Cmd::Call { rv: None, op });
                }
                45..=56 => cmds.push(Cmd::Call {
                    rv: None,
                    op: Op::Compact { t: *rng.pick(&[2usize, 3, 4, 5, 8, 1000]), m: rng.chance(3, 4) },
                }),
                57..=59 => {
                    t.keys.clear();
                    let n = 1 + GenTable::n_rows(rng);
                    let rows = t.fresh_rows(rng, n, false);
                    cmds.push(Cmd::Call { rv: None, op: Op::Overwrite { f: Self::gen_f(rng), rows } });
                }
                60..=66 => {
                    // one of the (up to 4) previous versions; `cmds.len()` is about the number of versions so far
                    let back = (cmds.len() as u64).saturating_sub(1).clamp(1, 4);
                    cmds.push(Cmd::Restore(Ver::Rel(1 + rng.below(back))))
                }
                67..=94 => {
                    // two (sometimes three) writers that have read the same version commit one after the other
                    let k0 = if rng.chance(3, 4) || cmds.len() < 3 { 0 } else { 1 + rng.below(2) };
                    let n = if rng.chance(1, 4) { 3 } else { 2 };
                    for i in 0..n {
                        let op = t.stale_op(rng, malformed);
                        cmds.push(Cmd::Call { rv: Some(Ver::Rel(k0 + i)), op });
                    }
                }
                _ if malformed => {
                    let c = match rng.below(6) {
                        0 => Cmd::Call { rv: None, op: Op::Append { f: 0, rows: t.fresh_rows(rng, 2, false) } },
                        1 => Cmd::Call { rv: None, op: Op::Compact { t: 0, m: true } },
                        2 => {
                            t.k = 5 - t.k;
                            let r = t.fresh_rows(rng, 2, false);
                            t.k = k;
                            Cmd::Call { rv: if rng.chance(1, 2) { Some(Ver::Rel(0)) } else { None }, op: Op::Append { f: 3, rows: r } }
                        }
                        3 => Cmd::Call { rv: Some(Ver::Rel(rng.below(3))), op: Op::Compact { t: 3, m: true } },
                        4 => Cmd::Call { rv: Some(Ver::Abs(rng.below(30))), op: t.stale_op(rng, true) },
                        _ => Cmd::Restore(Ver::Abs(20 + rng.below(5))),
                    };
                    cmds.push(c);
                }
                _ => {
                    let n = 1 + rng.usize(3);
                    cmds.push(Cmd::Call { rv: None, op: Op::Append { f: Self::gen_f(rng), rows: t.fresh_rows(rng, n, false) } });
                }
            }
        }
        let mut lines: Vec<String> = cmds.iter().map(show_cmd).collect();
        if malformed && rng.chance(1, 3) {
            let i = rng.usize(lines.len());
            lines[i] = match rng.below(5) {
                0 => lines[i].replacen("f=", "f=x", 1),
                1 => format!("{} 7", lines[i]),
                2 => lines[i].replacen(' ', " - ", 1),
                3 => format!("@x {}", lines[i]),
                _ => "vacuum".into(),
            };
        }
        lines
    }

    fn exec_case(&mut self, lines: &[String]) -> CaseResult {
        self.kit.reset_session();
        let uri = self.kit.fresh_uri();
        let mut res = CaseResult::default();
        let debug = std::env::var("C18_DEBUG").is_ok();
        // a handle kept open for the whole case: the in-memory object store lives only while some handle does
        let mut anchor: Option<Dataset> = None;
        // ---- oracle state
        let mut id_key: BTreeMap<u64, Cell> = BTreeMap::new();
        let mut ever_seen: BTreeSet<u64> = BTreeSet::new();
        let mut scan_at: BTreeMap<u64, Vec<Vis>> = BTreeMap::new();
        let mut prev: Option<Obs> = None;
        let mut n_stale_ok = 0usize;
        let mut n_stale_conflict = 0usize;
        let mut n_moving = 0usize;
        let mut n_restore = 0usize;
        let mut max_frags = 0usize;

        for (ln, line) in lines.iter().enumerate() {
            let Some(cmd) = parse_cmd(line) else {
                res.outputs.push("err parse".into());
                res.tags.push("err:parse".into());
                continue;
            };
            let (rv, op): (Option<Ver>, Option<Op>) = match &cmd {
                Cmd::Assign { n, frags } => {
                    res.tags.push("op:assign".into());
                    let all: Vec<u64> = frags.iter().flat_map(|f| f.ids.clone().unwrap_or_default()).collect();
                    if all.iter().any(|i| *i >= *n as u64) || all.iter().collect::<BTreeSet<_>>().len() != all.len() {
                        // ids a fragment carries were assigned earlier: below next_row_id, no id twice
                        res.outputs.push("err ids".into());
                        res.tags.push("err:ids".into());
                        continue;
                    }
                    let out = self.run_assign(*n, frags);
                    res.tags.push(if out.starts_with("ok") { "assign:ok".into() } else { format!("assign:{}", out.replace(' ', "_")) });
                    if out.starts_with("ok") && frags.iter().any(|f| matches!(&f.ids, Some(v) if !v.is_empty() && v.len() < f.phys)) {
                        res.tags.push("assign:partial_fill".into());
                        res.nontrivial = true;
                    }
                    // the property on this function: the ids handed out are exactly n, n+1, … in fragment order
                    if let Some(rest) = out.strip_prefix("ok nrid=") {
                        let (nr, ids) = rest.split_once(" ids=").unwrap_or(("", ""));
                        let mut expect = *n as u64;
                        let mut bad = false;
                        for (f, got) in frags.iter().zip(ids.split('|')) {
                            let got = parse_nat_list(got).unwrap_or_default();
                            let have = f.ids.clone().unwrap_or_default();
                            if got.len() != f.phys || got[..have.len().min(got.len())] != have[..] {
                                bad = true;
                            }
                            for x in got.iter().skip(have.len()) {
                                if *x != expect {
                                    bad = true;
                                }
                                expect += 1;
                            }
                        }
                        if bad || nr.parse::<u64>().ok() != Some(expect) {
                            res.failures.push(OracleFailure {
                                what: format!("assign_row_ids: {line} -> {out}"),
                                key: Some("assign_row_ids_wrong".into()),
                                line: ln,
                            });
                        }
                    } else if out == "err internal" {
                        if !frags.iter().any(|f| matches!(&f.ids, Some(v) if v.len() > f.phys)) {
                            res.failures.push(OracleFailure {
                                what: format!("assign_row_ids refused fragments without excess ids: {line}"),
                                key: Some("assign_row_ids_wrong".into()),
                                line: ln,
                            });
                        }
                    } else {
                        res.failures.push(OracleFailure { what: format!("assign: {line} -> {out}"), key: Some("assign_error".into()), line: ln });
                    }
                    res.outputs.push(out);
                    continue;
                }
                Cmd::Restore(_) => (None, None),
                Cmd::Call { rv, op } => (*rv, Some(op.clone())),
            };
            let opname: &'static str = match &op {
                Some(o) => op_name(o),
                None => "restore",
            };
            res.tags.push(format!("op:{}{opname}", if rv.is_some() { "@" } else { "" }));
            self.fresh_session();
            let have = prev.is_some();
            let latest = prev.as_ref().map(|p| p.version).unwrap_or(0);
            let k = prev.as_ref().map(|p| p.k).unwrap_or(2);
            let reject = |res: &mut CaseResult, kind: &str| {
                res.outputs.push(format!("err {kind}"));
                res.tags.push(format!("err:{kind}"));
            };
            if !have && !(rv.is_none() && matches!(op, Some(Op::Create { .. }))) {
                reject(&mut res, "no_table");
                continue;
            }
            // ---- the version the call reads
            let read_v: u64 = match (&cmd, rv) {
                (Cmd::Restore(v), _) => v.resolve(latest),
                (_, Some(v)) => v.resolve(latest),
                _ => latest,
            };
            if rv.is_some() && !(1..=latest).contains(&read_v) {
                reject(&mut res, "no_version");
                continue;
            }
            if rv.is_some() {
                let unsupported = match op.as_ref().unwrap() {
                    Op::Create { .. } | Op::Overwrite { .. } | Op::Compact { .. } => true,
                    Op::Upsert(rows) => rows[0].len() != k,
                    _ => false,
                };
                if unsupported {
                    reject(&mut res, "stale_unsupported");
                    continue;
                }
            }
            // ---- interpreter-level rejections (on the version the call reads)
            let base: Vec<Vis> = if have { scan_at.get(&read_v).cloned().unwrap_or_default() } else { vec![] };
            let rej: Option<&'static str> = match &op {
                Some(Op::Append { rows, .. }) | Some(Op::Overwrite { rows, .. }) if rows.iter().any(|r| r.len() != k) => Some("width"),
                Some(Op::Upsert(rows)) => {
                    let w = rows[0].len();
                    let keys: Vec<Cell> = rows.iter().map(|r| r[0]).collect();
                    let distinct = keys.iter().collect::<BTreeSet<_>>().len() == keys.len();
                    if base.is_empty() {
                        // merge_insert into a table without visible rows writes the new rows in hash-join order
                        Some("empty_target")
                    } else if !(w == k || (w == 2 && k == 3)) {
                        Some("width")
                    } else if keys.iter().any(|c| c.is_none()) || !distinct {
                        Some("keys")
                    } else if keys.iter().any(|c| base.iter().filter(|t| t.cells[0] == *c).count() > 1) {
                        Some("ambiguous")
                    } else {
                        None
                    }
                }
                _ => None,
            };
            if let Some(kind) = rej {
                reject(&mut res, kind);
                continue;
            }
            // ---- the handle
            let cur: Option<Dataset> = if have {
                let want = if rv.is_some() || matches!(cmd, Cmd::Restore(_)) { Some(read_v) } else { None };
                match self.kit.open(&uri, want) {
                    Ok(d) => Some(d),
                    Err(e) => {
                        if matches!(cmd, Cmd::Restore(_)) && e.kind == ErrKind::NotFound {
                            reject(&mut res, "not_found");
                        } else {
                            res.failures.push(OracleFailure {
                                what: format!("opening the table (version {want:?}) failed: {}", e.msg),
                                key: Some("reopen_error".into()),
                                line: ln,
                            });
                            res.outputs.push("err reopen".into());
                        }
                        continue;
                    }
                }
            } else {
                None
            };
            // ---- run the operation on the real code
            let kit = &self.kit;
            let stale = rv.is_some();
            let knobs = |f: usize| Knobs { max_rows_per_file: Some(f), stable_row_ids: true, ..Default::default() };
            let r: Result<Dataset, KitError> = std::panic::catch_unwind(std::panic::AssertUnwindSafe(|| match &op {
                None => {
                    let mut d = cur.clone().unwrap();
                    kit.lance_call("restore", d.restore())?;
                    Ok(d)
                }
                Some(Op::Create { f, k, rows }) => kit.write(Err(&uri), Mode::Create, &SchemaSpec::ints(*k), &[rows.clone()], &knobs(*f)),
                Some(Op::Append { f, rows }) => {
                    kit.write(Ok(cur.as_ref().unwrap()), Mode::Append, &SchemaSpec::ints(k), &[rows.clone()], &knobs(*f))
                }
                Some(Op::Overwrite { f, rows }) => {
                    kit.write(Ok(cur.as_ref().unwrap()), Mode::Overwrite, &SchemaSpec::ints(k), &[rows.clone()], &knobs(*f))
                }
                Some(Op::Delete(p)) => {
                    let d = cur.clone().unwrap();
                    let mut b = DeleteBuilder::new(Arc::new(d), p.sql());
                    if stale {
                        b = b.conflict_retries(0);
                    }
                    let r = kit.lance_call("delete", b.execute())?;
                    Ok(r.as_ref().clone())
                }
                Some(Op::Update(p, y)) => {
                    let d = cur.clone().unwrap();
                    let r = kit.lance_call("update", async {
                        let mut b = UpdateBuilder::new(Arc::new(d)).update_where(&p.sql())?.set("c1", &y.to_string())?;
                        if stale {
                            b = b.conflict_retries(0);
                        }
                        b.build()?.execute().await
                    })?;
                    Ok(r.new_dataset.as_ref().clone())
                }
                Some(Op::Upsert(rows)) => {
                    let d = cur.clone().unwrap();
                    let spec = SchemaSpec::ints(rows[0].len());
                    let reader = RecordBatchIterator::new(vec![Ok(spec.batch(rows))].into_iter(), spec.arrow_schema());
                    let r = kit.lance_call("merge_insert", async {
                        let mut mb = MergeInsertBuilder::try_new(Arc::new(d), vec!["c0".to_string()])?;
                        mb.when_matched(WhenMatched::UpdateAll).when_not_matched(WhenNotMatched::InsertAll);
                        if stale {
                            mb.conflict_retries(0);
                        }
                        mb.try_build()?.execute_reader(Box::new(reader)).await
                    })?;
                    Ok(r.0.as_ref().clone())
                }
                Some(Op::Compact { t, m }) => {
                    if *t == 0 {
                        return Err(KitError::invalid("harness: target 0"));
                    }
                    let mut d = cur.clone().unwrap();
                    let opts = CompactionOptions {
                        target_rows_per_fragment: *t,
                        materialize_deletions: *m,
                        materialize_deletions_threshold: 0.0,
                        num_threads: Some(1),
                        ..Default::default()
                    };
                    kit.lance_call("compact_files", compact_files(&mut d, opts, None))?;
                    Ok(d)
                }
            }))
            .unwrap_or_else(|e| Err(KitError { kind: ErrKind::Other, msg: format!("PANIC {}", panic_text(e)) }));
            let new_ds = match r {
                Err(e) => {
                    if debug {
                        eprintln!("line {ln}: {:?}: {}", e.kind, e.msg);
                    }
                    if e.msg.starts_with("PANIC") {
                        res.failures.push(OracleFailure { what: format!("{opname}: {}", e.msg), key: Some("panic".into()), line: ln });
                        res.outputs.push("err panic".into());
                    } else {
                        res.outputs.push(format!("err {}", e.kind.as_str()));
                    }
                    if stale && matches!(e.kind, ErrKind::ConflictRetryable | ErrKind::ConflictIncompatible) {
                        n_stale_conflict += 1;
                    }
                    res.tags.push(format!("err:{}", e.kind.as_str()));
                    continue;
                }
                Ok(d) => d,
            };
            drop(cur);
            anchor = Some(new_ds);
            // ---- observe through fresh caches
            self.fresh_session();
            let opened = self.kit.open(&uri, None);
            let obs = opened.as_ref().map_err(|e| e.clone()).and_then(|d| self.observe(d));
            let (ds_now, obs) = match (opened, obs) {
                (Ok(d), Ok(o)) => (d, o),
                (_, Err(e)) | (Err(e), _) => {
                    res.failures.push(OracleFailure {
                        what: format!("after {opname} the table cannot be read: {}", e.msg),
                        key: Some(if e.msg.starts_with("decode:") { "typed_value_mismatch".into() } else { "scan_error".into() }),
                        line: ln,
                    });
                    res.outputs.push("ok unreadable".into());
                    continue;
                }
            };
            let v = obs.version;
            let mut fail = |what: String, key: &str| res.failures.push(OracleFailure { what, key: Some(key.into()), line: ln });
            let is_compact = matches!(op, Some(Op::Compact { .. }));
            let is_restore = op.is_none();
            let wholesale = is_restore || matches!(op, Some(Op::Create { .. }) | Some(Op::Overwrite { .. }));
            // (9) versions are dense: every op publishes the next version; a compaction none or two
            if let Some(p) = &prev {
                let ok = if is_compact { v == p.version || v == p.version + 2 } else { v == p.version + 1 };
                if !ok {
                    fail(format!("{opname} on version {} produced version {v}", p.version), "version_not_dense");
                }
                if is_compact && v == p.version + 2 {
                    scan_at.insert(p.version + 1, p.scan.clone());
                }
            }
            // (1) no id twice
            let mut now: BTreeMap<u64, &Vis> = BTreeMap::new();
            for row in &obs.scan {
                if now.insert(row.rid, row).is_some() {
                    fail(format!("{opname}: version {v} shows row id {} twice", row.rid), "rowid_dup");
                }
            }
            // (2) an id always denotes the same logical row
            for row in &obs.scan {
                match id_key.get(&row.rid) {
                    Some(key) if *key != row.cells[0] => fail(
                        format!("{opname}: row id {} showed key {} before and shows key {} in version {v}", row.rid, show_cell(key), show_cell(&row.cells[0])),
                        "rowid_key_changed",
                    ),
                    _ => {}
                }
            }
            if let Some(p) = &prev {
                // (3) surviving keys keep their id
                if !wholesale {
                    let count = |rows: &[Vis], key: Cell| rows.iter().filter(|r| r.cells[0] == key).count();
                    for old in &p.scan {
                        let key = old.cells[0];
                        if key.is_none() || count(&p.scan, key) != 1 || count(&obs.scan, key) != 1 {
                            continue;
                        }
                        let new = obs.scan.iter().find(|r| r.cells[0] == key).unwrap();
                        if new.rid != old.rid {
                            fail(
                                format!("{opname}: the row with key {} had row id {} and has row id {} in version {v}", show_cell(&key), old.rid, new.rid),
                                "rowid_not_stable",
                            );
                        }
                    }
                }
                // (4) ids that appear are new
                if !is_restore {
                    let before: BTreeSet<u64> = p.scan.iter().map(|r| r.rid).collect();
                    for row in &obs.scan {
                        if before.contains(&row.rid) {
                            continue;
                        }
                        if ever_seen.contains(&row.rid) {
                            fail(format!("{opname}: row id {} handed out again in version {v}", row.rid), "rowid_reused");
                        } else if row.rid < p.nrid {
                            fail(
                                format!("{opname}: new row id {} in version {v} is below the previous next_row_id {}", row.rid, p.nrid),
                                "rowid_below_next",
                            );
                        }
                    }
                }
                if obs.nrid < p.nrid {
                    fail(format!("{opname}: next_row_id went from {} to {}", p.nrid, obs.nrid), "next_row_id_not_above");
                }
            }
            // (8) a restored version shows the version restored
            if is_restore {
                n_restore += 1;
                match scan_at.get(&read_v) {
                    Some(old) => {
                        let a: Vec<(&Row, u64)> = old.iter().map(|r| (&r.cells, r.rid)).collect();
                        let b: Vec<(&Row, u64)> = obs.scan.iter().map(|r| (&r.cells, r.rid)).collect();
                        if a != b {
                            fail(format!("restore of version {read_v} shows different rows / ids in version {v}"), "restore_differs");
                        }
                    }
                    None => {}
                }
            }
            for row in &obs.scan {
                ever_seen.insert(row.rid);
                id_key.entry(row.rid).or_insert(row.cells[0]);
            }
            // (5) next_row_id exceeds every id ever assigned
            if let Some(mx) = ever_seen.iter().next_back() {
                if obs.nrid <= *mx {
                    fail(format!("{opname}: next_row_id {} of version {v} does not exceed row id {mx}", obs.nrid), "next_row_id_not_above");
                }
            }
            // (6) manifest layout = scan
            {
                let live: Vec<(u64, u64)> = obs
                    .frags
                    .iter()
                    .flat_map(|f| f.rows.iter().enumerate().filter(|(_, r)| !r.1).map(move |(i, r)| (r.0, (f.id << 32) | i as u64)))
                    .collect();
                let scanned: Vec<(u64, u64)> = obs.scan.iter().map(|r| (r.rid, r.addr)).collect();
                if live != scanned {
                    fail(format!("{opname}: the scan's _rowid / _rowaddr differ from the manifest's sequences in version {v}"), "scan_vs_manifest");
                }
            }
            // (7) take_rows
            {
                let ids: Vec<u64> = obs.scan.iter().rev().map(|r| r.rid).collect();
                if !ids.is_empty() {
                    match self.take_rows(&ds_now, obs.k, &ids) {
                        Ok(got) => {
                            let want: Vec<(Row, u64)> = obs.scan.iter().rev().map(|r| (r.cells.clone(), r.rid)).collect();
                            if got != want {
                                fail(
                                    format!(
                                        "{opname}: take_rows({}) in version {v} returned {} rows; first difference at {:?}",
                                        show_nat_list(ids.iter().copied()),
                                        got.len(),
                                        got.iter().zip(want.iter()).position(|(a, b)| a != b)
                                    ),
                                    "take_rows_mismatch",
                                );
                            }
                        }
                        Err(e) => fail(format!("{opname}: take_rows of the visible ids failed in version {v}: {}", e.msg), "take_rows_error"),
                    }
                }
                let mut dead: Vec<u64> = ever_seen.iter().copied().filter(|i| !now.contains_key(i)).collect();
                dead.push(obs.nrid + 3);
                let probe_live = obs.scan.first().map(|r| r.rid);
                let mut ask = dead.clone();
                if let Some(l) = probe_live {
                    ask.insert(ask.len() / 2, l);
                }
                match self.take_rows(&ds_now, obs.k, &ask) {
                    Ok(got) => {
                        let want: Vec<(Row, u64)> = probe_live.map(|l| vec![(now[&l].cells.clone(), l)]).unwrap_or_default();
                        if got != want {
                            fail(
                                format!(
                                    "{opname}: take_rows({}) in version {v} (only {:?} is visible) returned ids {}",
                                    show_nat_list(ask.iter().copied()),
                                    probe_live,
                                    show_nat_list(got.iter().map(|g| g.1))
                                ),
                                "take_rows_dead_id",
                            );
                        }
                    }
                    Err(e) => fail(format!("{opname}: take_rows with invisible ids failed in version {v}: {}", e.msg), "take_rows_error"),
                }
                if dead.len() > 1 {
                    res.tags.push("take:dead_ids".into());
                }
            }
            if stale {
                n_stale_ok += 1;
                if read_v < latest {
                    res.tags.push(format!("stale_commit:{opname}"));
                }
            }
            if matches!(op, Some(Op::Update(..)) | Some(Op::Upsert(_))) || (is_compact && prev.as_ref().map(|p| p.version != v).unwrap_or(false)) {
                n_moving += 1;
            }
            max_frags = max_frags.max(obs.frags.len());
            res.tags.push(format!("nfrags:{}", obs.frags.len().min(6)));
            if obs.frags.iter().any(|f| f.rows.iter().any(|r| r.1)) {
                res.tags.push("has_deletions".into());
            }
            if let Some(Op::Upsert(rows)) = &op {
                res.tags.push(if rows[0].len() < k { "upsert:rewrite_columns".into() } else { "upsert:rewrite_rows".into() });
            }
            res.outputs.push(fmt_obs(&obs));
            scan_at.insert(v, obs.scan.clone());
            prev = Some(obs);
        }
        drop(anchor);
        res.tags.push(format!("stale_ok:{}", n_stale_ok.min(4)));
        res.tags.push(format!("stale_conflicts:{}", n_stale_conflict.min(3)));
        if n_restore > 0 {
            res.tags.push("restored".into());
        }
        if prev.is_some() {
            res.nontrivial = n_moving >= 1 && max_frags >= 2 && prev.as_ref().map(|p| p.version >= 3).unwrap_or(false);
        }
        res
    }

    fn rule(&self) -> String {
        "random histories of 4-10 ops on one memory:// dataset with stable row ids, 2 Int64 columns (3 for a third of the cases, which \
         also upsert with a partial source schema): create, then append 14% / update-where 11% / merge_insert upsert 12% (3 in 5 keys \
         exist) / delete 8% / compact_files 12% (target 2-8 or 1000, materialize deletions 3 in 4) / overwrite 3% / restore of one of \
         the 4 previous versions 7% / 28% a block of 2-3 CONCURRENT writers: each of append, update, delete or full-schema upsert goes \
         through a handle checked out at the same read version (the latest one in 3 of 4 blocks, 1-2 versions back otherwise) with \
         conflict_retries(0), committed one after the other, so the second and third are rebased (or refused) over the first; \
         max_rows_per_file 1-6 or 1000, 0-10 rows per write, unique keys (duplicates in the malformed stream), 4% NULL keys; 15% \
         malformed (ops before create, f=0, t=0, wrong width, unknown versions, stale compaction, broken syntax, duplicate upsert \
         keys). Every 9th case is 2-5 `assign` lines: Transaction::assign_row_ids on 1-4 hand-built fragments (no meta / empty / \
         complete / partial / excess ids) committed through CommitBuilder. Every step and every observation runs with fresh session \
         caches; after every step scan with _rowid/_rowaddr, manifest dump, take_rows of all visible ids and of invisible ids. \
         Non-trivial = at least one update / upsert / compaction on a table that had >= 2 fragments and >= 3 versions, or an assign \
         with a partial fill."
            .into()
    }
}

fn main() {
    run_main(C18 { kit: Kit::new() })
}
