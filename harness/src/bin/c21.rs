//! C21: RowIdTreeMap / RowIdMask set semantics and IndexExprResult combination.
//! Interpreter of the C21 line protocol against the real lance-core / lance-index code, a
//! generator of cases, and the property oracle (membership semantics on a probe set).

use std::any::Any;
use std::collections::{BTreeSet, HashMap};
use std::ops::Bound;
use std::sync::Arc;

use async_trait::async_trait;
use deepsize::DeepSizeOf;
use hcommon::*;
use lance_core::utils::mask::{RowIdMask, RowIdTreeMap};
use lance_core::Result;
use lance_index::metrics::{MetricsCollector, NoOpMetricsCollector};
use lance_index::scalar::expression::{
    IndexExprResult, ScalarIndexExpr, ScalarIndexLoader, ScalarIndexSearch,
};
use lance_index::scalar::{
    AnyQuery, CreatedIndex, IndexStore, SargableQuery, ScalarIndex, ScalarIndexParams, SearchResult,
    UpdateCriteria,
};
use lance_index::{Index, IndexType};
use roaring::RoaringBitmap;

#[derive(Clone)]
enum Val {
    Tm(RowIdTreeMap),
    Mask(RowIdMask),
}

// ---------- mock scalar index: returns a fixed SearchResult ----------

#[derive(Debug, Clone)]
struct MockIndex {
    kind: u8, // 0 exact, 1 at most, 2 at least
    map: RowIdTreeMap,
}

impl DeepSizeOf for MockIndex {
    fn deep_size_of_children(&self, _c: &mut deepsize::Context) -> usize {
        0
    }
}

#[async_trait]
impl Index for MockIndex {
    fn as_any(&self) -> &dyn Any {
        self
    }
    fn as_index(self: Arc<Self>) -> Arc<dyn Index> {
        self
    }
    fn as_vector_index(self: Arc<Self>) -> Result<Arc<dyn lance_index::vector::VectorIndex>> {
        unimplemented!()
    }
    fn statistics(&self) -> Result<serde_json::Value> {
        Ok(serde_json::Value::Null)
    }
    async fn prewarm(&self) -> Result<()> {
        Ok(())
    }
    fn index_type(&self) -> IndexType {
        IndexType::BTree
    }
    async fn calculate_included_frags(&self) -> Result<RoaringBitmap> {
        Ok(RoaringBitmap::new())
    }
}

#[async_trait]
impl ScalarIndex for MockIndex {
    async fn search(&self, _q: &dyn AnyQuery, _m: &dyn MetricsCollector) -> Result<SearchResult> {
        Ok(match self.kind {
            0 => SearchResult::Exact(self.map.clone()),
            1 => SearchResult::AtMost(self.map.clone()),
            _ => SearchResult::AtLeast(self.map.clone()),
        })
    }
    fn can_remap(&self) -> bool {
        false
    }
    async fn remap(
        &self,
        _mapping: &HashMap<u64, Option<u64>>,
        _dest: &dyn IndexStore,
    ) -> Result<CreatedIndex> {
        unimplemented!()
    }
    async fn update(
        &self,
        _new_data: datafusion::execution::SendableRecordBatchStream,
        _dest: &dyn IndexStore,
    ) -> Result<CreatedIndex> {
        unimplemented!()
    }
    fn update_criteria(&self) -> UpdateCriteria {
        unimplemented!()
    }
    fn derive_index_params(&self) -> Result<ScalarIndexParams> {
        unimplemented!()
    }
}

struct MockLoader {
    indices: HashMap<String, Arc<MockIndex>>,
}

#[async_trait]
impl ScalarIndexLoader for MockLoader {
    async fn load_index(
        &self,
        _column: &str,
        index_name: &str,
        _metrics: &dyn MetricsCollector,
    ) -> Result<Arc<dyn ScalarIndex>> {
        Ok(self.indices[index_name].clone() as Arc<dyn ScalarIndex>)
    }
}

// ---------- dumping ----------

fn show_bitmap(b: &RoaringBitmap) -> String {
    if b.len() > (1u64 << 31) {
        let c = RoaringBitmap::full() - b;
        format!("![{}]", show_nat_list(c.iter().map(|x| x as u64)))
    } else {
        format!("[{}]", show_nat_list(b.iter().map(|x| x as u64)))
    }
}

/// entries of a tree map recovered from its serialised form: (fragment, None = full)
fn entries(m: &RowIdTreeMap) -> Vec<(u32, Option<RoaringBitmap>)> {
    let mut buf = Vec::new();
    m.serialize_into(&mut buf).unwrap();
    assert_eq!(buf.len(), m.serialized_size(), "serialized_size");
    let rd = |o: usize| u32::from_le_bytes(buf[o..o + 4].try_into().unwrap());
    let n = rd(0);
    let mut o = 4;
    let mut out = vec![];
    for _ in 0..n {
        let f = rd(o);
        let sz = rd(o + 4) as usize;
        o += 8;
        if sz == 0 {
            out.push((f, None));
        } else {
            let bm = RoaringBitmap::deserialize_from(&buf[o..o + sz]).unwrap();
            o += sz;
            out.push((f, Some(bm)));
        }
    }
    assert_eq!(o, buf.len());
    out
}

fn show_tm(m: &RowIdTreeMap) -> String {
    let es = entries(m);
    if es.is_empty() {
        return "{}".into();
    }
    let parts: Vec<String> = es
        .iter()
        .map(|(f, b)| match b {
            None => format!("{f}:F"),
            Some(b) => format!("{f}:{}", show_bitmap(b)),
        })
        .collect();
    format!("{{{}}}", parts.join(" "))
}

fn show_opt_tm(m: &Option<RowIdTreeMap>) -> String {
    match m {
        None => "none".into(),
        Some(m) => show_tm(m),
    }
}

fn show_mask(m: &RowIdMask) -> String {
    format!("allow={} block={}", show_opt_tm(&m.allow_list), show_opt_tm(&m.block_list))
}

fn show_opt_list(l: Option<Vec<u64>>) -> String {
    match l {
        None => "none".into(),
        Some(l) => format!("[{}]", show_nat_list(l)),
    }
}

fn mix(x: u64, salt: u64) -> bool {
    let mut r = Rng(x ^ salt.wrapping_mul(0x9E3779B97F4A7C15));
    r.next_u64() & 1 == 1
}

// expression tree with leaf truth salts
enum E {
    Leaf(u8, String, u64),
    Not(Box<E>),
    And(Box<E>, Box<E>),
    Or(Box<E>, Box<E>),
}

fn parse_expr(toks: &[&str], pos: &mut usize) -> Option<E> {
    let t = *toks.get(*pos)?;
    *pos += 1;
    match t {
        "E" | "M" | "L" => {
            let r = toks.get(*pos)?.to_string();
            let salt: u64 = toks.get(*pos + 1)?.parse().ok()?;
            *pos += 2;
            Some(E::Leaf(
                match t {
                    "E" => 0,
                    "M" => 1,
                    _ => 2,
                },
                r,
                salt,
            ))
        }
        "!" => Some(E::Not(Box::new(parse_expr(toks, pos)?))),
        "&" => {
            let l = parse_expr(toks, pos)?;
            let r = parse_expr(toks, pos)?;
            Some(E::And(Box::new(l), Box::new(r)))
        }
        "|" => {
            let l = parse_expr(toks, pos)?;
            let r = parse_expr(toks, pos)?;
            Some(E::Or(Box::new(l), Box::new(r)))
        }
        _ => None,
    }
}

struct C21 {
    rt: tokio::runtime::Runtime,
}

struct Ctx {
    regs: HashMap<String, Val>,
    probes: BTreeSet<u64>,
    fails: Vec<OracleFailure>,
    tags: Vec<String>,
}

impl Ctx {
    fn tm(&self, r: &str) -> Option<RowIdTreeMap> {
        match self.regs.get(r) {
            Some(Val::Tm(m)) => Some(m.clone()),
            _ => None,
        }
    }
    fn mask(&self, r: &str) -> Option<RowIdMask> {
        match self.regs.get(r) {
            Some(Val::Mask(m)) => Some(m.clone()),
            _ => None,
        }
    }
    fn opt_tm(&self, r: &str) -> Option<Option<RowIdTreeMap>> {
        if r == "none" {
            Some(None)
        } else {
            self.tm(r).map(Some)
        }
    }
    fn add_probe(&mut self, v: u64) {
        for d in [-1i64, 0, 1] {
            if let Some(x) = v.checked_add_signed(d) {
                self.probes.insert(x);
            }
        }
    }
    fn fail(&mut self, line: usize, key: Option<&str>, what: String) {
        self.fails.push(OracleFailure { what, key: key.map(|s| s.to_string()), line });
    }
    /// oracle: `result.contains(x) == expect(x)` on every probe
    fn check_tm(&mut self, line: usize, op: &str, res: &RowIdTreeMap, expect: impl Fn(u64) -> bool, key: impl Fn(u64) -> Option<&'static str>) {
        let probes: Vec<u64> = self.probes.iter().copied().collect();
        for x in probes {
            let got = res.contains(x);
            let want = expect(x);
            if got != want {
                self.fail(line, key(x), format!("{op}: membership of {x} is {got}, set semantics require {want}"));
                return;
            }
        }
    }
    fn check_mask(&mut self, line: usize, op: &str, res: &RowIdMask, expect: impl Fn(u64) -> bool) {
        let probes: Vec<u64> = self.probes.iter().copied().collect();
        for x in probes {
            let got = res.selected(x);
            let want = expect(x);
            if got != want {
                self.fail(line, None, format!("{op}: selected({x}) is {got}, set semantics require {want}"));
                return;
            }
        }
    }
}

fn parse_bound(k: &str, v: &str) -> Option<Bound<u64>> {
    match k {
        "i" => Some(Bound::Included(v.parse().ok()?)),
        "e" => Some(Bound::Excluded(v.parse().ok()?)),
        "u" => Some(Bound::Unbounded),
        _ => None,
    }
}

fn in_range(s: &Bound<u64>, e: &Bound<u64>, x: u64) -> bool {
    (match s {
        Bound::Included(s) => x >= *s,
        Bound::Excluded(s) => x > *s,
        Bound::Unbounded => true,
    }) && (match e {
        Bound::Included(e) => x <= *e,
        Bound::Excluded(e) => x < *e,
        Bound::Unbounded => true,
    })
}

impl C21 {
    fn eval_truth(e: &E, ctx: &Ctx, x: u64) -> bool {
        match e {
            E::Leaf(k, r, salt) => {
                let sel = ctx.tm(r).unwrap().contains(x);
                match k {
                    0 => sel,
                    1 => sel && mix(x, *salt),
                    _ => sel || mix(x, *salt),
                }
            }
            E::Not(i) => !Self::eval_truth(i, ctx, x),
            E::And(l, r) => Self::eval_truth(l, ctx, x) && Self::eval_truth(r, ctx, x),
            E::Or(l, r) => Self::eval_truth(l, ctx, x) || Self::eval_truth(r, ctx, x),
        }
    }

    fn build(e: &E, ctx: &Ctx, loader: &mut MockLoader) -> ScalarIndexExpr {
        match e {
            E::Leaf(k, r, _) => {
                let name = format!("idx{}", loader.indices.len());
                loader
                    .indices
                    .insert(name.clone(), Arc::new(MockIndex { kind: *k, map: ctx.tm(r).unwrap() }));
                ScalarIndexExpr::Query(ScalarIndexSearch {
                    column: "c".into(),
                    index_name: name,
                    query: Arc::new(SargableQuery::IsNull()),
                    needs_recheck: *k != 0,
                })
            }
            E::Not(i) => ScalarIndexExpr::Not(Box::new(Self::build(i, ctx, loader))),
            E::And(l, r) => ScalarIndexExpr::And(
                Box::new(Self::build(l, ctx, loader)),
                Box::new(Self::build(r, ctx, loader)),
            ),
            E::Or(l, r) => ScalarIndexExpr::Or(
                Box::new(Self::build(l, ctx, loader)),
                Box::new(Self::build(r, ctx, loader)),
            ),
        }
    }

    fn step(&self, ctx: &mut Ctx, li: usize, line: &str) -> String {
        let t: Vec<&str> = line.split_whitespace().collect();
        let bad = "bad-op".to_string();
        if t.is_empty() {
            return bad;
        }
        ctx.tags.push(t[0].to_string());
        macro_rules! some {
            ($e:expr) => {
                match $e {
                    Some(v) => v,
                    None => return bad,
                }
            };
        }
        match (t[0], t.len()) {
            ("new", 2) => {
                ctx.regs.insert(t[1].into(), Val::Tm(RowIdTreeMap::new()));
                "ok".into()
            }
            ("ins", 3) => {
                let mut m = some!(ctx.tm(t[1]));
                let v: u64 = some!(t[2].parse().ok());
                ctx.add_probe(v);
                let before = m.clone();
                let r = m.insert(v);
                if r == before.contains(v) {
                    ctx.fail(li, None, format!("insert({v}) returned {r} but contains was {}", !r));
                }
                ctx.check_tm(li, "insert", &m, |x| x == v || before.contains(x), |_| None);
                ctx.regs.insert(t[1].into(), Val::Tm(m));
                r.to_string()
            }
            ("rem", 3) => {
                let mut m = some!(ctx.tm(t[1]));
                let v: u64 = some!(t[2].parse().ok());
                ctx.add_probe(v);
                let before = m.clone();
                let r = m.remove(v);
                if r != before.contains(v) {
                    ctx.fail(li, None, format!("remove({v}) returned {r} but contains was {}", !r));
                }
                ctx.check_tm(li, "remove", &m, |x| x != v && before.contains(x), |_| None);
                ctx.regs.insert(t[1].into(), Val::Tm(m));
                r.to_string()
            }
            ("insr", 6) => {
                let mut m = some!(ctx.tm(t[1]));
                let s = some!(parse_bound(t[2], t[3]));
                let e = some!(parse_bound(t[4], t[5]));
                for b in [&s, &e] {
                    if let Bound::Included(v) | Bound::Excluded(v) = b {
                        ctx.add_probe(*v);
                    }
                }
                let before = m.clone();
                let empty_at_zero = matches!(e, Bound::Excluded(0));
                let c = m.insert_range((s, e));
                ctx.check_tm(
                    li,
                    "insert_range",
                    &m,
                    |x| in_range(&s, &e, x) || before.contains(x),
                    |_| if empty_at_zero { Some("insert_range_empty_at_zero") } else { None },
                );
                // the returned count is the growth of len when both are known
                if let (Some(a), Some(b)) = (before.len(), m.len()) {
                    if b - a != c {
                        ctx.fail(li, if empty_at_zero { Some("insert_range_empty_at_zero") } else { None },
                            format!("insert_range returned {c} but len grew by {}", b - a));
                    }
                }
                ctx.regs.insert(t[1].into(), Val::Tm(m));
                c.to_string()
            }
            ("insfrag", 3) => {
                let mut m = some!(ctx.tm(t[1]));
                let f: u32 = some!(t[2].parse().ok());
                ctx.add_probe((f as u64) << 32);
                let before = m.clone();
                m.insert_fragment(f);
                ctx.check_tm(li, "insert_fragment", &m, |x| (x >> 32) as u32 == f || before.contains(x), |_| None);
                ctx.regs.insert(t[1].into(), Val::Tm(m));
                "ok".into()
            }
            ("insbm", 4) => {
                let mut m = some!(ctx.tm(t[1]));
                let f: u32 = some!(t[2].parse().ok());
                let xs = some!(parse_nat_list(t[3]));
                let bm: RoaringBitmap = xs.iter().map(|x| *x as u32).collect();
                for x in &xs {
                    ctx.add_probe(((f as u64) << 32) | x);
                }
                let before = m.clone();
                m.insert_bitmap(f, bm.clone());
                ctx.check_tm(
                    li,
                    "insert_bitmap",
                    &m,
                    |x| if (x >> 32) as u32 == f { bm.contains(x as u32) } else { before.contains(x) },
                    |_| None,
                );
                ctx.regs.insert(t[1].into(), Val::Tm(m));
                "ok".into()
            }
            ("ext", 3) => {
                let mut m = some!(ctx.tm(t[1]));
                let xs = some!(parse_nat_list(t[2]));
                for x in &xs {
                    ctx.add_probe(*x);
                }
                let before = m.clone();
                if before.is_empty() && li % 2 == 0 {
                    m = xs.iter().copied().collect();
                } else {
                    m.extend(xs.iter().copied());
                }
                ctx.check_tm(li, "extend", &m, |x| xs.contains(&x) || before.contains(x), |_| None);
                ctx.regs.insert(t[1].into(), Val::Tm(m));
                "ok".into()
            }
            ("retain", 3) => {
                let mut m = some!(ctx.tm(t[1]));
                let fs = some!(parse_nat_list(t[2]));
                let before = m.clone();
                m.retain_fragments(fs.iter().map(|x| *x as u32));
                ctx.check_tm(li, "retain_fragments", &m, |x| fs.contains(&(x >> 32)) && before.contains(x), |_| None);
                ctx.regs.insert(t[1].into(), Val::Tm(m));
                "ok".into()
            }
            ("or", 4) | ("and", 4) | ("sub", 4) => {
                let a = some!(ctx.tm(t[2]));
                let b = some!(ctx.tm(t[3]));
                let (r, f): (RowIdTreeMap, fn(bool, bool) -> bool) = match t[0] {
                    "or" => (a.clone() | b.clone(), |x, y| x || y),
                    "and" => (a.clone() & b.clone(), |x, y| x && y),
                    _ => (a.clone() - b.clone(), |x, y| x && !y),
                };
                ctx.check_tm(li, t[0], &r, |x| f(a.contains(x), b.contains(x)), |_| None);
                ctx.regs.insert(t[1].into(), Val::Tm(r));
                "ok".into()
            }
            ("unionall", n) if n >= 2 => {
                let ms: Option<Vec<RowIdTreeMap>> = t[2..].iter().map(|r| ctx.tm(r)).collect();
                let ms = some!(ms);
                let refs: Vec<&RowIdTreeMap> = ms.iter().collect();
                let r = RowIdTreeMap::union_all(&refs);
                ctx.check_tm(li, "union_all", &r, |x| ms.iter().any(|m| m.contains(x)), |_| None);
                ctx.regs.insert(t[1].into(), Val::Tm(r));
                "ok".into()
            }
            ("tmmask", 4) => {
                let mut a = some!(ctx.tm(t[2]));
                let k = some!(ctx.mask(t[3]));
                let before = a.clone();
                a.mask(&k);
                ctx.check_tm(li, "mask", &a, |x| before.contains(x) && k.selected(x), |_| None);
                ctx.regs.insert(t[1].into(), Val::Tm(a));
                "ok".into()
            }
            ("contains", 3) => {
                let m = some!(ctx.tm(t[1]));
                let v: u64 = some!(t[2].parse().ok());
                m.contains(v).to_string()
            }
            ("len", 2) => {
                let m = some!(ctx.tm(t[1]));
                let l = m.len();
                if l.map(|n| n > BIG).unwrap_or(false) {
                    return l.unwrap().to_string();
                }
                let ids = m.row_ids().map(|it| it.map(u64::from).collect::<Vec<_>>());
                match (&l, &ids) {
                    (Some(n), Some(ids)) if *n as usize != ids.len() => {
                        ctx.fail(li, None, format!("len {n} but row_ids yields {}", ids.len()))
                    }
                    (Some(_), None) | (None, Some(_)) => {
                        ctx.fail(li, None, "len and row_ids disagree on availability".into())
                    }
                    _ => {}
                }
                match l {
                    None => "none".into(),
                    Some(n) => n.to_string(),
                }
            }
            ("isempty", 2) => {
                let m = some!(ctx.tm(t[1]));
                m.is_empty().to_string()
            }
            ("ids", 2) => {
                let m = some!(ctx.tm(t[1]));
                if m.len().map(|n| n > BIG).unwrap_or(false) {
                    return "big".into();
                }
                let ids = m.row_ids().map(|it| it.map(u64::from).collect::<Vec<_>>());
                if let Some(ids) = &ids {
                    if !ids.windows(2).all(|w| w[0] < w[1]) {
                        ctx.fail(li, None, "row_ids not strictly ascending".into());
                    }
                    if let Some(x) = ids.iter().find(|x| !m.contains(**x)) {
                        ctx.fail(li, None, format!("row_ids yields {x} which is not contained"));
                    }
                    if let Some(x) = ctx.probes.iter().find(|x| m.contains(**x) && ids.binary_search(x).is_err()) {
                        ctx.fail(li, None, format!("row_ids misses contained id {x}"));
                    }
                }
                show_opt_list(ids)
            }
            ("dump", 2) => match ctx.regs.get(t[1]).cloned() {
                Some(Val::Tm(m)) => {
                    // serialisation round trip
                    let mut buf = Vec::new();
                    m.serialize_into(&mut buf).unwrap();
                    let back = RowIdTreeMap::deserialize_from(&buf[..]).unwrap();
                    if back != m {
                        ctx.fail(li, None, "deserialize(serialize(m)) != m".into());
                    }
                    show_tm(&m)
                }
                Some(Val::Mask(m)) => {
                    let arr = m.into_arrow().unwrap();
                    let back = RowIdMask::from_arrow(&arr).unwrap();
                    if back.allow_list != m.allow_list || back.block_list != m.block_list {
                        ctx.fail(li, None, "from_arrow(into_arrow(mask)) != mask".into());
                    }
                    show_mask(&m)
                }
                None => bad,
            },
            ("mask", 4) => {
                let a = some!(ctx.opt_tm(t[2]));
                let b = some!(ctx.opt_tm(t[3]));
                ctx.regs.insert(t[1].into(), Val::Mask(RowIdMask { allow_list: a, block_list: b }));
                "ok".into()
            }
            ("mnot", 3) => {
                let m = some!(ctx.mask(t[2]));
                let r = !m.clone();
                ctx.check_mask(li, "not", &r, |x| !m.selected(x));
                ctx.regs.insert(t[1].into(), Val::Mask(r));
                "ok".into()
            }
            ("mnorm", 3) => {
                let m = some!(ctx.mask(t[2]));
                let r = m.clone().normalize();
                ctx.check_mask(li, "normalize", &r, |x| m.selected(x));
                ctx.regs.insert(t[1].into(), Val::Mask(r));
                "ok".into()
            }
            ("mand", 4) | ("mor", 4) => {
                let a = some!(ctx.mask(t[2]));
                let b = some!(ctx.mask(t[3]));
                let r = if t[0] == "mand" { a.clone() & b.clone() } else { a.clone() | b.clone() };
                let is_and = t[0] == "mand";
                ctx.check_mask(li, t[0], &r, |x| if is_and { a.selected(x) && b.selected(x) } else { a.selected(x) || b.selected(x) });
                ctx.regs.insert(t[1].into(), Val::Mask(r));
                "ok".into()
            }
            ("malsoblock", 4) => {
                let m = some!(ctx.mask(t[2]));
                let tm = some!(ctx.tm(t[3]));
                let r = m.clone().also_block(tm.clone());
                ctx.check_mask(li, "also_block", &r, |x| m.selected(x) && !tm.contains(x));
                ctx.regs.insert(t[1].into(), Val::Mask(r));
                "ok".into()
            }
            ("malsoallow", 4) => {
                let m = some!(ctx.mask(t[2]));
                let tm = some!(ctx.tm(t[3]));
                let r = m.clone().also_allow(tm.clone());
                ctx.check_mask(li, "also_allow", &r, |x| {
                    let allowed = m.allow_list.as_ref().map(|a| a.contains(x)).unwrap_or(true) || tm.contains(x);
                    let blocked = m.block_list.as_ref().map(|b| b.contains(x)).unwrap_or(false);
                    allowed && !blocked
                });
                ctx.regs.insert(t[1].into(), Val::Mask(r));
                "ok".into()
            }
            ("msel", 3) => {
                let m = some!(ctx.mask(t[1]));
                let v: u64 = some!(t[2].parse().ok());
                m.selected(v).to_string()
            }
            ("mmaxlen", 2) => {
                let m = some!(ctx.mask(t[1]));
                let ml = m.max_len();
                // size is consistent with membership and iteration: max_len bounds the number of selected ids
                if let Some(n) = ml {
                    let sel = ctx.probes.iter().filter(|x| m.selected(**x)).count() as u64;
                    if sel > n {
                        ctx.fail(li, None, format!("max_len() = {n} but the mask selects {sel} of the probe ids"));
                    }
                    let small = m.allow_list.as_ref().and_then(|a| a.len()).map(|k| k <= BIG).unwrap_or(false);
                    if small {
                        if let Some(it) = m.iter_ids() {
                            let c = it.count() as u64;
                            if c > n {
                                ctx.fail(li, None, format!("max_len() = {n} but iter_ids() yields {c} ids"));
                            }
                        }
                    }
                }
                match ml {
                    None => "none".into(),
                    Some(n) => n.to_string(),
                }
            }
            ("miter", 2) => {
                let m = some!(ctx.mask(t[1]));
                if m.allow_list.as_ref().and_then(|a| a.len()).map(|n| n > BIG).unwrap_or(false) {
                    return "big".into();
                }
                let ids = m.iter_ids().map(|it| it.map(u64::from).collect::<Vec<_>>());
                if let Some(ids) = &ids {
                    if !ids.windows(2).all(|w| w[0] < w[1]) {
                        ctx.fail(li, None, "iter_ids not strictly ascending".into());
                    }
                    if let Some(x) = ids.iter().find(|x| !m.selected(**x)) {
                        ctx.fail(li, None, format!("iter_ids yields {x} which is not selected"));
                    }
                    if let Some(x) = ctx.probes.iter().find(|x| m.selected(**x) && ids.binary_search(x).is_err()) {
                        ctx.fail(li, None, format!("iter_ids misses selected id {x}"));
                    }
                }
                show_opt_list(ids)
            }
            ("eval", n) if n >= 3 => {
                let mut pos = 2;
                let e = some!(parse_expr(&t, &mut pos));
                if pos != t.len() {
                    return bad;
                }
                fn regs_ok(e: &E, ctx: &Ctx) -> bool {
                    match e {
                        E::Leaf(_, r, _) => ctx.tm(r).is_some(),
                        E::Not(i) => regs_ok(i, ctx),
                        E::And(l, r) | E::Or(l, r) => regs_ok(l, ctx) && regs_ok(r, ctx),
                    }
                }
                if !regs_ok(&e, ctx) {
                    return bad;
                }
                let mut loader = MockLoader { indices: HashMap::new() };
                let expr = Self::build(&e, ctx, &mut loader);
                let res: IndexExprResult = self
                    .rt
                    .block_on(expr.evaluate(&loader, &NoOpMetricsCollector))
                    .unwrap();
                let d = res.discriminant();
                let mask = res.row_id_mask().clone();
                let probes: Vec<u64> = ctx.probes.iter().copied().collect();
                for x in probes {
                    let truth = Self::eval_truth(&e, ctx, x);
                    let sel = mask.selected(x);
                    let ok = match d {
                        0 => sel == truth,
                        1 => !truth || sel,
                        _ => !sel || truth,
                    };
                    if !ok {
                        ctx.fail(
                            li,
                            None,
                            format!(
                                "evaluate: result kind {} selects {x}={sel} but the expression's truth for that row is {truth}",
                                ["Exact", "AtMost", "AtLeast"][d as usize]
                            ),
                        );
                        break;
                    }
                }
                ctx.regs.insert(t[1].into(), Val::Mask(mask));
                d.to_string()
            }
            ("reset", 1) => {
                ctx.regs.clear();
                "ok".into()
            }
            _ => bad,
        }
    }
}

// ---------- generator ----------

const FRAGS: [u64; 4] = [0, 1, 2, 7];
/// maps with more ids than this are never enumerated (a full-fragment bitmap has 2^32 members)
const BIG: u64 = 1 << 20;

fn gen_id(r: &mut Rng) -> u64 {
    let f = *r.pick(&FRAGS);
    let o = match r.below(10) {
        0 => u32::MAX as u64,
        1 => u32::MAX as u64 - 1,
        _ => r.below(6),
    };
    (f << 32) | o
}

fn gen_small_id(r: &mut Rng) -> u64 {
    (r.below(2) << 32) | r.below(3)
}

impl Prop for C21 {
    fn id(&self) -> &'static str {
        "C21"
    }
    fn budget(&self, tier: Tier) -> usize {
        match tier {
            Tier::Quick => 1500,
            Tier::Thorough => 100_000,
            Tier::Search => 80_000,
        }
    }
    fn rule(&self) -> String {
        "random register programs (8-24 ops) over tree maps a,b,c and masks m,n,k: build ops (insert, insert_range with \
         incl/excl/unbounded bounds incl. empty ranges and ranges straddling 2^32, insert_fragment, insert_bitmap, extend, remove), \
         set ops (|,&,-,union_all,mask,retain_fragments), mask ops (not/and/or/normalize/also_block/also_allow) over all four \
         (allow,block) presence shapes, evaluate() on random NOT/AND/OR trees (depth<=3) over Exact/AtMost/AtLeast leaves through a mock \
         index loader; every third case uses the 2-fragment x 3-offset universe. Non-trivial = at least one combining op and one \
         non-empty operand; distinct = distinct op-line text."
            .into()
    }
    fn gen_case(&mut self, r: &mut Rng, _tier: Tier, idx: usize) -> Vec<String> {
        let small = idx % 3 == 0;
        let mut id = |r: &mut Rng| if small { gen_small_id(r) } else { gen_id(r) };
        let mut l: Vec<String> = vec![];
        let tms = ["a", "b", "c"];
        for t in tms {
            l.push(format!("new {t}"));
            let n = r.below(4);
            for _ in 0..n {
                match r.below(12) {
                    0..=3 => l.push(format!("ins {t} {}", id(r))),
                    4..=6 => {
                        // ranges: mostly small, some empty, some straddling a fragment boundary
                        let mut s = id(r);
                        let e = match r.below(48) {
                            0..=7 => s,                                   // empty (excl) or single (incl)
                            8..=15 => s.saturating_sub(r.below(3)),       // inverted / empty
                            16..=23 => {
                                // straddles 2^32: from the last offsets of a fragment into the next one
                                s = (s >> 32) << 32 | (u32::MAX as u64 - r.below(3));
                                ((s >> 32) + 1) << 32 | r.below(3)
                            }
                            _ => s + r.below(5),
                        };
                        let (s, e) = if r.chance(1, 12) { (0, r.below(2)) } else { (s, e) };
                        // an unbounded start materialises every fragment below the end: only near the origin
                        let sk = if r.chance(1, 5) { "e" } else if e < 8 && r.chance(1, 12) { "u" } else { "i" };
                        let ek = if r.chance(1, 2) { "e" } else { "i" };
                        l.push(format!("insr {t} {sk} {s} {ek} {e}"));
                    }
                    // full fragments mostly live on fragments no id uses: removing an id from a full
                    // fragment materialises a 2^32-bit bitmap (512 MiB) in the implementation
                    7 => l.push(format!("insfrag {t} {}", if r.chance(1, 150) { id(r) >> 32 } else { *r.pick(&[3u64, 9]) })),
                    8 => {
                        let k = r.below(4);
                        let xs: Vec<u64> = (0..k).map(|_| id(r) & 0xFFFF_FFFF).collect();
                        // a partial bitmap under a full fragment makes `full - partial` materialise 2^32 bits: rare
                        let f = if r.chance(1, 40) { *r.pick(&[3u64, 9]) } else { id(r) >> 32 };
                        l.push(format!("insbm {t} {f} {}", show_nat_list(xs)));
                    }
                    9 => {
                        let k = r.below(5);
                        let xs: Vec<u64> = (0..k).map(|_| id(r)).collect();
                        l.push(format!("ext {t} {}", show_nat_list(xs)));
                    }
                    _ => l.push(format!("rem {t} {}", id(r))),
                }
            }
        }
        // masks of all four shapes
        let opt = |r: &mut Rng| if r.chance(2, 5) { "none" } else { *r.pick(&tms) };
        for m in ["m", "n", "k"] {
            let a = opt(r);
            let b = opt(r);
            l.push(format!("mask {m} {a} {b}"));
        }
        let masks = ["m", "n", "k"];
        let nops = 4 + r.below(10);
        for _ in 0..nops {
            let t = *r.pick(&tms);
            let a = *r.pick(&tms);
            let b = *r.pick(&tms);
            let m = *r.pick(&masks);
            let n = *r.pick(&masks);
            let k = *r.pick(&masks);
            match r.below(22) {
                0 => l.push(format!("or {t} {a} {b}")),
                1 => l.push(format!("and {t} {a} {b}")),
                2 => l.push(format!("sub {t} {a} {b}")),
                3 => l.push(format!("unionall {t} {a} {b} {}", r.pick(&tms))),
                4 => l.push(format!("tmmask {t} {a} {m}")),
                5 => l.push(format!("retain {t} {}", show_nat_list((0..r.below(3)).map(|_| *r.pick(&FRAGS)).collect::<Vec<_>>()))),
                6 => l.push(format!("rem {t} {}", id(r))),
                7 => l.push(format!("mnot {m} {n}")),
                8 => l.push(format!("mand {m} {n} {k}")),
                9 => l.push(format!("mor {m} {n} {k}")),
                10 => l.push(format!("mnorm {m} {n}")),
                11 => l.push(format!("malsoblock {m} {n} {a}")),
                12 => l.push(format!("malsoallow {m} {n} {a}")),
                13 => l.push(format!("len {t}")),
                14 => l.push(format!("ids {t}")),
                15 => l.push(format!("miter {m}")),
                16 => l.push(format!("mmaxlen {m}")),
                17 => l.push(format!("contains {t} {}", id(r))),
                18 => l.push(format!("msel {m} {}", id(r))),
                _ => {
                    fn ge(r: &mut Rng, d: u32, tms: &[&str]) -> String {
                        if d == 0 || r.chance(1, 3) {
                            let k = *r.pick(&["E", "M", "L"]);
                            format!("{k} {} {}", r.pick(tms), r.below(1000))
                        } else {
                            match r.below(3) {
                                0 => format!("! {}", ge(r, d - 1, tms)),
                                1 => format!("& {} {}", ge(r, d - 1, tms), ge(r, d - 1, tms)),
                                _ => format!("| {} {}", ge(r, d - 1, tms), ge(r, d - 1, tms)),
                            }
                        }
                    }
                    l.push(format!("eval {m} {}", ge(r, 3, &tms)));
                }
            }
        }
        for t in tms {
            l.push(format!("dump {t}"));
        }
        for m in masks {
            l.push(format!("dump {m}"));
        }
        l
    }

    fn exec_case(&mut self, lines: &[String]) -> CaseResult {
        let mut ctx = Ctx { regs: HashMap::new(), probes: BTreeSet::new(), fails: vec![], tags: vec![] };
        // probe set: the small universe, u32 / u64 boundaries, plus everything mentioned (added as we go)
        for f in 0..3u64 {
            for o in 0..4u64 {
                ctx.probes.insert((f << 32) | o);
            }
            ctx.probes.insert((f << 32) | u32::MAX as u64);
        }
        ctx.probes.insert(u64::MAX);
        // pre-scan: every number in the case is a probe (so membership is checked around all constants)
        for l in lines {
            for tok in l.split(|c: char| !c.is_ascii_digit()) {
                if let Ok(v) = tok.parse::<u64>() {
                    ctx.add_probe(v);
                }
            }
        }
        let mut outputs = vec![];
        for (i, l) in lines.iter().enumerate() {
            let o = self.step(&mut ctx, i, l);
            outputs.push(o);
        }
        let combining = ["or", "and", "sub", "unionall", "tmmask", "mnot", "mand", "mor", "eval", "malsoblock", "malsoallow"];
        let nontrivial = ctx.tags.iter().any(|t| combining.contains(&t.as_str()))
            && outputs.iter().any(|o| o.contains('[') && !o.contains("[-]"));
        CaseResult { outputs, failures: ctx.fails, tags: ctx.tags, nontrivial }
    }
}

fn main() {
    let rt = tokio::runtime::Builder::new_current_thread().build().unwrap();
    run_main(C21 { rt });
}
