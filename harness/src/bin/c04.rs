//! C04: no lost updates — two committed transactions never both modify the same row.
//!
//! Interpreter of the C04 op lines against the REAL lance code: one `memory://` table (c0 = unique key, c1 = v, c2 = 7 - a
//! column that only exists so that (c0, c1) is a partial schema; rows inserted by `pmrg` have c2 = NULL) of up to three fragments, three `Dataset` handles that go stale on purpose.  A row-modifying transaction is BUILT by the real
//! writer (`DeleteBuilder`, `UpdateBuilder`, `MergeInsertBuilder`, or the older `FileFragment::delete` + `CommitBuilder`
//! route) from the version its handle is at and COMMITTED on whatever the latest version is then: `TransactionRebase::
//! check_txn` against every transaction in between, `finish_delete_update` (row-level rebase by `affected_rows`),
//! `build_manifest`.  `r=0` switches the writer-level retries off (the raw verdict of the conflict resolver is observed),
//! `r=d` leaves the default (10): a retryable conflict makes the writer re-read the latest version and re-apply.
//!
//! ```text
//! create s=<0|1> f=<n> <rows>        rows `key,v;…` with distinct keys; max_rows_per_file = f; s = stable row ids; handles open v1
//! open <h>                           handle h (0..2) := latest version
//! <h> del  r=<0|d> <keys>            DeleteBuilder  "c0 IN (keys)"
//! <h> upd  r=<0|d> <keys>            UpdateBuilder  set c1 = c1 + 100 where c0 IN (keys)            (Update / RewriteRows)
//! <h> mrg  r=<0|d> <rows>            merge_insert on c0: matched -> UpdateAll, not matched -> InsertAll (Update / RewriteRows)
//! <h> pmrg r=<0|d> <rows>            the same with a PARTIAL source schema (c0, c1): matched rows are rewritten in place
//!                                    (Update / RewriteColumns: a new data file per touched fragment, no affected_rows)
//! <h> fdel a=<0|1> <keys>            older writer: FileFragment::delete per fragment -> Operation::Delete -> CommitBuilder,
//!                                    with (a=1) or without (a=0) affected_rows
//! <h> mrgu a=<0|1> <rows>            merge_insert execute_uncommitted -> CommitBuilder with / without its affected_rows
//! compact                            compact_files on the latest version (materialize deletions, one target fragment)
//! ```
//!
//! Output of a mutating op: `ok|err <kind> v=<latest version> frags=<id:physical rows:deleted:live keys …> scan=<sorted (key,v)>`
//! (the state is dumped after a failure too: a failed transaction must leave no effect); of `open`: `ok v=<version>`.
//! `err parse | no_table | keys` are decided by the interpreter, identically on both sides.
//!
//! Oracle (independent of the Lean model), evaluated after every step from the scans only:
//!  * `failed_commit_changed_rows`  a transaction reported as failed left an effect;
//!  * `conflict_not_retryable`      the loser of a row-level race got anything but RetryableCommitConflict
//!                                  (`retry_failed`: with the default retries and nobody racing the retry it must succeed);
//!  * `both_committed_same_row`     a raw commit succeeded although a transaction committed since its read version had
//!                                  deleted / updated one of the rows it deletes / updates;
//!  * `duplicate_image`             a row this transaction deleted / replaced is still visible (old image next to the new one);
//!  * `resurrected`                 a row killed by an earlier committed transaction is visible again;
//!  * `lost_update`                 the table is not the latest table with this transaction's effect applied
//!                                  (effect = row images killed / written, computed from the scan of the read version; with
//!                                  the default retries the effect re-computed on the latest version is accepted as well).
//! Rows are identified by their image (key, v): every write of the generator uses a value that key never had.  Outside the
//! property and only tagged (`double_insert_same_key`): two concurrent upserts that both INSERT the same absent key both
//! commit - no row is modified twice, but the key is visible twice afterwards.

use std::collections::{BTreeMap, BTreeSet};
use std::panic::{catch_unwind, AssertUnwindSafe};
use std::sync::Arc;

use arrow_array::RecordBatchIterator;
use hcommon::*;
use lance::dataset::optimize::{compact_files, CompactionOptions};
use lance::dataset::transaction::{Operation, Transaction};
use lance::dataset::{CommitBuilder, DeleteBuilder, MergeInsertBuilder, UpdateBuilder, WhenMatched, WhenNotMatched};
use lance::Dataset;
use lance_core::utils::mask::RowIdTreeMap;

#[path = "../tablekit.rs"]
#[allow(dead_code)]
mod tablekit;
use tablekit::*;

const NH: usize = 3;

struct C04 {
    kit: Kit,
}

type KV = (i64, i64);

#[derive(Clone, Debug)]
enum Act {
    Del { retry: bool, keys: Vec<i64> },
    Upd { retry: bool, keys: Vec<i64> },
    Mrg { retry: bool, rows: Vec<KV> },
    PMrg { retry: bool, rows: Vec<KV> },
    FDel { aff: bool, keys: Vec<i64> },
    MrgU { aff: bool, rows: Vec<KV> },
    Compact,
}

#[derive(Clone, Debug)]
enum Op {
    Create { stable: bool, f: usize, rows: Vec<KV> },
    Open(usize),
    Do(usize, Act),
}

fn parse_keys(s: &str) -> Option<Vec<i64>> {
    if s == "-" {
        return Some(vec![]);
    }
    s.split(',').map(|x| if x.bytes().all(|b| b.is_ascii_digit()) && !x.is_empty() && x.len() < 10 { x.parse().ok() } else { None }).collect()
}

fn parse_kvs(s: &str) -> Option<Vec<KV>> {
    if s == "-" {
        return Some(vec![]);
    }
    s.split(';')
        .map(|r| {
            let (k, v) = r.split_once(',')?;
            let ok = |x: &str| !x.is_empty() && x.len() < 10 && x.bytes().all(|b| b.is_ascii_digit());
            if ok(k) && ok(v) {
                Some((k.parse().ok()?, v.parse().ok()?))
            } else {
                None
            }
        })
        .collect()
}

fn show_keys(ks: &[i64]) -> String {
    if ks.is_empty() {
        "-".into()
    } else {
        ks.iter().map(|k| k.to_string()).collect::<Vec<_>>().join(",")
    }
}

fn show_kvs(rows: &[KV]) -> String {
    if rows.is_empty() {
        "-".into()
    } else {
        rows.iter().map(|(k, v)| format!("{k},{v}")).collect::<Vec<_>>().join(";")
    }
}

fn distinct(ks: impl Iterator<Item = i64>) -> bool {
    let v: Vec<i64> = ks.collect();
    v.iter().collect::<BTreeSet<_>>().len() == v.len()
}

fn parse_op(line: &str) -> Option<Op> {
    let t: Vec<&str> = line.split(' ').filter(|x| !x.is_empty()).collect();
    let flag = |s: &str, p: &str, yes: &str, no: &str| -> Option<bool> {
        let v = s.strip_prefix(p)?;
        if v == yes {
            Some(true)
        } else if v == no {
            Some(false)
        } else {
            None
        }
    };
    match t.as_slice() {
        ["create", s, f, rows] => {
            let stable = flag(s, "s=", "1", "0")?;
            let f = f.strip_prefix("f=")?;
            if f.is_empty() || f.len() > 3 || !f.bytes().all(|b| b.is_ascii_digit()) {
                return None;
            }
            let f: usize = f.parse().ok()?;
            if f == 0 {
                return None;
            }
            Some(Op::Create { stable, f, rows: parse_kvs(rows)? })
        }
        ["open", h] => {
            let h: usize = if h.len() == 1 { h.parse().ok()? } else { return None };
            (h < NH).then_some(Op::Open(h))
        }
        ["compact"] => Some(Op::Do(0, Act::Compact)),
        [h, kind, fl, arg] => {
            let h: usize = if h.len() == 1 { h.parse().ok()? } else { return None };
            if h >= NH {
                return None;
            }
            let act = match *kind {
                "del" => Act::Del { retry: flag(fl, "r=", "d", "0")?, keys: parse_keys(arg)? },
                "upd" => Act::Upd { retry: flag(fl, "r=", "d", "0")?, keys: parse_keys(arg)? },
                "mrg" => Act::Mrg { retry: flag(fl, "r=", "d", "0")?, rows: parse_kvs(arg)? },
                "pmrg" => Act::PMrg { retry: flag(fl, "r=", "d", "0")?, rows: parse_kvs(arg)? },
                "fdel" => Act::FDel { aff: flag(fl, "a=", "1", "0")?, keys: parse_keys(arg)? },
                "mrgu" => Act::MrgU { aff: flag(fl, "a=", "1", "0")?, rows: parse_kvs(arg)? },
                _ => return None,
            };
            Some(Op::Do(h, act))
        }
        _ => None,
    }
}

fn act_name(a: &Act) -> &'static str {
    match a {
        Act::Del { .. } => "del",
        Act::Upd { .. } => "upd",
        Act::Mrg { .. } => "mrg",
        Act::PMrg { .. } => "pmrg",
        Act::FDel { .. } => "fdel",
        Act::MrgU { .. } => "mrgu",
        Act::Compact => "compact",
    }
}

/// what is observed of a version
#[derive(Clone, Debug)]
struct Obs {
    version: u64,
    /// sorted (key, v) multiset
    scan: Vec<KV>,
    frags: String,
}

/// row-level effect of a transaction, computed from a scan.  A row IMAGE is a (key, v) pair: every write of the generator
/// produces a value never used before for that key, so images identify stored rows without looking at addresses.
#[derive(Clone, Debug, PartialEq)]
struct Effect {
    /// the visible images that die (deleted, or replaced by a new image)
    killed: Vec<KV>,
    /// the images written
    written: Vec<KV>,
    /// keys inserted because no image of them was visible at the read version
    inserted: Vec<i64>,
}

fn effect(at: &[KV], act: &Act) -> Effect {
    let images = |keys: &dyn Fn(i64) -> bool| -> Vec<KV> { at.iter().copied().filter(|r| keys(r.0)).collect() };
    match act {
        Act::Del { keys, .. } | Act::FDel { keys, .. } => Effect { killed: images(&|k| keys.contains(&k)), written: vec![], inserted: vec![] },
        Act::Upd { keys, .. } => {
            let killed = images(&|k| keys.contains(&k));
            Effect { written: killed.iter().map(|r| (r.0, r.1 + 100)).collect(), killed, inserted: vec![] }
        }
        Act::Mrg { rows, .. } | Act::MrgU { rows, .. } | Act::PMrg { rows, .. } => {
            let mut written = vec![];
            let mut inserted = vec![];
            for (k, v) in rows {
                let n = at.iter().filter(|r| r.0 == *k).count();
                if n == 0 {
                    inserted.push(*k);
                }
                for _ in 0..n.max(1) {
                    written.push((*k, *v));
                }
            }
            Effect { killed: images(&|k| rows.iter().any(|r| r.0 == k)), written, inserted }
        }
        Act::Compact => Effect { killed: vec![], written: vec![], inserted: vec![] },
    }
}

/// multiset difference: remove one occurrence of every element of `b`; `None` when an element of `b` is missing
fn minus(a: &[KV], b: &[KV]) -> Option<Vec<KV>> {
    let mut out = a.to_vec();
    for x in b {
        let i = out.iter().position(|y| y == x)?;
        out.remove(i);
    }
    Some(out)
}

/// the latest table with the effect applied; `None` when a killed image is not visible in it any more
fn apply(e: &Effect, latest: &[KV]) -> Option<Vec<KV>> {
    let mut out = minus(latest, &e.killed)?;
    out.extend(e.written.iter().copied());
    out.sort();
    Some(out)
}

impl C04 {
    fn spec() -> SchemaSpec {
        SchemaSpec::ints(3)
    }

    fn fresh_session(&mut self) {
        // new caches, same object store registry (the memory:// store lives in the registry)
        let reg = self.kit.session.store_registry();
        self.kit.session = Arc::new(lance::session::Session::new(64 << 20, 64 << 20, reg));
    }

    fn observe(&self, ds: &Dataset) -> Result<Obs, KitError> {
        let spec = Self::spec();
        let rows = self.kit.scan(ds, &spec, &ScanOpts { ordered: true, with_row_addr: true, ..Default::default() })?;
        let mut scan: Vec<KV> = vec![];
        let mut live: BTreeMap<u64, Vec<i64>> = BTreeMap::new();
        for r in rows.iter() {
            let (Some(k), Some(v), Some(a)) = (r[0], r[1], r[3]) else {
                return Err(KitError::other("NULL cell in a C04 table"));
            };
            scan.push((k, v));
            live.entry((a as u64) >> 32).or_default().push(k);
        }
        scan.sort();
        let mut fr: Vec<String> = vec![];
        for (id, phys, ndel) in Kit::fragments(ds) {
            let mut ks = live.remove(&id).unwrap_or_default();
            ks.sort();
            let ks = if ks.is_empty() { "-".to_string() } else { ks.iter().map(|k| k.to_string()).collect::<Vec<_>>().join("+") };
            fr.push(format!("{id}:{phys}:{ndel}:{ks}"));
        }
        if !live.is_empty() {
            return Err(KitError::other("scan returned rows of a fragment that is not in the manifest"));
        }
        Ok(Obs { version: ds.manifest().version, scan, frags: if fr.is_empty() { "-".into() } else { fr.join(",") } })
    }

    fn reader(rows: &[KV]) -> RecordBatchIterator<std::vec::IntoIter<Result<arrow_array::RecordBatch, arrow_schema::ArrowError>>> {
        let spec = Self::spec();
        let rs: Vec<Row> = rows.iter().map(|(k, v)| vec![Some(*k), Some(*v), Some(7)]).collect();
        RecordBatchIterator::new(vec![Ok(spec.batch(&rs))].into_iter(), spec.arrow_schema())
    }

    /// a source with the partial schema (c0, c1)
    fn reader_partial(rows: &[KV]) -> RecordBatchIterator<std::vec::IntoIter<Result<arrow_array::RecordBatch, arrow_schema::ArrowError>>> {
        let spec = SchemaSpec::ints(2);
        let rs: Vec<Row> = rows.iter().map(|(k, v)| vec![Some(*k), Some(*v)]).collect();
        RecordBatchIterator::new(vec![Ok(spec.batch(&rs))].into_iter(), spec.arrow_schema())
    }

    fn merge_builder(h: &Dataset) -> Result<MergeInsertBuilder, KitError> {
        let mut mb = MergeInsertBuilder::try_new(Arc::new(h.clone()), vec!["c0".to_string()])?;
        mb.when_matched(WhenMatched::UpdateAll).when_not_matched(WhenNotMatched::InsertAll);
        Ok(mb)
    }

    fn run_act(&self, uri: &str, h: &Dataset, act: &Act) -> Result<Option<Dataset>, KitError> {
        let kit = &self.kit;
        let keys_sql = |ks: &[i64]| format!("c0 IN ({})", ks.iter().map(|k| k.to_string()).collect::<Vec<_>>().join(", "));
        match act {
            Act::Del { retry, keys } => {
                let mut b = DeleteBuilder::new(Arc::new(h.clone()), keys_sql(keys));
                if !*retry {
                    b = b.conflict_retries(0);
                }
                let d = kit.lance_call("delete", b.execute())?;
                Ok(Some(d.as_ref().clone()))
            }
            Act::Upd { retry, keys } => {
                let d = h.clone();
                let r = kit.lance_call("update", async {
                    let mut b = UpdateBuilder::new(Arc::new(d)).update_where(&keys_sql(keys))?.set("c1", "c1 + 100")?;
                    if !*retry {
                        b = b.conflict_retries(0);
                    }
                    b.build()?.execute().await
                })?;
                Ok(Some(r.new_dataset.as_ref().clone()))
            }
            Act::Mrg { retry, rows } => {
                let mut mb = Self::merge_builder(h)?;
                if !*retry {
                    mb.conflict_retries(0);
                }
                let job = mb.try_build()?;
                let (d, _stats) = kit.lance_call("merge_insert", job.execute_reader(Box::new(Self::reader(rows))))?;
                Ok(Some(d.as_ref().clone()))
            }
            Act::PMrg { retry, rows } => {
                let mut mb = Self::merge_builder(h)?;
                if !*retry {
                    mb.conflict_retries(0);
                }
                let job = mb.try_build()?;
                let (d, _stats) = kit.lance_call("merge_insert partial", job.execute_reader(Box::new(Self::reader_partial(rows))))?;
                Ok(Some(d.as_ref().clone()))
            }
            Act::MrgU { aff, rows } => {
                let mut mb = Self::merge_builder(h)?;
                let job = mb.try_build()?;
                let un = kit.lance_call("merge_insert uncommitted", job.execute_uncommitted(Box::new(Self::reader(rows))))?;
                let mut cb = CommitBuilder::new(Arc::new(h.clone()));
                if *aff {
                    if let Some(a) = un.affected_rows {
                        cb = cb.with_affected_rows(a);
                    }
                }
                let d = kit.lance_call("commit", cb.execute(un.transaction))?;
                Ok(Some(d))
            }
            Act::FDel { aff, keys } => {
                let pred = keys_sql(keys);
                let mut updated = vec![];
                let mut removed = vec![];
                for frag in h.get_fragments() {
                    let before = frag.metadata().clone();
                    match kit.lance_call("fragment delete", frag.delete(&pred))? {
                        None => removed.push(before.id),
                        Some(f2) => {
                            if f2.metadata().deletion_file != before.deletion_file {
                                updated.push(f2.metadata().clone());
                            }
                        }
                    }
                }
                // the addresses of the rows that die, from the scan of the read version
                let spec = Self::spec();
                let rows = kit.scan(h, &spec, &ScanOpts { ordered: true, with_row_addr: true, ..Default::default() })?;
                let addrs: Vec<u64> =
                    rows.iter().filter(|r| r[0].map(|k| keys.contains(&k)).unwrap_or(false)).filter_map(|r| r[3].map(|a| a as u64)).collect();
                let op = Operation::Delete { updated_fragments: updated, deleted_fragment_ids: removed, predicate: pred };
                let txn = Transaction::new(h.manifest().version, op, None);
                let mut cb = CommitBuilder::new(Arc::new(h.clone()));
                if *aff {
                    cb = cb.with_affected_rows(RowIdTreeMap::from_iter(addrs));
                }
                let d = kit.lance_call("commit", cb.execute(txn))?;
                Ok(Some(d))
            }
            Act::Compact => {
                let mut d = kit.open(uri, None)?;
                let opts = CompactionOptions {
                    target_rows_per_fragment: 1 << 20,
                    materialize_deletions: true,
                    materialize_deletions_threshold: 0.0,
                    num_threads: Some(1),
                    ..Default::default()
                };
                kit.lance_call("compact_files", compact_files(&mut d, opts, None))?;
                Ok(None)
            }
        }
    }
}

// ---------------------------------------------------------------------------------------------- generator

#[derive(Clone, Debug, Default)]
struct Sim {
    /// fragment -> keys as created
    frags: Vec<Vec<i64>>,
    next_new_key: i64,
}

impl Sim {
    /// a key set relative to fragment `f`: whole fragment / one or two rows / rows of two fragments / a key nobody has
    fn keys(&self, rng: &mut Rng, f: usize) -> Vec<i64> {
        let nf = self.frags.len();
        let ks = &self.frags[f % nf];
        let mut out: Vec<i64> = match rng.below(10) {
            0 | 1 => ks.clone(),
            2..=5 => vec![*rng.pick(ks)],
            6 | 7 => {
                let mut o: Vec<i64> = ks.iter().copied().filter(|_| rng.chance(1, 2)).collect();
                if o.is_empty() {
                    o.push(ks[0]);
                }
                o
            }
            _ => {
                let mut o = vec![*rng.pick(ks)];
                let g = &self.frags[(f + 1) % nf];
                o.push(*rng.pick(g));
                if rng.chance(1, 3) {
                    o.extend(g.iter().copied());
                }
                o
            }
        };
        if rng.chance(1, 12) {
            out.push(900 + rng.below(3) as i64);
        }
        out.sort();
        out.dedup();
        out
    }
    fn act(&mut self, rng: &mut Rng, f: usize, line_no: usize, raw_bias: bool) -> Act {
        let retry = if raw_bias { rng.chance(1, 5) } else { rng.chance(1, 2) };
        let keys = self.keys(rng, f);
        let src = |sim: &mut Sim, rng: &mut Rng, keys: &[i64]| -> Vec<KV> {
            let mut rows: Vec<KV> = keys.iter().map(|k| (*k, 1000 * (line_no as i64 + 1) + *k % 1000)).collect();
            if rng.chance(1, 3) {
                let k = sim.next_new_key;
                sim.next_new_key += 1;
                rows.push((k, 1000 * (line_no as i64 + 1) + k % 1000));
            }
            rows
        };
        match rng.below(22) {
            0..=5 => Act::Del { retry, keys },
            6..=11 => Act::Upd { retry, keys },
            12..=15 => {
                let rows = src(self, rng, &keys);
                Act::Mrg { retry, rows }
            }
            16..=17 => Act::FDel { aff: rng.chance(1, 2), keys },
            18..=19 => {
                let rows = src(self, rng, &keys);
                Act::PMrg { retry, rows }
            }
            _ => {
                let rows = src(self, rng, &keys);
                Act::MrgU { aff: rng.chance(2, 3), rows }
            }
        }
    }
}

fn show_act(h: usize, a: &Act) -> String {
    let r = |b: &bool| if *b { "d" } else { "0" };
    let f = |b: &bool| if *b { "1" } else { "0" };
    match a {
        Act::Del { retry, keys } => format!("{h} del r={} {}", r(retry), show_keys(keys)),
        Act::Upd { retry, keys } => format!("{h} upd r={} {}", r(retry), show_keys(keys)),
        Act::Mrg { retry, rows } => format!("{h} mrg r={} {}", r(retry), show_kvs(rows)),
        Act::PMrg { retry, rows } => format!("{h} pmrg r={} {}", r(retry), show_kvs(rows)),
        Act::FDel { aff, keys } => format!("{h} fdel a={} {}", f(aff), show_keys(keys)),
        Act::MrgU { aff, rows } => format!("{h} mrgu a={} {}", f(aff), show_kvs(rows)),
        Act::Compact => "compact".into(),
    }
}

impl Prop for C04 {
    fn id(&self) -> &'static str {
        "C04"
    }

    fn budget(&self, tier: Tier) -> usize {
        match tier {
            Tier::Quick => 260,
            Tier::Thorough => 4000,
            Tier::Search => 1500,
        }
    }

    fn gen_case(&mut self, rng: &mut Rng, _tier: Tier, idx: usize) -> Vec<String> {
        let mut sim = Sim { next_new_key: 500, ..Default::default() };
        let mut lines = vec![];
        // table: 1-3 fragments of 2-8 rows, keys 1.., v = 10 + key
        let nf = 1 + rng.usize(3);
        let f = 2 + rng.usize(if idx % 7 == 0 { 7 } else { 3 });
        let n = nf * f - if rng.chance(1, 3) { rng.usize(f.min(2)) } else { 0 };
        let rows: Vec<KV> = (1..=n as i64).map(|k| (k, 10 + k)).collect();
        for c in rows.chunks(f) {
            sim.frags.push(c.iter().map(|r| r.0).collect());
        }
        let stable = rng.chance(1, 3);
        lines.push(format!("create s={} f={f} {}", stable as u8, show_kvs(&rows)));
        // optional preparation: a deletion in fragment 0 so that a deletion file exists at the read version
        if rng.chance(1, 3) && sim.frags[0].len() > 1 {
            let k = sim.frags[0][0];
            lines.push(format!("0 del r=0 {k}"));
            sim.frags[0].remove(0);
            for h in 0..NH {
                lines.push(format!("open {h}"));
            }
        }
        let mut order: Vec<usize> = (0..NH).collect();
        for i in (1..NH).rev() {
            order.swap(i, rng.usize(i + 1));
        }
        if idx % 2 == 0 {
            // two or three transactions built at the same version, focused on one fragment (the row-level rebase)
            let frag = rng.usize(sim.frags.len());
            let n = 2 + rng.usize(2);
            for i in 0..n {
                let fr = if rng.chance(4, 5) { frag } else { rng.usize(sim.frags.len()) };
                let a = sim.act(rng, fr, lines.len(), true);
                lines.push(show_act(order[i % NH], &a));
                if rng.chance(1, 14) {
                    lines.push("compact".into());
                }
            }
        } else {
            // 3-6 transactions over the three handles, sometimes re-opened, sometimes a compaction in between
            let n = 3 + rng.usize(4);
            for i in 0..n {
                let h = order[i % NH];
                if (i >= NH && rng.chance(1, 2)) || rng.chance(1, 10) {
                    lines.push(format!("open {h}"));
                }
                if rng.chance(1, 10) {
                    lines.push("compact".into());
                }
                let fr = rng.usize(sim.frags.len());
                let a = sim.act(rng, fr, lines.len(), false);
                lines.push(show_act(h, &a));
            }
        }
        // malformed stream (<= 15 %)
        if rng.chance(1, 9) && lines.len() > 2 {
            let i = 1 + rng.usize(lines.len() - 1);
            lines[i] = match rng.below(7) {
                0 => format!("{} extra", lines[i]),
                1 => "7 del r=0 1".into(),
                2 => "0 del r=1 1".into(),
                3 => "1 upd r=0 1,x".into(),
                4 => "0 mrg r=d 1,2,3".into(),
                5 => "open 3".into(),
                _ => "create s=0 f=2 1,1;2,2".into(),
            };
        }
        lines
    }

    fn exec_case(&mut self, lines: &[String]) -> CaseResult {
        self.kit.reset_session();
        let uri = self.kit.fresh_uri();
        let mut res = CaseResult::default();
        let debug = std::env::var("C04_DEBUG").is_ok();
        let mut handles: Vec<Option<Dataset>> = vec![None; NH];
        let mut anchor: Option<Dataset> = None;
        // sorted scan of every version that was the latest after a step
        let mut snaps: BTreeMap<u64, Vec<KV>> = BTreeMap::new();
        // keys whose images the transaction that created a version killed (deleted / replaced)
        let mut killed_at: BTreeMap<u64, Vec<KV>> = BTreeMap::new();
        // keys a committed transaction deleted (and nobody re-inserted since)
        let mut seen_version = 0u64;
        let mut n_stale_ok = 0usize;
        let mut n_conflicts = 0usize;
        let mut n_rebased_same_frag = 0usize;

        for (ln, line) in lines.iter().enumerate() {
            let Some(op) = parse_op(line) else {
                res.outputs.push("err parse".into());
                res.tags.push("err:parse".into());
                continue;
            };
            let (h, act) = match op {
                Op::Create { stable, f, rows } => {
                    if anchor.is_some() {
                        res.outputs.push("err no_table".into());
                        continue;
                    }
                    if rows.is_empty() || !distinct(rows.iter().map(|r| r.0)) {
                        res.outputs.push("err keys".into());
                        continue;
                    }
                    let spec = Self::spec();
                    let rs: Vec<Row> = rows.iter().map(|(k, v)| vec![Some(*k), Some(*v), Some(7)]).collect();
                    let knobs = Knobs { max_rows_per_file: Some(f), stable_row_ids: stable, ..Default::default() };
                    match self.kit.create(&uri, &spec, &[rs], &knobs) {
                        Ok(d) => {
                            for hh in handles.iter_mut() {
                                *hh = Some(d.clone());
                            }
                            seen_version = d.manifest().version;
                            res.tags.push("op:create".into());
                            res.tags.push(format!("frags:{}", d.get_fragments().len()));
                            match self.observe(&d) {
                                Ok(o) => {
                                    snaps.insert(o.version, o.scan.clone());
                                    res.outputs.push(format!("ok v={} frags={} scan={}", o.version, o.frags, show_kvs(&o.scan)));
                                }
                                Err(e) => res.outputs.push(format!("err observe {}", e.kind.as_str())),
                            }
                            anchor = Some(d);
                        }
                        Err(e) => {
                            if debug {
                                eprintln!("create: {}", e.msg);
                            }
                            res.outputs.push(format!("err {} v=0", e.kind.as_str()));
                        }
                    }
                    continue;
                }
                Op::Open(h) => {
                    if anchor.is_none() {
                        res.outputs.push("err no_table".into());
                        continue;
                    }
                    match self.kit.open(&uri, None) {
                        Ok(d) => {
                            res.outputs.push(format!("ok v={}", d.manifest().version));
                            handles[h] = Some(d);
                        }
                        Err(e) => res.outputs.push(format!("err {}", e.kind.as_str())),
                    }
                    res.tags.push("op:open".into());
                    continue;
                }
                Op::Do(h, act) => (h, act),
            };
            let Some(handle) = handles[h].clone() else {
                res.outputs.push("err no_table".into());
                continue;
            };
            let name = act_name(&act);
            // ---- interpreter-level rejections (identical in the Lean driver)
            let bad_keys = match &act {
                Act::Del { keys, .. } | Act::Upd { keys, .. } | Act::FDel { keys, .. } => keys.is_empty() || !distinct(keys.iter().copied()),
                Act::Mrg { rows, .. } | Act::MrgU { rows, .. } | Act::PMrg { rows, .. } => rows.is_empty() || !distinct(rows.iter().map(|r| r.0)),
                Act::Compact => false,
            };
            if bad_keys {
                res.outputs.push("err keys".into());
                res.tags.push("err:keys".into());
                continue;
            }
            res.tags.push(format!("op:{name}"));
            let read_version = if matches!(act, Act::Compact) { seen_version } else { handle.manifest().version };
            let stale = read_version < seen_version;
            let retrying = matches!(
                act,
                Act::Del { retry: true, .. } | Act::Upd { retry: true, .. } | Act::Mrg { retry: true, .. } | Act::PMrg { retry: true, .. }
            );
            let before = snaps.get(&seen_version).cloned();
            let at_read = snaps.get(&read_version).cloned();
            // ---- run on the real code
            let r = catch_unwind(AssertUnwindSafe(|| self.run_act(&uri, &handle, &act))).unwrap_or_else(|e| {
                let msg = e
                    .downcast_ref::<String>()
                    .cloned()
                    .or_else(|| e.downcast_ref::<&str>().map(|s| s.to_string()))
                    .unwrap_or_else(|| "panic".into());
                Err(KitError { kind: ErrKind::Other, msg: format!("PANIC {msg}") })
            });
            // ---- observe the latest version through fresh caches
            self.fresh_session();
            let latest = match self.kit.open(&uri, None) {
                Ok(d) => d,
                Err(e) => {
                    res.failures.push(OracleFailure { what: format!("re-opening failed: {}", e.msg), key: Some("reopen_error".into()), line: ln });
                    res.outputs.push("err reopen".into());
                    continue;
                }
            };
            let obs = match self.observe(&latest) {
                Ok(o) => o,
                Err(e) => {
                    res.failures.push(OracleFailure {
                        what: format!("observing v{} failed: {}", latest.manifest().version, e.msg),
                        key: Some("observe_error".into()),
                        line: ln,
                    });
                    res.outputs.push("err observe".into());
                    continue;
                }
            };
            let tail = format!("v={} frags={} scan={}", obs.version, obs.frags, show_kvs(&obs.scan));
            let fail = |key: &str, what: String, res: &mut CaseResult| {
                res.failures.push(OracleFailure { what: format!("`{line}` (built at v{read_version}, latest v{seen_version}): {what}"), key: Some(key.into()), line: ln });
                res.tags.push(format!("oracle:{key}"));
            };
            match &r {
                Err(e) => {
                    if debug {
                        eprintln!("line {ln} `{line}`: {:?}: {}", e.kind, e.msg);
                    }
                    let kind = if e.msg.starts_with("PANIC") { "panic" } else { e.kind.as_str() };
                    res.outputs.push(format!("err {kind} {tail}"));
                    res.tags.push(format!("err:{kind}:{name}"));
                    n_conflicts += 1;
                    // ---- oracle: a failed transaction leaves no effect, and the loser is told to retry
                    if obs.version != seen_version || Some(&obs.scan) != before.as_ref() {
                        fail("failed_commit_changed_rows", format!("reported {kind} but the table went from v{seen_version} {} to v{} {}", before.as_deref().map(show_kvs).unwrap_or_default(), obs.version, show_kvs(&obs.scan)), &mut res);
                    }
                    if kind == "panic" {
                        fail("panic", e.msg.clone(), &mut res);
                    } else if retrying {
                        fail("retry_failed", format!("default retries, nobody racing, still failed: {kind}: {}", e.msg), &mut res);
                    } else if e.kind != ErrKind::ConflictRetryable || !stale {
                        fail("conflict_not_retryable", format!("{kind}: {}", e.msg), &mut res);
                    }
                }
                Ok(d) => {
                    if let Some(d) = d {
                        handles[h] = Some(d.clone());
                    }
                    res.outputs.push(format!("ok {tail}"));
                    if stale && obs.version > seen_version {
                        n_stale_ok += 1;
                        res.tags.push(format!("stale_ok:{name}"));
                    }
                    // ---- oracle: the committed effect
                    if let (Some(before), Some(at_read)) = (&before, &at_read) {
                        let stale_eff = effect(at_read, &act);
                        let fresh_eff = effect(before, &act);
                        let since: Vec<KV> = if read_version < seen_version {
                            killed_at.range(read_version + 1..=seen_version).flat_map(|(_, s)| s.iter().copied()).collect()
                        } else {
                            vec![]
                        };
                        let overlap: Vec<KV> = stale_eff.killed.iter().copied().filter(|x| since.contains(x)).collect();
                        let want_stale = apply(&stale_eff, before);
                        let want_fresh = apply(&fresh_eff, before);
                        let matches_stale = want_stale.as_ref() == Some(&obs.scan) && overlap.is_empty();
                        let matches_fresh = retrying && want_fresh.as_ref() == Some(&obs.scan);
                        if matches!(act, Act::Compact) {
                            if obs.scan != *before {
                                fail("lost_update", format!("compaction changed the rows: {} -> {}", show_kvs(before), show_kvs(&obs.scan)), &mut res);
                            }
                        } else if matches_stale || matches_fresh {
                            let eff = if matches_stale { &stale_eff } else { &fresh_eff };
                            killed_at.insert(obs.version, eff.killed.clone());
                            if stale && matches_stale && !since.is_empty() {
                                n_rebased_same_frag += 1;
                            }
                            if retrying && !matches_stale {
                                res.tags.push(format!("retried:{name}"));
                            }
                            // outside the property (no row is modified twice), recorded only: a key inserted by this
                            // upsert was inserted by a concurrent one as well
                            if eff.inserted.iter().any(|k| before.iter().any(|r| r.0 == *k)) {
                                res.tags.push("double_insert_same_key".into());
                            }
                        } else {
                            // classify
                            let want = if retrying { &want_fresh } else { &want_stale };
                            // a killed image that is still visible next to what replaced it
                            let still: Vec<KV> = stale_eff.killed.iter().copied().filter(|x| obs.scan.contains(x)).collect();
                            // an image somebody killed, gone from the latest version, visible again
                            let back: Vec<KV> = killed_at
                                .values()
                                .flat_map(|s| s.iter().copied())
                                .filter(|x| !before.contains(x) && obs.scan.contains(x) && !stale_eff.written.contains(x) && !fresh_eff.written.contains(x))
                                .collect();
                            if !retrying && !overlap.is_empty() {
                                fail("both_committed_same_row", format!("committed although the rows {} were deleted / updated by transactions committed after v{read_version}; table {}", show_kvs(&overlap), show_kvs(&obs.scan)), &mut res);
                            } else if !back.is_empty() {
                                fail("resurrected", format!("rows {} killed by a committed transaction are visible again: {}", show_kvs(&back), show_kvs(&obs.scan)), &mut res);
                            } else if !retrying && !still.is_empty() {
                                fail("duplicate_image", format!("rows {} killed by this transaction are still visible: {}", show_kvs(&still), show_kvs(&obs.scan)), &mut res);
                            } else {
                                fail("lost_update", format!("table {} but the latest table {} with this transaction's effect is {}", show_kvs(&obs.scan), show_kvs(before), want.as_deref().map(show_kvs).unwrap_or_else(|| "undefined (a row it kills is gone)".into())), &mut res);
                            }
                            killed_at.insert(obs.version, stale_eff.killed.clone());
                        }
                    }
                }
            }
            seen_version = obs.version;
            snaps.insert(obs.version, obs.scan.clone());
            anchor = Some(latest);
        }
        res.nontrivial = n_stale_ok > 0 || n_conflicts > 0;
        if n_stale_ok > 0 {
            res.tags.push("stale_commit".into());
        }
        if n_rebased_same_frag > 0 {
            res.tags.push("rebased_over_row_changes".into());
        }
        if n_conflicts > 0 {
            res.tags.push("conflict".into());
        }
        drop(handles);
        drop(anchor);
        res
    }

    fn rule(&self) -> String {
        "one memory:// table (unique key, v) of 1-3 fragments x 2-8 rows (1 in 3 with stable row ids, 1 in 3 with a deletion \
         file already present) and three handles that go stale. Even cases: 2-3 transactions built at the same version, 4 in 5 \
         aimed at the same fragment (whole fragment / one row / random subset / rows of two fragments / a missing key), raw \
         verdicts preferred (retries off 4 in 5); odd cases: 3-6 transactions over the handles with re-opening and compaction \
         in between, retries on/off evenly. Kinds: delete 30%, update v+100 30%, merge_insert upsert (1 in 3 with a fresh key) \
         18%, the same with a partial source schema (RewriteColumns) 9%, FileFragment::delete + CommitBuilder with/without \
         affected_rows 9%, merge_insert execute_uncommitted + CommitBuilder with/without affected_rows 9%. 1 in 9 cases gets a malformed line. After every step the result class, \
         version, fragments (physical rows, deleted count, live keys) and the sorted scan are compared with the model; the \
         Rust-side oracle checks disjointness of the modified keys of committed transactions, single visibility of every key, \
         no resurrection, failed = no effect, loser = retryable. Non-trivial = a stale transaction committed or a conflict \
         was reported."
            .into()
    }
}

fn main() {
    run_main(C04 { kit: Kit::new() })
}
