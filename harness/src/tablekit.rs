//! tablekit — shared kit for the "table family" of property checks (histories of writes / scans on
//! REAL lance datasets).  Owned by C11; other bins include it read-only:
//!
//! ```ignore
//! #[path = "../tablekit.rs"]
//! #[allow(dead_code)]
//! mod tablekit;
//! ```
//!
//! The Lean counterpart of the canonical forms is `lean/LanceModel/Table/Basic.lean`
//! (`Cell := Option Int`, `Row := List Cell`, `parseRows` / `showRows`, `parseBatches` / `showBatches`).
//!
//! # Canonical text forms (identical on the Rust and the Lean side; never contain a space)
//!
//! ```text
//! cell     ::= "n" | ["-"] digit+            n = NULL; decimal i64 otherwise
//! row      ::= cell ("," cell)*              a row has >= 1 cell
//! rows     ::= "-" | row (";" row)*          "-" = no rows
//! batches  ::= "_" | rows ("|" rows)*        "_" = zero batches; "-" = one empty batch; "1;2|-|3" = 3 batches (2, 0, 1 rows)
//! natlist  ::= "-" | nat ("," nat)*          (hcommon::show_nat_list)
//! frags    ::= "-" | id ":" rows ":" dels ("," …)*   per-fragment (id, physical_rows, num_deletions), manifest order
//! error    ::= conflict_retryable | conflict_incompatible | invalid_input | not_found | already_exists | other | panic
//! ```
//! `error` is DESIGN.md §1.2's enum plus `already_exists` (`Error::DatasetAlreadyExists`) and `panic`.
//!
//! # Schema of a kit table  (`SchemaSpec`, text form `k=<K> x=<letters|->`)
//!
//! `K >= 0` nullable Int64 columns `c0 … c{K-1}` followed by the optional extra typed columns named by the
//! letters of `x` (any subset, any order; the letter order is the column order):
//!
//! | letter | column | arrow type                     | value derived from the integer key `k`               |
//! |--------|--------|--------------------------------|------------------------------------------------------|
//! | `u`    | `xu`   | Utf8                           | `k` in decimal followed by `abs(k) % 5` times `#`    |
//! | `U`    | `xU`   | LargeUtf8                      | same                                                 |
//! | `f`    | `xf`   | Float32                        | `k as f32` (exact: `abs(k) <= EXTRA_KEY_MAX = 2^20`) |
//! | `s`    | `xs`   | Struct{a: Int32, b: Utf8}      | `a = k`, `b = "t<k>"`; NULL key = both children NULL (written so; a NULL struct also decodes to NULL) |
//! | `l`    | `xl`   | List<Int32>                    | `[k, k+1, …]` of length `abs(k) % 3 + 1`; NULL key = NULL list |
//!
//! A NULL key is a NULL value.  A row of the table is therefore `K + len(x)` cells, every cell an `Option<i64>`:
//! models only ever see integer cells.  On the way back (`SchemaSpec::decode`) every typed value is checked to be
//! *exactly* the derivation of the key it decodes to; anything else is a `DecodeError` (the caller reports it as an
//! oracle failure — it means lance returned a value that was never written).  Extra-column keys must satisfy
//! `abs(k) <= EXTRA_KEY_MAX`; `SchemaSpec::check_rows` validates width and key range (the Lean side has the same check).
//!
//! # Write knobs (`Knobs`, text form `f=<nat|d> g=<nat|d> b=<nat|d> v=<legacy|2.0|2.1|2.2|d> s=<0|1>`)
//!
//! `f` = `WriteParams::max_rows_per_file`, `g` = `max_rows_per_group`, `b` = `max_bytes_per_file`,
//! `v` = `data_storage_version`, `s` = `enable_stable_row_ids`; `d` = leave the lance default.
//!
//! # Op-line grammar used by C11 (other properties extend it with their own ops)
//!
//! ```text
//! create    <knobs> k=<K> x=<letters|-> <batches>     WriteMode::Create   on the case's dataset uri
//! append    <knobs> k=<K> x=<letters|-> <batches>     WriteMode::Append
//! overwrite <knobs> k=<K> x=<letters|-> <batches>     WriteMode::Overwrite
//! ```
//! C11 accepts `b=` only as `d` or `0`.  Output of every write op:
//! `ok v=<manifest version> sv=<legacy|2.0|2.1|2.2> n=<count_rows> frags=<frags> rows=<ordered scan>` or `err <error>`
//! (`err parse` for a line outside the grammar, on both sides).
//!
//! # What the kit offers
//!
//! `Kit::{new, reset_session, block_on, fresh_uri, tempdir_uri, write, create, append, overwrite, open, scan, count_rows}`,
//! `Kit::{fragments, storage_version, spec_of}` (no runtime needed), `SchemaSpec::{parse, show, arrow_schema, batch, decode,
//! check_rows, fixed_width, stored}`, `Knobs::{parse, show, write_params}`, `Mode`, `Ver`, `ScanOpts`, `canon_err`, and the
//! `show_* / parse_*` functions of the canonical forms.  `SchemaSpec::stored(ver, rows)` is the one known lossy step
//! (legacy reads NULLs of Int64 / Float32 columns back as 0 — known finding C11 `legacy_nulls_lost`); models that
//! run histories on legacy tables must apply it too (`LanceModel.C11.storeRow`).  Under legacy, NULL lists come back
//! as empty lists and NULL struct children as (0, NULL): `decode` reports those as errors, generators should avoid them.
//!
//! # Runtime
//!
//! `Kit::new()` builds a current-thread tokio runtime and one lance `Session`.  All `memory://` datasets opened through
//! the same session share one in-memory object store (the registry caches it under the key `memory` while a dataset
//! handle keeps it alive), so uris must be unique: use `Kit::fresh_uri()`.  `Kit::tempdir_uri()` gives a real directory.

use std::sync::atomic::{AtomicU64, Ordering};
use std::sync::Arc;

use arrow_array::builder::{Int32Builder, ListBuilder};
use arrow_array::cast::AsArray;
use arrow_array::types::{Float32Type, Int32Type, Int64Type, UInt64Type};
use arrow_array::{
    Array, ArrayRef, Float32Array, Int32Array, Int64Array, LargeStringArray, RecordBatch, RecordBatchIterator,
    StringArray, StructArray,
};
use arrow_schema::{DataType, Field, Fields, Schema as ArrowSchema};
use lance::dataset::builder::DatasetBuilder;
use lance::dataset::{ReadParams, WriteDestination, WriteMode, WriteParams};
use lance::session::Session;
use lance::Dataset;
use lance_encoding::version::LanceFileVersion;

pub type Cell = Option<i64>;
pub type Row = Vec<Cell>;

pub const EXTRA_KEY_MAX: i64 = 1 << 20;

// ------------------------------------------------------------------------------------------------
// canonical text
// ------------------------------------------------------------------------------------------------

pub fn show_cell(c: &Cell) -> String {
    match c {
        None => "n".into(),
        Some(v) => v.to_string(),
    }
}

pub fn parse_cell(s: &str) -> Option<Cell> {
    if s == "n" {
        return Some(None);
    }
    // strict decimal: optional '-', then digits only (no '+', no spaces)
    let digits = s.strip_prefix('-').unwrap_or(s);
    if digits.is_empty() || !digits.bytes().all(|b| b.is_ascii_digit()) {
        return None;
    }
    s.parse::<i64>().ok().map(Some)
}

pub fn show_row(r: &Row) -> String {
    r.iter().map(show_cell).collect::<Vec<_>>().join(",")
}

pub fn parse_row(s: &str) -> Option<Row> {
    s.split(',').map(parse_cell).collect()
}

pub fn show_rows(rows: &[Row]) -> String {
    if rows.is_empty() {
        "-".into()
    } else {
        rows.iter().map(show_row).collect::<Vec<_>>().join(";")
    }
}

pub fn parse_rows(s: &str) -> Option<Vec<Row>> {
    if s == "-" {
        return Some(vec![]);
    }
    s.split(';').map(parse_row).collect()
}

pub fn show_batches(bs: &[Vec<Row>]) -> String {
    if bs.is_empty() {
        "_".into()
    } else {
        bs.iter().map(|b| show_rows(b)).collect::<Vec<_>>().join("|")
    }
}

pub fn parse_batches(s: &str) -> Option<Vec<Vec<Row>>> {
    if s == "_" {
        return Some(vec![]);
    }
    s.split('|').map(parse_rows).collect()
}

/// per-fragment `(id, physical_rows, num_deletions)` → `id:rows:dels,…` / `-`
pub fn show_frags(fs: &[(u64, usize, usize)]) -> String {
    if fs.is_empty() {
        "-".into()
    } else {
        fs.iter().map(|(i, r, d)| format!("{i}:{r}:{d}")).collect::<Vec<_>>().join(",")
    }
}

// ------------------------------------------------------------------------------------------------
// errors
// ------------------------------------------------------------------------------------------------

#[derive(Clone, Copy, Debug, PartialEq, Eq)]
pub enum ErrKind {
    ConflictRetryable,
    ConflictIncompatible,
    InvalidInput,
    NotFound,
    AlreadyExists,
    Other,
}

impl ErrKind {
    pub fn as_str(&self) -> &'static str {
        match self {
            Self::ConflictRetryable => "conflict_retryable",
            Self::ConflictIncompatible => "conflict_incompatible",
            Self::InvalidInput => "invalid_input",
            Self::NotFound => "not_found",
            Self::AlreadyExists => "already_exists",
            Self::Other => "other",
        }
    }
}

/// A canonicalised lance error: the kind is compared with the model, the message is for humans only.
#[derive(Clone, Debug)]
pub struct KitError {
    pub kind: ErrKind,
    pub msg: String,
}

impl KitError {
    pub fn other(msg: impl Into<String>) -> Self {
        Self { kind: ErrKind::Other, msg: msg.into() }
    }
    pub fn invalid(msg: impl Into<String>) -> Self {
        Self { kind: ErrKind::InvalidInput, msg: msg.into() }
    }
}

pub fn canon_err(e: &lance::Error) -> ErrKind {
    use lance::Error as E;
    match e {
        E::InvalidInput { .. }
        | E::SchemaMismatch { .. }
        | E::Schema { .. }
        | E::InvalidRef { .. }
        | E::InvalidTableLocation { .. } => ErrKind::InvalidInput,
        E::DatasetAlreadyExists { .. } => ErrKind::AlreadyExists,
        E::DatasetNotFound { .. }
        | E::NotFound { .. }
        | E::IndexNotFound { .. }
        | E::RefNotFound { .. }
        | E::VersionNotFound { .. } => ErrKind::NotFound,
        E::CommitConflict { .. } | E::VersionConflict { .. } | E::RefConflict { .. } => ErrKind::ConflictIncompatible,
        E::RetryableCommitConflict { .. } | E::TooMuchWriteContention { .. } => ErrKind::ConflictRetryable,
        _ => ErrKind::Other,
    }
}

impl From<lance::Error> for KitError {
    fn from(e: lance::Error) -> Self {
        let mut msg = e.to_string();
        msg.truncate(300);
        Self { kind: canon_err(&e), msg }
    }
}

impl From<arrow_schema::ArrowError> for KitError {
    fn from(e: arrow_schema::ArrowError) -> Self {
        Self::other(format!("arrow: {e}"))
    }
}

pub type KitResult<T> = std::result::Result<T, KitError>;

// ------------------------------------------------------------------------------------------------
// schema spec, batch construction, decoding
// ------------------------------------------------------------------------------------------------

#[derive(Clone, Copy, Debug, PartialEq, Eq)]
pub enum Extra {
    Utf8,
    LargeUtf8,
    Float32,
    Struct,
    List,
}

impl Extra {
    pub fn letter(&self) -> char {
        match self {
            Self::Utf8 => 'u',
            Self::LargeUtf8 => 'U',
            Self::Float32 => 'f',
            Self::Struct => 's',
            Self::List => 'l',
        }
    }
    pub fn from_letter(c: char) -> Option<Self> {
        Some(match c {
            'u' => Self::Utf8,
            'U' => Self::LargeUtf8,
            'f' => Self::Float32,
            's' => Self::Struct,
            'l' => Self::List,
            _ => return None,
        })
    }
    pub fn all() -> [Self; 5] {
        [Self::Utf8, Self::LargeUtf8, Self::Float32, Self::Struct, Self::List]
    }
    pub fn column(&self) -> String {
        format!("x{}", self.letter())
    }
    fn struct_fields() -> Fields {
        Fields::from(vec![Field::new("a", DataType::Int32, true), Field::new("b", DataType::Utf8, true)])
    }
    pub fn data_type(&self) -> DataType {
        match self {
            Self::Utf8 => DataType::Utf8,
            Self::LargeUtf8 => DataType::LargeUtf8,
            Self::Float32 => DataType::Float32,
            Self::Struct => DataType::Struct(Self::struct_fields()),
            Self::List => DataType::List(Arc::new(Field::new("item", DataType::Int32, true))),
        }
    }
}

pub fn derive_string(k: i64) -> String {
    let mut s = k.to_string();
    for _ in 0..(k.unsigned_abs() % 5) {
        s.push('#');
    }
    s
}

pub fn derive_list(k: i64) -> Vec<i32> {
    let n = (k.unsigned_abs() % 3 + 1) as i64;
    (0..n).map(|j| (k + j) as i32).collect()
}

#[derive(Clone, Debug, PartialEq, Eq)]
pub struct SchemaSpec {
    pub ints: usize,
    pub extras: Vec<Extra>,
}

#[derive(Clone, Debug)]
pub struct DecodeError(pub String);

impl SchemaSpec {
    pub fn ints(k: usize) -> Self {
        Self { ints: k, extras: vec![] }
    }
    pub fn width(&self) -> usize {
        self.ints + self.extras.len()
    }
    /// text of the `x=` token
    pub fn extras_text(&self) -> String {
        if self.extras.is_empty() {
            "-".into()
        } else {
            self.extras.iter().map(|e| e.letter()).collect()
        }
    }
    /// `k=<K> x=<letters|->`
    pub fn show(&self) -> String {
        format!("k={} x={}", self.ints, self.extras_text())
    }
    /// parse the values of the `k=` and `x=` tokens; letters must be distinct, width must be >= 1
    pub fn parse(k: &str, x: &str) -> Option<Self> {
        let ints: usize = parse_opt_usize(k)??;
        if ints > 64 || x.is_empty() {
            return None;
        }
        let mut extras = vec![];
        if x != "-" {
            for c in x.chars() {
                let e = Extra::from_letter(c)?;
                if extras.contains(&e) {
                    return None;
                }
                extras.push(e);
            }
        }
        let s = Self { ints, extras };
        if s.width() == 0 {
            return None;
        }
        Some(s)
    }
    pub fn column_names(&self) -> Vec<String> {
        (0..self.ints).map(|i| format!("c{i}")).chain(self.extras.iter().map(|e| e.column())).collect()
    }
    pub fn arrow_schema(&self) -> Arc<ArrowSchema> {
        let mut fields = vec![];
        for i in 0..self.ints {
            fields.push(Field::new(format!("c{i}"), DataType::Int64, true));
        }
        for e in &self.extras {
            fields.push(Field::new(e.column(), e.data_type(), true));
        }
        Arc::new(ArrowSchema::new(fields))
    }
    /// Int64 / Float32 columns: the legacy (0.1) format stores no validity for them (NULL reads back as 0)
    pub fn fixed_width(&self, col: usize) -> bool {
        col < self.ints || self.extras.get(col - self.ints) == Some(&Extra::Float32)
    }
    /// what `rows` read back as after a write with storage version `ver` (identity except for legacy NULLs of
    /// fixed-width columns, which come back as 0 — known finding `legacy_nulls_lost`)
    pub fn stored(&self, ver: Ver, rows: &[Row]) -> Vec<Row> {
        rows.iter()
            .map(|r| {
                r.iter()
                    .enumerate()
                    .map(|(i, c)| if ver == Ver::Legacy && c.is_none() && self.fixed_width(i) { Some(0) } else { *c })
                    .collect()
            })
            .collect()
    }
    /// width and extra-key range check (mirrored by `LanceModel.Table.rowsOk`)
    pub fn check_rows(&self, rows: &[Row]) -> bool {
        rows.iter().all(|r| {
            r.len() == self.width()
                && r[self.ints..].iter().all(|c| c.map(|k| k.abs() <= EXTRA_KEY_MAX).unwrap_or(true))
        })
    }
    /// build one RecordBatch; rows must satisfy `check_rows`
    pub fn batch(&self, rows: &[Row]) -> RecordBatch {
        assert!(self.check_rows(rows), "rows do not fit the schema spec");
        let mut cols: Vec<ArrayRef> = vec![];
        for i in 0..self.ints {
            cols.push(Arc::new(Int64Array::from(rows.iter().map(|r| r[i]).collect::<Vec<_>>())));
        }
        for (j, e) in self.extras.iter().enumerate() {
            let keys: Vec<Cell> = rows.iter().map(|r| r[self.ints + j]).collect();
            let arr: ArrayRef = match e {
                Extra::Utf8 => {
                    Arc::new(StringArray::from(keys.iter().map(|k| k.map(derive_string)).collect::<Vec<_>>()))
                }
                Extra::LargeUtf8 => {
                    Arc::new(LargeStringArray::from(keys.iter().map(|k| k.map(derive_string)).collect::<Vec<_>>()))
                }
                Extra::Float32 => {
                    Arc::new(Float32Array::from(keys.iter().map(|k| k.map(|k| k as f32)).collect::<Vec<_>>()))
                }
                Extra::Struct => {
                    let a = Int32Array::from(keys.iter().map(|k| k.map(|k| k as i32)).collect::<Vec<_>>());
                    let b = StringArray::from(keys.iter().map(|k| k.map(|k| format!("t{k}"))).collect::<Vec<_>>());
                    Arc::new(StructArray::new(Extra::struct_fields(), vec![Arc::new(a), Arc::new(b)], None))
                }
                Extra::List => {
                    let mut b = ListBuilder::new(Int32Builder::new());
                    for k in &keys {
                        match k {
                            None => b.append_null(),
                            Some(k) => {
                                for v in derive_list(*k) {
                                    b.values().append_value(v);
                                }
                                b.append(true);
                            }
                        }
                    }
                    Arc::new(b.finish())
                }
            };
            cols.push(arr);
        }
        RecordBatch::try_new_with_options(
            self.arrow_schema(),
            cols,
            &arrow_array::RecordBatchOptions::new().with_row_count(Some(rows.len())),
        )
        .expect("kit batch")
    }

    /// decode a scanned batch back to rows of keys; `meta` names trailing UInt64 columns (`_rowid`, `_rowaddr`) to append
    pub fn decode(&self, batch: &RecordBatch, meta: &[&str]) -> std::result::Result<Vec<Row>, DecodeError> {
        let n = batch.num_rows();
        let mut rows: Vec<Row> = vec![Vec::with_capacity(self.width() + meta.len()); n];
        let col = |name: &str| -> std::result::Result<&ArrayRef, DecodeError> {
            batch.column_by_name(name).ok_or_else(|| DecodeError(format!("column {name} missing from the scan result")))
        };
        let bad = |name: &str, i: usize, what: String| DecodeError(format!("column {name} row {i}: {what}"));
        for i in 0..self.ints {
            let name = format!("c{i}");
            let a = col(&name)?;
            let a = a
                .as_primitive_opt::<Int64Type>()
                .ok_or_else(|| DecodeError(format!("column {name} has type {:?}", a.data_type())))?;
            for (r, row) in rows.iter_mut().enumerate() {
                row.push(if a.is_null(r) { None } else { Some(a.value(r)) });
            }
        }
        for e in &self.extras {
            let name = e.column();
            let a = col(&name)?;
            if a.data_type() != &e.data_type() {
                return Err(DecodeError(format!("column {name} has type {:?}", a.data_type())));
            }
            for (r, row) in rows.iter_mut().enumerate() {
                let cell: Cell = match e {
                    Extra::Utf8 | Extra::LargeUtf8 => {
                        let s: Option<&str> = if a.is_null(r) {
                            None
                        } else if *e == Extra::Utf8 {
                            Some(a.as_string::<i32>().value(r))
                        } else {
                            Some(a.as_string::<i64>().value(r))
                        };
                        match s {
                            None => None,
                            Some(s) => {
                                let k: i64 = s
                                    .trim_end_matches('#')
                                    .parse()
                                    .map_err(|_| bad(&name, r, format!("string {s:?} is not a derived value")))?;
                                if derive_string(k) != s {
                                    return Err(bad(&name, r, format!("string {s:?} is not the derivation of {k}")));
                                }
                                Some(k)
                            }
                        }
                    }
                    Extra::Float32 => {
                        let f = a.as_primitive::<Float32Type>();
                        if f.is_null(r) {
                            None
                        } else {
                            let v = f.value(r);
                            let k = v as i64;
                            if !(v.is_finite() && k.abs() <= EXTRA_KEY_MAX && (k as f32).to_bits() == v.to_bits()) {
                                return Err(bad(&name, r, format!("float bits {:#x} are not a derived value", v.to_bits())));
                            }
                            Some(k)
                        }
                    }
                    Extra::Struct => {
                        let s = a.as_struct();
                        if s.is_null(r) {
                            // never written as such; it is what a column missing from a fragment reads as
                            row.push(None);
                            continue;
                        }
                        let fa = s
                            .column_by_name("a")
                            .and_then(|c| c.as_primitive_opt::<Int32Type>())
                            .ok_or_else(|| bad(&name, r, "child a missing".into()))?;
                        let fb = s
                            .column_by_name("b")
                            .and_then(|c| c.as_string_opt::<i32>())
                            .ok_or_else(|| bad(&name, r, "child b missing".into()))?;
                        match (fa.is_null(r), fb.is_null(r)) {
                            (true, true) => None,
                            (false, false) => {
                                let k = fa.value(r) as i64;
                                if fb.value(r) != format!("t{k}") {
                                    return Err(bad(&name, r, format!("struct ({k}, {:?}) is not a derived value", fb.value(r))));
                                }
                                Some(k)
                            }
                            _ => return Err(bad(&name, r, "struct children disagree on NULL".into())),
                        }
                    }
                    Extra::List => {
                        let l = a.as_list::<i32>();
                        if l.is_null(r) {
                            None
                        } else {
                            let v = l.value(r);
                            let v = v
                                .as_primitive_opt::<Int32Type>()
                                .ok_or_else(|| bad(&name, r, "list items are not Int32".into()))?;
                            if v.is_empty() || v.null_count() > 0 {
                                return Err(bad(&name, r, format!("list of length {} with {} nulls is not a derived value", v.len(), v.null_count())));
                            }
                            let k = v.value(0) as i64;
                            if derive_list(k) != v.values().to_vec() {
                                return Err(bad(&name, r, format!("list {:?} is not the derivation of {k}", v.values())));
                            }
                            Some(k)
                        }
                    }
                };
                row.push(cell);
            }
        }
        for m in meta {
            let a = col(m)?;
            let a = a
                .as_primitive_opt::<UInt64Type>()
                .ok_or_else(|| DecodeError(format!("column {m} has type {:?}", a.data_type())))?;
            for (r, row) in rows.iter_mut().enumerate() {
                row.push(if a.is_null(r) { None } else { Some(a.value(r) as i64) });
            }
        }
        Ok(rows)
    }
}

// ------------------------------------------------------------------------------------------------
// write knobs
// ------------------------------------------------------------------------------------------------

#[derive(Clone, Copy, Debug, PartialEq, Eq)]
pub enum Ver {
    Legacy,
    V2_0,
    V2_1,
    V2_2,
}

impl Ver {
    pub fn all() -> [Self; 4] {
        [Self::Legacy, Self::V2_0, Self::V2_1, Self::V2_2]
    }
    pub fn as_str(&self) -> &'static str {
        match self {
            Self::Legacy => "legacy",
            Self::V2_0 => "2.0",
            Self::V2_1 => "2.1",
            Self::V2_2 => "2.2",
        }
    }
    pub fn parse(s: &str) -> Option<Self> {
        Some(match s {
            "legacy" => Self::Legacy,
            "2.0" => Self::V2_0,
            "2.1" => Self::V2_1,
            "2.2" => Self::V2_2,
            _ => return None,
        })
    }
    pub fn lance(&self) -> LanceFileVersion {
        match self {
            Self::Legacy => LanceFileVersion::Legacy,
            Self::V2_0 => LanceFileVersion::V2_0,
            Self::V2_1 => LanceFileVersion::V2_1,
            Self::V2_2 => LanceFileVersion::V2_2,
        }
    }
    pub fn of_lance(v: LanceFileVersion) -> Option<Self> {
        Some(match v.resolve() {
            LanceFileVersion::Legacy => Self::Legacy,
            LanceFileVersion::V2_0 => Self::V2_0,
            LanceFileVersion::V2_1 => Self::V2_1,
            LanceFileVersion::V2_2 => Self::V2_2,
            _ => return None,
        })
    }
}

/// write mode (lance's `WriteMode` has no `PartialEq`)
#[derive(Clone, Copy, Debug, PartialEq, Eq)]
pub enum Mode {
    Create,
    Append,
    Overwrite,
}

impl Mode {
    pub fn as_str(&self) -> &'static str {
        match self {
            Self::Create => "create",
            Self::Append => "append",
            Self::Overwrite => "overwrite",
        }
    }
    pub fn parse(s: &str) -> Option<Self> {
        Some(match s {
            "create" => Self::Create,
            "append" => Self::Append,
            "overwrite" => Self::Overwrite,
            _ => return None,
        })
    }
    pub fn lance(&self) -> WriteMode {
        match self {
            Self::Create => WriteMode::Create,
            Self::Append => WriteMode::Append,
            Self::Overwrite => WriteMode::Overwrite,
        }
    }
}

/// `None` = leave the lance default
#[derive(Clone, Copy, Debug, Default, PartialEq, Eq)]
pub struct Knobs {
    pub max_rows_per_file: Option<usize>,
    pub max_rows_per_group: Option<usize>,
    pub max_bytes_per_file: Option<usize>,
    pub version: Option<Ver>,
    pub stable_row_ids: bool,
}

fn show_opt<T: ToString>(o: &Option<T>) -> String {
    o.as_ref().map(|v| v.to_string()).unwrap_or_else(|| "d".into())
}

fn parse_opt_usize(s: &str) -> Option<Option<usize>> {
    if s == "d" {
        Some(None)
    } else if !s.is_empty() && s.bytes().all(|b| b.is_ascii_digit()) {
        s.parse().ok().map(Some)
    } else {
        None
    }
}

impl Knobs {
    /// `f=… g=… b=… v=… s=…`
    pub fn show(&self) -> String {
        format!(
            "f={} g={} b={} v={} s={}",
            show_opt(&self.max_rows_per_file),
            show_opt(&self.max_rows_per_group),
            show_opt(&self.max_bytes_per_file),
            self.version.map(|v| v.as_str()).unwrap_or("d"),
            self.stable_row_ids as u8
        )
    }
    /// parse the five tokens `f= g= b= v= s=` (in this order)
    pub fn parse(toks: &[&str]) -> Option<Self> {
        if toks.len() != 5 {
            return None;
        }
        let f = parse_opt_usize(toks[0].strip_prefix("f=")?)?;
        let g = parse_opt_usize(toks[1].strip_prefix("g=")?)?;
        let b = parse_opt_usize(toks[2].strip_prefix("b=")?)?;
        let v = toks[3].strip_prefix("v=")?;
        let version = if v == "d" { None } else { Some(Ver::parse(v)?) };
        let s = match toks[4].strip_prefix("s=")? {
            "0" => false,
            "1" => true,
            _ => return None,
        };
        Some(Self { max_rows_per_file: f, max_rows_per_group: g, max_bytes_per_file: b, version, stable_row_ids: s })
    }
    pub fn write_params(&self, mode: Mode, session: Arc<Session>) -> WriteParams {
        let mut p = WriteParams { mode: mode.lance(), session: Some(session), ..Default::default() };
        if let Some(f) = self.max_rows_per_file {
            p.max_rows_per_file = f;
        }
        if let Some(g) = self.max_rows_per_group {
            p.max_rows_per_group = g;
        }
        if let Some(b) = self.max_bytes_per_file {
            p.max_bytes_per_file = b;
        }
        p.data_storage_version = self.version.map(|v| v.lance());
        p.enable_stable_row_ids = self.stable_row_ids;
        p
    }
}

// ------------------------------------------------------------------------------------------------
// runtime + dataset operations
// ------------------------------------------------------------------------------------------------

static URI_COUNTER: AtomicU64 = AtomicU64::new(0);

#[derive(Clone, Debug, Default)]
pub struct ScanOpts<'a> {
    /// `Scanner::scan_in_order(true)`; when false the result is sorted (canonical multiset form)
    pub ordered: bool,
    pub with_row_id: bool,
    pub with_row_addr: bool,
    pub filter: Option<&'a str>,
    /// time travel: scan `checkout_version(v)` instead of the handle's version
    pub version: Option<u64>,
    pub batch_size: Option<usize>,
}

impl ScanOpts<'_> {
    pub fn ordered() -> Self {
        Self { ordered: true, ..Default::default() }
    }
}

pub struct Kit {
    pub rt: tokio::runtime::Runtime,
    pub session: Arc<Session>,
    /// wall-clock bound of one lance call made through the kit (`lance_call`); exceeding it is reported as
    /// `KitError { kind: Other, msg: "timeout: …" }` instead of hanging the run (a seeded change once made the legacy
    /// chunker emit chunks forever and the writer fill the memory)
    pub op_timeout: std::time::Duration,
    tempdirs: Vec<tempfile::TempDir>,
}

impl Kit {
    pub fn new() -> Self {
        let rt = tokio::runtime::Builder::new_current_thread().enable_all().build().expect("tokio runtime");
        Self { rt, session: Arc::new(Session::default()), op_timeout: std::time::Duration::from_secs(30), tempdirs: vec![] }
    }

    /// drop every cached object of the session (call between cases)
    pub fn reset_session(&mut self) {
        self.session = Arc::new(Session::default());
        self.tempdirs.clear();
    }

    pub fn block_on<F: std::future::Future>(&self, f: F) -> F::Output {
        self.rt.block_on(f)
    }

    /// run one lance call under `op_timeout`
    pub fn lance_call<T, F: std::future::Future<Output = lance::Result<T>>>(&self, what: &str, f: F) -> KitResult<T> {
        let t = self.op_timeout;
        match self.rt.block_on(async move { tokio::time::timeout(t, f).await }) {
            Ok(r) => r.map_err(KitError::from),
            Err(_) => Err(KitError::other(format!("timeout: {what} did not finish within {} s", t.as_secs()))),
        }
    }

    /// a `memory://` uri never handed out before in this process
    pub fn fresh_uri(&self) -> String {
        format!("memory://tk{}", URI_COUNTER.fetch_add(1, Ordering::Relaxed))
    }

    /// a uri inside a fresh temporary directory (removed by `reset_session` / drop)
    pub fn tempdir_uri(&mut self) -> String {
        let d = tempfile::tempdir().expect("tempdir");
        let u = d.path().join("t.lance").to_string_lossy().to_string();
        self.tempdirs.push(d);
        u
    }

    fn reader(spec: &SchemaSpec, batches: &[Vec<Row>]) -> RecordBatchIterator<std::vec::IntoIter<std::result::Result<RecordBatch, arrow_schema::ArrowError>>> {
        let bs: Vec<_> = batches.iter().map(|b| Ok(spec.batch(b))).collect();
        RecordBatchIterator::new(bs.into_iter(), spec.arrow_schema())
    }

    /// `Dataset::write` with the given mode.  `dest`: `Err(uri)` writes to a uri (lance looks the dataset up itself),
    /// `Ok(handle)` writes through an open handle (`WriteDestination::Dataset`).
    pub fn write(
        &self,
        dest: std::result::Result<&Dataset, &str>,
        mode: Mode,
        spec: &SchemaSpec,
        batches: &[Vec<Row>],
        knobs: &Knobs,
    ) -> KitResult<Dataset> {
        if !batches.iter().all(|b| spec.check_rows(b)) {
            return Err(KitError::invalid("kit: rows do not fit the schema spec"));
        }
        let params = knobs.write_params(mode, self.session.clone());
        let reader = Self::reader(spec, batches);
        let r = match dest {
            Ok(ds) => self.lance_call("write", Dataset::write(reader, WriteDestination::Dataset(Arc::new(ds.clone())), Some(params))),
            Err(uri) => self.lance_call("write", Dataset::write(reader, uri, Some(params))),
        };
        r
    }

    pub fn create(&self, uri: &str, spec: &SchemaSpec, batches: &[Vec<Row>], knobs: &Knobs) -> KitResult<Dataset> {
        self.write(Err(uri), Mode::Create, spec, batches, knobs)
    }
    pub fn append(&self, ds: &Dataset, spec: &SchemaSpec, batches: &[Vec<Row>], knobs: &Knobs) -> KitResult<Dataset> {
        self.write(Ok(ds), Mode::Append, spec, batches, knobs)
    }
    pub fn overwrite(&self, ds: &Dataset, spec: &SchemaSpec, batches: &[Vec<Row>], knobs: &Knobs) -> KitResult<Dataset> {
        self.write(Ok(ds), Mode::Overwrite, spec, batches, knobs)
    }

    /// open the latest (or a given) version through the kit's session
    pub fn open(&self, uri: &str, version: Option<u64>) -> KitResult<Dataset> {
        let mut b = DatasetBuilder::from_uri(uri)
            .with_read_params(ReadParams { session: Some(self.session.clone()), ..Default::default() });
        if let Some(v) = version {
            b = b.with_version(v);
        }
        self.lance_call("open", b.load())
    }

    /// the schema spec a dataset currently has, if it is a kit schema
    pub fn spec_of(ds: &Dataset) -> Option<SchemaSpec> {
        let mut ints = 0;
        let mut extras = vec![];
        for f in ds.schema().fields.iter() {
            if let Some(i) = f.name.strip_prefix('c').and_then(|s| s.parse::<usize>().ok()) {
                if i != ints || !extras.is_empty() {
                    return None;
                }
                ints += 1;
            } else {
                let mut cs = f.name.chars();
                if cs.next() != Some('x') {
                    return None;
                }
                extras.push(Extra::from_letter(cs.next()?)?);
            }
        }
        Some(SchemaSpec { ints, extras })
    }

    /// scan to canonical rows.  Meta columns, when requested, are appended as trailing cells in the order
    /// `_rowid`, `_rowaddr`.  Unordered scans are returned sorted.
    pub fn scan(&self, ds: &Dataset, spec: &SchemaSpec, opts: &ScanOpts) -> KitResult<Vec<Row>> {
        let at;
        let ds = match opts.version {
            Some(v) => {
                at = self.lance_call("checkout_version", ds.checkout_version(v))?;
                &at
            }
            None => ds,
        };
        let mut sc = ds.scan();
        sc.scan_in_order(opts.ordered);
        let mut meta = vec![];
        if opts.with_row_id {
            sc.with_row_id();
            meta.push("_rowid");
        }
        if opts.with_row_addr {
            sc.with_row_address();
            meta.push("_rowaddr");
        }
        if let Some(f) = opts.filter {
            sc.filter(f)?;
        }
        if let Some(b) = opts.batch_size {
            sc.batch_size(b);
        }
        let batch = self.lance_call("scan", sc.try_into_batch())?;
        let mut rows = spec.decode(&batch, &meta).map_err(|e| KitError::other(format!("decode: {}", e.0)))?;
        if !opts.ordered {
            rows.sort();
        }
        Ok(rows)
    }

    pub fn count_rows(&self, ds: &Dataset, filter: Option<&str>) -> KitResult<usize> {
        self.lance_call("count_rows", ds.count_rows(filter.map(|s| s.to_string())))
    }

    /// per-fragment `(id, physical_rows, num_deletions)` in manifest order.  A fragment whose manifest entry has no
    /// `physical_rows` is reported with `usize::MAX` rows (never produced by current writers).
    pub fn fragments(ds: &Dataset) -> Vec<(u64, usize, usize)> {
        ds.get_fragments()
            .iter()
            .map(|f| {
                let m = f.metadata();
                (
                    m.id,
                    m.physical_rows.unwrap_or(usize::MAX),
                    m.deletion_file.as_ref().and_then(|d| d.num_deleted_rows).unwrap_or(0),
                )
            })
            .collect()
    }

    /// the storage version recorded in the manifest
    pub fn storage_version(ds: &Dataset) -> Option<Ver> {
        ds.manifest().data_storage_format.lance_file_version().ok().and_then(Ver::of_lance)
    }
}
