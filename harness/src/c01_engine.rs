//! C01 engine: run ONE real lance write operation on a gated in-memory store, releasing its storage calls one at a time
//! (gatekit), with an optional fault (crash / fail-before / lost-response) at the i-th MUTATING call; observe a store.
//!
//! The object store every lance component sees is `GatedObjectStore(shared InMemory)`, injected through the public
//! `ObjectStoreParams::object_store_wrapper` (the wrapper ignores the store lance built and substitutes ours, so that the
//! bytes survive the `Session` / registry the operation ran in).  Observation re-opens the same bytes through a fresh
//! `Session` and an ungated wrapper.
#![allow(dead_code)]

use std::sync::{Arc, Mutex};

use arrow_array::{RecordBatch, RecordBatchIterator};
use futures::TryStreamExt;
use lance::dataset::builder::DatasetBuilder;
use lance::dataset::optimize::{compact_files, CompactionOptions};
use lance::dataset::{
    CommitBuilder, InsertBuilder, MergeInsertBuilder, NewColumnTransform, ReadParams, UpdateBuilder, WhenMatched,
    WhenNotMatched, WriteDestination, WriteMode, WriteParams,
};
use lance_index::DatasetIndexExt;
use lance::session::Session;
use lance::Dataset;
use lance_index::scalar::ScalarIndexParams;
use lance_index::IndexType;
use lance_io::object_store::{ObjectStoreParams, WrappingObjectStore};
use lance_table::io::commit::{
    CommitError, CommitHandler, CommitLease, CommitLock, ConditionalPutCommitHandler, RenameCommitHandler,
};
use object_store::memory::InMemory;
use object_store::path::Path;
use object_store::ObjectStore as OSObjectStore;

use crate::gatekit::{self, Controller, Fault, GateHandle, GatedObjectStore};
use crate::tablekit::{self, canon_err, Row, SchemaSpec};

pub const URI: &str = "memory://c01/t";
pub const BASE: &str = "c01/t";

// ------------------------------------------------------------------------------------------------
// wrappers

#[derive(Debug)]
pub struct GateWrap {
    pub inner: Arc<dyn OSObjectStore>,
    pub h: GateHandle,
}
impl WrappingObjectStore for GateWrap {
    fn wrap(&self, _prefix: &str, _original: Arc<dyn OSObjectStore>) -> Arc<dyn OSObjectStore> {
        Arc::new(GatedObjectStore::new(self.inner.clone(), self.h.clone()))
    }
}

#[derive(Debug)]
pub struct PlainWrap {
    pub inner: Arc<dyn OSObjectStore>,
}
impl WrappingObjectStore for PlainWrap {
    fn wrap(&self, _prefix: &str, _original: Arc<dyn OSObjectStore>) -> Arc<dyn OSObjectStore> {
        self.inner.clone()
    }
}

// ------------------------------------------------------------------------------------------------
// a CommitLock implementation (in-process mutex keyed by nothing: one table per case)

#[derive(Debug, Default)]
pub struct MemLock {
    held: Arc<Mutex<bool>>,
}
pub struct MemLease {
    held: Arc<Mutex<bool>>,
}
#[async_trait::async_trait]
impl CommitLock for MemLock {
    type Lease = MemLease;
    async fn lock(&self, _version: u64) -> std::result::Result<MemLease, CommitError> {
        let mut g = self.held.lock().unwrap();
        if *g {
            // a lease left behind by a crashed writer: the lock service expires it (recommended timeout semantics)
        }
        *g = true;
        Ok(MemLease { held: self.held.clone() })
    }
}
#[async_trait::async_trait]
impl CommitLease for MemLease {
    async fn release(&self, _success: bool) -> std::result::Result<(), CommitError> {
        *self.held.lock().unwrap() = false;
        Ok(())
    }
}

// ------------------------------------------------------------------------------------------------
// configuration and operations

#[derive(Clone, Copy, Debug, PartialEq, Eq)]
pub enum Handler {
    Cond,
    Rename,
    Lock,
}
impl Handler {
    pub fn as_str(&self) -> &'static str {
        match self {
            Self::Cond => "cond",
            Self::Rename => "rename",
            Self::Lock => "lock",
        }
    }
    pub fn parse(s: &str) -> Option<Self> {
        Some(match s {
            "cond" => Self::Cond,
            "rename" => Self::Rename,
            "lock" => Self::Lock,
            _ => return None,
        })
    }
    pub fn make(&self) -> Arc<dyn CommitHandler> {
        match self {
            Self::Cond => Arc::new(ConditionalPutCommitHandler),
            Self::Rename => Arc::new(RenameCommitHandler),
            Self::Lock => Arc::new(MemLock::default()),
        }
    }
}

#[derive(Clone, Copy, Debug, PartialEq, Eq)]
pub struct Cfg {
    pub handler: Handler,
    pub v2: bool,
    pub stable: bool,
}
impl Cfg {
    pub fn show(&self) -> String {
        format!("cfg h={} v2={} s={}", self.handler.as_str(), self.v2 as u8, self.stable as u8)
    }
    pub fn parse(toks: &[&str]) -> Option<Self> {
        if toks.len() != 4 || toks[0] != "cfg" {
            return None;
        }
        let b = |s: &str| match s {
            "0" => Some(false),
            "1" => Some(true),
            _ => None,
        };
        Some(Self {
            handler: Handler::parse(toks[1].strip_prefix("h=")?)?,
            v2: b(toks[2].strip_prefix("v2=")?)?,
            stable: b(toks[3].strip_prefix("s=")?)?,
        })
    }
}

#[derive(Clone, Debug, PartialEq, Eq)]
pub enum Op {
    Create { f: usize, rows: Vec<Row> },
    Append { f: usize, rows: Vec<Row> },
    Overwrite { f: usize, rows: Vec<Row> },
    /// detached append (`CommitBuilder::with_detached(true)`)
    DAppend { f: usize, rows: Vec<Row> },
    /// delete where c0 >= x
    Delete(i64),
    /// set c1 = y where c0 >= x
    Update(i64, i64),
    /// merge_insert on c0: matched -> update all, not matched -> insert
    Upsert { rows: Vec<Row> },
    Compact,
    Index,
    AddCol,
    DropCol,
    Config(u64),
    Restore(u64),
}

fn parse_nat(s: &str) -> Option<u64> {
    if s.is_empty() || s.len() > 18 || !s.bytes().all(|b| b.is_ascii_digit()) {
        return None;
    }
    s.parse().ok()
}
fn parse_int(s: &str) -> Option<i64> {
    tablekit::parse_cell(s)?
}

impl Op {
    pub fn kind(&self) -> &'static str {
        match self {
            Op::Create { .. } => "create",
            Op::Append { .. } => "append",
            Op::Overwrite { .. } => "overwrite",
            Op::DAppend { .. } => "dappend",
            Op::Delete(_) => "delete",
            Op::Update(..) => "update",
            Op::Upsert { .. } => "upsert",
            Op::Compact => "compact",
            Op::Index => "index",
            Op::AddCol => "addcol",
            Op::DropCol => "dropcol",
            Op::Config(_) => "config",
            Op::Restore(_) => "restore",
        }
    }
    pub fn show(&self) -> String {
        match self {
            Op::Create { f, rows } | Op::Append { f, rows } | Op::Overwrite { f, rows } | Op::DAppend { f, rows } => {
                format!("{} f={f} {}", self.kind(), tablekit::show_rows(rows))
            }
            Op::Delete(x) => format!("delete {x}"),
            Op::Update(x, y) => format!("update {x} {y}"),
            Op::Upsert { rows } => format!("upsert {}", tablekit::show_rows(rows)),
            Op::Compact | Op::Index | Op::AddCol | Op::DropCol => self.kind().to_string(),
            Op::Config(n) => format!("config {n}"),
            Op::Restore(v) => format!("restore {v}"),
        }
    }
    pub fn parse(toks: &[&str]) -> Option<Self> {
        let rows_f = |toks: &[&str]| -> Option<(usize, Vec<Row>)> {
            if toks.len() != 3 {
                return None;
            }
            let f = parse_nat(toks[1].strip_prefix("f=")?)? as usize;
            if f == 0 || f > 1000 {
                return None;
            }
            let rows = tablekit::parse_rows(toks[2])?;
            Some((f, rows))
        };
        Some(match *toks.first()? {
            "create" => {
                let (f, rows) = rows_f(toks)?;
                Op::Create { f, rows }
            }
            "append" => {
                let (f, rows) = rows_f(toks)?;
                Op::Append { f, rows }
            }
            "overwrite" => {
                let (f, rows) = rows_f(toks)?;
                Op::Overwrite { f, rows }
            }
            "dappend" => {
                let (f, rows) = rows_f(toks)?;
                Op::DAppend { f, rows }
            }
            "delete" if toks.len() == 2 => Op::Delete(parse_int(toks[1])?),
            "update" if toks.len() == 3 => Op::Update(parse_int(toks[1])?, parse_int(toks[2])?),
            "upsert" if toks.len() == 2 => Op::Upsert { rows: tablekit::parse_rows(toks[1])? },
            "compact" if toks.len() == 1 => Op::Compact,
            "index" if toks.len() == 1 => Op::Index,
            "addcol" if toks.len() == 1 => Op::AddCol,
            "dropcol" if toks.len() == 1 => Op::DropCol,
            "config" if toks.len() == 2 => Op::Config(parse_nat(toks[1])?),
            "restore" if toks.len() == 2 => Op::Restore(parse_nat(toks[1])?),
            _ => return None,
        })
    }
}

/// `@ <fault> <i>`: the fault hits the i-th mutating storage call of the operation (0-based)
#[derive(Clone, Copy, Debug, PartialEq, Eq)]
pub struct FaultAt {
    pub fault: Fault,
    pub at: usize,
}

// ------------------------------------------------------------------------------------------------
// classification of storage calls / paths

/// class letter of a path under the table root: d data, x deletion, i index, t transaction, m final manifest,
/// s staging manifest, o anything else
pub fn class_of(path: &str) -> char {
    let rel = path.strip_prefix(BASE).map(|r| r.trim_start_matches('/')).unwrap_or(path);
    if rel.starts_with("data/") {
        'd'
    } else if rel.starts_with("_deletions/") {
        'x'
    } else if rel.starts_with("_indices/") {
        'i'
    } else if rel.starts_with("_transactions/") {
        't'
    } else if let Some(name) = rel.strip_prefix("_versions/") {
        if name.ends_with(".manifest") {
            'm'
        } else {
            's'
        }
    } else {
        'o'
    }
}

/// `os.<op> <path> [<path2>]` -> `Some(canonical token)` for a mutating call, `None` for a read
pub fn mutating(desc: &str) -> Option<String> {
    let mut it = desc.split(' ');
    let op = it.next()?;
    let p1 = it.next().unwrap_or("");
    let p2 = it.next();
    let c = class_of(p1);
    Some(match op {
        "os.put" => format!("put:{c}"),
        "os.put_create" => format!("putc:{c}"),
        "os.put_update" => format!("putu:{c}"),
        "os.put_multipart" => format!("mput:{c}"),
        "os.delete" => format!("del:{c}"),
        "os.copy" => format!("copy:{c}{}", class_of(p2.unwrap_or(""))),
        "os.rename" => format!("ren:{c}{}", class_of(p2.unwrap_or(""))),
        "os.copy_if_not_exists" => format!("cpine:{c}{}", class_of(p2.unwrap_or(""))),
        "os.rename_if_not_exists" => format!("rine:{c}{}", class_of(p2.unwrap_or(""))),
        _ => return None,
    })
}

// ------------------------------------------------------------------------------------------------
// running one operation

#[derive(Clone, Debug)]
pub enum Outcome {
    /// the operation returned `Ok`; the version of the handle it returned
    Ok(u64),
    Err(String, String),
    Crashed,
    /// the controller could not reach quiescence (a task waits for something that is not a gate)
    Stuck,
}

#[derive(Clone, Debug)]
pub struct Run {
    pub outcome: Outcome,
    /// canonical tokens of the mutating calls released (the faulted one included, suffixed `!crash` / `!fb` / `!lr`)
    pub trace: Vec<String>,
    pub reads: usize,
}

fn spec_k(k: usize) -> SchemaSpec {
    SchemaSpec::ints(k)
}

fn reader(k: usize, rows: &[Row]) -> RecordBatchIterator<std::vec::IntoIter<std::result::Result<RecordBatch, arrow_schema::ArrowError>>> {
    let spec = spec_k(k);
    let bs = if rows.is_empty() { vec![] } else { vec![Ok(spec.batch(rows))] };
    RecordBatchIterator::new(bs.into_iter(), spec.arrow_schema())
}

fn store_params(w: Arc<dyn WrappingObjectStore>) -> ObjectStoreParams {
    ObjectStoreParams { object_store_wrapper: Some(w), ..Default::default() }
}

async fn open(w: Arc<dyn WrappingObjectStore>, handler: Arc<dyn CommitHandler>, version: Option<u64>) -> lance::Result<Dataset> {
    let session = Arc::new(Session::default());
    let mut b = DatasetBuilder::from_uri(URI).with_read_params(ReadParams {
        session: Some(session),
        store_options: Some(store_params(w)),
        commit_handler: Some(handler),
        ..Default::default()
    });
    if let Some(v) = version {
        b = b.with_version(v);
    }
    b.load().await
}

fn write_params(cfg: &Cfg, w: Arc<dyn WrappingObjectStore>, handler: Arc<dyn CommitHandler>, mode: WriteMode, f: usize) -> WriteParams {
    WriteParams {
        mode,
        max_rows_per_file: f,
        store_params: Some(store_params(w)),
        commit_handler: Some(handler),
        enable_stable_row_ids: cfg.stable,
        enable_v2_manifest_paths: cfg.v2,
        session: Some(Arc::new(Session::default())),
        auto_cleanup: None,
        skip_auto_cleanup: true,
        ..Default::default()
    }
}

/// error of one operation: a lance error, or a rejection decided by the interpreter (same rule in the Lean driver)
#[derive(Debug)]
pub enum OpErr {
    Lance(lance::Error),
    /// rows do not have the width of the table (or differ among themselves)
    Width,
    /// the compaction plan has more than one task (tasks commit `ReserveFragments` concurrently; not modelled)
    MultiBin,
    AlreadyExists,
}
impl From<lance::Error> for OpErr {
    fn from(e: lance::Error) -> Self {
        Self::Lance(e)
    }
}

fn width_ok(k: usize, rows: &[Row]) -> bool {
    k > 0 && rows.iter().all(|r| r.len() == k)
}

/// the real operation (everything it does to storage goes through `w`)
async fn do_op(cfg: Cfg, op: Op, w: Arc<dyn WrappingObjectStore>) -> Result<u64, OpErr> {
    let handler = cfg.handler.make();
    if let Op::Create { f, rows } = &op {
        let k = rows.first().map(|r| r.len()).unwrap_or(2);
        if !width_ok(k, rows) {
            return match open(w.clone(), handler.clone(), None).await {
                Ok(_) => Err(OpErr::AlreadyExists),
                Err(_) => Err(OpErr::Width),
            };
        }
        let p = write_params(&cfg, w, handler, WriteMode::Create, *f);
        let ds = Dataset::write(reader(k, rows), URI, Some(p)).await?;
        return Ok(ds.manifest().version);
    }
    let mut ds = open(w.clone(), handler.clone(), None).await?;
    let k = ds.schema().fields.len();
    match &op {
        Op::Append { rows, .. } | Op::DAppend { rows, .. } | Op::Upsert { rows } => {
            if !width_ok(k, rows) {
                return Err(OpErr::Width);
            }
        }
        Op::Overwrite { rows, .. } => {
            if !width_ok(rows.first().map(|r| r.len()).unwrap_or(k), rows) {
                return Err(OpErr::Width);
            }
        }
        _ => {}
    }
    match op {
        Op::Create { .. } => unreachable!(),
        Op::Append { f, rows } => {
            let p = write_params(&cfg, w, handler, WriteMode::Append, f);
            let ds = Dataset::write(reader(k, &rows), WriteDestination::Dataset(Arc::new(ds)), Some(p)).await?;
            Ok(ds.manifest().version)
        }
        Op::Overwrite { f, rows } => {
            let k = rows.first().map(|r| r.len()).unwrap_or(k);
            let p = write_params(&cfg, w, handler, WriteMode::Overwrite, f);
            let ds = Dataset::write(reader(k, &rows), WriteDestination::Dataset(Arc::new(ds)), Some(p)).await?;
            Ok(ds.manifest().version)
        }
        Op::DAppend { f, rows } => {
            let p = write_params(&cfg, w, handler, WriteMode::Append, f);
            let dsa = Arc::new(ds);
            let spec = spec_k(k);
            let batches = if rows.is_empty() { vec![] } else { vec![spec.batch(&rows)] };
            let txn = InsertBuilder::new(WriteDestination::Dataset(dsa.clone())).with_params(&p).execute_uncommitted(batches).await?;
            let out = CommitBuilder::new(WriteDestination::Dataset(dsa)).with_detached(true).execute(txn).await?;
            Ok(out.manifest().version)
        }
        Op::Delete(x) => {
            ds.delete(&format!("c0 >= {x}")).await?;
            Ok(ds.manifest().version)
        }
        Op::Update(x, y) => {
            let r = UpdateBuilder::new(Arc::new(ds))
                .update_where(&format!("c0 >= {x}"))?
                .set("c1", &y.to_string())?
                .build()?
                .execute()
                .await?;
            Ok(r.new_dataset.manifest().version)
        }
        Op::Upsert { rows } => {
            let mut b = MergeInsertBuilder::try_new(Arc::new(ds), vec!["c0".to_string()])?;
            b.when_matched(WhenMatched::UpdateAll).when_not_matched(WhenNotMatched::InsertAll);
            let job = b.try_build()?;
            let (nd, _stats) = job.execute_reader(Box::new(reader(k, &rows))).await?;
            Ok(nd.manifest().version)
        }
        Op::Compact => {
            let opts = CompactionOptions { target_rows_per_fragment: 1000, ..Default::default() };
            let plan = lance::dataset::optimize::plan_compaction(&ds, &opts).await?;
            if plan.num_tasks() > 1 {
                return Err(OpErr::MultiBin);
            }
            compact_files(&mut ds, opts, None).await?;
            Ok(ds.manifest().version)
        }
        Op::Index => {
            ds.create_index(&["c0"], IndexType::BTree, Some("i0".into()), &ScalarIndexParams::default(), true).await?;
            Ok(ds.manifest().version)
        }
        Op::AddCol => {
            ds.add_columns(NewColumnTransform::SqlExpressions(vec![(format!("c{k}"), "c0 + 1".to_string())]), None, None).await?;
            Ok(ds.manifest().version)
        }
        Op::DropCol => {
            let name = format!("c{}", k - 1);
            ds.drop_columns(&[name.as_str()]).await?;
            Ok(ds.manifest().version)
        }
        Op::Config(n) => {
            ds.update_config([("k".to_string(), n.to_string())]).await?;
            Ok(ds.manifest().version)
        }
        Op::Restore(v) => {
            let mut old = ds.checkout_version(v).await?;
            old.restore().await?;
            Ok(old.manifest().version)
        }
    }
}

/// Run `op` against `store` under the gate: reads are released at once, mutating calls are counted; the `fault.at`-th
/// mutating call gets `fault.fault`.
pub fn run_op(store: Arc<InMemory>, cfg: Cfg, op: Op, fault: Option<FaultAt>) -> Run {
    let rt = gatekit::runtime();
    rt.block_on(async move {
        let mut ctl: Controller<Result<u64, (String, String)>> = Controller::new();
        ctl.max_spins = 2_000_000;
        let h = ctl.handle(0);
        let w: Arc<dyn WrappingObjectStore> = Arc::new(GateWrap { inner: store.clone(), h });
        ctl.spawn(0, async move {
            do_op(cfg, op, w).await.map_err(|e| match e {
                OpErr::Lance(e) => {
                    let mut m = e.to_string();
                    m.truncate(200);
                    (canon_err(&e).as_str().to_string(), m)
                }
                OpErr::Width => ("width".to_string(), String::new()),
                OpErr::MultiBin => ("multi_bin".to_string(), String::new()),
                OpErr::AlreadyExists => ("already_exists".to_string(), String::new()),
            })
        });
        let mut trace = vec![];
        let mut reads = 0usize;
        let mut n_mut = 0usize;
        let mut stuck = false;
        loop {
            if !ctl.quiesce().await {
                stuck = true;
                break;
            }
            let Some(desc) = ctl.parked(0) else { break };
            match mutating(&desc) {
                None => {
                    reads += 1;
                    ctl.step(0, Fault::None).await;
                }
                Some(tok) => {
                    let f = match fault {
                        Some(fa) if fa.at == n_mut => fa.fault,
                        _ => Fault::None,
                    };
                    n_mut += 1;
                    if f == Fault::None {
                        trace.push(tok);
                    } else {
                        trace.push(format!("{tok}!{}", f.token()));
                    }
                    ctl.step(0, f).await;
                    if f == Fault::Crash {
                        break;
                    }
                }
            }
        }
        let outcome = if stuck {
            Outcome::Stuck
        } else if ctl.is_crashed(0) {
            Outcome::Crashed
        } else {
            match ctl.result(0) {
                Some(Ok(v)) => Outcome::Ok(v),
                Some(Err((k, m))) => Outcome::Err(k, m),
                None => Outcome::Stuck,
            }
        };
        ctl.abort_all();
        Run { outcome, trace, reads }
    })
}

// ------------------------------------------------------------------------------------------------
// store snapshots and observation

pub async fn copy_store(src: &InMemory) -> Arc<InMemory> {
    let dst = InMemory::new();
    for p in gatekit::list_all(src).await {
        if let Some(b) = gatekit::read_all(src, &p).await {
            dst.put(&p, b.into()).await.unwrap();
        }
    }
    Arc::new(dst)
}

/// what a fresh reader sees of one version
#[derive(Clone, Debug, PartialEq, Eq)]
pub struct View {
    pub version: u64,
    pub k: usize,
    /// sorted rows (multiset)
    pub rows: Vec<Row>,
    pub n_indices: usize,
    pub cfg: Option<String>,
}

impl View {
    /// without the version number
    pub fn show_body(&self) -> String {
        let s = self.show();
        s.split_once(':').map(|(_, b)| b.to_string()).unwrap_or(s)
    }
    pub fn show(&self) -> String {
        format!(
            "{}:{}:{}:{}:{}",
            self.version,
            self.k,
            tablekit::show_rows(&self.rows),
            self.n_indices,
            self.cfg.clone().unwrap_or_else(|| "n".into())
        )
    }
}

#[derive(Clone, Debug, PartialEq, Eq)]
pub struct Obs {
    /// `None`: the table cannot be opened (no published version)
    pub latest: Option<u64>,
    pub versions: Vec<u64>,
    pub views: Vec<View>,
    /// canonical bodies of the detached manifests' views, sorted
    pub detached: Vec<String>,
    /// number of objects per class letter, in the order d x i t m s o
    pub files: Vec<(char, usize)>,
    /// anything that went wrong while reading (a version that is listed but cannot be scanned …)
    pub problems: Vec<String>,
}

impl Obs {
    pub fn show_files(&self) -> String {
        self.files.iter().filter(|(c, _)| *c != 'o').map(|(c, n)| format!("{c}{n}")).collect::<Vec<_>>().join(",")
    }
    /// the part of the observation a READER can see (no file counts)
    pub fn visible(&self) -> (Option<u64>, Vec<u64>, Vec<View>, Vec<String>) {
        (self.latest, self.versions.clone(), self.views.clone(), self.detached.clone())
    }
    pub fn show(&self) -> String {
        let views = if self.views.is_empty() { "-".to_string() } else { self.views.iter().map(|v| v.show()).collect::<Vec<_>>().join(" ") };
        format!(
            "L={} V={} | {} | D={} | files={}{}",
            self.latest.map(|v| v.to_string()).unwrap_or_else(|| "none".into()),
            hcommon::show_nat_list(self.versions.iter().copied()),
            views,
            if self.detached.is_empty() { "-".to_string() } else { self.detached.join(" ") },
            self.show_files(),
            if self.problems.is_empty() { String::new() } else { format!(" | PROBLEMS={}", self.problems.len()) }
        )
    }
}

async fn view_of(ds: &Dataset) -> Result<View, String> {
    let k = ds.schema().fields.len();
    let spec = spec_k(k);
    let mut sc = ds.scan();
    sc.scan_in_order(true);
    let batch = sc.try_into_batch().await.map_err(|e| format!("scan: {e}"))?;
    let mut rows = spec.decode(&batch, &[]).map_err(|e| format!("decode: {}", e.0))?;
    rows.sort();
    let n = ds.count_rows(None).await.map_err(|e| format!("count_rows: {e}"))?;
    if n != rows.len() {
        return Err(format!("count_rows {n} != scanned {}", rows.len()));
    }
    let idx = ds.load_indices().await.map_err(|e| format!("load_indices: {e}"))?;
    // an index is only "there" if its files can be opened
    for i in idx.iter() {
        let dir = Path::from(format!("{BASE}/_indices/{}", i.uuid));
        let n: Vec<_> = ds.object_store().inner.list(Some(&dir)).try_collect().await.map_err(|e| format!("list index: {e}"))?;
        if n.is_empty() && !i.fields.is_empty() {
            return Err(format!("index {} has no files", i.name));
        }
    }
    let cfg = ds.manifest().config.get("k").cloned();
    Ok(View { version: ds.manifest().version, k, rows, n_indices: idx.len(), cfg })
}

/// re-open the table through a fresh session and read everything a reader can see
pub async fn observe(store: Arc<InMemory>, cfg: &Cfg) -> Obs {
    let mut problems = vec![];
    let mut counts: Vec<(char, usize)> = "dxitmso".chars().map(|c| (c, 0)).collect();
    let mut detached_versions: Vec<u64> = vec![];
    for p in gatekit::list_all(store.as_ref()).await {
        let c = class_of(p.as_ref());
        counts.iter_mut().find(|(k, _)| *k == c).unwrap().1 += 1;
        if c == 'o' {
            problems.push(format!("unexpected object {p}"));
        }
        if c == 'm' {
            if let Some(v) = p.filename().and_then(|n| n.strip_prefix('d')).and_then(|n| n.strip_suffix(".manifest")).and_then(|n| n.parse::<u64>().ok()) {
                detached_versions.push(v);
            }
        }
    }
    let w: Arc<dyn WrappingObjectStore> = Arc::new(PlainWrap { inner: store.clone() });
    let ds = match open(w.clone(), cfg.handler.make(), None).await {
        Ok(ds) => ds,
        Err(e) => {
            if !matches!(canon_err(&e), tablekit::ErrKind::NotFound) {
                problems.push(format!("open: {e}"));
            }
            return Obs { latest: None, versions: vec![], views: vec![], detached: vec![], files: counts, problems };
        }
    };
    let latest = ds.manifest().version;
    match ds.latest_version_id().await {
        Ok(v) if v == latest => {}
        other => problems.push(format!("latest_version_id {other:?} != opened version {latest}")),
    }
    let versions: Vec<u64> = match ds.versions().await {
        Ok(vs) => vs.iter().map(|v| v.version).collect(),
        Err(e) => {
            problems.push(format!("versions(): {e}"));
            vec![]
        }
    };
    let mut views = vec![];
    for v in &versions {
        // a fresh session per version (row-id sequence cache is keyed by fragment id: C38)
        match open(w.clone(), cfg.handler.make(), Some(*v)).await {
            Ok(d) => match view_of(&d).await {
                Ok(view) => {
                    if view.version != *v {
                        problems.push(format!("version {v} opened as {}", view.version));
                    }
                    views.push(view)
                }
                Err(e) => problems.push(format!("version {v}: {e}")),
            },
            Err(e) => problems.push(format!("open version {v}: {e}")),
        }
    }
    let mut detached = vec![];
    for v in detached_versions {
        match open(w.clone(), cfg.handler.make(), Some(v)).await {
            Ok(d) => match view_of(&d).await {
                Ok(view) => {
                    if view.version != v {
                        problems.push(format!("detached version {v} opened as {}", view.version));
                    }
                    detached.push(view.show_body())
                }
                Err(e) => problems.push(format!("detached version {v}: {e}")),
            },
            Err(e) => problems.push(format!("open detached version {v}: {e}")),
        }
    }
    detached.sort();
    Obs { latest: Some(latest), versions, views, detached, files: counts, problems }
}
