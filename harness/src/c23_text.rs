//! C23 helpers: the text codec of the op lines, the Utf8 batch builder, and the INDEPENDENT reference tokenizer of the
//! property oracle (never shared with the Lean model; it uses the Rust std character functions, the Lean model uses its
//! own finite table — a divergence between the two shows up as an oracle failure or as a disagreement).
//!
//! Text form of a document / query text (never contains a space):
//! `n` = NULL, `e` = empty string, otherwise the decimal Unicode scalar values joined by `.` (`72.105` = "Hi").
//! Only characters of `UNIVERSE` are accepted (printable ASCII plus a handful of non-ASCII characters whose Unicode
//! class / lower-casing / ASCII folding the Lean table knows); anything else is `err parse` on both sides.

use std::sync::Arc;

use arrow_array::{Int64Array, RecordBatch, RecordBatchIterator, StringArray};
use arrow_schema::{ArrowError, DataType, Field, Schema as ArrowSchema};

/// non-ASCII characters of the universe: é É ü Ü ß ñ 中 文 İ U+0307 (combining dot above) €
pub const NON_ASCII: [u32; 11] = [0xE9, 0xC9, 0xFC, 0xDC, 0xDF, 0xF1, 0x4E2D, 0x6587, 0x130, 0x307, 0x20AC];

pub fn in_universe(c: u32) -> bool {
    (0x20..=0x7E).contains(&c) || NON_ASCII.contains(&c)
}

pub fn parse_text(s: &str) -> Option<Option<String>> {
    match s {
        "n" => Some(None),
        "e" => Some(Some(String::new())),
        _ => {
            let mut out = String::new();
            for p in s.split('.') {
                if p.is_empty() || p.len() > 7 || !p.bytes().all(|b| b.is_ascii_digit()) {
                    return None;
                }
                let v: u32 = p.parse().ok()?;
                if !in_universe(v) {
                    return None;
                }
                out.push(char::from_u32(v)?);
            }
            Some(Some(out))
        }
    }
}

pub fn show_text(t: &Option<String>) -> String {
    match t {
        None => "n".into(),
        Some(s) if s.is_empty() => "e".into(),
        Some(s) => s.chars().map(|c| (c as u32).to_string()).collect::<Vec<_>>().join("."),
    }
}

/// `docs` = `-` (no rows) | doc ("," doc)*
pub fn parse_docs(s: &str) -> Option<Vec<Option<String>>> {
    if s == "-" {
        return Some(vec![]);
    }
    s.split(',').map(parse_text).collect()
}

/// `frags` = docs ("|" docs)*
pub fn parse_frags(s: &str) -> Option<Vec<Vec<Option<String>>>> {
    s.split('|').map(parse_docs).collect()
}

pub fn show_frags(fs: &[Vec<Option<String>>]) -> String {
    fs.iter()
        .map(|f| if f.is_empty() { "-".to_string() } else { f.iter().map(show_text).collect::<Vec<_>>().join(",") })
        .collect::<Vec<_>>()
        .join("|")
}

pub fn schema() -> Arc<ArrowSchema> {
    Arc::new(ArrowSchema::new(vec![Field::new("id", DataType::Int64, false), Field::new("t", DataType::Utf8, true)]))
}

pub fn reader(
    first_id: i64,
    docs: &[Option<String>],
) -> RecordBatchIterator<std::vec::IntoIter<std::result::Result<RecordBatch, ArrowError>>> {
    let ids = Int64Array::from((0..docs.len() as i64).map(|i| first_id + i).collect::<Vec<_>>());
    let t = StringArray::from(docs.iter().map(|d| d.as_deref()).collect::<Vec<Option<&str>>>());
    let b = RecordBatch::try_new(schema(), vec![Arc::new(ids), Arc::new(t)]).expect("batch");
    RecordBatchIterator::new(vec![Ok(b)].into_iter(), schema())
}

// ------------------------------------------------------------------------------------------------
// reference tokenizer of the oracle (the documented pipeline: split on non-alphanumerics, drop tokens of >= maxlen
// UTF-8 bytes, lower-case, ASCII-fold), with the token positions the splitter assigns (dropped tokens keep theirs)
// ------------------------------------------------------------------------------------------------

#[derive(Clone, Copy, Debug, PartialEq, Eq)]
pub struct Cfg {
    pub lower: bool,
    pub fold: bool,
    pub maxlen: Option<usize>,
    pub pos: bool,
}

fn fold_char(c: char, out: &mut String) {
    match c {
        'é' => out.push('e'),
        'É' => out.push('E'),
        'ü' => out.push('u'),
        'Ü' => out.push('U'),
        'ñ' => out.push('n'),
        'İ' => out.push('I'),
        'ß' => out.push_str("ss"),
        c => out.push(c),
    }
}

pub fn ref_tokens(cfg: &Cfg, text: &str) -> Vec<(usize, String)> {
    let mut out = vec![];
    for (pos, raw) in text.split(|c: char| !c.is_alphanumeric()).filter(|w| !w.is_empty()).enumerate() {
        if cfg.maxlen.map_or(false, |m| raw.len() >= m) {
            continue;
        }
        let low: String = if cfg.lower { raw.chars().flat_map(|c| c.to_lowercase()).collect() } else { raw.to_string() };
        let mut tok = String::new();
        if cfg.fold {
            low.chars().for_each(|c| fold_char(c, &mut tok));
        } else {
            tok = low;
        }
        out.push((pos, tok));
    }
    out
}
