//! gatekit — a gate controller for driving the REAL lance `async fn`s under a chosen schedule
//! (DESIGN.md §4.2).  Owner: C10.  Reused by C01, C02, C08, C31, C41 via
//! `#[path = "../gatekit.rs"] mod gatekit;` in `harness/src/bin/cxx.rs`.
//!
//! # Idea
//! * Every top-level operation of a case (a writer's `commit`, a reader's `resolve_*`, a whole
//!   `Dataset::write` …) is one *task* with a small integer id, spawned on a tokio **current-thread**
//!   runtime through [`Controller::spawn`].
//! * Every call into storage made on behalf of a task goes through a component that holds that task's
//!   [`GateHandle`] (a [`GatedObjectStore`] around any `object_store::ObjectStore`, or your own gated
//!   implementation of e.g. `ExternalManifestStore`).  The component first calls
//!   `handle.enter("<call descriptor>").await`, which **parks** the call.  Attribution of a call to a task is
//!   by handle (by construction), not by task-local state, so calls issued from helper tasks that lance
//!   spawns internally are still attributed correctly as long as each task gets its own wrapped store.
//! * The controller (the `block_on` future) calls [`Controller::quiesce`], which returns once every
//!   unfinished, un-crashed task is parked at a gate (nothing can change any more without a release),
//!   then [`Controller::step`]`(task, fault)` releases exactly ONE parked call of `task` (the oldest one)
//!   and tells it what to do ([`Fault`]):
//!     * `None`          execute the call, return its answer;
//!     * `FailBefore`    do not execute, answer with an error;
//!     * `LostResponse`  execute the call, then answer with an error (the effect is applied, the caller
//!                       does not learn it);
//!     * `Alt(k)`        component specific alternate behaviour (C10: stale read of the external store);
//!     * `Crash`         the task is aborted at this call (the call is not executed): a crash of the
//!                       process between two storage calls.  [`Controller::crash`] does the same.
//! * A schedule is therefore a replayable list `(task, fault)`; between two releases only gate arrivals
//!   can change the state.  The same list is an op-line sequence for the Lean LTS driver.
//!
//! # Usage sketch
//! ```ignore
//! let rt = gatekit::runtime();                       // current-thread, paused clock
//! rt.block_on(async {
//!     let mut ctl: Controller<String> = Controller::new();
//!     let h0 = ctl.handle(0);
//!     let store0 = Arc::new(GatedObjectStore::new(shared_inner.clone(), h0.clone()));
//!     ctl.spawn(0, async move { /* real lance code using store0 */ "ok".to_string() });
//!     ctl.quiesce().await;
//!     println!("{:?}", ctl.parked(0));                // Some("os.put _versions/…")
//!     ctl.step(0, Fault::None).await;                 // releases it and waits for quiescence again
//!     …
//!     ctl.abort_all();                                // crash whatever is still running
//! });
//! ```
//!
//! # Guarantees / limits
//! * Calls of one task are released in arrival order (sequential code: there is at most one).
//! * `quiesce` first yields (cheap), then sleeps 1 ms of (paused ⇒ virtual) time so that back-off sleeps
//!   inside lance make progress; it gives up after `max_spins` rounds and reports `false`.
//! * Multipart uploads are gated at `put_multipart_opts` only (the part uploads are not yield points).
//! * `rename` / `rename_if_not_exists` are gated as ONE call (atomic), whatever the inner store does.
//! * Descriptors are plain strings: `os.<op> <path> [<path2>]`; canonicalise them in your harness.
#![allow(dead_code)]

use std::collections::VecDeque;
use std::fmt;
use std::future::Future;
use std::sync::{Arc, Mutex};

use async_trait::async_trait;
use bytes::Bytes;
use futures::stream::BoxStream;
use futures::{StreamExt, TryStreamExt};
use object_store::path::Path;
use object_store::{
    GetOptions, GetResult, ListResult, MultipartUpload, ObjectMeta, ObjectStore, PutMultipartOptions, PutOptions,
    PutPayload, PutResult, Result as OsResult,
};
use tokio::sync::oneshot;

/// What the controller tells a released call to do.
#[derive(Clone, Copy, Debug, PartialEq, Eq)]
pub enum Fault {
    None,
    FailBefore,
    LostResponse,
    /// component specific alternate answer (e.g. a stale read); components that do not know `k` treat it as `None`
    Alt(u8),
    Crash,
}

impl Fault {
    /// schedule-file token
    pub fn parse(s: &str) -> Option<Self> {
        Some(match s {
            "ok" | "none" => Self::None,
            "fb" => Self::FailBefore,
            "lr" => Self::LostResponse,
            "crash" => Self::Crash,
            _ => {
                let k = s.strip_prefix("alt")?.parse().ok()?;
                Self::Alt(k)
            }
        })
    }
    pub fn token(&self) -> String {
        match self {
            Self::None => "ok".into(),
            Self::FailBefore => "fb".into(),
            Self::LostResponse => "lr".into(),
            Self::Alt(k) => format!("alt{k}"),
            Self::Crash => "crash".into(),
        }
    }
    /// the call's effect is applied
    pub fn executes(&self) -> bool {
        matches!(self, Self::None | Self::LostResponse | Self::Alt(_))
    }
    /// the caller gets an injected error instead of the answer
    pub fn errors(&self) -> bool {
        matches!(self, Self::FailBefore | Self::LostResponse)
    }
}

struct Parked {
    desc: String,
    tx: oneshot::Sender<Fault>,
}

#[derive(Default)]
struct Slot {
    parked: VecDeque<Parked>,
    spawned: bool,
    finished: bool,
    crashed: bool,
}

#[derive(Default)]
struct Inner {
    slots: Vec<Slot>,
    /// total number of gate arrivals + task completions (progress counter for `quiesce`)
    events: u64,
    /// log of released calls `(task, descriptor, fault)`
    trace: Vec<(usize, String, Fault)>,
}

impl Inner {
    fn slot(&mut self, t: usize) -> &mut Slot {
        while self.slots.len() <= t {
            self.slots.push(Slot::default());
        }
        &mut self.slots[t]
    }
}

/// Per-task entry point to the gate; cheap to clone; give one to every gated component of a task.
#[derive(Clone)]
pub struct GateHandle {
    inner: Arc<Mutex<Inner>>,
    pub task: usize,
}

impl fmt::Debug for GateHandle {
    fn fmt(&self, f: &mut fmt::Formatter<'_>) -> fmt::Result {
        write!(f, "GateHandle(task {})", self.task)
    }
}

impl GateHandle {
    /// Park until the controller releases this call; returns the controller's decision.
    /// With `Fault::Crash` this future never completes (the controller aborts the task).
    pub async fn enter(&self, desc: impl Into<String>) -> Fault {
        let (tx, rx) = oneshot::channel();
        {
            let mut g = self.inner.lock().unwrap();
            g.events += 1;
            let t = self.task;
            g.slot(t).parked.push_back(Parked { desc: desc.into(), tx });
        }
        match rx.await {
            Ok(Fault::Crash) | Err(_) => futures::future::pending().await,
            Ok(f) => f,
        }
    }
}

/// Result of [`Controller::step`].
#[derive(Clone, Debug, PartialEq, Eq)]
pub enum Stepped {
    /// a parked call with this descriptor was released
    Released(String),
    /// the task had already finished / crashed / was never spawned: nothing happened
    Noop,
}

pub struct Controller<T: Send + 'static> {
    inner: Arc<Mutex<Inner>>,
    results: Arc<Mutex<Vec<Option<T>>>>,
    joins: Vec<Option<tokio::task::JoinHandle<()>>>,
    pub max_spins: usize,
}

/// The runtime the controller is meant to run on: current-thread, all drivers, paused clock.
pub fn runtime() -> tokio::runtime::Runtime {
    tokio::runtime::Builder::new_current_thread().enable_all().start_paused(true).build().unwrap()
}

impl<T: Send + 'static> Controller<T> {
    pub fn new() -> Self {
        Self {
            inner: Arc::new(Mutex::new(Inner::default())),
            results: Arc::new(Mutex::new(vec![])),
            joins: vec![],
            max_spins: 10_000,
        }
    }

    pub fn handle(&self, task: usize) -> GateHandle {
        self.inner.lock().unwrap().slot(task);
        GateHandle { inner: self.inner.clone(), task }
    }

    /// Spawn the top-level future of `task`.  Must be called from inside the runtime.
    pub fn spawn<F>(&mut self, task: usize, fut: F)
    where
        F: Future<Output = T> + Send + 'static,
    {
        {
            let mut g = self.inner.lock().unwrap();
            g.slot(task).spawned = true;
        }
        {
            let mut r = self.results.lock().unwrap();
            while r.len() <= task {
                r.push(None);
            }
        }
        let inner = self.inner.clone();
        let results = self.results.clone();
        let jh = tokio::spawn(async move {
            let out = fut.await;
            results.lock().unwrap()[task] = Some(out);
            let mut g = inner.lock().unwrap();
            g.events += 1;
            g.slot(task).finished = true;
        });
        while self.joins.len() <= task {
            self.joins.push(None);
        }
        self.joins[task] = Some(jh);
    }

    fn settled(&self) -> (bool, u64) {
        let mut g = self.inner.lock().unwrap();
        let ev = g.events;
        let mut all = true;
        for (t, s) in g.slots.iter_mut().enumerate() {
            if !s.spawned || s.finished || s.crashed {
                continue;
            }
            if s.parked.is_empty() {
                // a task that panicked finishes without reporting: treat it as crashed
                if self.joins.get(t).and_then(|j| j.as_ref()).map(|j| j.is_finished()).unwrap_or(false) {
                    s.crashed = true;
                    continue;
                }
                all = false;
            }
        }
        (all, ev)
    }

    /// Wait until every unfinished task is parked at a gate.  Returns `false` if that did not happen
    /// within `max_spins` rounds (a task waits for something that is not a gate).
    pub async fn quiesce(&self) -> bool {
        let mut spins = 0usize;
        loop {
            // let every ready task run once
            tokio::task::yield_now().await;
            let (all, ev) = self.settled();
            if all {
                // stability: one more round without any new event
                tokio::task::yield_now().await;
                let (all2, ev2) = self.settled();
                if all2 && ev2 == ev {
                    return true;
                }
            }
            spins += 1;
            if spins > self.max_spins {
                return false;
            }
            if spins % 16 == 0 {
                // let timers fire (virtual time when the clock is paused) and blocking helpers finish
                tokio::time::sleep(std::time::Duration::from_millis(1)).await;
            }
        }
    }

    /// descriptor of the oldest parked call of `task`
    pub fn parked(&self, task: usize) -> Option<String> {
        let g = self.inner.lock().unwrap();
        g.slots.get(task).and_then(|s| s.parked.front().map(|p| p.desc.clone()))
    }

    pub fn is_finished(&self, task: usize) -> bool {
        let g = self.inner.lock().unwrap();
        g.slots.get(task).map(|s| s.finished).unwrap_or(false)
    }

    pub fn is_crashed(&self, task: usize) -> bool {
        let g = self.inner.lock().unwrap();
        g.slots.get(task).map(|s| s.crashed).unwrap_or(false)
    }

    /// the value the task's future returned
    pub fn result(&self, task: usize) -> Option<T>
    where
        T: Clone,
    {
        self.results.lock().unwrap().get(task).cloned().flatten()
    }

    /// Abort `task` where it stands (crash between two storage calls).
    pub fn crash(&mut self, task: usize) -> Stepped {
        let mut g = self.inner.lock().unwrap();
        let s = g.slot(task);
        if !s.spawned || s.finished || s.crashed {
            return Stepped::Noop;
        }
        s.crashed = true;
        let d = s.parked.front().map(|p| p.desc.clone()).unwrap_or_default();
        s.parked.clear();
        g.trace.push((task, d.clone(), Fault::Crash));
        drop(g);
        if let Some(Some(j)) = self.joins.get(task) {
            j.abort();
        }
        Stepped::Released(d)
    }

    /// Release the oldest parked call of `task` with decision `fault`, then wait for quiescence.
    pub async fn step(&mut self, task: usize, fault: Fault) -> Stepped {
        if fault == Fault::Crash {
            let r = self.crash(task);
            self.quiesce().await;
            return r;
        }
        let p = {
            let mut g = self.inner.lock().unwrap();
            let s = g.slot(task);
            if !s.spawned || s.finished || s.crashed {
                None
            } else {
                s.parked.pop_front()
            }
        };
        let Some(p) = p else { return Stepped::Noop };
        {
            let mut g = self.inner.lock().unwrap();
            g.trace.push((task, p.desc.clone(), fault));
        }
        let _ = p.tx.send(fault);
        self.quiesce().await;
        Stepped::Released(p.desc)
    }

    /// crash everything that is still running (end of a case)
    pub fn abort_all(&mut self) {
        let n = self.inner.lock().unwrap().slots.len();
        for t in 0..n {
            self.crash(t);
        }
    }

    pub fn trace(&self) -> Vec<(usize, String, Fault)> {
        self.inner.lock().unwrap().trace.clone()
    }

    pub fn n_tasks(&self) -> usize {
        self.inner.lock().unwrap().slots.len()
    }
}

impl<T: Send + 'static> Drop for Controller<T> {
    fn drop(&mut self) {
        for j in self.joins.iter().flatten() {
            j.abort();
        }
    }
}

// ------------------------------------------------------------------------------------------------
// gated object store

fn injected(op: &str) -> object_store::Error {
    object_store::Error::Generic { store: "gatekit", source: format!("injected fault at {op}").into() }
}

/// An `object_store::ObjectStore` whose every call parks on the gate of one task first.
/// Several `GatedObjectStore`s (one per task) normally share one `inner` store.
pub struct GatedObjectStore {
    inner: Arc<dyn ObjectStore>,
    h: GateHandle,
}

impl GatedObjectStore {
    pub fn new(inner: Arc<dyn ObjectStore>, h: GateHandle) -> Self {
        Self { inner, h }
    }

    /// gate + fault protocol around a call with an effect
    async fn gated<R, Fut>(&self, desc: String, op: &'static str, call: impl FnOnce() -> Fut) -> OsResult<R>
    where
        Fut: Future<Output = OsResult<R>>,
    {
        let f = self.h.enter(desc).await;
        if !f.executes() {
            return Err(injected(op));
        }
        let r = call().await;
        if f.errors() {
            return Err(injected(op));
        }
        r
    }
}

impl fmt::Debug for GatedObjectStore {
    fn fmt(&self, f: &mut fmt::Formatter<'_>) -> fmt::Result {
        write!(f, "GatedObjectStore(task {})", self.h.task)
    }
}

impl fmt::Display for GatedObjectStore {
    fn fmt(&self, f: &mut fmt::Formatter<'_>) -> fmt::Result {
        write!(f, "GatedObjectStore(task {}, {})", self.h.task, self.inner)
    }
}

#[async_trait]
impl ObjectStore for GatedObjectStore {
    async fn put_opts(&self, location: &Path, payload: PutPayload, opts: PutOptions) -> OsResult<PutResult> {
        let mode = match &opts.mode {
            object_store::PutMode::Overwrite => "put",
            object_store::PutMode::Create => "put_create",
            object_store::PutMode::Update(_) => "put_update",
        };
        self.gated(format!("os.{mode} {location}"), "put", || self.inner.put_opts(location, payload, opts)).await
    }

    async fn put_multipart_opts(&self, location: &Path, opts: PutMultipartOptions) -> OsResult<Box<dyn MultipartUpload>> {
        self.gated(format!("os.put_multipart {location}"), "put_multipart", || {
            self.inner.put_multipart_opts(location, opts)
        })
        .await
    }

    async fn get_opts(&self, location: &Path, options: GetOptions) -> OsResult<GetResult> {
        let op = if options.head { "head" } else { "get" };
        self.gated(format!("os.{op} {location}"), "get", || self.inner.get_opts(location, options)).await
    }

    async fn head(&self, location: &Path) -> OsResult<ObjectMeta> {
        self.gated(format!("os.head {location}"), "head", || self.inner.head(location)).await
    }

    async fn delete(&self, location: &Path) -> OsResult<()> {
        self.gated(format!("os.delete {location}"), "delete", || self.inner.delete(location)).await
    }

    fn list(&self, prefix: Option<&Path>) -> BoxStream<'static, OsResult<ObjectMeta>> {
        let inner = self.inner.clone();
        let h = self.h.clone();
        let prefix = prefix.cloned();
        let desc = format!("os.list {}", prefix.as_ref().map(|p| p.to_string()).unwrap_or_default());
        futures::stream::once(async move {
            let f = h.enter(desc).await;
            if !f.executes() || f.errors() {
                return futures::stream::iter(vec![Err(injected("list"))]).boxed();
            }
            // snapshot at release time
            let items: Vec<OsResult<ObjectMeta>> = inner.list(prefix.as_ref()).collect().await;
            futures::stream::iter(items).boxed()
        })
        .flatten()
        .boxed()
    }

    async fn list_with_delimiter(&self, prefix: Option<&Path>) -> OsResult<ListResult> {
        let d = format!("os.list_dir {}", prefix.map(|p| p.to_string()).unwrap_or_default());
        self.gated(d, "list_with_delimiter", || self.inner.list_with_delimiter(prefix)).await
    }

    async fn copy(&self, from: &Path, to: &Path) -> OsResult<()> {
        self.gated(format!("os.copy {from} {to}"), "copy", || self.inner.copy(from, to)).await
    }

    async fn rename(&self, from: &Path, to: &Path) -> OsResult<()> {
        self.gated(format!("os.rename {from} {to}"), "rename", || self.inner.rename(from, to)).await
    }

    async fn copy_if_not_exists(&self, from: &Path, to: &Path) -> OsResult<()> {
        self.gated(format!("os.copy_if_not_exists {from} {to}"), "copy_if_not_exists", || {
            self.inner.copy_if_not_exists(from, to)
        })
        .await
    }

    async fn rename_if_not_exists(&self, from: &Path, to: &Path) -> OsResult<()> {
        self.gated(format!("os.rename_if_not_exists {from} {to}"), "rename_if_not_exists", || {
            self.inner.rename_if_not_exists(from, to)
        })
        .await
    }
}

/// Read a whole object from an (ungated) store; `None` if it does not exist.
pub async fn read_all(store: &dyn ObjectStore, p: &Path) -> Option<Bytes> {
    match store.get(p).await {
        Ok(r) => r.bytes().await.ok(),
        Err(_) => None,
    }
}

/// All object paths of an (ungated) store, sorted.
pub async fn list_all(store: &dyn ObjectStore) -> Vec<Path> {
    let mut v: Vec<Path> = store.list(None).map_ok(|m| m.location).try_collect().await.unwrap_or_default();
    v.sort();
    v
}
