//! C31: an in-memory multipart object store whose every mutating call parks until the case releases it.
//!
//! Semantics (the store parameter of the Lean model, lean/LanceModel/C31/Model.lean):
//! * `put_opts` and `complete` are atomic; parts are invisible; `abort` discards the parts;
//! * a multipart upload follows `object_store::client::parts::Parts` (S3 / GCS / Azure clients of
//!   object_store 0.12): every `put_part` CALL takes the next part number, a part is recorded when its upload
//!   succeeds, `complete` answers `Generic{"Missing part"}` unless as many parts were recorded as calls were
//!   made, otherwise sorts by part number and concatenates.
//! * every `put_opts` / `put_multipart_opts` / `put_part` / `complete` call is registered in a park table
//!   under an id (`s`, `c`, `p<number>`, `f`) when it is MADE and waits for a [`Decision`]; the effect of the call is
//!   applied when the decision is given (the request reached the store), the caller sees the answer at its next poll;
//!   `abort` is not gated.
//!   (gatekit's `Controller` releases the calls of one task in arrival order; here the order in which the part
//!   uploads of ONE writer are answered is the point, so the table is keyed by call.)
//! Reads, listing and deletes go straight to the wrapped `InMemory`.
#![allow(dead_code)]

use std::fmt;
use std::sync::{Arc, Mutex, OnceLock};

use async_trait::async_trait;
use bytes::Bytes;
use futures::stream::BoxStream;
use object_store::memory::InMemory;
use object_store::path::Path;
use object_store::{
    GetOptions, GetResult, ListResult, MultipartUpload, ObjectMeta, ObjectStore, PutMultipartOptions, PutOptions,
    PutPayload, PutResult, Result as OsResult, UploadPart,
};
use tokio::sync::oneshot;

// ---------------------------------------------------------------------------------------------------------
// the byte stream every case writes: the byte at absolute offset i is a function of i

pub const PATTERN_LEN: usize = 64 << 20;

/// word `w` (offsets 4w .. 4w+3) holds `w` little-endian
pub fn pattern() -> &'static [u8] {
    static P: OnceLock<Vec<u8>> = OnceLock::new();
    P.get_or_init(|| {
        let mut v = vec![0u8; PATTERN_LEN];
        for (w, c) in v.chunks_exact_mut(4).enumerate() {
            c.copy_from_slice(&(w as u32).to_le_bytes());
        }
        v
    })
}

/// is `data` the stream from offset `start`?
pub fn is_stream_at(data: &[u8], start: usize) -> bool {
    start + data.len() <= PATTERN_LEN && &pattern()[start..start + data.len()] == data
}

/// the stream offset a payload starts at, read off its content (payloads shorter than 8 bytes carry too little)
pub fn locate(data: &[u8]) -> Option<usize> {
    if data.len() < 8 {
        return None;
    }
    for a in 0..4usize {
        let w = u32::from_le_bytes([data[a], data[a + 1], data[a + 2], data[a + 3]]) as usize;
        if let Some(start) = (4 * w).checked_sub(a) {
            if is_stream_at(data, start) {
                return Some(start);
            }
        }
    }
    None
}

pub fn show_start(data: &[u8]) -> String {
    if data.is_empty() {
        "-".into()
    } else if data.len() < 8 {
        "~".into()
    } else {
        match locate(data) {
            Some(s) => s.to_string(),
            None => "?".into(),
        }
    }
}

// ---------------------------------------------------------------------------------------------------------
// park table

#[derive(Clone, Copy, Debug, PartialEq, Eq)]
pub enum Decision {
    Ok,
    /// fail before executing, with an error that is not a connection reset
    Fb,
    /// fail before executing, with an error whose text contains "connection reset by peer"
    Reset,
    /// execute, then answer with an error
    Lr,
}

impl Decision {
    pub fn parse(s: &str) -> Option<Self> {
        Some(match s {
            "ok" => Self::Ok,
            "fb" => Self::Fb,
            "reset" => Self::Reset,
            "lr" => Self::Lr,
            _ => return None,
        })
    }
    fn error(&self, what: &str) -> object_store::Error {
        let msg = match self {
            Self::Reset => format!("error sending request for {what}: Connection reset by peer (os error 104)"),
            _ => format!("injected failure of {what}"),
        };
        object_store::Error::Generic { store: "c31", source: msg.into() }
    }
}

/// what the store does when a parked call is answered with an executing decision
enum Effect {
    /// put_multipart: nothing visible
    Create,
    /// put_part: record (number, payload) in the upload's `Parts`
    Part { idx: usize, data: Bytes, parts: Arc<Mutex<Vec<(usize, Bytes)>>> },
    /// single put
    Single { location: Path, payload: PutPayload, opts: PutOptions },
    /// complete: `Parts::finish(expected)`, then the atomic put
    Complete { location: Path, parts: Arc<Mutex<Vec<(usize, Bytes)>>>, expected: usize },
}

type Answer = OsResult<Option<PutResult>>;

struct Parked {
    id: String,
    tx: Option<oneshot::Sender<Answer>>,
    effect: Option<Effect>,
}

#[derive(Default)]
pub struct Table {
    parked: Vec<Parked>,
    /// descriptors of the calls made since the last `take_new_calls`
    new_calls: Vec<String>,
    /// (part number, start offset read off the content, length) of every put_part call
    pub part_calls: Vec<(usize, Option<usize>, usize)>,
}

#[derive(Clone, Default)]
pub struct Gate(Arc<Mutex<Table>>);

impl Gate {
    fn register(&self, id: String, desc: String, effect: Effect) -> oneshot::Receiver<Answer> {
        let (tx, rx) = oneshot::channel();
        let mut g = self.0.lock().unwrap();
        g.parked.push(Parked { id, tx: Some(tx), effect: Some(effect) });
        g.new_calls.push(desc);
        rx
    }
    fn note(&self, desc: String) {
        self.0.lock().unwrap().new_calls.push(desc);
    }
    /// The store answers the live call `id`: the effect is applied NOW (the request reached the store), the caller
    /// learns the answer when it next polls.  false if there is no such call (never made, answered, or cancelled).
    pub async fn release(&self, inner: &InMemory, id: &str, d: Decision) -> bool {
        let (tx, effect) = {
            let mut g = self.0.lock().unwrap();
            let Some(p) = g.parked.iter_mut().find(|p| p.id == id && p.tx.as_ref().map(|t| !t.is_closed()).unwrap_or(false))
            else {
                return false;
            };
            (p.tx.take().unwrap(), p.effect.take().unwrap())
        };
        let what = match &effect {
            Effect::Create => "put_multipart",
            Effect::Part { .. } => "put_part",
            Effect::Single { .. } => "put",
            Effect::Complete { .. } => "complete",
        };
        let ans: Answer = match effect {
            Effect::Create => match d {
                Decision::Ok => Ok(None),
                _ => Err(d.error(what)),
            },
            // a part is recorded by the CLIENT when the upload succeeded (`state.parts.put(idx, part)`): a lost
            // response records nothing
            Effect::Part { idx, data, parts } => match d {
                Decision::Ok => {
                    parts.lock().unwrap().push((idx, data));
                    Ok(None)
                }
                _ => Err(d.error(what)),
            },
            Effect::Single { location, payload, opts } => match d {
                Decision::Fb | Decision::Reset => Err(d.error(what)),
                _ => match inner.put_opts(&location, payload, opts).await {
                    Ok(r) if d == Decision::Ok => Ok(Some(r)),
                    Ok(_) => Err(d.error(what)),
                    Err(e) => Err(e),
                },
            },
            Effect::Complete { location, parts, expected } => match d {
                Decision::Fb | Decision::Reset => Err(d.error(what)),
                _ => {
                    // Parts::finish(expected)
                    let mut got = parts.lock().unwrap().clone();
                    if got.len() != expected {
                        Err(object_store::Error::Generic { store: "Parts", source: "Missing part".to_string().into() })
                    } else {
                        got.sort_unstable_by_key(|(i, _)| *i);
                        let payload: PutPayload = got.into_iter().map(|(_, b)| b).collect();
                        match inner.put(&location, payload).await {
                            Ok(r) if d == Decision::Ok => Ok(Some(r)),
                            Ok(_) => Err(d.error(what)),
                            Err(e) => Err(e),
                        }
                    }
                }
            },
        };
        tx.send(ans).is_ok()
    }
    /// ids of the calls that wait for an answer
    pub fn live(&self) -> Vec<String> {
        let g = self.0.lock().unwrap();
        g.parked.iter().filter(|p| p.tx.as_ref().map(|t| !t.is_closed()).unwrap_or(false)).map(|p| p.id.clone()).collect()
    }
    pub fn take_new_calls(&self) -> Vec<String> {
        std::mem::take(&mut self.0.lock().unwrap().new_calls)
    }
    pub fn part_calls(&self) -> Vec<(usize, Option<usize>, usize)> {
        self.0.lock().unwrap().part_calls.clone()
    }
}

async fn wait(rx: oneshot::Receiver<Answer>) -> Answer {
    match rx.await {
        Ok(a) => a,
        // the table was dropped: the case is over
        Err(_) => futures::future::pending().await,
    }
}

// ---------------------------------------------------------------------------------------------------------
// the store

pub struct McStore {
    pub inner: Arc<InMemory>,
    pub gate: Gate,
}

impl McStore {
    pub fn new() -> Self {
        Self { inner: Arc::new(InMemory::new()), gate: Gate::default() }
    }
}

impl fmt::Debug for McStore {
    fn fmt(&self, f: &mut fmt::Formatter<'_>) -> fmt::Result {
        write!(f, "McStore")
    }
}
impl fmt::Display for McStore {
    fn fmt(&self, f: &mut fmt::Formatter<'_>) -> fmt::Result {
        write!(f, "McStore")
    }
}

#[derive(Debug)]
struct McUpload {
    gate: GateDbg,
    location: Path,
    /// number of put_part calls made (`S3MultiPartUpload::part_idx`)
    part_idx: usize,
    /// `Parts`
    parts: Arc<Mutex<Vec<(usize, Bytes)>>>,
}

struct GateDbg(Gate);
impl fmt::Debug for GateDbg {
    fn fmt(&self, f: &mut fmt::Formatter<'_>) -> fmt::Result {
        write!(f, "Gate")
    }
}

#[async_trait]
impl MultipartUpload for McUpload {
    fn put_part(&mut self, data: PutPayload) -> UploadPart {
        let idx = self.part_idx;
        self.part_idx += 1;
        let data: Bytes = data.into();
        let start = locate(&data);
        self.gate.0 .0.lock().unwrap().part_calls.push((idx, start, data.len()));
        let desc = format!("p{idx}:{}@{}", data.len(), show_start(&data));
        let rx = self.gate.0.register(format!("p{idx}"), desc, Effect::Part { idx, data, parts: self.parts.clone() });
        Box::pin(async move { wait(rx).await.map(|_| ()) })
    }

    async fn complete(&mut self) -> OsResult<PutResult> {
        let rx = self.gate.0.register(
            "f".into(),
            "f".into(),
            Effect::Complete { location: self.location.clone(), parts: self.parts.clone(), expected: self.part_idx },
        );
        wait(rx).await.map(|r| r.expect("complete answers with a PutResult"))
    }

    async fn abort(&mut self) -> OsResult<()> {
        self.gate.0.note("a".into());
        self.parts.lock().unwrap().clear();
        Ok(())
    }
}

#[async_trait]
impl ObjectStore for McStore {
    async fn put_opts(&self, location: &Path, payload: PutPayload, opts: PutOptions) -> OsResult<PutResult> {
        let desc = format!("s:{}", payload.content_length());
        let rx = self.gate.register("s".into(), desc, Effect::Single { location: location.clone(), payload, opts });
        wait(rx).await.map(|r| r.expect("put answers with a PutResult"))
    }

    async fn put_multipart_opts(&self, location: &Path, _opts: PutMultipartOptions) -> OsResult<Box<dyn MultipartUpload>> {
        let rx = self.gate.register("c".into(), "c".into(), Effect::Create);
        wait(rx).await?;
        Ok(Box::new(McUpload {
            gate: GateDbg(self.gate.clone()),
            location: location.clone(),
            part_idx: 0,
            parts: Arc::new(Mutex::new(vec![])),
        }))
    }

    async fn get_opts(&self, location: &Path, options: GetOptions) -> OsResult<GetResult> {
        self.inner.get_opts(location, options).await
    }

    async fn delete(&self, location: &Path) -> OsResult<()> {
        self.inner.delete(location).await
    }

    fn list(&self, prefix: Option<&Path>) -> BoxStream<'static, OsResult<ObjectMeta>> {
        self.inner.list(prefix)
    }

    async fn list_with_delimiter(&self, prefix: Option<&Path>) -> OsResult<ListResult> {
        self.inner.list_with_delimiter(prefix).await
    }

    async fn copy(&self, from: &Path, to: &Path) -> OsResult<()> {
        self.inner.copy(from, to).await
    }

    async fn copy_if_not_exists(&self, from: &Path, to: &Path) -> OsResult<()> {
        self.inner.copy_if_not_exists(from, to).await
    }
}
