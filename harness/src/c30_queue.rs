//! C30 part (b): IoQueue probe cases (`q …`) and black-box concurrent cases (`conc …`).
//!
//!   q new cap=<c> buf=<b>                 fresh `IoQueue` behind the verif probe
//!   q push id=<i> prio=<p> bytes=<n>      IoQueue::push of a task reading i..i+n
//!   q next <id|none>                      IoQueueState::next_task; the token records what the implementation returned when
//!                                         the case was generated (the heap's tie-break among equal priorities is unspecified;
//!                                         the model checks that this choice is allowed)
//!   q iop_done <id>                       the task's completion callback + IoQueue::on_iop_complete
//!   q consumed <id,id,…>                  one IoQueue::on_bytes_consumed(sum bytes, prio, count) for tasks of one priority
//!   q close                               IoQueue::close
//!     -> `[popped=<id|none> |cancelled=<ids> ]iops=<n> bytes=<n> pend=<prio:id,…> fl=<prios> done=<bool>`
//!   conc cap=<c> buf=<b> bs=<bs> max=<m> mode=<join|seq|drop> | <prio>:<ranges> | …
//!     -> per request `ok n=<k> <len>:<hash>;…` / `err` / `panic`, joined by ` | `; `hang` if the case does not finish

use std::collections::BTreeMap;
use std::ops::Range;
use std::panic::{catch_unwind, AssertUnwindSafe};
use std::sync::Arc;
use std::time::Duration;

use hcommon::*;
use lance_io::scheduler::verif_hooks::{ProbeTask, QueueProbe};
use lance_io::traits::Reader;

use super::{kv, parse_ranges, show_ranges};

#[derive(Clone, Copy, Debug)]
#[allow(dead_code)]
struct T {
    id: u64,
    prio: u64,
    bytes: u64,
}

#[derive(Default)]
pub struct QState {
    probe: Option<QueueProbe>,
    cap: u64,
    buf: i64,
    tasks: BTreeMap<u64, T>,
    pending: Vec<u64>,
    held: BTreeMap<u64, ProbeTask>, // handed out, IOP running
    delivered: Vec<u64>,            // handed out, not consumed (superset of held)
    refused_once: bool,
}

fn dump(p: &QueueProbe) -> String {
    let mut pend: Vec<(u128, u64)> = p.pending().into_iter().map(|(pr, r)| (pr, r.start)).collect();
    pend.sort();
    let pend_s = if pend.is_empty() {
        "-".to_string()
    } else {
        pend.iter().map(|(pr, id)| format!("{pr}:{id}")).collect::<Vec<_>>().join(",")
    };
    let fl = p.priorities_in_flight();
    format!(
        "iops={} bytes={} pend={} fl={} done={}",
        p.iops_avail(),
        p.bytes_avail(),
        pend_s,
        show_nat_list(fl.iter().map(|x| *x as u64)),
        p.done_scheduling()
    )
}

/// the invariants of the property, evaluated on the real queue after every event (independent of the Lean model)
fn check_accounting(q: &QState, line: usize, res: &mut CaseResult) {
    let p = q.probe.as_ref().unwrap();
    let mut fail = |what: String, key: &str| {
        res.failures.push(OracleFailure { what, key: Some(key.into()), line });
    };
    if p.iops_avail() as u64 + q.held.len() as u64 != q.cap {
        fail(format!("iops_avail {} + running {} != capacity {}", p.iops_avail(), q.held.len(), q.cap), "queue_iops_accounting");
    }
    let out: i64 = q.delivered.iter().map(|i| q.tasks[i].bytes as i64).sum();
    if p.bytes_avail() + out != q.buf {
        fail(format!("bytes_avail {} + delivered-unconsumed {} != budget {}", p.bytes_avail(), out, q.buf), "queue_bytes_accounting");
    }
    let fl = p.priorities_in_flight();
    let mut want: Vec<u128> = q.delivered.iter().map(|i| q.tasks[i].prio as u128).collect();
    want.sort();
    if fl != want {
        fail(format!("priorities in flight {fl:?} != priorities of delivered-unconsumed tasks {want:?}"), "queue_priorities_in_flight");
    }
    let mut pend: Vec<u64> = p.pending().into_iter().map(|(_, r)| r.start).collect();
    pend.sort();
    let mut mine = q.pending.clone();
    mine.sort();
    if pend != mine {
        fail(format!("pending tasks {pend:?} != pushed-and-not-handed-out {mine:?} (a task was lost or duplicated)"), "queue_task_lost");
    }
}

pub fn exec_q(q: &mut QState, reader: &Arc<dyn Reader>, toks: &[&str], n: usize, res: &mut CaseResult) -> String {
    let op = toks.get(1).copied().unwrap_or("");
    if op == "new" {
        let (Some(cap), Some(buf)) = (
            toks.get(2).and_then(|t| kv(t, "cap")).and_then(|v| v.parse::<u64>().ok()),
            toks.get(3).and_then(|t| kv(t, "buf")).and_then(|v| v.parse::<u64>().ok()),
        ) else {
            return "bad-op".into();
        };
        *q = QState::default();
        q.cap = cap;
        q.buf = buf as i64;
        q.probe = Some(QueueProbe::new(cap as u32, buf, reader.clone()));
        return dump(q.probe.as_ref().unwrap());
    }
    if q.probe.is_none() {
        return "bad-op".into();
    }
    let out = match op {
        "push" => {
            let (Some(id), Some(prio), Some(bytes)) = (
                toks.get(2).and_then(|t| kv(t, "id")).and_then(|v| v.parse::<u64>().ok()),
                toks.get(3).and_then(|t| kv(t, "prio")).and_then(|v| v.parse::<u64>().ok()),
                toks.get(4).and_then(|t| kv(t, "bytes")).and_then(|v| v.parse::<u64>().ok()),
            ) else {
                return "bad-op".into();
            };
            q.tasks.insert(id, T { id, prio, bytes });
            q.pending.push(id);
            q.probe.as_ref().unwrap().push(id..id + bytes, prio as u128);
            res.tags.push("q_push".into());
            dump(q.probe.as_ref().unwrap())
        }
        "next" => {
            let p = q.probe.as_ref().unwrap();
            let min_pending = q.pending.iter().map(|i| q.tasks[i].prio).min();
            let iops_before = p.iops_avail();
            let bytes_before = p.bytes_avail();
            let fl_before = p.priorities_in_flight();
            match p.next_task() {
                Some(t) => {
                    let id = t.to_read().start;
                    let me = q.tasks.get(&id).copied();
                    // oracle: a pending task, of minimal priority, admitted by the rules of the property
                    let ok_task = me.map(|m| q.pending.contains(&id) && t.priority() == m.prio as u128 && t.num_bytes() == m.bytes).unwrap_or(false);
                    if !ok_task {
                        res.failures.push(OracleFailure { what: format!("next_task returned an unknown / non-pending task {id}"), key: Some("queue_task_lost".into()), line: n });
                    } else {
                        let m = me.unwrap();
                        if Some(m.prio) != min_pending {
                            res.failures.push(OracleFailure { what: format!("next_task returned priority {} while priority {:?} is pending", m.prio, min_pending), key: Some("queue_priority_order".into()), line: n });
                        }
                        let bypass = fl_before.first().map(|f| m.prio as u128 <= *f).unwrap_or(true);
                        if iops_before == 0 || (!bypass && m.bytes as i64 > bytes_before) {
                            res.failures.push(OracleFailure { what: format!("task {id} admitted with iops_avail={iops_before} bytes_avail={bytes_before} in flight {fl_before:?}"), key: Some("queue_admission".into()), line: n });
                        }
                        if !bypass {
                            res.tags.push("q_next_within_budget".into());
                        } else if m.bytes as i64 > bytes_before {
                            res.tags.push("q_next_priority_bypass".into());
                        }
                    }
                    q.pending.retain(|x| *x != id);
                    q.delivered.push(id);
                    q.held.insert(id, t);
                    res.tags.push("q_next_some".into());
                    if q.refused_once {
                        res.nontrivial = true;
                    }
                    format!("popped={id} {}", dump(q.probe.as_ref().unwrap()))
                }
                None => {
                    // oracle (no stuck state): with a pending task, a refusal must leave an enabled event that makes progress
                    if let Some(mp) = min_pending {
                        q.refused_once = true;
                        let lower_delivered = q.delivered.iter().any(|i| q.tasks[i].prio < mp);
                        if q.held.is_empty() && !lower_delivered {
                            res.failures.push(OracleFailure {
                                what: format!("stuck: next_task refused priority {mp} with no IOP running and no delivered task of smaller priority (iops_avail={iops_before} bytes_avail={bytes_before})"),
                                key: Some("queue_stuck".into()),
                                line: n,
                            });
                        }
                        res.tags.push(if iops_before == 0 { "q_next_refused_iops".into() } else { "q_next_refused_bytes".into() });
                    } else {
                        res.tags.push("q_next_empty".into());
                    }
                    format!("popped=none {}", dump(p))
                }
            }
        }
        "iop_done" => {
            let Some(id) = toks.get(2).and_then(|v| v.parse::<u64>().ok()) else { return "bad-op".into() };
            let Some(t) = q.held.remove(&id) else { return "not-enabled".into() };
            t.complete(true);
            let p = q.probe.as_ref().unwrap();
            p.on_iop_complete();
            let fin = p.take_finished();
            if fin != vec![(id, true)] {
                res.failures.push(OracleFailure { what: format!("completion callbacks {fin:?} after completing task {id}"), key: Some("queue_callback".into()), line: n });
            }
            res.tags.push("q_iop_done".into());
            dump(p)
        }
        "consumed" => {
            let Some(ids) = toks.get(2).and_then(|v| parse_nat_list(v)) else { return "bad-op".into() };
            if ids.is_empty() || ids.iter().any(|i| !q.delivered.contains(i) || q.held.contains_key(i)) {
                return "not-enabled".into();
            }
            let prio = q.tasks[&ids[0]].prio;
            if ids.iter().any(|i| q.tasks[i].prio != prio) {
                return "bad-op".into();
            }
            let mut seen = ids.clone();
            seen.sort();
            seen.dedup();
            if seen.len() != ids.len() {
                return "not-enabled".into();
            }
            let bytes: u64 = ids.iter().map(|i| q.tasks[i].bytes).sum();
            q.probe.as_ref().unwrap().on_bytes_consumed(bytes, prio as u128, ids.len());
            q.delivered.retain(|x| !ids.contains(x));
            res.tags.push(if ids.len() > 1 { "q_consumed_batch".into() } else { "q_consumed".into() });
            dump(q.probe.as_ref().unwrap())
        }
        "close" => {
            let p = q.probe.as_ref().unwrap();
            p.close();
            let mut fin = p.take_finished();
            fin.sort();
            let mut want: Vec<(u64, bool)> = q.pending.iter().map(|i| (*i, false)).collect();
            want.sort();
            if fin != want {
                res.failures.push(OracleFailure { what: format!("close cancelled {fin:?}, pending were {want:?}"), key: Some("queue_close_cancels".into()), line: n });
            }
            if p.next_task().is_some() || !p.done_scheduling() {
                res.failures.push(OracleFailure { what: "after close next_task still hands out a task / done_scheduling unset".into(), key: Some("queue_close_cancels".into()), line: n });
            }
            q.pending.clear();
            res.tags.push("q_close".into());
            format!("cancelled={} {}", show_nat_list(fin.iter().map(|x| x.0)), dump(p))
        }
        _ => return "bad-op".into(),
    };
    check_accounting(q, n, res);
    out
}

/// Generates a queue case by driving a real probe: the `next` lines record what the implementation handed out.
pub fn gen_queue_case(r: &mut Rng, reader: &Arc<dyn Reader>) -> Vec<String> {
    let cap = 1 + r.below(3);
    let buf = *r.pick(&[0u64, 1, 4, 8, 16, 32, 64]);
    let mut lines = vec![format!("q new cap={cap} buf={buf}")];
    let probe = QueueProbe::new(cap as u32, buf, reader.clone());
    let mut tasks: BTreeMap<u64, T> = BTreeMap::new();
    let mut held: BTreeMap<u64, ProbeTask> = BTreeMap::new();
    let mut completed: Vec<u64> = vec![]; // delivered, IOP done, not consumed
    let mut next_id = 0u64;
    let nprio = 1 + r.below(4);
    let n = 20 + r.usize(41);
    let mut closed = false;
    for _ in 0..n {
        match r.below(20) {
            0..=5 if !closed || r.chance(1, 4) => {
                // a request = 1-3 tasks of one priority
                let prio = r.below(nprio) * 3;
                for _ in 0..1 + r.below(3) {
                    let bytes = *r.pick(&[0u64, 1, 2, 4, 8, 8, 16, 40]);
                    let id = next_id;
                    next_id += 50;
                    tasks.insert(id, T { id, prio, bytes });
                    probe.push(id..id + bytes, prio as u128);
                    lines.push(format!("q push id={id} prio={prio} bytes={bytes}"));
                }
            }
            6..=11 => match probe.next_task() {
                Some(t) => {
                    let id = t.to_read().start;
                    lines.push(format!("q next {id}"));
                    held.insert(id, t);
                }
                None => lines.push("q next none".into()),
            },
            12..=15 => {
                if !held.is_empty() {
                    let ids: Vec<u64> = held.keys().copied().collect();
                    let id = *r.pick(&ids);
                    held.remove(&id).unwrap().complete(true);
                    probe.on_iop_complete();
                    completed.push(id);
                    lines.push(format!("q iop_done {id}"));
                }
            }
            16..=18 => {
                if !completed.is_empty() {
                    let first = *r.pick(&completed);
                    let prio = tasks[&first].prio;
                    let mut ids: Vec<u64> = if r.chance(1, 2) {
                        completed.iter().copied().filter(|i| tasks[i].prio == prio).collect()
                    } else {
                        vec![first]
                    };
                    ids.truncate(3);
                    let bytes: u64 = ids.iter().map(|i| tasks[i].bytes).sum();
                    probe.on_bytes_consumed(bytes, prio as u128, ids.len());
                    completed.retain(|x| !ids.contains(x));
                    lines.push(format!("q consumed {}", show_nat_list(ids)));
                }
            }
            _ => {
                if !closed && r.chance(1, 3) {
                    probe.close();
                    closed = true;
                    lines.push("q close".into());
                }
            }
        }
    }
    // drain: everything handed out completes and is consumed, then the queue must hand out again
    let ids: Vec<u64> = held.keys().copied().collect();
    for id in ids {
        held.remove(&id).unwrap().complete(true);
        probe.on_iop_complete();
        completed.push(id);
        lines.push(format!("q iop_done {id}"));
    }
    for id in completed.drain(..) {
        let t = tasks[&id];
        probe.on_bytes_consumed(t.bytes, t.prio as u128, 1);
        lines.push(format!("q consumed {id}"));
    }
    match probe.next_task() {
        Some(t) => lines.push(format!("q next {}", t.to_read().start)),
        None => lines.push("q next none".into()),
    }
    if !closed {
        lines.push("q close".into());
    }
    lines
}

pub fn gen_conc_case(r: &mut Rng, default_max: u64) -> Vec<String> {
    let mut lines = vec![];
    for _ in 0..2 {
        let cap = 1 + r.below(3);
        let buf = *r.pick(&[1u64, 8, 50, 200]);
        let bs = *r.pick(&[0u64, 4, 64]);
        let max = *r.pick(&[3u64, 16, 50, default_max]);
        let mode = *r.pick(&["join", "join", "seq", "seq", "drop"]);
        let k = 2 + r.usize(4);
        let mut reqs = vec![];
        for _ in 0..k {
            let prio = r.below(4);
            let rs = super::gen_sorted_ranges(r, false, max, bs);
            reqs.push(format!("{prio}:{}", show_ranges(&rs)));
        }
        lines.push(format!("conc cap={cap} buf={buf} bs={bs} max={max} mode={mode} | {}", reqs.join(" | ")));
    }
    lines
}

pub fn exec_conc(c: &mut super::C30, toks: &[&str], n: usize, res: &mut CaseResult) -> String {
    if toks.len() < 8 || toks[6] != "|" {
        return "bad-op".into();
    }
    let (Some(cap), Some(buf), Some(bs), Some(max), Some(mode)) = (
        kv(toks[1], "cap").and_then(|v| v.parse::<usize>().ok()),
        kv(toks[2], "buf").and_then(|v| v.parse::<u64>().ok()),
        kv(toks[3], "bs").and_then(|v| v.parse::<u64>().ok()),
        kv(toks[4], "max").and_then(|v| v.parse::<u64>().ok()),
        kv(toks[5], "mode"),
    ) else {
        return "bad-op".into();
    };
    if cap == 0 || max == 0 {
        return "bad-op".into();
    }
    let mut reqs: Vec<(u64, Vec<Range<u64>>)> = vec![];
    for t in toks[7..].iter().filter(|t| **t != "|") {
        let Some((p, rs)) = t.split_once(':') else { return "bad-op".into() };
        let (Some(p), Some(rs)) = (p.parse::<u64>().ok(), parse_ranges(rs)) else { return "bad-op".into() };
        if rs.iter().any(|r| r.start > r.end || r.end > super::FILE_LEN) {
            return "bad-op".into();
        }
        reqs.push((p, rs));
    }
    let (fs0, sched, default_max) = c.store_with(bs, cap, buf);
    let fs = if max == default_max { fs0.clone() } else { lance_io::scheduler::verif_hooks::with_max_iop_size(&fs0, max) };
    drop(fs0); // every FileScheduler holds the ScanScheduler alive
    // submit everything first (the tasks are queued; the I/O loop only runs inside block_on)
    let mut futs = vec![];
    for (p, rs) in &reqs {
        futs.push(fs.submit_request(rs.clone(), *p));
    }
    let mut order: Vec<usize> = (0..reqs.len()).collect();
    let drop_mode = mode == "drop";
    // the scheduler is dropped before any I/O ran (mode drop) or kept alive until the I/O is done
    let mut keep = Some((fs, sched));
    if drop_mode {
        if !super::c30_scen::drop_with_watchdog(keep.take().unwrap()) {
            res.failures.push(OracleFailure { what: format!("dropping the scheduler with queued requests did not return within 5 s (cap={cap} buf={buf})"), key: Some("hang".into()), line: n });
            return "hang".into();
        }
    } else if mode == "seq" {
        order.sort_by_key(|i| reqs[*i].0);
    }
    let rt = c.rt();
    let seq = mode == "seq";
    let out = catch_unwind(AssertUnwindSafe(|| {
        rt.block_on(async move {
            tokio::time::timeout(Duration::from_secs(15), async move {
                let mut slots: Vec<Option<lance_core::Result<Vec<bytes::Bytes>>>> = (0..futs.len()).map(|_| None).collect();
                if seq {
                    let mut fs_: Vec<Option<_>> = futs.into_iter().map(Some).collect();
                    for i in order {
                        slots[i] = Some(fs_[i].take().unwrap().await);
                    }
                } else {
                    let rs = futures::future::join_all(futs).await;
                    for (i, r) in rs.into_iter().enumerate() {
                        slots[i] = Some(r);
                    }
                }
                slots
            })
            .await
        })
    }));
    drop(keep);
    res.tags.push(format!("conc_{mode}"));
    match out {
        Err(_) => {
            res.failures.push(OracleFailure { what: "panic while awaiting concurrent requests".into(), key: Some(if reqs.iter().all(|(_, rs)| super::nonempty_sorted(rs)) { "response_mismatch" } else { "unsorted_ranges" }.into()), line: n });
            "panic".into()
        }
        Ok(Err(_)) => {
            res.failures.push(OracleFailure { what: format!("requests did not complete within 15 s (cap={cap} buf={buf} mode={mode})"), key: Some("hang".into()), line: n });
            "hang".into()
        }
        Ok(Ok(slots)) => {
            let mut outs = vec![];
            for (i, s) in slots.into_iter().enumerate() {
                let rs = &reqs[i].1;
                let sorted = super::nonempty_sorted(rs);
                match s.unwrap() {
                    Ok(bufs) => {
                        if let Some(what) = c.judge(rs, &bufs) {
                            res.failures.push(OracleFailure { what: format!("concurrent request {i}: {what}"), key: Some(if sorted { "response_mismatch" } else { "unsorted_ranges" }.into()), line: n });
                        }
                        if drop_mode && rs.iter().any(|r| r.start < r.end) {
                            res.failures.push(OracleFailure { what: format!("request {i} completed with data although the scheduler was dropped before any I/O ran"), key: Some("drop_cancels".into()), line: n });
                        }
                        let body: Vec<String> = bufs.iter().map(|b| format!("{}:{}", b.len(), super::hash_buf(b))).collect();
                        outs.push(format!("ok n={} {}", bufs.len(), if body.is_empty() { "-".into() } else { body.join(";") }));
                    }
                    Err(e) => {
                        if !drop_mode {
                            res.failures.push(OracleFailure { what: format!("concurrent request {i} failed: {e}"), key: Some(if sorted { "response_mismatch" } else { "unsorted_ranges" }.into()), line: n });
                        }
                        outs.push("err".into());
                    }
                }
            }
            res.nontrivial = true;
            outs.join(" | ")
        }
    }
}
