//! C30 part (b): IoQueue probe cases and black-box concurrent cases (stub: filled in after part (a) is green)
use hcommon::*;

#[derive(Default)]
pub struct QState {}

pub fn gen_queue_case(_r: &mut Rng) -> Vec<String> {
    vec!["req bs=0 max=5 0-10,3-3,12-20".into()]
}
pub fn gen_conc_case(_r: &mut Rng, _default_max: u64) -> Vec<String> {
    vec!["req bs=1 max=5 0-10,11-20".into()]
}
pub fn exec_q(_q: &mut QState, _rt: &tokio::runtime::Runtime, _data: &[u8], _toks: &[&str], _n: usize, _res: &mut CaseResult) -> String {
    "bad-op".into()
}
pub fn exec_conc(_c: &mut super::C30, _toks: &[&str], _n: usize, _res: &mut CaseResult) -> String {
    "bad-op".into()
}
