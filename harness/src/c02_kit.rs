//! C02 helpers on top of gatekit (read-only user of the kit):
//!  * `DupStore`   — sits UNDER a `GatedObjectStore`; when the shared flag is armed, the next call is executed
//!                   twice and the SECOND answer is returned (a request whose response was lost and which the
//!                   client layer sent again: duplicated request / retry).
//!  * `GatedLock`  — a `CommitLock` whose `lock()` / `release()` are gate calls; the lock is granted only when it
//!                   is free and held until released (the CommitLock contract: mutual exclusion, no expiry).
//!                   With `checks`, `lock(v)` answers `CommitConflict` instead of granting the lock when the
//!                   manifest of version `v` already exists ("return CommitConflict if the version has already
//!                   been committed") — the contract allows both kinds of lock.
#![allow(dead_code)]

use std::fmt;
use std::sync::atomic::{AtomicBool, Ordering};
use std::sync::{Arc, Mutex};

use async_trait::async_trait;
use futures::stream::BoxStream;
use lance_core::Error;
use lance_table::io::commit::{CommitError, CommitLease, CommitLock, ManifestNamingScheme};
use object_store::path::Path;
use object_store::{
    GetOptions, GetResult, ListResult, MultipartUpload, ObjectMeta, ObjectStore, PutMultipartOptions, PutOptions,
    PutPayload, PutResult, Result as OsResult,
};
use snafu::location;

use super::gatekit::{Fault, GateHandle};

pub struct DupStore {
    inner: Arc<dyn ObjectStore>,
    pub dup_next: Arc<AtomicBool>,
    /// number of calls that were really executed twice
    pub dups_done: Arc<Mutex<u64>>,
}

impl DupStore {
    pub fn new(inner: Arc<dyn ObjectStore>) -> Self {
        Self { inner, dup_next: Arc::new(AtomicBool::new(false)), dups_done: Arc::new(Mutex::new(0)) }
    }
    fn take(&self) -> bool {
        let d = self.dup_next.swap(false, Ordering::SeqCst);
        if d {
            *self.dups_done.lock().unwrap() += 1;
        }
        d
    }
}

impl fmt::Debug for DupStore {
    fn fmt(&self, f: &mut fmt::Formatter<'_>) -> fmt::Result {
        write!(f, "DupStore")
    }
}
impl fmt::Display for DupStore {
    fn fmt(&self, f: &mut fmt::Formatter<'_>) -> fmt::Result {
        write!(f, "DupStore({})", self.inner)
    }
}

#[async_trait]
impl ObjectStore for DupStore {
    async fn put_opts(&self, location: &Path, payload: PutPayload, opts: PutOptions) -> OsResult<PutResult> {
        if self.take() {
            let _ = self.inner.put_opts(location, payload.clone(), opts.clone()).await;
        }
        self.inner.put_opts(location, payload, opts).await
    }
    async fn put_multipart_opts(&self, location: &Path, opts: PutMultipartOptions) -> OsResult<Box<dyn MultipartUpload>> {
        self.take();
        self.inner.put_multipart_opts(location, opts).await
    }
    async fn get_opts(&self, location: &Path, options: GetOptions) -> OsResult<GetResult> {
        self.take();
        self.inner.get_opts(location, options).await
    }
    async fn head(&self, location: &Path) -> OsResult<ObjectMeta> {
        self.take();
        self.inner.head(location).await
    }
    async fn delete(&self, location: &Path) -> OsResult<()> {
        if self.take() {
            let _ = self.inner.delete(location).await;
        }
        self.inner.delete(location).await
    }
    fn list(&self, prefix: Option<&Path>) -> BoxStream<'static, OsResult<ObjectMeta>> {
        self.take();
        self.inner.list(prefix)
    }
    async fn list_with_delimiter(&self, prefix: Option<&Path>) -> OsResult<ListResult> {
        self.take();
        self.inner.list_with_delimiter(prefix).await
    }
    async fn copy(&self, from: &Path, to: &Path) -> OsResult<()> {
        if self.take() {
            let _ = self.inner.copy(from, to).await;
        }
        self.inner.copy(from, to).await
    }
    async fn rename(&self, from: &Path, to: &Path) -> OsResult<()> {
        if self.take() {
            let _ = self.inner.rename(from, to).await;
        }
        self.inner.rename(from, to).await
    }
    async fn copy_if_not_exists(&self, from: &Path, to: &Path) -> OsResult<()> {
        if self.take() {
            let _ = self.inner.copy_if_not_exists(from, to).await;
        }
        self.inner.copy_if_not_exists(from, to).await
    }
    async fn rename_if_not_exists(&self, from: &Path, to: &Path) -> OsResult<()> {
        if self.take() {
            let _ = self.inner.rename_if_not_exists(from, to).await;
        }
        self.inner.rename_if_not_exists(from, to).await
    }
}

// ------------------------------------------------------------------------------------------------

fn injected(op: &str) -> CommitError {
    CommitError::OtherError(Error::io(format!("injected fault at {op}"), location!()))
}

/// the table's commit lock: who holds it
pub type LockCell = Arc<Mutex<Option<usize>>>;

#[derive(Debug)]
pub struct GatedLock {
    pub cell: LockCell,
    pub h: GateHandle,
    /// a lock service that knows the table: (ungated store, table base path)
    pub checks: Option<(Arc<dyn ObjectStore>, Path)>,
}

pub struct GatedLease {
    cell: LockCell,
    h: GateHandle,
}

#[async_trait]
impl CommitLock for GatedLock {
    type Lease = GatedLease;

    async fn lock(&self, version: u64) -> Result<GatedLease, CommitError> {
        loop {
            let f = self.h.enter(format!("lk.lock {version}")).await;
            if f == Fault::FailBefore {
                return Err(injected("lock"));
            }
            let committed = match &self.checks {
                Some((store, base)) => store.head(&ManifestNamingScheme::V2.manifest_path(base, version)).await.is_ok(),
                None => false,
            };
            let (granted, refused) = {
                let mut g = self.cell.lock().unwrap();
                if g.is_none() && committed {
                    (false, true)
                } else if g.is_none() {
                    *g = Some(self.h.task);
                    (true, false)
                } else {
                    (false, false)
                }
            };
            if f == Fault::LostResponse {
                return Err(injected("lock"));
            }
            if refused {
                return Err(CommitError::CommitConflict);
            }
            if granted {
                return Ok(GatedLease { cell: self.cell.clone(), h: self.h.clone() });
            }
            // "If it is already locked by another transaction, wait until it is unlocked": ask again
        }
    }
}

#[async_trait]
impl CommitLease for GatedLease {
    async fn release(&self, success: bool) -> Result<(), CommitError> {
        let f = self.h.enter(format!("lk.release {success}")).await;
        if f == Fault::FailBefore {
            return Err(injected("release"));
        }
        {
            let mut g = self.cell.lock().unwrap();
            if *g == Some(self.h.task) {
                *g = None;
            }
        }
        if f == Fault::LostResponse {
            return Err(injected("release"));
        }
        Ok(())
    }
}
