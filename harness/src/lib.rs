//! Common harness code: PRNG, CLI, case runner, output files.
//!
//! Every property binary is a *generator* of op-line cases plus an *interpreter* that executes
//! op lines against the real lance code.  The same op lines are fed to the Lean driver by
//! `/verif/check`; outputs are compared line by line.
//!
//! Files written into `--out DIR`:
//!   ops.txt      `# case <n> seed=<s> src=<gen|corpus|replay>` followed by that case's op lines
//!   impl.txt     the same `# case` lines, each followed by one output line per op line
//!   oracle.jsonl one JSON object per property-oracle failure observed on the implementation
//!   stats.json   evaluations, distinct/non-trivial counts, distribution, samples

use std::collections::{BTreeMap, HashSet};
use std::fmt::Write as _;
use std::io::Write as _;
use std::panic::{catch_unwind, AssertUnwindSafe};
use std::path::{Path, PathBuf};



/// SplitMix64
#[derive(Clone, Debug)]
pub struct Rng(pub u64);

impl Rng {
    pub fn new(seed: u64) -> Self {
        Self(seed.wrapping_mul(0x9E3779B97F4A7C15).wrapping_add(0x1234_5678_9ABC_DEF1))
    }
    pub fn next_u64(&mut self) -> u64 {
        self.0 = self.0.wrapping_add(0x9E3779B97F4A7C15);
        let mut z = self.0;
        z = (z ^ (z >> 30)).wrapping_mul(0xBF58476D1CE4E5B9);
        z = (z ^ (z >> 27)).wrapping_mul(0x94D049BB133111EB);
        z ^ (z >> 31)
    }
    /// uniform in 0..n (n > 0)
    pub fn below(&mut self, n: u64) -> u64 {
        self.next_u64() % n
    }
    pub fn range(&mut self, lo: u64, hi_incl: u64) -> u64 {
        lo + self.below(hi_incl - lo + 1)
    }
    pub fn usize(&mut self, n: usize) -> usize {
        self.below(n as u64) as usize
    }
    pub fn chance(&mut self, num: u64, den: u64) -> bool {
        self.below(den) < num
    }
    pub fn pick<'a, T>(&mut self, xs: &'a [T]) -> &'a T {
        &xs[self.usize(xs.len())]
    }
    pub fn fork(&mut self) -> Self {
        Self(self.next_u64())
    }
}

#[derive(Clone, Copy, Debug, PartialEq, Eq)]
pub enum Tier {
    Quick,
    Thorough,
    Search,
}

#[derive(Clone, Debug)]
pub struct Args {
    pub seed: u64,
    pub tier: Tier,
    pub out: PathBuf,
    pub replay: Option<PathBuf>,
    pub corpus: Option<PathBuf>,
    pub cases: Option<usize>,
}

pub fn parse_args() -> Args {
    let mut a = Args {
        seed: 1,
        tier: Tier::Quick,
        out: PathBuf::from("."),
        replay: None,
        corpus: None,
        cases: None,
    };
    let argv: Vec<String> = std::env::args().collect();
    let mut i = 1;
    while i < argv.len() {
        let v = argv.get(i + 1).cloned().unwrap_or_default();
        match argv[i].as_str() {
            "--seed" => a.seed = v.parse().expect("seed"),
            "--tier" => {
                a.tier = match v.as_str() {
                    "quick" => Tier::Quick,
                    "thorough" => Tier::Thorough,
                    "search" => Tier::Search,
                    _ => panic!("tier"),
                }
            }
            "--out" => a.out = PathBuf::from(v),
            "--replay" => a.replay = Some(PathBuf::from(v)),
            "--corpus" => a.corpus = Some(PathBuf::from(v)),
            "--cases" => a.cases = Some(v.parse().expect("cases")),
            other => panic!("unknown arg {other}"),
        }
        i += 2;
    }
    a
}

/// A property-oracle failure observed on the implementation (independent of the Lean model).
#[derive(Clone, Debug)]
pub struct OracleFailure {
    /// what was expected / observed, human readable
    pub what: String,
    /// classification key used to match known findings; `None` = unclassified
    pub key: Option<String>,
    /// index of the op line within the case at which it was detected
    pub line: usize,
}

#[derive(Default, Debug)]
pub struct CaseResult {
    pub outputs: Vec<String>,
    pub failures: Vec<OracleFailure>,
    /// per-case tags for the distribution report (op kinds, branches, error kinds hit)
    pub tags: Vec<String>,
    pub nontrivial: bool,
}

pub trait Prop {
    fn id(&self) -> &'static str;
    /// how many generated cases for a tier
    fn budget(&self, tier: Tier) -> usize;
    /// generate one case (a list of op lines). `idx` is the case index within the run; cases
    /// below `exhaustive_len(tier)` may be drawn from an exhaustive enumeration.
    fn gen_case(&mut self, rng: &mut Rng, tier: Tier, idx: usize) -> Vec<String>;
    /// execute a case on the real code; must output exactly one line per op line
    fn exec_case(&mut self, lines: &[String]) -> CaseResult;
    fn rule(&self) -> String;
}

pub fn json_escape(s: &str) -> String {
    let mut o = String::with_capacity(s.len() + 2);
    for c in s.chars() {
        match c {
            '"' => o.push_str("\\\""),
            '\\' => o.push_str("\\\\"),
            '\n' => o.push_str("\\n"),
            '\t' => o.push_str("\\t"),
            '\r' => o.push_str("\\r"),
            c if (c as u32) < 0x20 => {
                let _ = write!(o, "\\u{:04x}", c as u32);
            }
            c => o.push(c),
        }
    }
    o
}

fn json_str_list(xs: &[String]) -> String {
    let v: Vec<String> = xs.iter().map(|s| format!("\"{}\"", json_escape(s))).collect();
    format!("[{}]", v.join(","))
}

fn read_case_file(p: &Path) -> Vec<Vec<String>> {
    // a corpus / replay file holds one or more cases separated by `# case` lines; a JSON replay
    // file (written by ./check) holds {"case": [lines…]}
    let text = std::fs::read_to_string(p).expect("read case file");
    if text.trim_start().starts_with('{') {
        let v: serde_json::Value = serde_json::from_str(&text).expect("replay json");
        let lines = v["case"]
            .as_array()
            .expect("case array")
            .iter()
            .map(|x| x.as_str().unwrap().to_string())
            .collect();
        return vec![lines];
    }
    let mut cases = vec![];
    let mut cur: Vec<String> = vec![];
    for l in text.lines() {
        if l.starts_with("# case") {
            if !cur.is_empty() {
                cases.push(std::mem::take(&mut cur));
            }
        } else if !l.trim().is_empty() && !l.starts_with("##") {
            cur.push(l.to_string());
        }
    }
    if !cur.is_empty() {
        cases.push(cur);
    }
    cases
}

fn hash_lines(lines: &[String]) -> u64 {
    use std::hash::{Hash, Hasher};
    let mut h = std::collections::hash_map::DefaultHasher::new();
    lines.hash(&mut h);
    h.finish()
}

pub fn run_main<P: Prop>(mut p: P) {
    let args = parse_args();
    std::fs::create_dir_all(&args.out).unwrap();
    let mut ops = std::io::BufWriter::new(std::fs::File::create(args.out.join("ops.txt")).unwrap());
    let mut imp = std::io::BufWriter::new(std::fs::File::create(args.out.join("impl.txt")).unwrap());
    let mut orc = std::io::BufWriter::new(std::fs::File::create(args.out.join("oracle.jsonl")).unwrap());

    // (source, sub-seed, lines)
    let mut cases: Vec<(String, u64, Vec<String>)> = vec![];
    if let Some(r) = &args.replay {
        for c in read_case_file(r) {
            cases.push(("replay".into(), 0, c));
        }
    } else {
        if let Some(dir) = &args.corpus {
            if let Ok(rd) = std::fs::read_dir(dir) {
                let mut files: Vec<PathBuf> = rd.filter_map(|e| e.ok().map(|e| e.path())).collect();
                files.sort();
                for f in files {
                    if f.extension().map(|e| e == "case").unwrap_or(false) {
                        for c in read_case_file(&f) {
                            cases.push((format!("corpus:{}", f.file_name().unwrap().to_string_lossy()), 0, c));
                        }
                    }
                }
            }
        }
        let n = args.cases.unwrap_or_else(|| p.budget(args.tier));
        let mut master = Rng::new(args.seed);
        for idx in 0..n {
            let mut r = master.fork();
            let sub = r.0;
            let c = p.gen_case(&mut r, args.tier, idx);
            cases.push(("gen".into(), sub, c));
        }
    }

    // silence panic backtraces of caught panics (they are reported as outputs)
    std::panic::set_hook(Box::new(|_| {}));

    let mut seen: HashSet<u64> = HashSet::new();
    let mut distinct_nontrivial = 0usize;
    let mut n_fail = 0usize;
    let mut dist: BTreeMap<String, u64> = BTreeMap::new();
    let mut samples: Vec<String> = vec![];
    let mut total_lines = 0usize;
    // wall-clock guard: stop early (recorded in stats) rather than run away
    let max_s: u64 = std::env::var("HARNESS_MAX_S").ok().and_then(|v| v.parse().ok()).unwrap_or(match args.tier {
        Tier::Quick => 120,
        Tier::Thorough => 1500,
        Tier::Search => 400,
    });
    let started = std::time::Instant::now();
    let mut executed = 0usize;
    let mut truncated = false;
    for (n, (src, sub, lines)) in cases.iter().enumerate() {
        if started.elapsed().as_secs() > max_s {
            truncated = true;
            break;
        }
        executed += 1;
        writeln!(ops, "# case {n} seed={sub} src={src}").unwrap();
        writeln!(imp, "# case {n} seed={sub} src={src}").unwrap();
        for l in lines {
            writeln!(ops, "{l}").unwrap();
        }
        let t_case = std::time::Instant::now();
        let res = catch_unwind(AssertUnwindSafe(|| p.exec_case(lines)));
        if std::env::var("HARNESS_TIMING").is_ok() && t_case.elapsed().as_millis() > 200 {
            eprintln!("slow case {n}: {} ms: {:?}", t_case.elapsed().as_millis(), lines);
        }
        let res = match res {
            Ok(r) => r,
            Err(e) => {
                let msg = e
                    .downcast_ref::<String>()
                    .cloned()
                    .or_else(|| e.downcast_ref::<&str>().map(|s| s.to_string()))
                    .unwrap_or_else(|| "panic".into());
                CaseResult {
                    outputs: lines.iter().map(|_| "panic".to_string()).collect(),
                    failures: vec![OracleFailure {
                        what: format!("implementation panicked: {msg}"),
                        key: Some("panic".into()),
                        line: 0,
                    }],
                    tags: vec!["panic".into()],
                    nontrivial: true,
                }
            }
        };
        assert_eq!(res.outputs.len(), lines.len(), "one output line per op line (case {n})");
        for o in &res.outputs {
            debug_assert!(!o.contains('\n'));
            writeln!(imp, "{o}").unwrap();
        }
        total_lines += lines.len();
        for f in &res.failures {
            n_fail += 1;
            writeln!(
                orc,
                "{{\"case_index\":{n},\"src\":\"{}\",\"seed\":{sub},\"line\":{},\"key\":{},\"what\":\"{}\",\"case\":{}}}",
                json_escape(src),
                f.line,
                match &f.key {
                    Some(k) => format!("\"{}\"", json_escape(k)),
                    None => "null".into(),
                },
                json_escape(&f.what),
                json_str_list(lines)
            )
            .unwrap();
        }
        for t in &res.tags {
            *dist.entry(t.clone()).or_insert(0) += 1;
        }
        if seen.insert(hash_lines(lines)) && res.nontrivial {
            distinct_nontrivial += 1;
        }
        if samples.len() < 3 && src == "gen" || (samples.is_empty() && n + 1 == cases.len()) {
            samples.push(json_str_list(&lines[..lines.len().min(24)]));
        }
        ops.flush().unwrap();
        imp.flush().unwrap();
    }
    ops.flush().unwrap();
    imp.flush().unwrap();
    orc.flush().unwrap();
    let dist_json: Vec<String> = dist.iter().map(|(k, v)| format!("\"{}\":{}", json_escape(k), v)).collect();
    let stats = format!(
        "{{\"property\":\"{}\",\"evaluations\":{},\"generated\":{},\"truncated_by_time\":{},\"op_lines\":{},\"distinct_nontrivial\":{},\"oracle_failures\":{},\"rule\":\"{}\",\"distribution\":{{{}}},\"samples\":[{}]}}\n",
        p.id(),
        executed,
        cases.len(),
        truncated,
        total_lines,
        distinct_nontrivial,
        n_fail,
        json_escape(&p.rule()),
        dist_json.join(","),
        samples.join(",")
    );
    std::fs::write(args.out.join("stats.json"), stats).unwrap();
}

pub fn show_nat_list<I: IntoIterator<Item = u64>>(xs: I) -> String {
    let v: Vec<String> = xs.into_iter().map(|x| x.to_string()).collect();
    if v.is_empty() {
        "-".into()
    } else {
        v.join(",")
    }
}

pub fn parse_nat_list(s: &str) -> Option<Vec<u64>> {
    if s == "-" {
        return Some(vec![]);
    }
    s.split(',').map(|x| x.parse().ok()).collect()
}
