//! C32 case generator: real lance values (well-formed and with one normalisation clause broken) and protobuf messages.
use std::collections::HashMap;
use std::sync::Arc;

use super::canon_v;
use super::read::any;
use hcommon::Rng;
use lance::dataset::transaction::{
    DataReplacementGroup, Operation, RewriteGroup, RewrittenIndex, Transaction, UpdateMap, UpdateMapEntry, UpdateMode,
};
use lance_core::datatypes::{Dictionary, Encoding, Field, LogicalType, Schema};
use lance_index::mem_wal::{MemWal, MemWalId, State};
use lance_io::utils::CachedFileSize;
use lance_table::format::{
    pb, BasePath, DataFile, DataStorageFormat, DeletionFile, DeletionFileType, ExternalFile, Fragment, IndexMetadata,
    Manifest, RowDatasetVersionMeta, RowIdMeta, WriterVersion,
};

const ALPHA: &[u8] = b"abcxyzABZ019_./-";

fn s(rng: &mut Rng) -> String {
    let n = rng.usize(6);
    let mut o = String::new();
    for _ in 0..n {
        match rng.below(24) {
            0 => o.push(' '),
            1 => o.push('é'),
            2 => o.push('日'),
            _ => o.push(ALPHA[rng.usize(ALPHA.len())] as char),
        }
    }
    o
}

fn s1(rng: &mut Rng) -> String {
    let mut x = s(rng);
    if x.is_empty() {
        x.push('t');
    }
    x
}

fn opt<X>(rng: &mut Rng, f: impl FnOnce(&mut Rng) -> X) -> Option<X> {
    if rng.chance(1, 2) {
        Some(f(rng))
    } else {
        None
    }
}

fn u64v(rng: &mut Rng) -> u64 {
    match rng.below(10) {
        0 => 0,
        1 => u64::MAX,
        2 => 1 << 63,
        3 => (1 << 32) + rng.below(5),
        4 => rng.next_u64(),
        _ => rng.below(1000),
    }
}

fn u32v(rng: &mut Rng) -> u32 {
    match rng.below(8) {
        0 => 0,
        1 => u32::MAX,
        2 => rng.next_u64() as u32,
        _ => rng.below(100) as u32,
    }
}

fn i32v(rng: &mut Rng) -> i32 {
    match rng.below(10) {
        0 => -1,
        1 => -2,
        2 => i32::MAX,
        3 => i32::MIN,
        _ => rng.below(50) as i32,
    }
}

fn vecof<X>(rng: &mut Rng, max: usize, mut f: impl FnMut(&mut Rng) -> X) -> Vec<X> {
    let n = rng.usize(max + 1);
    (0..n).map(|_| f(rng)).collect()
}

fn bytes(rng: &mut Rng) -> Vec<u8> {
    vecof(rng, 6, |r| r.below(256) as u8)
}

fn str_map(rng: &mut Rng, max: usize) -> HashMap<String, String> {
    let mut m = HashMap::new();
    for _ in 0..rng.usize(max + 1) {
        m.insert(s(rng), s(rng));
    }
    m
}

const VERSIONS: &[(u32, u32)] = &[(0, 0), (0, 1), (0, 2), (0, 3), (2, 0), (2, 1), (2, 2), (7, 9)];

pub fn data_file(rng: &mut Rng) -> DataFile {
    let (ma, mi) = *rng.pick(VERSIONS);
    DataFile {
        path: s(rng),
        fields: vecof(rng, 4, i32v),
        column_indices: vecof(rng, 4, i32v),
        file_major_version: ma,
        file_minor_version: mi,
        file_size_bytes: CachedFileSize::new(if rng.chance(1, 3) { 0 } else { u64v(rng) }),
        base_id: opt(rng, u32v),
    }
}

pub fn deletion_file(rng: &mut Rng, max_deleted: Option<usize>) -> DeletionFile {
    let n = match max_deleted {
        Some(m) => {
            if rng.chance(1, 3) {
                1
            } else {
                1 + rng.usize(m.max(1))
            }
        }
        None => {
            if rng.chance(1, 3) {
                1
            } else {
                1 + (u64v(rng) >> 1) as usize
            }
        }
    };
    DeletionFile {
        read_version: u64v(rng),
        id: u64v(rng),
        file_type: if rng.chance(1, 2) { DeletionFileType::Array } else { DeletionFileType::Bitmap },
        num_deleted_rows: if rng.chance(1, 4) { None } else { Some(n) },
        base_id: opt(rng, u32v),
    }
}

fn external(rng: &mut Rng) -> ExternalFile {
    ExternalFile { path: s(rng), offset: u64v(rng), size: u64v(rng) }
}

fn row_id_meta(rng: &mut Rng) -> RowIdMeta {
    if rng.chance(2, 3) {
        RowIdMeta::Inline(bytes(rng))
    } else {
        RowIdMeta::External(external(rng))
    }
}

fn version_meta(rng: &mut Rng) -> RowDatasetVersionMeta {
    if rng.chance(2, 3) {
        RowDatasetVersionMeta::Inline(bytes(rng))
    } else {
        RowDatasetVersionMeta::External(external(rng))
    }
}

/// well-formed fragment (row counts stay small: `num_rows` subtracts and the manifest sums them)
pub fn fragment(rng: &mut Rng, need_row_ids: bool) -> Fragment {
    // boundary values first: the decoders special-case 0
    let physical = match rng.below(10) {
        0 | 1 => None,
        2 | 3 => Some(1),
        4 => Some(2),
        _ => Some(1 + rng.usize(1 << 20)),
    };
    Fragment {
        id: u64v(rng),
        files: vecof(rng, 3, data_file),
        deletion_file: if rng.chance(1, 2) { Some(deletion_file(rng, physical.or(Some(1000)))) } else { None },
        row_id_meta: if need_row_ids || rng.chance(1, 2) { Some(row_id_meta(rng)) } else { None },
        physical_rows: physical,
        last_updated_at_version_meta: opt(rng, version_meta),
        created_at_version_meta: opt(rng, version_meta),
    }
}

fn fragments(rng: &mut Rng, max: usize) -> Vec<Fragment> {
    vecof(rng, max, |r| fragment(r, false))
}

const LTYPES: &[&str] = &["int32", "string", "struct", "list", "large_list.struct", "fixed_size_list:float:8", "dict:string:int8:false", ""];

fn field_tree(rng: &mut Rng, next_id: &mut i32, parent: i32, depth: u32) -> Field {
    let id = *next_id;
    *next_id += 1 + rng.below(2) as i32;
    let mut metadata = str_map(rng, 2);
    if rng.chance(1, 6) {
        metadata.insert("ARROW:extension:name".into(), s(rng));
    }
    let nchildren = if depth >= 3 { 0 } else { rng.usize(3 + (depth == 0) as usize) };
    let nchildren = if rng.chance(1, 2) { 0 } else { nchildren };
    let children = (0..nchildren).map(|_| field_tree(rng, next_id, id, depth + 1)).collect();
    Field {
        name: s(rng),
        id,
        parent_id: parent,
        logical_type: LogicalType::from(*rng.pick(LTYPES)),
        metadata,
        encoding: match rng.below(6) {
            0 => Some(Encoding::Plain),
            1 => Some(Encoding::VarBinary),
            2 => Some(Encoding::Dictionary),
            3 => Some(Encoding::RLE),
            _ => None,
        },
        nullable: rng.chance(1, 2),
        children,
        dictionary: if rng.chance(1, 6) {
            Some(Dictionary { offset: (u64v(rng) >> 1) as usize, length: rng.usize(1000), values: None })
        } else {
            None
        },
        unenforced_primary_key: rng.chance(1, 5),
    }
}

/// well-formed schema: ids strictly increasing in depth-first order, parent ids consistent
pub fn schema(rng: &mut Rng, with_metadata: bool) -> Schema {
    let mut next = rng.below(3) as i32;
    let n = rng.usize(4);
    let fields = (0..n).map(|_| field_tree(rng, &mut next, -1, 0)).collect();
    Schema { fields, metadata: if with_metadata { str_map(rng, 2) } else { HashMap::new() } }
}

fn all_fields_mut<'a>(fs: &'a mut Vec<Field>, out: &mut Vec<*mut Field>) {
    for f in fs.iter_mut() {
        out.push(f as *mut Field);
        all_fields_mut(&mut f.children, out);
    }
    let _ = &fs;
}

/// break the schema so that the parent-id rebuild gives something else (or panics); false if it has too few fields
fn break_schema(rng: &mut Rng, sc: &mut Schema) -> bool {
    let mut ptrs = vec![];
    all_fields_mut(&mut sc.fields, &mut ptrs);
    let nested: Vec<usize> = (0..ptrs.len()).filter(|&i| unsafe_parent(&ptrs, i) != -1).collect();
    if nested.is_empty() {
        return false;
    }
    let i = *rng.pick(&nested);
    // SAFETY: the pointers address distinct nodes of the tree owned by `sc`, used one at a time
    let f = unsafe { &mut *ptrs[i] };
    match rng.below(3) {
        0 => f.parent_id = -1,        // a nested field that claims to be top-level
        1 => f.parent_id = 1_000_000, // parent that does not exist: `unwrap` panics
        _ => {
            // unassigned ids everywhere
            for p in &ptrs {
                let g = unsafe { &mut **p };
                g.id = -1;
                g.parent_id = -1;
            }
        }
    }
    true
}

fn unsafe_parent(ptrs: &[*mut Field], i: usize) -> i32 {
    unsafe { (*ptrs[i]).parent_id }
}

fn base_path(rng: &mut Rng, id: u32) -> BasePath {
    BasePath { id, name: opt(rng, s), is_dataset_root: rng.chance(1, 2), path: s(rng) }
}

fn base_paths_vec(rng: &mut Rng) -> Vec<BasePath> {
    vecof(rng, 3, |r| {
        let id = u32v(r);
        base_path(r, id)
    })
}

pub fn manifest(rng: &mut Rng) -> Manifest {
    let stable = rng.chance(1, 3);
    let frags: Vec<Fragment> = vecof(rng, 3, |r| fragment(r, stable));
    let mut bases = HashMap::new();
    for _ in 0..rng.usize(3) {
        let id = u32v(rng);
        bases.insert(id, base_path(rng, id));
    }
    let fmt = DataStorageFormat { file_format: if rng.chance(4, 5) { "lance".into() } else { s(rng) }, version: rng.pick(&["0.1", "2.0", "2.1", "x"]).to_string() };
    let mut m = Manifest::new(schema(rng, true), Arc::new(frags), fmt, bases);
    m.version = if rng.chance(1, 4) { u64v(rng) | (1 << 63) } else { u64v(rng) };
    m.branch = opt(rng, s);
    m.writer_version = opt(rng, |r| WriterVersion { library: s(r), version: s(r), prerelease: opt(r, s), build_metadata: opt(r, s) });
    m.version_aux_data = u64v(rng) as usize;
    m.index_section = opt(rng, |r| u64v(r) as usize);
    m.timestamp_nanos = match rng.below(6) {
        0 => 0,
        1 => 1,
        2 => 999_999_999,
        3 => (1u128 << 63) * 1_000_000_000 - 1,
        4 => 1_700_000_000_123_456_789,
        _ => rng.next_u64() as u128 * rng.below(1000) as u128,
    };
    m.tag = opt(rng, s1);
    let flags = rng.below(64) & !2;
    m.reader_feature_flags = flags | if stable { 2 } else { 0 };
    m.writer_feature_flags = rng.below(64);
    m.max_fragment_id = opt(rng, u32v);
    m.transaction_file = opt(rng, s1);
    m.transaction_section = opt(rng, |r| u64v(r) as usize);
    m.next_row_id = u64v(rng);
    m.config = str_map(rng, 2);
    m.table_metadata = str_map(rng, 2);
    m
}

fn break_manifest(rng: &mut Rng, m: &mut Manifest) {
    match rng.below(6) {
        0 => m.tag = Some(String::new()),
        1 => m.transaction_file = Some(String::new()),
        2 => {
            // key differs from BasePath::id
            // (no other entry with the same id: which of two equal ids wins depends on HashMap order)
            let bp = base_path(rng, 7);
            m.base_paths.retain(|_, b| b.id != 7);
            m.base_paths.insert(8, bp);
        }
        3 => {
            // stable row ids flagged but a fragment has none: the decoder refuses the manifest
            let mut f = fragment(rng, false);
            f.row_id_meta = None;
            let mut v = m.fragments.as_ref().clone();
            v.push(f);
            let mut n = Manifest::new(m.schema.clone(), Arc::new(v), m.data_storage_format.clone(), m.base_paths.clone());
            n.reader_feature_flags = m.reader_feature_flags | 2;
            n.version = m.version;
            *m = n;
        }
        4 => {
            let mut f = fragment(rng, m.reader_feature_flags & 2 != 0);
            f.physical_rows = Some(0);
            f.deletion_file = None;
            let mut v = m.fragments.as_ref().clone();
            v.push(f);
            let mut n = Manifest::new(m.schema.clone(), Arc::new(v), m.data_storage_format.clone(), m.base_paths.clone());
            n.reader_feature_flags = m.reader_feature_flags;
            n.tag = m.tag.clone();
            *m = n;
        }
        _ => {
            if !break_schema(rng, &mut m.schema) {
                m.tag = Some(String::new());
            }
        }
    }
}

fn uuid(rng: &mut Rng) -> uuid::Uuid {
    let mut b = [0u8; 16];
    for x in b.iter_mut() {
        *x = rng.below(256) as u8;
    }
    uuid::Uuid::from_bytes(b)
}

fn bitmap(rng: &mut Rng) -> roaring::RoaringBitmap {
    vecof(rng, 15, u32v).into_iter().collect()
}

fn date(nanos: i128) -> chrono::DateTime<chrono::Utc> {
    chrono::DateTime::from_timestamp(nanos.div_euclid(1_000_000_000) as i64, nanos.rem_euclid(1_000_000_000) as u32).unwrap()
}

pub fn index_metadata(rng: &mut Rng, submilli: bool) -> IndexMetadata {
    let millis: i128 = match rng.below(5) {
        0 => 0,
        1 => -1 - rng.below(1_000_000_000_000) as i128,
        2 => 253_402_300_799_999, // 9999-12-31 (chrono prints later years in a form the harness does not read back)
        3 => -62_135_596_800_000, // 0001-01-01
        _ => 1_700_000_000_000 + rng.below(1_000_000_000) as i128,
    };
    let mut nanos = millis * 1_000_000;
    if submilli {
        nanos = 1_700_000_000_000_000_000 + rng.below(1_000_000_000) as i128 * 1_000_000 + 1 + rng.below(999_999) as i128;
    }
    IndexMetadata {
        uuid: uuid(rng),
        fields: vecof(rng, 3, i32v),
        name: s(rng),
        dataset_version: u64v(rng),
        fragment_bitmap: opt(rng, bitmap),
        index_details: opt(rng, |r| Arc::new(any!(s(r), bytes(r)))),
        index_version: i32v(rng),
        created_at: if submilli || rng.chance(2, 3) { Some(date(nanos)) } else { None },
        base_id: opt(rng, u32v),
    }
}

pub fn mem_wal(rng: &mut Rng) -> MemWal {
    MemWal {
        id: MemWalId { region: s(rng), generation: u64v(rng) },
        mem_table_location: s(rng),
        wal_location: s(rng),
        wal_entries: bytes(rng),
        state: match rng.below(4) {
            0 => State::Open,
            1 => State::Sealed,
            2 => State::Flushed,
            _ => State::Merged,
        },
        owner_id: s(rng),
        last_updated_dataset_version: u64v(rng),
    }
}

fn update_map(rng: &mut Rng) -> UpdateMap {
    UpdateMap { update_entries: vecof(rng, 3, |r| UpdateMapEntry { key: s(r), value: opt(r, s) }), replace: rng.chance(1, 2) }
}

fn rewrite_group(rng: &mut Rng) -> RewriteGroup {
    RewriteGroup { old_fragments: fragments(rng, 2), new_fragments: fragments(rng, 2) }
}

fn rewritten_index(rng: &mut Rng) -> RewrittenIndex {
    RewrittenIndex { old_id: uuid(rng), new_id: uuid(rng), new_index_details: any!(s(rng), bytes(rng)), new_index_version: u32v(rng) }
}

pub const N_OPS: u64 = 15;

pub fn operation(rng: &mut Rng, k: u64) -> Operation {
    match k {
        0 => Operation::Append { fragments: fragments(rng, 3) },
        1 => Operation::Delete { updated_fragments: fragments(rng, 2), deleted_fragment_ids: vecof(rng, 3, u64v), predicate: s(rng) },
        2 => Operation::Overwrite {
            fragments: fragments(rng, 2),
            schema: schema(rng, false),
            config_upsert_values: opt(rng, |r| {
                let mut m = str_map(r, 2);
                if m.is_empty() {
                    m.insert("k".into(), s(r));
                }
                m
            }),
            initial_bases: opt(rng, |r| {
                let mut v = base_paths_vec(r);
                if v.is_empty() {
                    v.push(base_path(r, 1));
                }
                v
            }),
        },
        3 => Operation::CreateIndex {
            new_indices: vecof(rng, 2, |r| index_metadata(r, false)),
            removed_indices: vecof(rng, 2, |r| index_metadata(r, false)),
        },
        4 => {
            let mut groups = vecof(rng, 2, rewrite_group);
            if groups.is_empty() {
                groups.push(rewrite_group(rng));
            }
            Operation::Rewrite { groups, rewritten_indices: vecof(rng, 2, rewritten_index), frag_reuse_index: None }
        }
        5 => Operation::DataReplacement { replacements: vecof(rng, 3, |r| DataReplacementGroup(u64v(r), data_file(r))) },
        6 => Operation::Merge { fragments: fragments(rng, 2), schema: schema(rng, false) },
        7 => Operation::Restore { version: u64v(rng) },
        8 => Operation::ReserveFragments { num_fragments: u32v(rng) },
        9 => Operation::Update {
            removed_fragment_ids: vecof(rng, 3, u64v),
            updated_fragments: fragments(rng, 2),
            new_fragments: fragments(rng, 2),
            fields_modified: vecof(rng, 3, u32v),
            mem_wal_to_merge: opt(rng, mem_wal),
            fields_for_preserving_frag_bitmap: vecof(rng, 3, u32v),
            update_mode: Some(if rng.chance(1, 2) { UpdateMode::RewriteRows } else { UpdateMode::RewriteColumns }),
        },
        10 => Operation::Project { schema: schema(rng, false) },
        11 => Operation::UpdateConfig {
            config_updates: opt(rng, update_map),
            table_metadata_updates: opt(rng, update_map),
            schema_metadata_updates: opt(rng, update_map),
            field_metadata_updates: {
                let mut m = HashMap::new();
                for _ in 0..rng.usize(3) {
                    m.insert(i32v(rng), update_map(rng));
                }
                m
            },
        },
        12 => Operation::UpdateMemWalState { added: vecof(rng, 2, mem_wal), updated: vecof(rng, 2, mem_wal), removed: vecof(rng, 2, mem_wal) },
        13 => Operation::Clone { is_shallow: rng.chance(1, 2), ref_name: opt(rng, s), ref_version: u64v(rng), ref_path: s(rng), branch_name: opt(rng, s) },
        _ => Operation::UpdateBases { new_bases: base_paths_vec(rng) },
    }
}

pub fn transaction(rng: &mut Rng, k: u64) -> Transaction {
    Transaction {
        read_version: u64v(rng),
        uuid: s(rng),
        operation: operation(rng, k),
        tag: opt(rng, s1),
        transaction_properties: opt(rng, |r| {
            let mut m = str_map(r, 2);
            if m.is_empty() {
                m.insert(s(r), s(r));
            }
            Arc::new(m)
        }),
    }
}

/// a transaction that breaks exactly one well-formedness clause
fn broken_transaction(rng: &mut Rng) -> Transaction {
    let which = rng.below(12);
    let k = match which {
        0 | 1 => rng.below(N_OPS),
        2 | 3 => 2,
        4 | 5 => 4,
        6 => 9,
        7 => *rng.pick(&[2u64, 6, 10]),
        8 => *rng.pick(&[2u64, 6, 10]),
        9 => 3,
        10 => *rng.pick(&[0u64, 1, 6]),
        _ => 9,
    };
    let mut t = transaction(rng, k);
    match which {
        0 => t.tag = Some(String::new()),
        1 => t.transaction_properties = Some(Arc::new(HashMap::new())),
        2 => {
            if let Operation::Overwrite { config_upsert_values, .. } = &mut t.operation {
                *config_upsert_values = Some(HashMap::new());
            }
        }
        3 => {
            if let Operation::Overwrite { initial_bases, .. } = &mut t.operation {
                *initial_bases = Some(vec![]);
            }
        }
        4 => {
            if let Operation::Rewrite { groups, .. } = &mut t.operation {
                groups.clear();
            }
        }
        5 => {
            if let Operation::Rewrite { frag_reuse_index, .. } = &mut t.operation {
                *frag_reuse_index = Some(index_metadata(rng, false));
            }
        }
        6 => {
            if let Operation::Update { update_mode, .. } = &mut t.operation {
                *update_mode = None;
            }
        }
        7 => match &mut t.operation {
            Operation::Overwrite { schema, .. } | Operation::Merge { schema, .. } | Operation::Project { schema } => {
                schema.metadata.insert(s(rng), s(rng));
            }
            _ => {}
        },
        8 => match &mut t.operation {
            Operation::Overwrite { schema, .. } | Operation::Merge { schema, .. } | Operation::Project { schema } => {
                if !break_schema(rng, schema) {
                    t.tag = Some(String::new());
                }
            }
            _ => {}
        },
        9 => {
            if let Operation::CreateIndex { new_indices, .. } = &mut t.operation {
                new_indices.push(index_metadata(rng, true));
            }
        }
        10 => match &mut t.operation {
            Operation::Append { fragments } | Operation::Delete { updated_fragments: fragments, .. } | Operation::Merge { fragments, .. } => {
                let mut f = fragment(rng, false);
                if rng.chance(1, 2) {
                    f.physical_rows = Some(0);
                    f.deletion_file = None;
                } else {
                    let mut d = deletion_file(rng, Some(5));
                    d.num_deleted_rows = Some(0);
                    f.deletion_file = Some(d);
                }
                fragments.push(f);
            }
            _ => {}
        },
        _ => {
            if let Operation::Update { new_fragments, .. } = &mut t.operation {
                let mut f = fragment(rng, false);
                f.physical_rows = Some(0);
                f.deletion_file = None;
                new_fragments.push(f);
            }
        }
    }
    t
}

// ---------------- protobuf messages for dec.* ----------------

fn pb_data_file(rng: &mut Rng) -> pb::DataFile {
    pb::DataFile::from(&data_file(rng))
}

fn pb_deletion_file(rng: &mut Rng) -> pb::DeletionFile {
    pb::DeletionFile {
        file_type: *rng.pick(&[0, 1, 0, 1, 2, -1, 7]),
        read_version: u64v(rng),
        id: u64v(rng),
        num_deleted_rows: *rng.pick(&[0u64, 0, 1, 1, 2, 999]),
        base_id: opt(rng, u32v),
    }
}

fn pb_fragment(rng: &mut Rng, malformed: bool) -> pb::DataFragment {
    let mut p = pb::DataFragment::from(&fragment(rng, false));
    if rng.chance(1, 3) {
        p.physical_rows = rng.below(3);
    }
    if rng.chance(1, 3) {
        let mut d = pb_deletion_file(rng);
        if !malformed {
            d.file_type = d.file_type.rem_euclid(2);
        }
        if p.physical_rows > 0 {
            d.num_deleted_rows = d.num_deleted_rows.min(p.physical_rows);
        }
        p.deletion_file = Some(d);
    }
    p
}

fn pb_field_list(rng: &mut Rng, malformed: bool) -> Vec<lance_file::format::pb::Field> {
    let sc = schema(rng, false);
    let mut v = lance_file::datatypes::Fields::from(&sc).0;
    for f in v.iter_mut() {
        if rng.chance(1, 5) {
            f.encoding = *rng.pick(&[0, 1, 2, 3, 4, 5, -1]);
        }
        if rng.chance(1, 6) {
            f.extension_name = s(rng);
        }
        if rng.chance(1, 8) {
            f.dictionary = Some(lance_file::format::pb::Dictionary { offset: -(rng.below(5) as i64), length: rng.below(9) as i64 });
        }
        if rng.chance(1, 8) {
            f.r#type = rng.below(3) as i32;
        }
    }
    if malformed && !v.is_empty() {
        let i = rng.usize(v.len());
        match rng.below(3) {
            0 => v[i].parent_id = 424242,
            1 => {
                let j = rng.usize(v.len());
                v[i].id = v[j].id;
            }
            _ => {
                let j = rng.usize(v.len());
                v.swap(i, j);
            }
        }
    }
    v
}

fn pb_manifest(rng: &mut Rng, malformed: bool) -> pb::Manifest {
    let mut p = pb::Manifest::from(&manifest(rng));
    if rng.chance(1, 2) {
        p.data_format = None;
        if rng.chance(1, 2) {
            // one storage version everywhere (or not, when malformed)
            let (ma, mi) = *rng.pick(super::gen::VERSIONS_PUB);
            for f in p.fragments.iter_mut() {
                for d in f.files.iter_mut() {
                    if !(malformed && rng.chance(1, 4)) {
                        d.file_major_version = ma;
                        d.file_minor_version = mi;
                    }
                }
            }
        }
    }
    if rng.chance(1, 3) {
        let mut ts = pb::Manifest::default().timestamp.unwrap_or_default();
        ts.seconds = *rng.pick(&[0i64, 1, 1_700_000_000, i64::MAX / 2_000_000_000]);
        ts.nanos = *rng.pick(&[0i32, 1, 999_999_999, 1_500_000_000]);
        p.timestamp = Some(ts);
    }
    if rng.chance(1, 4) {
        p.fields = pb_field_list(rng, malformed);
    }
    if rng.chance(1, 4) {
        p.tag = String::new();
        p.transaction_file = String::new();
    }
    if rng.chance(1, 4) {
        // duplicate base path ids: the later entry wins
        let id = u32v(rng);
        p.base_paths.push(pb::BasePath::from(base_path(rng, id)));
        p.base_paths.push(pb::BasePath::from(base_path(rng, id)));
    }
    if malformed && rng.chance(1, 2) {
        p.reader_feature_flags |= 2;
        p.fragments.push(pb::DataFragment::from(&{
            let mut f = fragment(rng, false);
            f.row_id_meta = None;
            f
        }));
    }
    p
}

fn pb_index(rng: &mut Rng, malformed: bool) -> pb::IndexMetadata {
    let mut p = pb::IndexMetadata::from(&index_metadata(rng, false));
    if rng.chance(1, 4) {
        p.index_version = None;
    }
    if rng.chance(1, 3) {
        p.created_at = Some(*rng.pick(&[0u64, 5, u64::MAX, 253_402_300_799_999, 1 << 62]));
    }
    if malformed {
        match rng.below(5) {
            0 => p.uuid = None,
            1 => p.uuid = Some(pb::Uuid { uuid: bytes(rng) }),
            2 => p.fragment_bitmap = vec![1, 2, 3],
            3 => p.created_at = Some(*rng.pick(&[8_210_266_876_800_000u64, 1 << 63, (1 << 63) - 1])),
            _ => p.created_at = Some(u64::MAX - 8_334_601_228_800_000), // one millisecond below chrono's minimum
        }
    }
    p
}

fn pb_mem_wal(rng: &mut Rng, malformed: bool) -> pb::mem_wal_index_details::MemWal {
    let mut p = pb::mem_wal_index_details::MemWal::from(&mem_wal(rng));
    if malformed {
        if rng.chance(1, 2) {
            p.id = None;
        } else {
            p.state = *rng.pick(&[4, -1, 99]);
        }
    }
    p
}

fn small_map(rng: &mut Rng) -> HashMap<String, String> {
    let mut m = HashMap::new();
    if rng.chance(2, 3) {
        m.insert(s(rng), s(rng));
    }
    m
}

fn pb_transaction(rng: &mut Rng, malformed: bool) -> pb::Transaction {
    use pb::transaction as tx;
    use pb::transaction::Operation as O;
    let k = rng.below(N_OPS);
    let mut p = pb::Transaction::from(&transaction(rng, k));
    if rng.chance(1, 4) {
        p.tag = String::new();
        p.transaction_properties.clear();
    }
    match p.operation.as_mut() {
        Some(O::Rewrite(r)) => {
            if rng.chance(1, 2) {
                // legacy encoding: top-level old/new fragments, no groups
                r.groups.clear();
                r.old_fragments = vecof(rng, 2, |r| pb_fragment(r, false));
                r.new_fragments = vecof(rng, 2, |r| pb_fragment(r, false));
            } else if rng.chance(1, 2) {
                // both present: groups win
                r.old_fragments = vecof(rng, 2, |r| pb_fragment(r, false));
            }
            if malformed {
                r.rewritten_indices.push(tx::rewrite::RewrittenIndex {
                    old_id: if rng.chance(1, 2) { None } else { Some(pb::Uuid { uuid: bytes(rng) }) },
                    new_id: Some(pb::Uuid { uuid: vec![0; 16] }),
                    new_index_details: if rng.chance(1, 2) { None } else { Some(any!(s(rng), bytes(rng))) },
                    new_index_version: 1,
                });
            }
        }
        Some(O::Update(u)) => {
            u.update_mode = *rng.pick(&[0, 1, 1, 2, 5, -3]);
            if malformed {
                u.mem_wal_to_merge = Some(pb_mem_wal(rng, true));
            }
        }
        Some(O::Overwrite(o)) => {
            if rng.chance(1, 2) {
                o.schema_metadata.insert(s(rng), s(rng).into_bytes());
            }
            if rng.chance(1, 3) {
                o.config_upsert_values.clear();
                o.initial_bases.clear();
            }
            if malformed {
                o.schema = pb_field_list(rng, true);
            }
        }
        Some(O::Merge(m)) => {
            if rng.chance(1, 2) {
                m.schema_metadata.insert(s(rng), s(rng).into_bytes());
            }
        }
        Some(O::UpdateConfig(c)) => {
            match rng.below(3) {
                0 => {}
                1 => {
                    // old-style fields only (one entry per map: the translation iterates a HashMap)
                    *c = tx::UpdateConfig::default();
                    c.upsert_values = small_map(rng);
                    c.delete_keys = vecof(rng, 2, s);
                    c.schema_metadata = small_map(rng);
                    if rng.chance(1, 2) {
                        c.field_metadata.insert(*rng.pick(&[0u32, 7, u32::MAX]), tx::update_config::FieldMetadataUpdate { metadata: small_map(rng) });
                    }
                }
                _ => {
                    if malformed {
                        // both styles: refused
                        c.delete_keys = vec![s(rng)];
                        c.config_updates = Some(tx::UpdateMap::default());
                    }
                }
            }
        }
        Some(O::DataReplacement(d)) => {
            if malformed {
                d.replacements.push(tx::DataReplacementGroup { fragment_id: 3, new_file: None });
            }
        }
        Some(O::UpdateMemWalState(u)) => {
            if malformed {
                u.updated.push(pb_mem_wal(rng, true));
            }
        }
        Some(O::CreateIndex(c)) => {
            if malformed {
                c.removed_indices.push(pb_index(rng, true));
            } else {
                c.new_indices.push(pb_index(rng, false));
            }
        }
        Some(O::Append(a)) => {
            a.fragments.push(pb_fragment(rng, malformed));
        }
        _ => {
            if malformed && rng.chance(1, 2) {
                p.operation = None;
            }
        }
    }
    p
}

pub const VERSIONS_PUB: &[(u32, u32)] = VERSIONS;

fn le(vals: &[u64], k: usize) -> Vec<u8> {
    vals.iter().flat_map(|v| v.to_le_bytes()[..k].to_vec()).collect()
}

fn pb_enc_array(rng: &mut Rng, malformed: bool) -> pb::EncodedU64Array {
    use pb::encoded_u64_array as ea;
    let vals = vecof(rng, 4, |r| if r.chance(1, 3) { r.next_u64() } else { r.below(70000) });
    let mut arr = match rng.below(3) {
        0 => ea::Array::U16Array(ea::U16Array { base: u64v(rng), offsets: le(&vals, 2) }),
        1 => ea::Array::U32Array(ea::U32Array { base: u64v(rng), offsets: le(&vals, 4) }),
        _ => ea::Array::U64Array(ea::U64Array { values: le(&vals, 8) }),
    };
    if malformed {
        if rng.chance(1, 3) {
            return pb::EncodedU64Array { array: None };
        }
        match &mut arr {
            ea::Array::U16Array(a) => a.offsets.push(1),
            ea::Array::U32Array(a) => a.offsets.push(1),
            ea::Array::U64Array(a) => a.values.push(1),
        }
    }
    pb::EncodedU64Array { array: Some(arr) }
}

fn pb_segment(rng: &mut Rng, malformed: bool) -> pb::U64Segment {
    use pb::u64_segment as us;
    let start = if rng.chance(1, 5) { u64v(rng) >> 1 } else { rng.below(1000) };
    let len = rng.below(40);
    let seg = match rng.below(5) {
        0 => us::Segment::Range(us::Range { start, end: if rng.chance(1, 6) { rng.below(10) } else { start + len } }),
        1 => us::Segment::RangeWithHoles(us::RangeWithHoles {
            start,
            end: start + len,
            holes: if malformed && rng.chance(1, 2) { None } else { Some(pb_enc_array(rng, malformed)) },
        }),
        2 => us::Segment::RangeWithBitmap(us::RangeWithBitmap {
            start,
            end: start + len,
            bitmap: (0..(len as usize).div_ceil(8) + rng.usize(2)).map(|_| rng.below(256) as u8).collect(),
        }),
        3 => us::Segment::SortedArray(pb_enc_array(rng, malformed)),
        _ => us::Segment::Array(pb_enc_array(rng, malformed)),
    };
    if malformed && rng.chance(1, 5) {
        return pb::U64Segment { segment: None };
    }
    pb::U64Segment { segment: Some(seg) }
}

fn tag_line(rng: &mut Rng) -> String {
    format!(
        "json.tag TagContents{{branch:{},version:{},manifest_size:{}}}",
        match opt(rng, json_s) {
            Some(b) => format!("Some(\"{b}\")"),
            None => "None".into(),
        },
        u64v(rng),
        u64v(rng)
    )
}

/// strings that serde_json writes without escapes
fn json_s(rng: &mut Rng) -> String {
    let n = rng.usize(6);
    (0..n).map(|_| ALPHA[rng.usize(ALPHA.len())] as char).collect::<String>().replace('/', "_")
}

fn branch_line(rng: &mut Rng) -> String {
    format!(
        "json.branch BranchContents{{parent_branch:{},parent_version:{},create_at:{},manifest_size:{}}}",
        match opt(rng, json_s) {
            Some(b) => format!("Some(\"{b}\")"),
            None => "None".into(),
        },
        u64v(rng),
        u64v(rng),
        u64v(rng)
    )
}

fn one_line(rng: &mut Rng, idx: usize) -> String {
    let r = rng.below(100);
    if r < 55 {
        // well-formed values
        match (idx as u64 + rng.below(3)) % 10 {
            0 => format!("rt.datafile {}", canon_v(&data_file(rng))),
            1 => format!("rt.delfile {}", canon_v(&deletion_file(rng, None))),
            2 | 3 => format!("rt.frag {}", canon_v(&fragment(rng, false))),
            4 | 5 => format!("rt.manifest {}", canon_v(&manifest(rng))),
            6 => format!("rt.index {}", canon_v(&index_metadata(rng, false))),
            7 => format!("rt.memwal {}", canon_v(&mem_wal(rng))),
            _ => {
                let k = (idx as u64 / 3 + rng.below(2)) % N_OPS;
                format!("rt.txn {}", canon_v(&transaction(rng, k)))
            }
        }
    } else if r < 70 {
        match rng.below(6) {
            0 => {
                let mut d = deletion_file(rng, None);
                d.num_deleted_rows = Some(0);
                format!("rtn.delfile {}", canon_v(&d))
            }
            1 => {
                let mut f = fragment(rng, false);
                if rng.chance(1, 2) || f.deletion_file.is_none() {
                    f.physical_rows = Some(0);
                    if let Some(d) = f.deletion_file.as_mut() {
                        d.num_deleted_rows = None;
                    }
                } else if let Some(d) = f.deletion_file.as_mut() {
                    d.num_deleted_rows = Some(0);
                }
                format!("rtn.frag {}", canon_v(&f))
            }
            2 => {
                let mut m = manifest(rng);
                break_manifest(rng, &mut m);
                format!("rtn.manifest {}", canon_v(&m))
            }
            3 => format!("rtn.index {}", canon_v(&index_metadata(rng, true))),
            _ => format!("rtn.txn {}", canon_v(&broken_transaction(rng))),
        }
    } else {
        let malformed = r >= 88;
        match rng.below(11) {
            0 => format!("dec.datafile {}", canon_v(&pb_data_file(rng))),
            1 => format!("dec.delfile {}", canon_v(&pb_deletion_file(rng))),
            2 => format!("dec.frag {}", canon_v(&pb_fragment(rng, malformed))),
            3 => format!("dec.manifest {}", canon_v(&pb_manifest(rng, malformed))),
            4 => format!("dec.index {}", canon_v(&pb_index(rng, malformed))),
            5 => format!("dec.memwal {}", canon_v(&pb_mem_wal(rng, malformed))),
            6 | 7 => format!("dec.txn {}", canon_v(&pb_transaction(rng, malformed))),
            8 => format!("dec.seg {}", canon_v(&pb_segment(rng, malformed))),
            9 => {
                if rng.chance(1, 2) {
                    format!("dec.seq {}", canon_v(&pb::RowIdSequence { segments: vecof(rng, 3, |r| { let m = malformed && r.chance(1, 3); pb_segment(r, m) }) }))
                } else {
                    format!(
                        "dec.vseq {}",
                        canon_v(&pb::RowDatasetVersionSequence {
                            runs: vecof(rng, 3, |r| pb::RowDatasetVersionRun {
                                span: if malformed && r.chance(1, 3) { None } else { Some(pb_segment(r, false)) },
                                version: u64v(r),
                            })
                        })
                    )
                }
            }
            _ => {
                if rng.chance(1, 2) {
                    tag_line(rng)
                } else {
                    branch_line(rng)
                }
            }
        }
    }
}

pub fn gen_case(rng: &mut Rng, idx: usize) -> Vec<String> {
    let n = 1 + rng.usize(3);
    (0..n).map(|_| one_line(rng, idx)).collect()
}
