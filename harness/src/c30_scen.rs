//! C30 black-box scripted scenarios through the real ScanScheduler / FileScheduler (tokio current-thread runtime: the I/O loop
//! and the reads only make progress inside `run` / `await` steps, so the interleaving is fixed by the script).
//!
//!   scen cap=<c> buf=<b> bs=<block> max=<m> <step> <step> …
//!     sub:<name>:<prio>:<ranges>   submit a request (the future is kept, not polled); a range starting at >= 5000 is past EOF
//!     run                          let the I/O loop and the reads run until nothing is ready any more (the loop parks)
//!     await:<name>                 await that request under a 5 s watchdog (its bytes are consumed now)
//!     drop                         drop the FileScheduler and the ScanScheduler (on a watchdog thread, 5 s)
//!   -> one item per await/drop step, joined by ` ; `:
//!        `<name>: ok n=<k> <len>:<hash>;…` | `<name>: err` | `<name>: done` (resolved after the drop, Ok or Err) | `drop: ok`
//!      and `hang` as the last item if a watchdog fired.
//! The generator only awaits a request whose priority value is minimal among the outstanding ones (the documented consumption
//! order; the back-pressure may block any other order by design), so on a correct scheduler no step can hang.

use std::collections::BTreeMap;
use std::future::Future;
use std::ops::Range;
use std::panic::{catch_unwind, AssertUnwindSafe};
use std::pin::Pin;
use std::sync::Arc;
use std::time::Duration;

use bytes::Bytes;
use hcommon::*;
use lance_io::scheduler::{FileScheduler, ScanScheduler};

use super::{kv, parse_ranges, show_ranges, FILE_LEN};

type Fut = Pin<Box<dyn Future<Output = lance_core::Result<Vec<Bytes>>> + Send>>;

const WATCHDOG: Duration = Duration::from_secs(5);

/// drop the scheduler handles on another thread; false = the drop did not return in time (the thread is abandoned)
pub fn drop_with_watchdog(keep: (FileScheduler, Arc<ScanScheduler>)) -> bool {
    let (tx, rx) = std::sync::mpsc::channel();
    std::thread::spawn(move || {
        drop(keep);
        let _ = tx.send(());
    });
    rx.recv_timeout(WATCHDOG).is_ok()
}

fn fails(rs: &[Range<u64>]) -> bool {
    rs.iter().any(|r| r.start < r.end && r.end > FILE_LEN)
}

pub fn exec_scen(c: &mut super::C30, toks: &[&str], n: usize, res: &mut CaseResult) -> String {
    if toks.len() < 6 {
        return "bad-op".into();
    }
    let (Some(cap), Some(buf), Some(bs), Some(max)) = (
        kv(toks[1], "cap").and_then(|v| v.parse::<usize>().ok()),
        kv(toks[2], "buf").and_then(|v| v.parse::<u64>().ok()),
        kv(toks[3], "bs").and_then(|v| v.parse::<u64>().ok()),
        kv(toks[4], "max").and_then(|v| v.parse::<u64>().ok()),
    ) else {
        return "bad-op".into();
    };
    if cap == 0 || max == 0 {
        return "bad-op".into();
    }
    // parse all steps first so that a malformed line has no side effects
    enum Step {
        Sub(String, u64, Vec<Range<u64>>),
        Run,
        Await(String),
        Drop,
    }
    let mut steps = vec![];
    for t in &toks[5..] {
        let parts: Vec<&str> = t.split(':').collect();
        let st = match parts.as_slice() {
            ["sub", name, prio, rs] => match (prio.parse::<u64>().ok(), parse_ranges(rs)) {
                (Some(p), Some(rs)) if rs.iter().all(|r| r.start <= r.end && (r.end <= FILE_LEN || r.start >= 5000)) => {
                    Step::Sub(name.to_string(), p, rs)
                }
                _ => return "bad-op".into(),
            },
            ["run"] => Step::Run,
            ["await", name] => Step::Await(name.to_string()),
            ["drop"] => Step::Drop,
            _ => return "bad-op".into(),
        };
        steps.push(st);
    }
    let (fs0, sched, default_max) = c.store_with(bs, cap, buf);
    let fs = if max == default_max { fs0.clone() } else { lance_io::scheduler::verif_hooks::with_max_iop_size(&fs0, max) };
    drop(fs0);
    let mut keep = Some((fs, sched));
    let mut futs: BTreeMap<String, (Fut, Vec<Range<u64>>)> = BTreeMap::new();
    let mut outs: Vec<String> = vec![];
    let mut dropped = false;
    let hang = |what: String, res: &mut CaseResult| {
        res.failures.push(OracleFailure { what, key: Some("hang".into()), line: n });
    };
    res.nontrivial = true;
    for st in steps {
        match st {
            Step::Sub(name, prio, rs) => {
                let Some((fs, _)) = keep.as_ref() else { return "bad-op".into() };
                if fails(&rs) {
                    res.tags.push("scen_failing_read".into());
                }
                let f: Fut = Box::pin(fs.submit_request(rs.clone(), prio));
                futs.insert(name, (f, rs));
            }
            Step::Run => {
                c.rt().block_on(async {
                    for _ in 0..40 {
                        tokio::task::yield_now().await;
                    }
                });
            }
            Step::Await(name) => {
                let Some((f, rs)) = futs.remove(&name) else { return "bad-op".into() };
                let rt = c.rt();
                let r = catch_unwind(AssertUnwindSafe(|| rt.block_on(async move { tokio::time::timeout(WATCHDOG, f).await })));
                let sorted = super::nonempty_sorted(&rs);
                let key = if sorted { "response_mismatch" } else { "unsorted_ranges" };
                match r {
                    Err(_) => {
                        res.failures.push(OracleFailure { what: format!("panic while awaiting {name} {}", show_ranges(&rs)), key: Some(key.into()), line: n });
                        outs.push(format!("{name}: panic"));
                    }
                    Ok(Err(_)) => {
                        hang(format!("request {name} ({}) did not complete within 5 s although it is the most urgent outstanding request (cap={cap} buf={buf})", show_ranges(&rs)), res);
                        outs.push("hang".into());
                        return outs.join(" ; ");
                    }
                    Ok(Ok(Ok(bufs))) => {
                        if let Some(what) = c.judge(&rs, &bufs) {
                            res.failures.push(OracleFailure { what: format!("request {name}: {what}"), key: Some(key.into()), line: n });
                        }
                        if dropped {
                            outs.push(format!("{name}: done"));
                        } else {
                            let body: Vec<String> = bufs.iter().map(|b| format!("{}:{}", b.len(), super::hash_buf(b))).collect();
                            outs.push(format!("{name}: ok n={} {}", bufs.len(), if body.is_empty() { "-".into() } else { body.join(";") }));
                        }
                    }
                    Ok(Ok(Err(e))) => {
                        if dropped {
                            outs.push(format!("{name}: done"));
                        } else {
                            if !fails(&rs) {
                                res.failures.push(OracleFailure { what: format!("in-file request {name} failed: {e}"), key: Some(key.into()), line: n });
                            }
                            outs.push(format!("{name}: err"));
                        }
                    }
                }
            }
            Step::Drop => {
                let Some(k) = keep.take() else { return "bad-op".into() };
                res.tags.push(if futs.is_empty() { "scen_drop_idle".into() } else { "scen_drop_with_outstanding".into() });
                if !drop_with_watchdog(k) {
                    hang(format!("dropping the scheduler with {} outstanding request(s) did not return within 5 s (cap={cap} buf={buf})", futs.len()), res);
                    outs.push("hang".into());
                    return outs.join(" ; ");
                }
                dropped = true;
                outs.push("drop: ok".into());
            }
        }
    }
    drop(keep);
    if outs.is_empty() {
        "-".into()
    } else {
        outs.join(" ; ")
    }
}

// ---------------------------------------------------------------- generator

struct Gen<'a> {
    r: &'a mut Rng,
    steps: Vec<String>,
    outstanding: Vec<(String, u64)>,
    next_name: u8,
}

impl Gen<'_> {
    fn name(&mut self) -> String {
        let c = (b'a' + self.next_name) as char;
        self.next_name += 1;
        c.to_string()
    }
    fn sub(&mut self, prio: u64, rs: &[Range<u64>]) -> String {
        let nm = self.name();
        self.steps.push(format!("sub:{nm}:{prio}:{}", show_ranges(rs)));
        self.outstanding.push((nm.clone(), prio));
        nm
    }
    fn run(&mut self) {
        self.steps.push("run".into());
    }
    /// await an outstanding request of minimal priority value
    fn await_min(&mut self) {
        if self.outstanding.is_empty() {
            return;
        }
        let m = self.outstanding.iter().map(|x| x.1).min().unwrap();
        let cands: Vec<usize> = (0..self.outstanding.len()).filter(|i| self.outstanding[*i].1 == m).collect();
        let i = *self.r.pick(&cands);
        let (nm, _) = self.outstanding.remove(i);
        self.steps.push(format!("await:{nm}"));
    }
    fn range(&mut self, len: u64) -> Vec<Range<u64>> {
        let s = self.r.below(FILE_LEN - len);
        vec![s..s + len]
    }
    fn some_ranges(&mut self) -> Vec<Range<u64>> {
        match self.r.below(4) {
            0 => {
                let l = self.r.below(6);
                self.range(l)
            }
            1 => {
                let l = 1 + self.r.below(120);
                self.range(l)
            }
            _ => {
                let mut v = vec![];
                let mut s = self.r.below(3000);
                for _ in 0..1 + self.r.below(3) {
                    let l = self.r.below(40);
                    v.push(s..s + l);
                    s += l + self.r.below(80);
                }
                v
            }
        }
    }
}

fn gen_one(r: &mut Rng, default_max: u64) -> String {
    let cap = 1 + r.below(3);
    let buf = *r.pick(&[1u64, 8, 10, 16, 40, 64]);
    let bs = *r.pick(&[0u64, 4, 64]);
    let max = *r.pick(&[16u64, 50, 1000, default_max]);
    let shape = r.below(20);
    let mut g = Gen { r, steps: vec![], outstanding: vec![], next_name: 0 };
    match shape {
        0..=7 => {
            // priority inversion: A read but not consumed (uses up the budget), B less urgent and throttled, the loop parked,
            // then C at least as urgent as everything in flight, awaited first
            let pa = 2 + g.r.below(6);
            let la = buf + g.r.below(20);
            let ra = g.range(la.max(1));
            g.sub(pa, &ra);
            g.run();
            for _ in 0..1 + g.r.below(2) {
                let pb = pa + 1 + g.r.below(4);
                let lb = 1 + g.r.below(60);
                let rb = g.range(lb);
                g.sub(pb, &rb);
                if g.r.chance(3, 4) {
                    g.run();
                }
            }
            let pc = g.r.below(pa + 1);
            let rc = g.some_ranges();
            g.sub(pc, &rc);
            if g.r.chance(1, 4) {
                g.run();
            }
            g.await_min();
        }
        8..=12 => {
            // a failing read (past EOF), consumed, then less urgent traffic that only fits if its budget came back
            let mut p = g.r.below(3);
            for _ in 0..g.r.below(3) {
                let rs = g.some_ranges();
                g.sub(p, &rs);
                g.await_min();
                p += g.r.below(2);
            }
            let lf = 1 + g.r.below(buf.max(2));
            let mut rf = vec![5000 + g.r.below(100)..0];
            rf[0].end = rf[0].start + lf;
            if g.r.chance(1, 3) {
                let l = 1 + g.r.below(30);
                rf.insert(0, g.range(l)[0].clone());
            }
            g.sub(p, &rf);
            if g.r.chance(1, 2) {
                g.run();
            }
            g.await_min();
            for _ in 0..2 + g.r.below(3) {
                p += 1 + g.r.below(2);
                let l = 1 + g.r.below(buf + 40);
                let rs = g.range(l);
                g.sub(p, &rs);
                if g.r.chance(1, 3) {
                    g.run();
                }
                g.await_min();
            }
        }
        13..=16 => {
            // drop the scheduler (and its last FileScheduler) while a throttled request is still queued
            let pa = g.r.below(4);
            let la = buf + g.r.below(30);
            let ra = g.range(la.max(1));
            g.sub(pa, &ra);
            g.run();
            for _ in 0..1 + g.r.below(3) {
                let pb = pa + 1 + g.r.below(3);
                let lb = 1 + g.r.below(60);
                let rb = g.range(lb);
                g.sub(pb, &rb);
            }
            if g.r.chance(1, 2) {
                g.run();
            }
            g.steps.push("drop".into());
        }
        _ => {}
    }
    // random tail: submit / run / await-most-urgent
    let dropped = g.steps.iter().any(|s| s == "drop");
    if !dropped {
        for _ in 0..g.r.below(8) {
            match g.r.below(6) {
                0..=2 if g.next_name < 20 => {
                    let p = g.r.below(8);
                    let rs = g.some_ranges();
                    g.sub(p, &rs);
                }
                3 => g.run(),
                _ => g.await_min(),
            }
        }
        if g.r.chance(1, 5) && !g.outstanding.is_empty() {
            g.steps.push("drop".into());
        }
    }
    while !g.outstanding.is_empty() {
        g.await_min();
    }
    format!("scen cap={cap} buf={buf} bs={bs} max={max} {}", g.steps.join(" "))
}

pub fn gen_scen_case(r: &mut Rng, default_max: u64) -> Vec<String> {
    (0..2).map(|_| gen_one(r, default_max)).collect()
}
