//! C32: a generic value tree in the syntax of Rust's derived `Debug` output.
//!
//! `parse` reads both the raw (non-pretty) `{:?}` text of a prost message / lance struct and the canonical
//! rendering (`render`): the canonical form is the same syntax without whitespace, with map entries sorted by key.
//! A few hand-written `Debug` impls are normalised here (harness canonicalisation, DESIGN.md 1.3):
//!   `RoaringBitmap<[1, 2]>`              -> `Bm([1,2])`   (roaring prints the members only below 16 values)
//!   `RoaringBitmap<N values between ..>` -> `Bm(N,min,max,containers)`
//!   chrono `2024-01-01T00:00:00.5Z`      -> `At(<nanoseconds since the epoch>)`

#[derive(Clone, Debug, PartialEq, Eq, PartialOrd, Ord)]
pub enum T {
    /// bare token: number, `None`, `true`, enum variant without payload, uuid, range `0..5`, bitmap bits
    A(String),
    /// string literal (text between the quotes, escapes kept verbatim)
    S(String),
    /// `[a, b]`
    L(Vec<T>),
    /// `{k: v, ..}` (HashMap / BTreeMap)
    M(Vec<(T, T)>),
    /// `Name { f: v, .. }`
    R(String, Vec<(String, T)>),
    /// `Name(v, ..)`
    U(String, Vec<T>),
}

struct P<'a> {
    s: &'a [u8],
    i: usize,
}

fn is_ident(c: u8) -> bool {
    c.is_ascii_alphanumeric() || c == b'_'
}

impl<'a> P<'a> {
    fn ws(&mut self) {
        while self.i < self.s.len() && (self.s[self.i] == b' ' || self.s[self.i] == b'\n') {
            self.i += 1;
        }
    }
    fn peek(&self) -> Option<u8> {
        self.s.get(self.i).copied()
    }
    fn eat(&mut self, c: u8) -> Result<(), String> {
        self.ws();
        if self.peek() == Some(c) {
            self.i += 1;
            Ok(())
        } else {
            Err(format!("expected `{}` at {}", c as char, self.i))
        }
    }
    fn string(&mut self) -> Result<T, String> {
        // at the opening quote
        self.i += 1;
        let st = self.i;
        while self.i < self.s.len() && self.s[self.i] != b'"' {
            if self.s[self.i] == b'\\' {
                self.i += 1;
            }
            self.i += 1;
        }
        if self.i >= self.s.len() {
            return Err("unterminated string".into());
        }
        let t = std::str::from_utf8(&self.s[st..self.i]).map_err(|e| e.to_string())?.to_string();
        self.i += 1;
        Ok(T::S(t))
    }
    fn seq(&mut self, close: u8) -> Result<Vec<T>, String> {
        let mut v = vec![];
        loop {
            self.ws();
            if self.peek() == Some(close) {
                self.i += 1;
                return Ok(v);
            }
            v.push(self.value(false)?);
            self.ws();
            if self.peek() == Some(b',') {
                self.i += 1;
            }
        }
    }
    fn value(&mut self, map_key: bool) -> Result<T, String> {
        self.ws();
        match self.peek() {
            None => Err("eof".into()),
            Some(b'"') => self.string(),
            Some(b'[') => {
                self.i += 1;
                Ok(T::L(self.seq(b']')?))
            }
            Some(b'{') => {
                self.i += 1;
                let mut kv = vec![];
                loop {
                    self.ws();
                    if self.peek() == Some(b'}') {
                        self.i += 1;
                        break;
                    }
                    let k = self.value(true)?;
                    self.eat(b':')?;
                    let v = self.value(false)?;
                    kv.push((k, v));
                    self.ws();
                    if self.peek() == Some(b',') {
                        self.i += 1;
                    }
                }
                kv.sort_by(|a, b| render(&a.0).cmp(&render(&b.0)));
                Ok(T::M(kv))
            }
            Some(_) => {
                // atom, or Name followed by `{` / `(`
                let st = self.i;
                while self.i < self.s.len() {
                    let c = self.s[self.i];
                    if c == b',' || c == b'}' || c == b')' || c == b']' || c == b' ' || c == b'{' || c == b'(' || c == b'<' || c == b'"' {
                        break;
                    }
                    if c == b':' && map_key {
                        break;
                    }
                    self.i += 1;
                }
                let name = std::str::from_utf8(&self.s[st..self.i]).map_err(|e| e.to_string())?.to_string();
                if self.peek() == Some(b'<') && name == "RoaringBitmap" {
                    return self.roaring();
                }
                let is_name = !name.is_empty() && name.bytes().all(is_ident) && name.as_bytes()[0].is_ascii_alphabetic();
                let save = self.i;
                self.ws();
                if is_name && self.peek() == Some(b'{') {
                    self.i += 1;
                    let mut fs = vec![];
                    loop {
                        self.ws();
                        if self.peek() == Some(b'}') {
                            self.i += 1;
                            break;
                        }
                        let ks = self.i;
                        while self.i < self.s.len() && (is_ident(self.s[self.i]) || self.s[self.i] == b'#') {
                            self.i += 1;
                        }
                        let k = std::str::from_utf8(&self.s[ks..self.i]).unwrap().to_string();
                        self.eat(b':')?;
                        let v = self.value(false)?;
                        fs.push((k, v));
                        self.ws();
                        if self.peek() == Some(b',') {
                            self.i += 1;
                        }
                    }
                    return Ok(T::R(name, fs));
                }
                if is_name && self.peek() == Some(b'(') && save == self.i {
                    self.i += 1;
                    let xs = self.seq(b')')?;
                    return Ok(T::U(name, xs));
                }
                self.i = save;
                Ok(atom(name))
            }
        }
    }
    fn roaring(&mut self) -> Result<T, String> {
        // at `<`
        self.i += 1;
        self.ws();
        if self.peek() == Some(b'[') {
            self.i += 1;
            let xs = self.seq(b']')?;
            self.eat(b'>')?;
            return Ok(T::U("Bm".into(), vec![T::L(xs)]));
        }
        let st = self.i;
        while self.i < self.s.len() && self.s[self.i] != b'>' {
            self.i += 1;
        }
        let txt = std::str::from_utf8(&self.s[st..self.i]).unwrap().to_string();
        self.i += 1;
        // "N values between a and b in C containers"
        let nums: Vec<T> = txt
            .split(' ')
            .filter(|w| !w.is_empty() && w.bytes().all(|c| c.is_ascii_digit()))
            .map(|w| T::A(w.to_string()))
            .collect();
        Ok(T::U("Bm".into(), nums))
    }
}

fn atom(name: String) -> T {
    // chrono DateTime<Utc> Debug -> At(nanos)
    let b = name.as_bytes();
    if b.len() >= 20 && b[b.len() - 1] == b'Z' && name.contains('T') && (b[0].is_ascii_digit() || b[0] == b'-' || b[0] == b'+') {
        if let Ok(dt) = chrono::DateTime::parse_from_rfc3339(&name) {
            let secs = dt.timestamp() as i128;
            let nanos = secs * 1_000_000_000 + dt.timestamp_subsec_nanos() as i128;
            return T::U("At".into(), vec![T::A(nanos.to_string())]);
        }
    }
    T::A(name)
}

pub fn parse(s: &str) -> Result<T, String> {
    let mut p = P { s: s.as_bytes(), i: 0 };
    let v = p.value(false)?;
    p.ws();
    if p.i != p.s.len() {
        return Err(format!("trailing input at {}: {}", p.i, &s[p.i..s.len().min(p.i + 30)]));
    }
    Ok(v)
}

pub fn render_into(t: &T, o: &mut String) {
    match t {
        T::A(a) => o.push_str(a),
        T::S(s) => {
            o.push('"');
            o.push_str(s);
            o.push('"');
        }
        T::L(xs) => {
            o.push('[');
            for (i, x) in xs.iter().enumerate() {
                if i > 0 {
                    o.push(',');
                }
                render_into(x, o);
            }
            o.push(']');
        }
        T::M(kv) => {
            o.push('{');
            for (i, (k, v)) in kv.iter().enumerate() {
                if i > 0 {
                    o.push(',');
                }
                render_into(k, o);
                o.push(':');
                render_into(v, o);
            }
            o.push('}');
        }
        T::R(n, fs) => {
            o.push_str(n);
            o.push('{');
            for (i, (k, v)) in fs.iter().enumerate() {
                if i > 0 {
                    o.push(',');
                }
                o.push_str(k);
                o.push(':');
                render_into(v, o);
            }
            o.push('}');
        }
        T::U(n, xs) => {
            o.push_str(n);
            o.push('(');
            for (i, x) in xs.iter().enumerate() {
                if i > 0 {
                    o.push(',');
                }
                render_into(x, o);
            }
            o.push(')');
        }
    }
}

pub fn render(t: &T) -> String {
    let mut o = String::new();
    render_into(t, &mut o);
    o
}

/// canonical text of a `Debug`-printable value
pub fn canon<D: std::fmt::Debug>(v: &D) -> String {
    let raw = format!("{:?}", v);
    match parse(&raw) {
        Ok(t) => render(&t),
        Err(e) => format!("UNPARSED({e}):{raw}"),
    }
}

// ---------- accessors used by the per-type readers ----------

pub type R<X> = Result<X, String>;

impl T {
    pub fn field<'a>(&'a self, name: &str) -> R<&'a T> {
        match self {
            T::R(_, fs) => fs.iter().find(|(k, _)| k == name).map(|(_, v)| v).ok_or_else(|| format!("missing field {name}")),
            _ => Err(format!("not a record (field {name})")),
        }
    }
    pub fn rec_name(&self) -> &str {
        match self {
            T::R(n, _) | T::U(n, _) => n,
            T::A(a) => a,
            _ => "",
        }
    }
    pub fn u64(&self) -> R<u64> {
        match self {
            T::A(a) => a.parse().map_err(|_| format!("u64: {a}")),
            _ => Err("u64: not an atom".into()),
        }
    }
    pub fn i64(&self) -> R<i64> {
        match self {
            T::A(a) => a.parse().map_err(|_| format!("i64: {a}")),
            _ => Err("i64: not an atom".into()),
        }
    }
    pub fn i128(&self) -> R<i128> {
        match self {
            T::A(a) => a.parse().map_err(|_| format!("i128: {a}")),
            _ => Err("i128: not an atom".into()),
        }
    }
    pub fn u128(&self) -> R<u128> {
        match self {
            T::A(a) => a.parse().map_err(|_| format!("u128: {a}")),
            _ => Err("u128: not an atom".into()),
        }
    }
    pub fn u32(&self) -> R<u32> {
        self.u64().and_then(|v| u32::try_from(v).map_err(|_| "u32 range".to_string()))
    }
    pub fn i32(&self) -> R<i32> {
        self.i64().and_then(|v| i32::try_from(v).map_err(|_| "i32 range".to_string()))
    }
    pub fn usize(&self) -> R<usize> {
        self.u64().map(|v| v as usize)
    }
    pub fn bool(&self) -> R<bool> {
        match self {
            T::A(a) if a == "true" => Ok(true),
            T::A(a) if a == "false" => Ok(false),
            _ => Err("bool".into()),
        }
    }
    pub fn str(&self) -> R<String> {
        match self {
            T::S(s) => Ok(s.clone()),
            _ => Err("string expected".into()),
        }
    }
    pub fn list<X>(&self, f: impl Fn(&T) -> R<X>) -> R<Vec<X>> {
        match self {
            T::L(xs) => xs.iter().map(f).collect(),
            _ => Err("list expected".into()),
        }
    }
    pub fn bytes(&self) -> R<Vec<u8>> {
        self.list(|x| x.u64().and_then(|v| u8::try_from(v).map_err(|_| "byte range".to_string())))
    }
    pub fn opt<X>(&self, f: impl Fn(&T) -> R<X>) -> R<Option<X>> {
        match self {
            T::A(a) if a == "None" => Ok(None),
            T::U(n, xs) if n == "Some" && xs.len() == 1 => f(&xs[0]).map(Some),
            _ => Err("option expected".into()),
        }
    }
    pub fn map<K, V>(&self, fk: impl Fn(&T) -> R<K>, fv: impl Fn(&T) -> R<V>) -> R<Vec<(K, V)>> {
        match self {
            T::M(kv) => kv.iter().map(|(k, v)| Ok((fk(k)?, fv(v)?))).collect(),
            _ => Err("map expected".into()),
        }
    }
    /// `Name(x)` with one payload
    pub fn variant(&self) -> R<(&str, &[T])> {
        match self {
            T::U(n, xs) => Ok((n.as_str(), xs.as_slice())),
            T::A(a) => Ok((a.as_str(), &[])),
            T::R(n, _) => Ok((n.as_str(), std::slice::from_ref(self))),
            _ => Err("variant expected".into()),
        }
    }
}
