import LanceModel.C32.Lemmas
/-
C32: round trips of the fragment family, index metadata, MemWAL, row id segments (the element-level facts used by
Props.lean and by the manifest / transaction proofs).
-/
namespace LanceModel.C32

theorem dataFile_rt (d : DataFile) : DataFile.fromPb d.toPb = .ok d := by
  cases d with
  | mk p f c ma mi sz b =>
    by_cases h : sz = 0 <;> simp [DataFile.fromPb, DataFile.toPb, nonZero, h]

theorem deletionFile_rt (d : DeletionFile) (h : d.wf = true) : DeletionFile.fromPb d.toPb = .ok d := by
  cases d with
  | mk rv id ft n b =>
    simp only [DeletionFile.wf, bne_iff_ne, ne_eq] at h
    cases ft <;> cases n with
    | none => simp [DeletionFile.fromPb, DeletionFile.toPb]
    | some k =>
      have hk : k ≠ 0 := fun e => h (by rw [e])
      simp [DeletionFile.fromPb, DeletionFile.toPb, hk]

theorem seqMeta_rt (s : SeqMeta) : SeqMeta.fromPb s.toPb = .ok s := by
  cases s <;> rfl

theorem fragment_rt (f : Fragment) (h : f.wf = true) : Fragment.fromPb f.toPb = .ok f := by
  cases f with
  | mk id files del rid pr lu cr =>
    simp only [Fragment.wf, Bool.and_eq_true, bne_iff_ne, ne_eq] at h
    have h1 : mapE DataFile.fromPb (files.map DataFile.toPb) = .ok files :=
      mapE_map_ok _ _ files (fun x _ => dataFile_rt x)
    have h2 : optE DeletionFile.fromPb (del.map DeletionFile.toPb) = .ok del :=
      optE_map_ok _ _ del (fun x hx => deletionFile_rt x (by
        have := h.2
        rw [hx] at this
        exact this))
    have h3 : ∀ o : Option SeqMeta, optE SeqMeta.fromPb (o.map SeqMeta.toPb) = .ok o :=
      fun o => optE_map_ok _ _ o (fun x _ => seqMeta_rt x)
    simp only [Fragment.fromPb, Fragment.toPb, h1, h2, h3]
    cases pr with
    | none => simp
    | some k =>
      have hk : k ≠ 0 := fun e => h.1 (by rw [e])
      have hk' : k > 0 := Nat.pos_of_ne_zero hk
      simp [hk']

theorem fragments_rt (fs : List Fragment) (h : fs.all Fragment.wf = true) :
    mapE Fragment.fromPb (fs.map Fragment.toPb) = .ok fs :=
  mapE_map_ok _ _ fs (fun x hx => fragment_rt x (all_mem h x hx))

theorem indexMetadata_rt (i : IndexMetadata) (h : i.wf = true) : IndexMetadata.fromPb i.toPb = .ok i := by
  cases i with
  | mk uuid fields name dv bm det iv ca base =>
    simp only [IndexMetadata.wf, Bool.and_eq_true, decide_eq_true_eq] at h
    have hu : uuidFromPb uuid = .ok uuid := by simp [uuidFromPb, h.1]
    cases ca with
    | none => cases bm <;> simp [IndexMetadata.fromPb, IndexMetadata.toPb, hu, optE]
    | some n =>
      have hc := h.2
      simp only [Bool.and_eq_true, decide_eq_true_eq] at hc
      have hr := created_at_roundtrip n hc.1.1 hc.1.2 hc.2
      cases bm <;> simp [IndexMetadata.fromPb, IndexMetadata.toPb, hu, optE, hr.1, hr.2.1, hr.2.2]

theorem indices_rt (is : List IndexMetadata) (h : is.all IndexMetadata.wf = true) :
    mapE IndexMetadata.fromPb (is.map IndexMetadata.toPb) = .ok is :=
  mapE_map_ok _ _ is (fun x hx => indexMetadata_rt x (all_mem h x hx))

theorem memWal_rt (m : MemWal) : MemWal.fromPb m.toPb = .ok m := by
  cases m with
  | mk r g mt wl we st o lv => cases st <;> simp [MemWal.fromPb, MemWal.toPb]

theorem memWal_rt' (m : MemWal) : MemWal.fromPbUnwrap m.toPb = .ok m := by
  simp [MemWal.fromPbUnwrap, memWal_rt]

theorem memWals_rt (ms : List MemWal) : mapE MemWal.fromPbUnwrap (ms.map MemWal.toPb) = .ok ms :=
  mapE_map_ok _ _ ms (fun x _ => memWal_rt' x)

theorem basePath_rt (b : BasePath) : BasePath.fromPb b.toPb = b := by
  cases b; rfl

theorem updateMap_rt (u : UpdateMap) : UpdateMap.fromPb u.toPb = u := by
  cases u with
  | mk es r =>
    simp only [UpdateMap.fromPb, UpdateMap.toPb, List.map_map]
    congr
    have : ((fun (e : String × Option String) => (e.1, e.2)) ∘ fun (e : String × Option String) => (e.1, e.2)) = id := by
      funext e; rfl
    rw [this, List.map_id]

theorem rewrittenIndex_rt (r : RewrittenIndex) (h : r.wf = true) : RewrittenIndex.fromPb r.toPb = .ok r := by
  cases r with
  | mk o n d v =>
    simp only [RewrittenIndex.wf, Bool.and_eq_true, decide_eq_true_eq] at h
    simp [RewrittenIndex.fromPb, RewrittenIndex.toPb, uuidFromPb, h.1, h.2]

theorem rewriteGroup_rt (g : RewriteGroup) (h : g.wf = true) : RewriteGroup.fromPb g.toPb = .ok g := by
  cases g with
  | mk o n =>
    simp only [RewriteGroup.wf, Bool.and_eq_true] at h
    simp [RewriteGroup.fromPb, RewriteGroup.toPb, fragments_rt o h.1, fragments_rt n h.2]

theorem dataReplacementGroup_rt (g : DataReplacementGroup) : DataReplacementGroup.fromPb g.toPb = .ok g := by
  cases g with
  | mk i f => simp [DataReplacementGroup.fromPb, DataReplacementGroup.toPb, dataFile_rt]

/-! ### row id segments -/

theorem encArray_rt (a : EncArray) (h : a.wf = true) : EncArray.fromPb a.toPb = .ok a := by
  cases a with
  | u16 b o =>
    simp only [EncArray.wf] at h
    have hv : ∀ v ∈ o, v < 256 ^ 2 := fun v hv => by simpa using all_mem h v hv
    have hl := encodeLE_length 2 o
    have hd := decodeLE_encodeLE 2 (by decide) o (encodeLE 2 o).length hv (by rw [hl]; omega)
    have hm : (encodeLE 2 o).length % 2 = 0 := by rw [hl]; omega
    simp [EncArray.fromPb, EncArray.toPb, hm, hd]
  | u32 b o =>
    simp only [EncArray.wf] at h
    have hv : ∀ v ∈ o, v < 256 ^ 4 := fun v hv => by simpa using all_mem h v hv
    have hl := encodeLE_length 4 o
    have hd := decodeLE_encodeLE 4 (by decide) o (encodeLE 4 o).length hv (by rw [hl]; omega)
    have hm : (encodeLE 4 o).length % 4 = 0 := by rw [hl]; omega
    simp [EncArray.fromPb, EncArray.toPb, hm, hd]
  | u64 v =>
    simp only [EncArray.wf] at h
    have hv : ∀ x ∈ v, x < 256 ^ 8 := fun x hx => by
      have hx2 : x < two64 := by simpa using all_mem h x hx
      simp only [two64] at hx2
      omega
    have hl := encodeLE_length 8 v
    have hd := decodeLE_encodeLE 8 (by decide) v (encodeLE 8 v).length hv (by rw [hl]; omega)
    have hm : (encodeLE 8 v).length % 8 = 0 := by rw [hl]; omega
    simp [EncArray.fromPb, EncArray.toPb, hm, hd]

theorem seg_rt (s : Seg) (h : s.wf = true) : Seg.fromPb s.toPb = .ok s := by
  cases s with
  | range s e => rfl
  | holes s e hs => simp [Seg.fromPb, Seg.toPb, encArray_rt hs (by simpa [Seg.wf] using h)]
  | bitmap s e d l =>
    simp only [Seg.wf, decide_eq_true_eq] at h
    simp [Seg.fromPb, Seg.toPb, h]
  | sorted a => simp [Seg.fromPb, Seg.toPb, encArray_rt a (by simpa [Seg.wf] using h)]
  | array a => simp [Seg.fromPb, Seg.toPb, encArray_rt a (by simpa [Seg.wf] using h)]

end LanceModel.C32
