import LanceModel.C32.Model
/-
C32: the well-formedness predicates of the round-trip theorems, as executable `Bool` functions (the driver prints them
for every generated value, so the harness generator's notion of "well-formed value" is tied to these definitions).
Each clause names what the decoder rejects or normalises.
-/
namespace LanceModel.C32

def keysNodup {κ ν : Type} [DecidableEq κ] : Map κ ν → Bool
  | [] => true
  | (k, _) :: m => !(m.map (·.1)).contains k && keysNodup m

/-- `num_deleted_rows: Some(0)` is written as 0 and read back as `None` -/
def DeletionFile.wf (d : DeletionFile) : Bool := d.numDeletedRows != some 0

/-- `physical_rows: Some(0)` is written as 0 and read back as `None` -/
def Fragment.wf (f : Fragment) : Bool :=
  f.physicalRows != some 0 && (match f.deletionFile with | some d => d.wf | none => true)

/-- dictionary offset / length are `usize` values (they go through `as i64` and back) -/
def FieldInfo.wf (i : FieldInfo) : Bool :=
  match i.dictionary with
  | some d => decide (d.1 < two64) && decide (d.2 < two64)
  | none => true

mutual
def Field.infosWf : Field → Bool
  | .mk i cs => i.wf && Field.infosWfList cs
def Field.infosWfList : List Field → Bool
  | [] => true
  | f :: fs => f.infosWf && Field.infosWfList fs
end

/-- the field forest is rebuilt from its depth-first list by parent-id lookup: it must come back unchanged
    (`Props.lean` gives the structural conditions under which this holds) -/
def fieldsWf (fs : List Field) : Bool :=
  Field.infosWfList fs && decide (unflatten (Field.flattenList fs) = some fs)

/-- a schema inside a transaction: its metadata is not written at all -/
def Schema.wfTxn (s : Schema) : Bool := fieldsWf s.fields && s.metadata.isEmpty

/-- a schema inside a manifest -/
def Schema.wfManifest (s : Schema) : Bool := fieldsWf s.fields && keysNodup s.metadata

def maxTimestampNanos : Nat := two63 * nanosPerSec

/-- * `tag` / `transaction_file`: `Some("")` reads back as `None`
    * `timestamp_nanos`: the seconds must fit an `i64`
    * `fragment_offsets` is recomputed from the fragments
    * with `FLAG_STABLE_ROW_IDS` every fragment needs row id metadata, otherwise the decoder fails
    * `base_paths`: the map is rebuilt keyed by `BasePath::id` -/
def Manifest.wf (m : Manifest) : Bool :=
  m.schema.wfManifest && m.fragments.all Fragment.wf
  && decide (m.timestampNanos < maxTimestampNanos)
  && m.tag != some "" && m.transactionFile != some ""
  && decide (m.fragmentOffsets = computeFragmentOffsets m.fragments)
  && (!flagStableRowIds m.readerFeatureFlags || m.fragments.all (fun f => f.rowIdMeta.isSome))
  && keysNodup m.basePaths && m.basePaths.all (fun kv => kv.1 == kv.2.id)

/-- * `uuid` is 16 bytes
    * `created_at` is written in milliseconds: whole milliseconds inside chrono's range -/
def IndexMetadata.wf (i : IndexMetadata) : Bool :=
  decide (i.uuid.length = 16)
  && (match i.createdAt with
      | some n => decide (n % 1000000 = 0) && decide (chronoMinMillis ≤ n / 1000000) && decide (n / 1000000 ≤ chronoMaxMillis)
      | none => true)

def RewrittenIndex.wf (r : RewrittenIndex) : Bool := decide (r.oldId.length = 16) && decide (r.newId.length = 16)

def RewriteGroup.wf (g : RewriteGroup) : Bool := g.oldFragments.all Fragment.wf && g.newFragments.all Fragment.wf

/-- * `Overwrite`: `config_upsert_values: Some({})` and `initial_bases: Some([])` read back as `None`
    * `Rewrite`: `frag_reuse_index` is not written; an empty `groups` list reads back as one empty group
    * `Update`: `update_mode: None` reads back as `Some(RewriteRows)`
    * schemas: see `Schema.wfTxn` -/
def Operation.wf : Operation → Bool
  | .append fs => fs.all Fragment.wf
  | .delete u _ _ => u.all Fragment.wf
  | .overwrite fs s cfg bases => fs.all Fragment.wf && s.wfTxn && cfg != some [] && bases != some []
  | .createIndex n r => n.all IndexMetadata.wf && r.all IndexMetadata.wf
  | .rewrite gs ris fri => !gs.isEmpty && gs.all RewriteGroup.wf && ris.all RewrittenIndex.wf && fri.isNone
  | .dataReplacement _ => true
  | .merge fs s => fs.all Fragment.wf && s.wfTxn
  | .restore _ => true
  | .reserveFragments _ => true
  | .update _ u n _ _ _ um => u.all Fragment.wf && n.all Fragment.wf && um.isSome
  | .project s => s.wfTxn
  | .updateConfig _ _ _ f => keysNodup f
  | .updateMemWalState _ _ _ => true
  | .clone _ _ _ _ _ => true
  | .updateBases _ => true

/-- `tag: Some("")` and `transaction_properties: Some({})` read back as `None` -/
def Transaction.wf (t : Transaction) : Bool :=
  t.operation.wf && t.tag != some "" && t.transactionProperties != some []

/-- every offset fits its width -/
def EncArray.wf : EncArray → Bool
  | .u16 _ o => o.all (fun v => decide (v < 65536))
  | .u32 _ o => o.all (fun v => decide (v < 4294967296))
  | .u64 v => v.all (fun x => decide (x < two64))

/-- `Bitmap::len` is recomputed as `end - start` -/
def Seg.wf : Seg → Bool
  | .range _ _ => true
  | .holes _ _ h => h.wf
  | .bitmap s e _ l => decide (l = (e + two64 - s) % two64)
  | .sorted a => a.wf
  | .array a => a.wf

end LanceModel.C32
