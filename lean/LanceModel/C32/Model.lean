/-
C32 model: lance's own conversions between in-memory metadata structs and their protobuf messages.

Import-free.  One Lean structure per in-memory type and per protobuf message (the prost-generated struct), one
`toPb` per Rust `From<&X> for pb::X` and one `fromPb` per `TryFrom<pb::X> for X`, mirrored line by line.
Conventions
* prost's wire format (message <-> bytes) is trusted: a "persisted value" is the protobuf *message*.
* unsigned integers are `Nat`, `i32`/`i64` are `Int`; casts that can lose information are written out
  (`toI64`, `toU64`); `usize` is 64 bit.
* `HashMap<K,V>` is a list of pairs with pairwise different keys, in an arbitrary but fixed order (`Map`); conversions that
  clone a map are the identity, conversions that rebuild one (`collect()`) fold `Map.insert`.  The driver sorts
  entries before printing (the harness sorts the Rust side as well).
* `String::as_bytes` / `String::from_utf8_lossy` (schema and field metadata values) are mutually inverse on Rust strings
  (trusted); the message field holds the string.
* `RoaringBitmap::serialize_into` / `deserialize_from` (index fragment bitmaps) are trusted: the message field is `BmBytes`
  (`empty` = zero bytes, `ser l` = the serialisation of the set `l`, which is never empty, `garbage` = anything else).
* A Rust `Err(e)` is `.error kind`; a Rust panic is `.error .panic`.
-/
namespace LanceModel.C32

inductive Err where
  | notSupported | invalidInput | internal | io | panic | unmodelled
  deriving DecidableEq, Repr, Inhabited

abbrev Res (α : Type) := Except Err α

/-- `iter().map(f).collect::<Result<Vec<_>>>()` -/
def mapE {α β : Type} (f : α → Res β) : List α → Res (List β)
  | [] => .ok []
  | x :: xs =>
    match f x with
    | .error e => .error e
    | .ok y =>
      match mapE f xs with
      | .error e => .error e
      | .ok ys => .ok (y :: ys)

/-- `Option::map(f).transpose()` -/
def optE {α β : Type} (f : α → Res β) : Option α → Res (Option β)
  | none => .ok none
  | some x =>
    match f x with
    | .error e => .error e
    | .ok y => .ok (some y)

def two64 : Nat := 18446744073709551616
def two63 : Nat := 9223372036854775808

/-- `x as i64` for a non-negative `x` (two's complement wrap) -/
def toI64 (x : Nat) : Int :=
  if x % two64 < two63 then ((x % two64 : Nat) : Int) else ((x % two64 : Nat) : Int) - (two64 : Int)

/-- `x as i32` for a `u32` -/
def toI32 (x : Nat) : Int :=
  if x % 4294967296 < 2147483648 then ((x % 4294967296 : Nat) : Int) else ((x % 4294967296 : Nat) : Int) - 4294967296

/-- `x as u64` for an `i64` -/
def toU64 (x : Int) : Nat := (x % (two64 : Int)).toNat

abbrev Bytes := List Nat

/-! ### maps -/

abbrev Map (κ ν : Type) := List (κ × ν)

/-- `HashMap::insert`: replace the value of an existing key, otherwise add the entry -/
def Map.insert {κ ν : Type} [DecidableEq κ] (k : κ) (v : ν) : Map κ ν → Map κ ν
  | [] => [(k, v)]
  | (k', v') :: m => if k' = k then (k, v) :: m else (k', v') :: Map.insert k v m

def Map.get? {κ ν : Type} [DecidableEq κ] (k : κ) : Map κ ν → Option ν
  | [] => none
  | (k', v') :: m => if k' = k then some v' else Map.get? k m

/-- `iter().map(..).collect::<HashMap<_,_>>()` -/
def Map.collect {κ ν : Type} [DecidableEq κ] (l : List (κ × ν)) : Map κ ν :=
  l.foldl (fun m kv => Map.insert kv.1 kv.2 m) []

/-! ### fragment.rs -/

/-- format/fragment.rs `ExternalFile` and `pb::ExternalFile` (same shape) -/
structure ExternalFile where
  path : String
  offset : Nat
  size : Nat
  deriving DecidableEq, Repr, Inhabited

/-- format/fragment.rs `DataFile`; `fileSizeBytes` is the content of the `CachedFileSize` atomic (0 = unknown) -/
structure DataFile where
  path : String
  fields : List Int
  columnIndices : List Int
  fileMajorVersion : Nat
  fileMinorVersion : Nat
  fileSizeBytes : Nat
  baseId : Option Nat
  deriving DecidableEq, Repr, Inhabited

/-- `pb::DataFile` -/
structure PbDataFile where
  path : String
  fields : List Int
  columnIndices : List Int
  fileMajorVersion : Nat
  fileMinorVersion : Nat
  fileSizeBytes : Nat
  baseId : Option Nat
  deriving DecidableEq, Repr, Inhabited

/-- `CachedFileSize::get`: `NonZero::new` -/
def nonZero (n : Nat) : Option Nat := if n = 0 then none else some n

/-- fragment.rs `impl From<&DataFile> for pb::DataFile` -/
def DataFile.toPb (d : DataFile) : PbDataFile :=
  { path := d.path, fields := d.fields, columnIndices := d.columnIndices,
    fileMajorVersion := d.fileMajorVersion, fileMinorVersion := d.fileMinorVersion,
    fileSizeBytes := match nonZero d.fileSizeBytes with | some v => v | none => 0,
    baseId := d.baseId }

/-- fragment.rs `impl TryFrom<pb::DataFile> for DataFile` -/
def DataFile.fromPb (p : PbDataFile) : Res DataFile :=
  .ok { path := p.path, fields := p.fields, columnIndices := p.columnIndices,
        fileMajorVersion := p.fileMajorVersion, fileMinorVersion := p.fileMinorVersion,
        fileSizeBytes := p.fileSizeBytes, baseId := p.baseId }

inductive DeletionFileType where
  | array | bitmap
  deriving DecidableEq, Repr, Inhabited

/-- fragment.rs `DeletionFile` -/
structure DeletionFile where
  readVersion : Nat
  id : Nat
  fileType : DeletionFileType
  numDeletedRows : Option Nat
  baseId : Option Nat
  deriving DecidableEq, Repr, Inhabited

/-- `pb::DeletionFile` (`file_type` is the raw i32 of the enumeration) -/
structure PbDeletionFile where
  fileType : Int
  readVersion : Nat
  id : Nat
  numDeletedRows : Nat
  baseId : Option Nat
  deriving DecidableEq, Repr, Inhabited

/-- fragment.rs, the `deletion_file` closure of `impl From<&Fragment> for pb::DataFragment` -/
def DeletionFile.toPb (f : DeletionFile) : PbDeletionFile :=
  { fileType := match f.fileType with | .array => 0 | .bitmap => 1,
    readVersion := f.readVersion, id := f.id,
    numDeletedRows := match f.numDeletedRows with | some n => n | none => 0,
    baseId := f.baseId }

/-- fragment.rs `impl TryFrom<pb::DeletionFile> for DeletionFile` -/
def DeletionFile.fromPb (p : PbDeletionFile) : Res DeletionFile :=
  if p.fileType = 0 then
    .ok { readVersion := p.readVersion, id := p.id, fileType := .array,
          numDeletedRows := if p.numDeletedRows = 0 then none else some p.numDeletedRows, baseId := p.baseId }
  else if p.fileType = 1 then
    .ok { readVersion := p.readVersion, id := p.id, fileType := .bitmap,
          numDeletedRows := if p.numDeletedRows = 0 then none else some p.numDeletedRows, baseId := p.baseId }
  else .error .notSupported

/-- fragment.rs `RowIdMeta` and rowids/version.rs `RowDatasetVersionMeta` (same shape); also the three protobuf `oneof`s
    `row_id_sequence`, `last_updated_at_version_sequence`, `created_at_version_sequence` (same shape, different names) -/
inductive SeqMeta where
  | inline (data : Bytes)
  | external (file : ExternalFile)
  deriving DecidableEq, Repr, Inhabited

/-- the `row_id_sequence` closure of `From<&Fragment>`, `last_updated_at_version_meta_to_pb`, `created_at_version_meta_to_pb` -/
def SeqMeta.toPb : SeqMeta → SeqMeta
  | .inline d => .inline d
  | .external f => .external { path := f.path, offset := f.offset, size := f.size }

/-- `TryFrom<pb::data_fragment::RowIdSequence> for RowIdMeta` and the two `RowDatasetVersionMeta` twins -/
def SeqMeta.fromPb : SeqMeta → Res SeqMeta
  | .inline d => .ok (.inline d)
  | .external f => .ok (.external { path := f.path, offset := f.offset, size := f.size })

/-- fragment.rs `Fragment` -/
structure Fragment where
  id : Nat
  files : List DataFile
  deletionFile : Option DeletionFile
  rowIdMeta : Option SeqMeta
  physicalRows : Option Nat
  lastUpdatedAtVersionMeta : Option SeqMeta
  createdAtVersionMeta : Option SeqMeta
  deriving DecidableEq, Repr, Inhabited

/-- `pb::DataFragment` -/
structure PbDataFragment where
  id : Nat
  files : List PbDataFile
  deletionFile : Option PbDeletionFile
  physicalRows : Nat
  rowIdSequence : Option SeqMeta
  lastUpdatedAtVersionSequence : Option SeqMeta
  createdAtVersionSequence : Option SeqMeta
  deriving DecidableEq, Repr, Inhabited

/-- fragment.rs `impl From<&Fragment> for pb::DataFragment` -/
def Fragment.toPb (f : Fragment) : PbDataFragment :=
  { id := f.id,
    files := f.files.map DataFile.toPb,
    deletionFile := f.deletionFile.map DeletionFile.toPb,
    physicalRows := match f.physicalRows with | some n => n | none => 0,
    rowIdSequence := f.rowIdMeta.map SeqMeta.toPb,
    lastUpdatedAtVersionSequence := f.lastUpdatedAtVersionMeta.map SeqMeta.toPb,
    createdAtVersionSequence := f.createdAtVersionMeta.map SeqMeta.toPb }

/-- fragment.rs `impl TryFrom<pb::DataFragment> for Fragment` (the struct fields are evaluated in source order) -/
def Fragment.fromPb (p : PbDataFragment) : Res Fragment :=
  match mapE DataFile.fromPb p.files with
  | .error e => .error e
  | .ok files =>
  match optE DeletionFile.fromPb p.deletionFile with
  | .error e => .error e
  | .ok del =>
  match optE SeqMeta.fromPb p.rowIdSequence with
  | .error e => .error e
  | .ok rid =>
  match optE SeqMeta.fromPb p.lastUpdatedAtVersionSequence with
  | .error e => .error e
  | .ok lu =>
  match optE SeqMeta.fromPb p.createdAtVersionSequence with
  | .error e => .error e
  | .ok cr =>
    .ok { id := p.id, files := files, deletionFile := del, rowIdMeta := rid,
          physicalRows := if p.physicalRows > 0 then some p.physicalRows else none,
          lastUpdatedAtVersionMeta := lu, createdAtVersionMeta := cr }

/-- fragment.rs `Fragment::num_rows` with `usize` wrap-around of `len - num_deleted_rows` (release arithmetic) -/
def Fragment.numRows (f : Fragment) : Option Nat :=
  match f.physicalRows, f.deletionFile with
  | some len, none => some len
  | some len, some d =>
    match d.numDeletedRows with
    | some n => some ((len + two64 - n % two64) % two64)
    | none => none
  | none, _ => none

/-- manifest.rs `compute_fragment_offsets` -/
def offsetsFrom (acc : Nat) : List Fragment → List Nat
  | [] => [acc]
  | f :: fs => acc :: offsetsFrom ((acc + (match f.numRows with | some n => n | none => 0)) % two64) fs

def computeFragmentOffsets (fs : List Fragment) : List Nat := offsetsFrom 0 fs

/-! ### schema fields (lance-file/src/datatypes.rs) -/

inductive Encoding where
  | plain | varBinary | dictionary | rle
  deriving DecidableEq, Repr, Inhabited

/-- the scalar attributes of lance-core `Field` (everything but `children`); `dictionary` is `(offset, length)` — the
    `values` array is never part of the message -/
structure FieldInfo where
  name : String
  id : Int
  parentId : Int
  logicalType : String
  metadata : Map String String
  encoding : Option Encoding
  nullable : Bool
  dictionary : Option (Nat × Nat)
  unenforcedPrimaryKey : Bool
  deriving DecidableEq, Repr, Inhabited

/-- lance-core `Field` -/
inductive Field where
  | mk (info : FieldInfo) (children : List Field)
  deriving Repr, Inhabited

mutual
def Field.decEq : (a b : Field) → Decidable (a = b)
  | .mk i cs, .mk j ds =>
    if h : i = j then
      match Field.decEqList cs ds with
      | isTrue h2 => isTrue (by rw [h, h2])
      | isFalse h2 => isFalse (by intro h3; cases h3; exact h2 rfl)
    else isFalse (by intro h3; cases h3; exact h rfl)
def Field.decEqList : (a b : List Field) → Decidable (a = b)
  | [], [] => isTrue rfl
  | [], _ :: _ => isFalse (by intro h; cases h)
  | _ :: _, [] => isFalse (by intro h; cases h)
  | a :: as, b :: bs =>
    match Field.decEq a b, Field.decEqList as bs with
    | isTrue h1, isTrue h2 => isTrue (by rw [h1, h2])
    | isFalse h1, _ => isFalse (by intro h; cases h; exact h1 rfl)
    | _, isFalse h2 => isFalse (by intro h; cases h; exact h2 rfl)
end

instance : DecidableEq Field := Field.decEq

/-- `pb::Field` (lance.file.Field); `type` is always written as 0 -/
structure PbField where
  type : Int
  name : String
  id : Int
  parentId : Int
  logicalType : String
  nullable : Bool
  metadata : Map String String
  unenforcedPrimaryKey : Bool
  encoding : Int
  dictionary : Option (Int × Int)
  extensionName : String
  deriving DecidableEq, Repr, Inhabited

def arrowExtNameKey : String := "ARROW:extension:name"

/-- datatypes.rs `impl From<&Field> for pb::Field` -/
def FieldInfo.toPb (f : FieldInfo) : PbField :=
  { type := 0, name := f.name, id := f.id, parentId := f.parentId, logicalType := f.logicalType,
    nullable := f.nullable, metadata := f.metadata, unenforcedPrimaryKey := f.unenforcedPrimaryKey,
    encoding := match f.encoding with
      | some .plain => 1 | some .varBinary => 2 | some .dictionary => 3 | some .rle => 4 | none => 0,
    dictionary := f.dictionary.map (fun d => (toI64 d.1, toI64 d.2)),
    extensionName := match Map.get? arrowExtNameKey f.metadata with | some n => n | none => "" }

/-- datatypes.rs `impl From<&pb::Field> for Field` (children are attached by the caller) -/
def FieldInfo.fromPb (p : PbField) : FieldInfo :=
  { name := p.name, id := p.id, parentId := p.parentId, logicalType := p.logicalType,
    metadata := if p.extensionName ≠ "" then Map.insert arrowExtNameKey p.extensionName p.metadata else p.metadata,
    encoding := if p.encoding = 1 then some .plain else if p.encoding = 2 then some .varBinary
                else if p.encoding = 3 then some .dictionary else if p.encoding = 4 then some .rle else none,
    nullable := p.nullable,
    dictionary := p.dictionary.map (fun d => (toU64 d.1, toU64 d.2)),
    unenforcedPrimaryKey := p.unenforcedPrimaryKey }

mutual
/-- datatypes.rs `impl From<&Field> for Fields`: the field followed by its descendants, depth first -/
def Field.flatten : Field → List PbField
  | .mk i cs => i.toPb :: Field.flattenList cs
/-- `impl From<&Schema> for Fields` -/
def Field.flattenList : List Field → List PbField
  | [] => []
  | f :: fs => f.flatten ++ Field.flattenList fs
end

mutual
/-- schema.rs `Schema::mut_field_by_id` + field.rs `Field::mut_field_by_id` (first match in depth-first pre-order), fused
    with the `children.push` the caller does on the result -/
def pushInField (pid : Int) (c : Field) : Field → Option Field
  | .mk i cs =>
    if i.id = pid then some (.mk i (cs ++ [c]))
    else match pushInList pid c cs with
      | some cs' => some (.mk i cs')
      | none => none
def pushInList (pid : Int) (c : Field) : List Field → Option (List Field)
  | [] => none
  | f :: fs =>
    match pushInField pid c f with
    | some f' => some (f' :: fs)
    | none =>
      match pushInList pid c fs with
      | some fs' => some (f :: fs')
      | none => none
end

/-- datatypes.rs `impl From<&Fields> for Schema`: one step of the `for_each` (`unwrap` on a missing parent = panic) -/
def unflattenStep (acc : List Field) (p : PbField) : Option (List Field) :=
  if p.parentId = -1 then some (acc ++ [Field.mk (FieldInfo.fromPb p) []])
  else pushInList p.parentId (Field.mk (FieldInfo.fromPb p) []) acc

def unflattenFrom : List Field → List PbField → Option (List Field)
  | acc, [] => some acc
  | acc, p :: ps =>
    match unflattenStep acc p with
    | some acc' => unflattenFrom acc' ps
    | none => none

def unflatten (ps : List PbField) : Option (List Field) := unflattenFrom [] ps

/-- lance-core `Schema` -/
structure Schema where
  fields : List Field
  metadata : Map String String
  deriving DecidableEq, Repr, Inhabited

/-- `Schema::from(&Fields(..))` (transaction.rs decoders): metadata is left empty -/
def Schema.fromFields (ps : List PbField) : Res Schema :=
  match unflatten ps with
  | some fs => .ok { fields := fs, metadata := [] }
  | none => .error .panic

/-- `Schema::from(FieldsWithMeta{..})` (manifest.rs) -/
def Schema.fromFieldsWithMeta (ps : List PbField) (md : Map String String) : Res Schema :=
  match unflatten ps with
  | some fs => .ok { fields := fs, metadata := Map.collect md }
  | none => .error .panic

/-! ### manifest.rs -/

/-- manifest.rs `BasePath` and `pb::BasePath` (same shape; both conversions copy the four fields) -/
structure BasePath where
  id : Nat
  name : Option String
  isDatasetRoot : Bool
  path : String
  deriving DecidableEq, Repr, Inhabited

/-- `impl From<BasePath> for pb::BasePath` -/
def BasePath.toPb (p : BasePath) : BasePath :=
  { id := p.id, name := p.name, isDatasetRoot := p.isDatasetRoot, path := p.path }

/-- `impl From<pb::BasePath> for BasePath` (`BasePath::new(p.id, p.path, p.name, p.is_dataset_root)`) -/
def BasePath.fromPb (p : BasePath) : BasePath :=
  { id := p.id, name := p.name, isDatasetRoot := p.isDatasetRoot, path := p.path }

/-- manifest.rs `WriterVersion` and `pb::manifest::WriterVersion` -/
structure WriterVersion where
  library : String
  version : String
  prerelease : Option String
  buildMetadata : Option String
  deriving DecidableEq, Repr, Inhabited

/-- manifest.rs `DataStorageFormat` and `pb::manifest::DataStorageFormat` -/
structure DataStorageFormat where
  fileFormat : String
  version : String
  deriving DecidableEq, Repr, Inhabited

/-- manifest.rs `Manifest` (with the private `fragment_offsets`) -/
structure Manifest where
  schema : Schema
  version : Nat
  branch : Option String
  writerVersion : Option WriterVersion
  fragments : List Fragment
  versionAuxData : Nat
  indexSection : Option Nat
  timestampNanos : Nat
  tag : Option String
  readerFeatureFlags : Nat
  writerFeatureFlags : Nat
  maxFragmentId : Option Nat
  transactionFile : Option String
  transactionSection : Option Nat
  fragmentOffsets : List Nat
  nextRowId : Nat
  dataStorageFormat : DataStorageFormat
  config : Map String String
  tableMetadata : Map String String
  basePaths : Map Nat BasePath
  deriving DecidableEq, Repr, Inhabited

/-- `pb::Manifest` -/
structure PbManifest where
  fields : List PbField
  schemaMetadata : Map String String
  fragments : List PbDataFragment
  version : Nat
  versionAuxData : Nat
  writerVersion : Option WriterVersion
  indexSection : Option Nat
  timestamp : Option (Int × Int)
  tag : String
  readerFeatureFlags : Nat
  writerFeatureFlags : Nat
  maxFragmentId : Option Nat
  transactionFile : String
  transactionSection : Option Nat
  nextRowId : Nat
  dataFormat : Option DataStorageFormat
  config : Map String String
  tableMetadata : Map String String
  basePaths : List BasePath
  branch : Option String
  deriving Repr, Inhabited

def nanosPerSec : Nat := 1000000000

/-- `Option<String>::unwrap_or_default()` -/
def strOrEmpty : Option String → String
  | some t => t
  | none => ""

/-- `Option<Vec<_>>` / `Option<HashMap<_,_>>`: `unwrap_or_default()` -/
def optListOrEmpty {α : Type} : Option (List α) → List α
  | some l => l
  | none => []

/-- `if c.is_empty() { None } else { Some(c) }` -/
def emptyListToNone {α : Type} (l : List α) : Option (List α) := if l.isEmpty then none else some l

/-- `if s.is_empty() { None } else { Some(s) }` -/
def emptyToNone (s : String) : Option String := if s = "" then none else some s

/-- the `timestamp` of `From<&Manifest>`: `None` for 0, otherwise (seconds as i64, nanos as i32) -/
def tsToPb (t : Nat) : Option (Int × Int) :=
  if t = 0 then none
  else some (toI64 ((t - t % nanosPerSec) / nanosPerSec), ((t % nanosPerSec : Nat) : Int))

/-- the `timestamp_nanos` of `TryFrom<pb::Manifest>`; a negative `seconds` / `nanos` (u128 sign extension and overflow)
    is outside the model -/
def tsFromPb : Option (Int × Int) → Res (Option Nat)
  | none => .ok none
  | some (s, n) => if s < 0 ∨ n < 0 then .error .unmodelled else .ok (some (s.toNat * nanosPerSec + n.toNat))

/-- field-by-field copy of a writer version (both directions) -/
def wvCopy (wv : WriterVersion) : WriterVersion :=
  { library := wv.library, version := wv.version, prerelease := wv.prerelease, buildMetadata := wv.buildMetadata }

/-- manifest.rs `impl From<&Manifest> for pb::Manifest` -/
def Manifest.toPb (m : Manifest) : PbManifest :=
  { fields := Field.flattenList m.schema.fields,
    schemaMetadata := m.schema.metadata,
    fragments := m.fragments.map Fragment.toPb,
    version := m.version,
    versionAuxData := m.versionAuxData,
    writerVersion := m.writerVersion.map wvCopy,
    indexSection := m.indexSection,
    timestamp := tsToPb m.timestampNanos,
    tag := strOrEmpty m.tag,
    readerFeatureFlags := m.readerFeatureFlags,
    writerFeatureFlags := m.writerFeatureFlags,
    maxFragmentId := m.maxFragmentId,
    transactionFile := strOrEmpty m.transactionFile,
    transactionSection := m.transactionSection,
    nextRowId := m.nextRowId,
    dataFormat := some { fileFormat := m.dataStorageFormat.fileFormat, version := m.dataStorageFormat.version },
    config := m.config,
    tableMetadata := m.tableMetadata,
    basePaths := m.basePaths.map (fun kv => BasePath.toPb kv.2),
    branch := m.branch }

/-- lance-encoding version.rs `LanceFileVersion::try_from_major_minor` followed by `resolve().to_string()` -/
def versionString (major minor : Nat) : Res String :=
  if major = 0 ∧ minor ≤ 2 then .ok "0.1"
  else if (major = 0 ∧ minor = 3) ∨ (major = 2 ∧ minor = 0) then .ok "2.0"
  else if major = 2 ∧ minor = 1 then .ok "2.1"
  else if major = 2 ∧ minor = 2 then .ok "2.2"
  else .error .invalidInput

/-- fragment.rs `Fragment::try_infer_version` rendered to the version string -/
def inferVersion (frags : List Fragment) : Res (Option String) :=
  match (frags.filter (fun f => !f.files.isEmpty)).head? with
  | none => .ok none
  | some f0 =>
    match f0.files.head? with
    | none => .ok none
    | some s =>
      match versionString s.fileMajorVersion s.fileMinorVersion with
      | .error e => .error e
      | .ok v =>
        match mapE (fun (d : DataFile) =>
            match versionString d.fileMajorVersion d.fileMinorVersion with
            | .error e => .error e
            | .ok v' => if v' = v then .ok () else .error .invalidInput)
            (frags.flatMap (·.files)) with
        | .error e => .error e
        | .ok _ => .ok (some v)

def flagStableRowIds (flags : Nat) : Bool := (flags / 2) % 2 = 1
def flagV2Deprecated (flags : Nat) : Bool := (flags / 4) % 2 = 1

/-- the `data_storage_format` of `TryFrom<pb::Manifest>` -/
def storageFormatFromPb (dataFormat : Option DataStorageFormat) (writerFlags : Nat) (frags : List Fragment) :
    Res DataStorageFormat :=
  match dataFormat with
  | some f => .ok { fileFormat := f.fileFormat, version := f.version }
  | none =>
    match inferVersion frags with
    | .error e => .error e
    | .ok (some v) => .ok { fileFormat := "lance", version := v }
    | .ok none =>
      if flagV2Deprecated writerFlags then .ok { fileFormat := "lance", version := "2.0" }
      else .ok { fileFormat := "lance", version := "0.1" }

/-- manifest.rs `impl TryFrom<pb::Manifest> for Manifest` -/
def Manifest.fromPb (p : PbManifest) : Res Manifest :=
  match tsFromPb p.timestamp with
  | .error e => .error e
  | .ok ts =>
  match mapE Fragment.fromPb p.fragments with
  | .error e => .error e
  | .ok frags =>
  if flagStableRowIds p.readerFeatureFlags ∧ ¬ frags.all (fun f => f.rowIdMeta.isSome) then .error .internal
  else
  match storageFormatFromPb p.dataFormat p.writerFeatureFlags frags with
  | .error e => .error e
  | .ok fmt =>
  match Schema.fromFieldsWithMeta p.fields p.schemaMetadata with
  | .error e => .error e
  | .ok schema =>
    .ok { schema := schema, version := p.version, branch := p.branch,
          writerVersion := p.writerVersion.map wvCopy,
          fragments := frags,
          versionAuxData := p.versionAuxData,
          indexSection := p.indexSection,
          timestampNanos := ts.getD 0,
          tag := emptyToNone p.tag,
          readerFeatureFlags := p.readerFeatureFlags,
          writerFeatureFlags := p.writerFeatureFlags,
          maxFragmentId := p.maxFragmentId,
          transactionFile := emptyToNone p.transactionFile,
          transactionSection := p.transactionSection,
          fragmentOffsets := computeFragmentOffsets frags,
          nextRowId := p.nextRowId,
          dataStorageFormat := fmt,
          config := p.config,
          tableMetadata := p.tableMetadata,
          basePaths := Map.collect (p.basePaths.map (fun b => (b.id, BasePath.fromPb b))) }

/-! ### index.rs -/

/-- `prost_types::Any` -/
structure AnyMsg where
  typeUrl : String
  value : Bytes
  deriving DecidableEq, Repr, Inhabited

/-- the `bytes fragment_bitmap` field, up to roaring's (trusted) serialisation -/
inductive BmBytes where
  | empty
  | ser (ids : List Nat)
  | garbage
  deriving DecidableEq, Repr, Inhabited

/-- index.rs `IndexMetadata`; `uuid` is its 16 bytes, `createdAt` nanoseconds since the epoch -/
structure IndexMetadata where
  uuid : Bytes
  fields : List Int
  name : String
  datasetVersion : Nat
  fragmentBitmap : Option (List Nat)
  indexDetails : Option AnyMsg
  indexVersion : Int
  createdAt : Option Int
  baseId : Option Nat
  deriving DecidableEq, Repr, Inhabited

/-- `pb::IndexMetadata` (`uuid` is the optional `UUID` sub-message's bytes) -/
structure PbIndexMetadata where
  uuid : Option Bytes
  fields : List Int
  name : String
  datasetVersion : Nat
  fragmentBitmap : BmBytes
  indexDetails : Option AnyMsg
  indexVersion : Option Int
  createdAt : Option Nat
  baseId : Option Nat
  deriving DecidableEq, Repr, Inhabited

/-- chrono `DateTime::<Utc>::MIN_UTC/MAX_UTC.timestamp_millis()` -/
def chronoMinMillis : Int := -8334601228800000
def chronoMaxMillis : Int := 8210266876799999

/-- format.rs `impl TryFrom<&pb::Uuid> for Uuid` -/
def uuidFromPb (b : Bytes) : Res Bytes := if b.length ≠ 16 then .error .io else .ok b

/-- index.rs `impl From<&IndexMetadata> for pb::IndexMetadata` -/
def IndexMetadata.toPb (i : IndexMetadata) : PbIndexMetadata :=
  { uuid := some i.uuid, fields := i.fields, name := i.name, datasetVersion := i.datasetVersion,
    fragmentBitmap := match i.fragmentBitmap with | some l => .ser l | none => .empty,
    indexDetails := i.indexDetails,
    indexVersion := some i.indexVersion,
    createdAt := i.createdAt.map (fun n => toU64 (n / 1000000)),
    baseId := i.baseId }

/-- index.rs `impl TryFrom<pb::IndexMetadata> for IndexMetadata` -/
def IndexMetadata.fromPb (p : PbIndexMetadata) : Res IndexMetadata :=
  match (match p.fragmentBitmap with
         | .empty => Except.ok (none : Option (List Nat))
         | .ser l => .ok (some l)
         | .garbage => .error Err.io) with
  | .error e => .error e
  | .ok bm =>
  match (match p.uuid with | none => Except.error Err.io | some b => uuidFromPb b) with
  | .error e => .error e
  | .ok uuid =>
  match optE (fun (ts : Nat) =>
      if chronoMinMillis ≤ toI64 ts ∧ toI64 ts ≤ chronoMaxMillis then Except.ok (toI64 ts * 1000000) else .error Err.panic)
      p.createdAt with
  | .error e => .error e
  | .ok created =>
    .ok { uuid := uuid, fields := p.fields, name := p.name, datasetVersion := p.datasetVersion,
          fragmentBitmap := bm, indexDetails := p.indexDetails,
          indexVersion := match p.indexVersion with | some v => v | none => 0,
          createdAt := created, baseId := p.baseId }

/-! ### lance-index mem_wal.rs -/

inductive WalState where
  | open | sealed | flushed | merged
  deriving DecidableEq, Repr, Inhabited

/-- mem_wal.rs `MemWal` (`id` is `MemWalId { region, generation }`) -/
structure MemWal where
  region : String
  generation : Nat
  memTableLocation : String
  walLocation : String
  walEntries : Bytes
  state : WalState
  ownerId : String
  lastUpdatedDatasetVersion : Nat
  deriving DecidableEq, Repr, Inhabited

/-- `pb::mem_wal_index_details::MemWal` -/
structure PbMemWal where
  id : Option (String × Nat)
  memTableLocation : String
  walLocation : String
  walEntries : Bytes
  state : Int
  ownerId : String
  lastUpdatedDatasetVersion : Nat
  deriving DecidableEq, Repr, Inhabited

/-- mem_wal.rs `impl From<&MemWal> for pb::..::MemWal` -/
def MemWal.toPb (m : MemWal) : PbMemWal :=
  { id := some (m.region, m.generation), memTableLocation := m.memTableLocation, walLocation := m.walLocation,
    walEntries := m.walEntries,
    state := match m.state with | .open => 0 | .sealed => 1 | .flushed => 2 | .merged => 3,
    ownerId := m.ownerId, lastUpdatedDatasetVersion := m.lastUpdatedDatasetVersion }

/-- mem_wal.rs `impl TryFrom<pb::..::MemWal> for MemWal` (`State::try_from(i32)` first, then `id.unwrap()`) -/
def MemWal.fromPb (p : PbMemWal) : Res MemWal :=
  match (if p.state = 0 then Except.ok WalState.open else if p.state = 1 then .ok .sealed
         else if p.state = 2 then .ok .flushed else if p.state = 3 then .ok .merged else .error Err.invalidInput) with
  | .error e => .error e
  | .ok st =>
    match p.id with
    | none => .error .panic
    | some (r, g) =>
      .ok { region := r, generation := g, memTableLocation := p.memTableLocation, walLocation := p.walLocation,
            walEntries := p.walEntries, state := st, ownerId := p.ownerId,
            lastUpdatedDatasetVersion := p.lastUpdatedDatasetVersion }

/-- transaction.rs: `.map(|m| MemWal::try_from(m).unwrap())` — an error becomes a panic -/
def MemWal.fromPbUnwrap (p : PbMemWal) : Res MemWal :=
  match MemWal.fromPb p with
  | .ok m => .ok m
  | .error _ => .error .panic

/-! ### transaction.rs -/

/-- transaction.rs `UpdateMapEntry` / `UpdateMap` and their protobuf twins (same shape) -/
structure UpdateMap where
  updateEntries : List (String × Option String)
  replace : Bool
  deriving DecidableEq, Repr, Inhabited

/-- `impl From<&UpdateMap> for pb::transaction::UpdateMap` -/
def UpdateMap.toPb (u : UpdateMap) : UpdateMap :=
  { updateEntries := u.updateEntries.map (fun e => (e.1, e.2)), replace := u.replace }

/-- `impl From<&pb::transaction::UpdateMap> for UpdateMap` -/
def UpdateMap.fromPb (u : UpdateMap) : UpdateMap :=
  { updateEntries := u.updateEntries.map (fun e => (e.1, e.2)), replace := u.replace }

/-- transaction.rs `RewrittenIndex` -/
structure RewrittenIndex where
  oldId : Bytes
  newId : Bytes
  newIndexDetails : AnyMsg
  newIndexVersion : Nat
  deriving DecidableEq, Repr, Inhabited

structure PbRewrittenIndex where
  oldId : Option Bytes
  newId : Option Bytes
  newIndexDetails : Option AnyMsg
  newIndexVersion : Nat
  deriving DecidableEq, Repr, Inhabited

/-- `impl From<&RewrittenIndex> for pb::transaction::rewrite::RewrittenIndex` -/
def RewrittenIndex.toPb (r : RewrittenIndex) : PbRewrittenIndex :=
  { oldId := some r.oldId, newId := some r.newId, newIndexDetails := some r.newIndexDetails,
    newIndexVersion := r.newIndexVersion }

/-- `impl TryFrom<&pb::transaction::rewrite::RewrittenIndex> for RewrittenIndex` -/
def RewrittenIndex.fromPb (p : PbRewrittenIndex) : Res RewrittenIndex :=
  match (match p.oldId with | none => Except.error Err.io | some b => uuidFromPb b) with
  | .error e => .error e
  | .ok o =>
  match (match p.newId with | none => Except.error Err.io | some b => uuidFromPb b) with
  | .error e => .error e
  | .ok n =>
  match p.newIndexDetails with
  | none => .error .invalidInput
  | some d => .ok { oldId := o, newId := n, newIndexDetails := d, newIndexVersion := p.newIndexVersion }

/-- transaction.rs `RewriteGroup` -/
structure RewriteGroup where
  oldFragments : List Fragment
  newFragments : List Fragment
  deriving DecidableEq, Repr, Inhabited

structure PbRewriteGroup where
  oldFragments : List PbDataFragment
  newFragments : List PbDataFragment
  deriving DecidableEq, Repr, Inhabited

/-- `impl From<&RewriteGroup> for pb::transaction::rewrite::RewriteGroup` -/
def RewriteGroup.toPb (g : RewriteGroup) : PbRewriteGroup :=
  { oldFragments := g.oldFragments.map Fragment.toPb, newFragments := g.newFragments.map Fragment.toPb }

/-- `impl TryFrom<pb::transaction::rewrite::RewriteGroup> for RewriteGroup` -/
def RewriteGroup.fromPb (p : PbRewriteGroup) : Res RewriteGroup :=
  match mapE Fragment.fromPb p.oldFragments with
  | .error e => .error e
  | .ok o =>
    match mapE Fragment.fromPb p.newFragments with
    | .error e => .error e
    | .ok n => .ok { oldFragments := o, newFragments := n }

/-- transaction.rs `DataReplacementGroup(fragment_id, new_file)` -/
structure DataReplacementGroup where
  fragmentId : Nat
  newFile : DataFile
  deriving DecidableEq, Repr, Inhabited

structure PbDataReplacementGroup where
  fragmentId : Nat
  newFile : Option PbDataFile
  deriving DecidableEq, Repr, Inhabited

/-- `impl From<&DataReplacementGroup> for pb::transaction::DataReplacementGroup` -/
def DataReplacementGroup.toPb (g : DataReplacementGroup) : PbDataReplacementGroup :=
  { fragmentId := g.fragmentId, newFile := some g.newFile.toPb }

/-- `impl TryFrom<pb::transaction::DataReplacementGroup> for DataReplacementGroup` -/
def DataReplacementGroup.fromPb (p : PbDataReplacementGroup) : Res DataReplacementGroup :=
  match p.newFile with
  | none => .error .invalidInput
  | some f =>
    match DataFile.fromPb f with
    | .error e => .error e
    | .ok d => .ok { fragmentId := p.fragmentId, newFile := d }

inductive UpdateMode where
  | rewriteRows | rewriteColumns
  deriving DecidableEq, Repr, Inhabited

/-- transaction.rs `Operation` -/
inductive Operation where
  | append (fragments : List Fragment)
  | delete (updatedFragments : List Fragment) (deletedFragmentIds : List Nat) (predicate : String)
  | overwrite (fragments : List Fragment) (schema : Schema) (configUpsertValues : Option (Map String String))
      (initialBases : Option (List BasePath))
  | createIndex (newIndices : List IndexMetadata) (removedIndices : List IndexMetadata)
  | rewrite (groups : List RewriteGroup) (rewrittenIndices : List RewrittenIndex) (fragReuseIndex : Option IndexMetadata)
  | dataReplacement (replacements : List DataReplacementGroup)
  | merge (fragments : List Fragment) (schema : Schema)
  | restore (version : Nat)
  | reserveFragments (numFragments : Nat)
  | update (removedFragmentIds : List Nat) (updatedFragments : List Fragment) (newFragments : List Fragment)
      (fieldsModified : List Nat) (memWalToMerge : Option MemWal) (fieldsForPreservingFragBitmap : List Nat)
      (updateMode : Option UpdateMode)
  | project (schema : Schema)
  | updateConfig (configUpdates : Option UpdateMap) (tableMetadataUpdates : Option UpdateMap)
      (schemaMetadataUpdates : Option UpdateMap) (fieldMetadataUpdates : Map Int UpdateMap)
  | updateMemWalState (added : List MemWal) (updated : List MemWal) (removed : List MemWal)
  | clone (isShallow : Bool) (refName : Option String) (refVersion : Nat) (refPath : String) (branchName : Option String)
  | updateBases (newBases : List BasePath)
  deriving DecidableEq, Repr, Inhabited

/-- `pb::transaction::UpdateConfig` with its old-style fields -/
structure PbUpdateConfig where
  upsertValues : Map String String
  deleteKeys : List String
  schemaMetadata : Map String String
  fieldMetadata : Map Nat (Map String String)
  configUpdates : Option UpdateMap
  tableMetadataUpdates : Option UpdateMap
  schemaMetadataUpdates : Option UpdateMap
  fieldMetadataUpdates : Map Int UpdateMap
  deriving Repr, Inhabited

/-- `pb::transaction::Operation` (the `oneof operation`) -/
inductive PbOperation where
  | append (fragments : List PbDataFragment)
  | delete (updatedFragments : List PbDataFragment) (deletedFragmentIds : List Nat) (predicate : String)
  | overwrite (fragments : List PbDataFragment) (schema : List PbField) (schemaMetadata : Map String String)
      (configUpsertValues : Map String String) (initialBases : List BasePath)
  | createIndex (newIndices : List PbIndexMetadata) (removedIndices : List PbIndexMetadata)
  | rewrite (oldFragments : List PbDataFragment) (newFragments : List PbDataFragment) (groups : List PbRewriteGroup)
      (rewrittenIndices : List PbRewrittenIndex)
  | merge (fragments : List PbDataFragment) (schema : List PbField) (schemaMetadata : Map String String)
  | restore (version : Nat)
  | reserveFragments (numFragments : Nat)
  | update (removedFragmentIds : List Nat) (updatedFragments : List PbDataFragment) (newFragments : List PbDataFragment)
      (fieldsModified : List Nat) (memWalToMerge : Option PbMemWal) (fieldsForPreservingFragBitmap : List Nat)
      (updateMode : Int)
  | project (schema : List PbField)
  | updateConfig (c : PbUpdateConfig)
  | dataReplacement (replacements : List PbDataReplacementGroup)
  | updateMemWalState (added : List PbMemWal) (updated : List PbMemWal) (removed : List PbMemWal)
  | clone (isShallow : Bool) (refName : Option String) (refVersion : Nat) (refPath : String) (branchName : Option String)
  | updateBases (newBases : List BasePath)
  deriving Repr, Inhabited

/-- transaction.rs `Transaction` -/
structure Transaction where
  readVersion : Nat
  uuid : String
  operation : Operation
  tag : Option String
  transactionProperties : Option (Map String String)
  deriving DecidableEq, Repr, Inhabited

/-- `pb::Transaction` -/
structure PbTransaction where
  readVersion : Nat
  uuid : String
  tag : String
  transactionProperties : Map String String
  operation : Option PbOperation
  deriving Repr, Inhabited

/-- the `match &value.operation` of `impl From<&Transaction> for pb::Transaction` -/
def Operation.toPb : Operation → PbOperation
  | .append fs => .append (fs.map Fragment.toPb)
  | .clone a b c d e => .clone a b c d e
  | .delete u d p => .delete (u.map Fragment.toPb) d p
  | .overwrite fs s cfg bases =>
    .overwrite (fs.map Fragment.toPb) (Field.flattenList s.fields) []
      (optListOrEmpty cfg)
      (optListOrEmpty (bases.map (List.map BasePath.toPb)))
  | .reserveFragments n => .reserveFragments n
  | .rewrite gs ris _ => .rewrite [] [] (gs.map RewriteGroup.toPb) (ris.map RewrittenIndex.toPb)
  | .createIndex n r => .createIndex (n.map IndexMetadata.toPb) (r.map IndexMetadata.toPb)
  | .merge fs s => .merge (fs.map Fragment.toPb) (Field.flattenList s.fields) []
  | .restore v => .restore v
  | .update r u n fm mw fp um =>
    .update r (u.map Fragment.toPb) (n.map Fragment.toPb) fm (mw.map MemWal.toPb) fp
      (match um with | some .rewriteRows => 0 | some .rewriteColumns => 1 | none => 0)
  | .project s => .project (Field.flattenList s.fields)
  | .updateConfig c t s f =>
    .updateConfig { upsertValues := [], deleteKeys := [], schemaMetadata := [], fieldMetadata := [],
                    configUpdates := c.map UpdateMap.toPb, tableMetadataUpdates := t.map UpdateMap.toPb,
                    schemaMetadataUpdates := s.map UpdateMap.toPb,
                    fieldMetadataUpdates := Map.collect (f.map (fun kv => (kv.1, UpdateMap.toPb kv.2))) }
  | .dataReplacement rs => .dataReplacement (rs.map DataReplacementGroup.toPb)
  | .updateMemWalState a u r => .updateMemWalState (a.map MemWal.toPb) (u.map MemWal.toPb) (r.map MemWal.toPb)
  | .updateBases bs => .updateBases (bs.map BasePath.toPb)

/-- transaction.rs `impl From<&Transaction> for pb::Transaction` -/
def Transaction.toPb (t : Transaction) : PbTransaction :=
  { readVersion := t.readVersion, uuid := t.uuid,
    tag := strOrEmpty t.tag,
    transactionProperties := optListOrEmpty t.transactionProperties,
    operation := some t.operation.toPb }

/-- transaction.rs `translate_config_updates` (entries in map order, then the deleted keys) -/
def translateConfigUpdates (upsert : Map String String) (deleteKeys : List String) : UpdateMap :=
  { updateEntries := upsert.map (fun kv => (kv.1, some kv.2)) ++ deleteKeys.map (fun k => (k, none)), replace := false }

/-- transaction.rs `translate_schema_metadata_updates` -/
def translateSchemaMetadataUpdates (m : Map String String) : UpdateMap :=
  { updateEntries := m.map (fun kv => (kv.1, some kv.2)), replace := true }

/-- the `UpdateConfig` arm of `TryFrom<pb::Transaction>` -/
def updateConfigFromPb (c : PbUpdateConfig) : Res Operation :=
  if (c.configUpdates.isSome ∨ c.tableMetadataUpdates.isSome ∨ c.schemaMetadataUpdates.isSome
        ∨ ¬ c.fieldMetadataUpdates.isEmpty)
      ∧ (¬ c.upsertValues.isEmpty ∨ ¬ c.deleteKeys.isEmpty ∨ ¬ c.schemaMetadata.isEmpty ∨ ¬ c.fieldMetadata.isEmpty) then
    .error .invalidInput
  else if ¬ c.upsertValues.isEmpty ∨ ¬ c.deleteKeys.isEmpty ∨ ¬ c.schemaMetadata.isEmpty ∨ ¬ c.fieldMetadata.isEmpty then
    .ok (.updateConfig
      (if ¬ c.upsertValues.isEmpty ∨ ¬ c.deleteKeys.isEmpty then some (translateConfigUpdates c.upsertValues c.deleteKeys)
       else none)
      none
      (if ¬ c.schemaMetadata.isEmpty then some (translateSchemaMetadataUpdates c.schemaMetadata) else none)
      (Map.collect (c.fieldMetadata.map (fun kv => (toI32 kv.1, translateSchemaMetadataUpdates kv.2)))))
  else
    .ok (.updateConfig (c.configUpdates.map UpdateMap.fromPb) (c.tableMetadataUpdates.map UpdateMap.fromPb)
      (c.schemaMetadataUpdates.map UpdateMap.fromPb)
      (Map.collect (c.fieldMetadataUpdates.map (fun kv => (kv.1, UpdateMap.fromPb kv.2)))))

/-- the `match message.operation` of `impl TryFrom<pb::Transaction> for Transaction` -/
def Operation.fromPb : PbOperation → Res Operation
  | .append fs =>
    match mapE Fragment.fromPb fs with
    | .error e => .error e
    | .ok fs => .ok (.append fs)
  | .clone a b c d e => .ok (.clone a b c d e)
  | .delete u d p =>
    match mapE Fragment.fromPb u with
    | .error e => .error e
    | .ok u => .ok (.delete u d p)
  | .overwrite fs schema _md cfg bases =>
    match mapE Fragment.fromPb fs with
    | .error e => .error e
    | .ok fs =>
      match Schema.fromFields schema with
      | .error e => .error e
      | .ok s =>
        .ok (.overwrite fs s (emptyListToNone cfg) ((emptyListToNone bases).map (List.map BasePath.fromPb)))
  | .reserveFragments n => .ok (.reserveFragments n)
  | .rewrite old new groups ris =>
    match (if ¬ groups.isEmpty then mapE RewriteGroup.fromPb groups
           else match mapE Fragment.fromPb old with
             | .error e => .error e
             | .ok o =>
               match mapE Fragment.fromPb new with
               | .error e => .error e
               | .ok n => .ok [{ oldFragments := o, newFragments := n }]) with
    | .error e => .error e
    | .ok gs =>
      match mapE RewrittenIndex.fromPb ris with
      | .error e => .error e
      | .ok ris => .ok (.rewrite gs ris none)
  | .createIndex n r =>
    match mapE IndexMetadata.fromPb n with
    | .error e => .error e
    | .ok n =>
      match mapE IndexMetadata.fromPb r with
      | .error e => .error e
      | .ok r => .ok (.createIndex n r)
  | .merge fs schema _md =>
    match mapE Fragment.fromPb fs with
    | .error e => .error e
    | .ok fs =>
      match Schema.fromFields schema with
      | .error e => .error e
      | .ok s => .ok (.merge fs s)
  | .restore v => .ok (.restore v)
  | .update r u n fm mw fp um =>
    match mapE Fragment.fromPb u with
    | .error e => .error e
    | .ok u =>
      match mapE Fragment.fromPb n with
      | .error e => .error e
      | .ok n =>
        match optE MemWal.fromPbUnwrap mw with
        | .error e => .error e
        | .ok mw =>
          .ok (.update r u n fm mw fp
            (if um = 0 then some .rewriteRows else if um = 1 then some .rewriteColumns else some .rewriteRows))
  | .project schema =>
    match Schema.fromFields schema with
    | .error e => .error e
    | .ok s => .ok (.project s)
  | .updateConfig c => updateConfigFromPb c
  | .dataReplacement rs =>
    match mapE DataReplacementGroup.fromPb rs with
    | .error e => .error e
    | .ok rs => .ok (.dataReplacement rs)
  | .updateMemWalState a u r =>
    match mapE MemWal.fromPbUnwrap a with
    | .error e => .error e
    | .ok a =>
      match mapE MemWal.fromPbUnwrap u with
      | .error e => .error e
      | .ok u =>
        match mapE MemWal.fromPbUnwrap r with
        | .error e => .error e
        | .ok r => .ok (.updateMemWalState a u r)
  | .updateBases bs => .ok (.updateBases (bs.map BasePath.fromPb))

/-- transaction.rs `impl TryFrom<pb::Transaction> for Transaction` -/
def Transaction.fromPb (p : PbTransaction) : Res Transaction :=
  match p.operation with
  | none => .error .internal
  | some op =>
    match Operation.fromPb op with
    | .error e => .error e
    | .ok op =>
      .ok { readVersion := p.readVersion, uuid := p.uuid, operation := op,
            tag := emptyToNone p.tag,
            transactionProperties := emptyListToNone p.transactionProperties }

/-! ### rowids/serde.rs, rowids/version.rs -/

/-- `u16::to_le_bytes` etc.: `k` little-endian bytes of `v` -/
def leBytes : Nat → Nat → Bytes
  | 0, _ => []
  | k + 1, v => (v % 256) :: leBytes k (v / 256)

/-- `u16::from_le_bytes` etc. -/
def leValue : Bytes → Nat
  | [] => 0
  | b :: bs => b + 256 * leValue bs

/-- `flat_map(|v| v.to_le_bytes())` -/
def encodeLE (k : Nat) (vs : List Nat) : Bytes := vs.flatMap (leBytes k)

/-- `chunks_exact(k).map(from_le_bytes)`: a trailing partial chunk is dropped (the caller asserts there is none) -/
def decodeLE (k : Nat) : Nat → Bytes → List Nat
  | 0, _ => []
  | fuel + 1, bs => if bs.length < k ∨ k = 0 then [] else leValue (bs.take k) :: decodeLE k fuel (bs.drop k)

/-- rowids/encoded_array.rs `EncodedU64Array` -/
inductive EncArray where
  | u16 (base : Nat) (offsets : List Nat)
  | u32 (base : Nat) (offsets : List Nat)
  | u64 (values : List Nat)
  deriving DecidableEq, Repr, Inhabited

/-- `pb::EncodedU64Array` (`none` = the `oneof array` is unset) -/
inductive PbEncArrayKind where
  | u16 (base : Nat) (offsets : Bytes)
  | u32 (base : Nat) (offsets : Bytes)
  | u64 (values : Bytes)
  deriving DecidableEq, Repr, Inhabited

abbrev PbEncArray := Option PbEncArrayKind

/-- serde.rs `impl From<EncodedU64Array> for pb::EncodedU64Array` -/
def EncArray.toPb : EncArray → PbEncArray
  | .u16 b o => some (.u16 b (encodeLE 2 o))
  | .u32 b o => some (.u32 b (encodeLE 4 o))
  | .u64 v => some (.u64 (encodeLE 8 v))

/-- serde.rs `impl TryFrom<pb::EncodedU64Array> for EncodedU64Array` (`assert!` on the byte count = panic) -/
def EncArray.fromPb : PbEncArray → Res EncArray
  | none => .error .invalidInput
  | some (.u16 b o) => if o.length % 2 ≠ 0 then .error .panic else .ok (.u16 b (decodeLE 2 o.length o))
  | some (.u32 b o) => if o.length % 4 ≠ 0 then .error .panic else .ok (.u32 b (decodeLE 4 o.length o))
  | some (.u64 v) => if v.length % 8 ≠ 0 then .error .panic else .ok (.u64 (decodeLE 8 v.length v))

/-- rowids/segment.rs `U64Segment`; `Bitmap { data, len }` keeps both fields -/
inductive Seg where
  | range (s e : Nat)
  | holes (s e : Nat) (holes : EncArray)
  | bitmap (s e : Nat) (data : Bytes) (len : Nat)
  | sorted (a : EncArray)
  | array (a : EncArray)
  deriving DecidableEq, Repr, Inhabited

/-- `pb::U64Segment` (`none` = the `oneof segment` is unset; `holes` is an optional sub-message) -/
inductive PbSegKind where
  | range (s e : Nat)
  | holes (s e : Nat) (holes : Option PbEncArray)
  | bitmap (s e : Nat) (data : Bytes)
  | sorted (a : PbEncArray)
  | array (a : PbEncArray)
  deriving DecidableEq, Repr, Inhabited

abbrev PbSeg := Option PbSegKind

/-- serde.rs `impl From<U64Segment> for pb::U64Segment` -/
def Seg.toPb : Seg → PbSeg
  | .range s e => some (.range s e)
  | .holes s e h => some (.holes s e (some h.toPb))
  | .bitmap s e d _ => some (.bitmap s e d)
  | .sorted a => some (.sorted a.toPb)
  | .array a => some (.array a.toPb)

/-- serde.rs `impl TryFrom<pb::U64Segment> for U64Segment`; `(end - start) as usize` wraps in release arithmetic -/
def Seg.fromPb : PbSeg → Res Seg
  | none => .error .invalidInput
  | some (.range s e) => .ok (.range s e)
  | some (.holes s e h) =>
    match h with
    | none => .error .invalidInput
    | some h =>
      match EncArray.fromPb h with
      | .error e' => .error e'
      | .ok h => .ok (.holes s e h)
  | some (.bitmap s e d) => .ok (.bitmap s e d ((e + two64 - s) % two64))
  | some (.sorted a) =>
    match EncArray.fromPb a with
    | .error e => .error e
    | .ok a => .ok (.sorted a)
  | some (.array a) =>
    match EncArray.fromPb a with
    | .error e => .error e
    | .ok a => .ok (.array a)

/-- serde.rs `impl From<RowIdSequence> for pb::RowIdSequence` (and `write_row_ids`, up to prost) -/
def seqToPb (s : List Seg) : List PbSeg := s.map Seg.toPb

/-- serde.rs `impl TryFrom<pb::RowIdSequence> for RowIdSequence` (and `read_row_ids`) -/
def seqFromPb (p : List PbSeg) : Res (List Seg) := mapE Seg.fromPb p

/-- version.rs `RowDatasetVersionRun { span, version }`; `write_dataset_versions` -/
def runsToPb (rs : List (Seg × Nat)) : List (Option PbSeg × Nat) := rs.map (fun r => (some r.1.toPb, r.2))

/-- version.rs `read_dataset_versions` -/
def runsFromPb (p : List (Option PbSeg × Nat)) : Res (List (Seg × Nat)) :=
  mapE (fun (r : Option PbSeg × Nat) =>
    match r.1 with
    | none => .error Err.internal
    | some s =>
      match Seg.fromPb s with
      | .error e => .error e
      | .ok s => .ok (s, r.2)) p

/-! ### refs.rs (serde-derived JSON: field-by-field, camelCase) -/

/-- refs.rs `TagContents` -/
structure TagContents where
  branch : Option String
  version : Nat
  manifestSize : Nat
  deriving DecidableEq, Repr, Inhabited

/-- refs.rs `BranchContents` -/
structure BranchContents where
  parentBranch : Option String
  parentVersion : Nat
  createAt : Nat
  manifestSize : Nat
  deriving DecidableEq, Repr, Inhabited

/-- a JSON object as serde_json writes it for these two structs: keys in declaration order, `null` for `None` -/
inductive JVal where
  | null | num (n : Nat) | str (s : String)
  deriving DecidableEq, Repr, Inhabited

def optStrToJ : Option String → JVal
  | none => .null
  | some s => .str s

def TagContents.toJson (t : TagContents) : List (String × JVal) :=
  [("branch", optStrToJ t.branch), ("version", .num t.version), ("manifestSize", .num t.manifestSize)]

def jOptStr : Option JVal → Option (Option String)
  | none => some none           -- a missing `Option` field deserialises as `None`
  | some .null => some none
  | some (.str s) => some (some s)
  | some (.num _) => none

def jNum : Option JVal → Option Nat
  | some (.num n) => some n
  | _ => none

def TagContents.fromJson (j : List (String × JVal)) : Option TagContents :=
  match jOptStr (Map.get? "branch" j), jNum (Map.get? "version" j), jNum (Map.get? "manifestSize" j) with
  | some b, some v, some m => some { branch := b, version := v, manifestSize := m }
  | _, _, _ => none

def BranchContents.toJson (b : BranchContents) : List (String × JVal) :=
  [("parentBranch", optStrToJ b.parentBranch), ("parentVersion", .num b.parentVersion), ("createAt", .num b.createAt),
   ("manifestSize", .num b.manifestSize)]

def BranchContents.fromJson (j : List (String × JVal)) : Option BranchContents :=
  match jOptStr (Map.get? "parentBranch" j), jNum (Map.get? "parentVersion" j), jNum (Map.get? "createAt" j),
        jNum (Map.get? "manifestSize" j) with
  | some b, some v, some c, some m => some { parentBranch := b, parentVersion := v, createAt := c, manifestSize := m }
  | _, _, _, _ => none

end LanceModel.C32
