import LanceModel.C32.Driver
def main : IO Unit := LanceModel.Util.runDriver LanceModel.C32.Driver.step ()
