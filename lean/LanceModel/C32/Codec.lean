import LanceModel.C32.Model
import LanceModel.C32.Tree
/-
C32 driver support: model values <-> value trees in the shape of the Rust `Debug` output of the corresponding lance /
prost types (field names and order as printed by Rust).  Driver only; no theorem depends on it.
-/
namespace LanceModel.C32

/-! small helpers -/

def hexDigit (n : Nat) : Char := if n < 10 then Char.ofNat (48 + n) else Char.ofNat (87 + n)
def hexByte (b : Nat) : String := String.ofList [hexDigit (b / 16 % 16), hexDigit (b % 16)]
def hexOf (l : List Nat) : String := String.join (l.map hexByte)

/-- uuid's `Debug`: hyphenated lower-case hex -/
def uuidT (b : Bytes) : T :=
  if b.length = 16 then
    .a (hexOf (b.take 4) ++ "-" ++ hexOf ((b.drop 4).take 2) ++ "-" ++ hexOf ((b.drop 6).take 2) ++ "-"
        ++ hexOf ((b.drop 8).take 2) ++ "-" ++ hexOf (b.drop 10))
  else .a ("BadUuid" ++ hexOf b)

def hexVal (c : Char) : Option Nat :=
  if c.isDigit then some (c.toNat - 48) else if 'a' ≤ c ∧ c ≤ 'f' then some (c.toNat - 87) else none

def hexPairs : List Char → Option (List Nat)
  | [] => some []
  | [_] => none
  | a :: b :: rest =>
    match hexVal a, hexVal b, hexPairs rest with
    | some x, some y, some r => some ((16 * x + y) :: r)
    | _, _, _ => none

def uuidOfT : T → Option Bytes
  | .a x => hexPairs (x.toList.filter (· ≠ '-'))
  | _ => none

def utf8T (s : String) : T := .l (s.toUTF8.toList.map (fun b => T.ofNat b.toNat))

def utf8OfT (t : T) : Option String :=
  match t.nats? with
  | some l => String.fromUTF8? (ByteArray.mk (l.map UInt8.ofNat).toArray)
  | none => none

def strOptT (o : Option String) : T := T.ofOpt T.s o
def natOptT (o : Option Nat) : T := T.ofOpt T.ofNat o
def strOpt? (t : T) : Option (Option String) := t.opt? T.str?
def natOpt? (t : T) : Option (Option Nat) := t.opt? T.nat?
def strMap? (t : T) : Option (Map String String) := t.map? T.str? T.str?

def fld (n : String) (v : T) : T := .f n v

/-! fragment family -/

def ExternalFile.toT (e : ExternalFile) : T :=
  .r "ExternalFile" [fld "path" (.s e.path), fld "offset" (.ofNat e.offset), fld "size" (.ofNat e.size)]

def ExternalFile.ofT (t : T) : Option ExternalFile := do
  return { path := ← (← t.field "path").str?, offset := ← (← t.field "offset").nat?, size := ← (← t.field "size").nat? }

def DataFile.toT (d : DataFile) : T :=
  .r "DataFile" [fld "path" (.s d.path), fld "fields" (.ofInts d.fields), fld "column_indices" (.ofInts d.columnIndices),
    fld "file_major_version" (.ofNat d.fileMajorVersion), fld "file_minor_version" (.ofNat d.fileMinorVersion),
    fld "file_size_bytes" (.u "CachedFileSize" [.ofNat d.fileSizeBytes]), fld "base_id" (natOptT d.baseId)]

def DataFile.ofT (t : T) : Option DataFile := do
  let sz ← match ← t.field "file_size_bytes" with
    | .u "CachedFileSize" [x] => x.nat?
    | _ => none
  return { path := ← (← t.field "path").str?, fields := ← (← t.field "fields").ints?,
           columnIndices := ← (← t.field "column_indices").ints?,
           fileMajorVersion := ← (← t.field "file_major_version").nat?,
           fileMinorVersion := ← (← t.field "file_minor_version").nat?,
           fileSizeBytes := sz, baseId := ← natOpt? (← t.field "base_id") }

def PbDataFile.toT (d : PbDataFile) : T :=
  .r "DataFile" [fld "path" (.s d.path), fld "fields" (.ofInts d.fields), fld "column_indices" (.ofInts d.columnIndices),
    fld "file_major_version" (.ofNat d.fileMajorVersion), fld "file_minor_version" (.ofNat d.fileMinorVersion),
    fld "file_size_bytes" (.ofNat d.fileSizeBytes), fld "base_id" (natOptT d.baseId)]

def PbDataFile.ofT (t : T) : Option PbDataFile := do
  return { path := ← (← t.field "path").str?, fields := ← (← t.field "fields").ints?,
           columnIndices := ← (← t.field "column_indices").ints?,
           fileMajorVersion := ← (← t.field "file_major_version").nat?,
           fileMinorVersion := ← (← t.field "file_minor_version").nat?,
           fileSizeBytes := ← (← t.field "file_size_bytes").nat?, baseId := ← natOpt? (← t.field "base_id") }

def DeletionFile.toT (d : DeletionFile) : T :=
  .r "DeletionFile" [fld "read_version" (.ofNat d.readVersion), fld "id" (.ofNat d.id),
    fld "file_type" (.a (match d.fileType with | .array => "Array" | .bitmap => "Bitmap")),
    fld "num_deleted_rows" (natOptT d.numDeletedRows), fld "base_id" (natOptT d.baseId)]

def DeletionFile.ofT (t : T) : Option DeletionFile := do
  let ft ← match ← t.field "file_type" with
    | .a "Array" => some DeletionFileType.array
    | .a "Bitmap" => some DeletionFileType.bitmap
    | _ => none
  return { readVersion := ← (← t.field "read_version").nat?, id := ← (← t.field "id").nat?, fileType := ft,
           numDeletedRows := ← natOpt? (← t.field "num_deleted_rows"), baseId := ← natOpt? (← t.field "base_id") }

/-- prost prints an i32 enumeration field by name when the value is known, as the number otherwise -/
def enumT (names : List String) (v : Int) : T :=
  if 0 ≤ v then
    match names[v.toNat]? with
    | some n => .a n
    | none => .ofInt v
  else .ofInt v

def enumOfT (names : List String) : T → Option Int
  | .a x =>
    match names.idxOf? x with
    | some i => some (i : Int)
    | none => x.toInt?
  | _ => none

def delTypeNames : List String := ["ArrowArray", "Bitmap"]

def PbDeletionFile.toT (d : PbDeletionFile) : T :=
  .r "DeletionFile" [fld "file_type" (enumT delTypeNames d.fileType), fld "read_version" (.ofNat d.readVersion),
    fld "id" (.ofNat d.id), fld "num_deleted_rows" (.ofNat d.numDeletedRows), fld "base_id" (natOptT d.baseId)]

def PbDeletionFile.ofT (t : T) : Option PbDeletionFile := do
  return { fileType := ← enumOfT delTypeNames (← t.field "file_type"), readVersion := ← (← t.field "read_version").nat?,
           id := ← (← t.field "id").nat?, numDeletedRows := ← (← t.field "num_deleted_rows").nat?,
           baseId := ← natOpt? (← t.field "base_id") }

def SeqMeta.toT (inl ext : String) : SeqMeta → T
  | .inline d => .u inl [.ofNats d]
  | .external f => .u ext [f.toT]

def SeqMeta.ofT (inl ext : String) : T → Option SeqMeta
  | .u n [x] =>
    if n = inl then (x.nats?).map SeqMeta.inline
    else if n = ext then (ExternalFile.ofT x).map SeqMeta.external
    else none
  | _ => none

def Fragment.toT (f : Fragment) : T :=
  .r "Fragment" [fld "id" (.ofNat f.id), fld "files" (.l (f.files.map DataFile.toT)),
    fld "deletion_file" (T.ofOpt DeletionFile.toT f.deletionFile),
    fld "row_id_meta" (T.ofOpt (SeqMeta.toT "Inline" "External") f.rowIdMeta),
    fld "physical_rows" (natOptT f.physicalRows),
    fld "last_updated_at_version_meta" (T.ofOpt (SeqMeta.toT "Inline" "External") f.lastUpdatedAtVersionMeta),
    fld "created_at_version_meta" (T.ofOpt (SeqMeta.toT "Inline" "External") f.createdAtVersionMeta)]

def Fragment.ofT (t : T) : Option Fragment := do
  return { id := ← (← t.field "id").nat?, files := ← (← t.field "files").list? DataFile.ofT,
           deletionFile := ← (← t.field "deletion_file").opt? DeletionFile.ofT,
           rowIdMeta := ← (← t.field "row_id_meta").opt? (SeqMeta.ofT "Inline" "External"),
           physicalRows := ← natOpt? (← t.field "physical_rows"),
           lastUpdatedAtVersionMeta := ← (← t.field "last_updated_at_version_meta").opt? (SeqMeta.ofT "Inline" "External"),
           createdAtVersionMeta := ← (← t.field "created_at_version_meta").opt? (SeqMeta.ofT "Inline" "External") }

def PbDataFragment.toT (f : PbDataFragment) : T :=
  .r "DataFragment" [fld "id" (.ofNat f.id), fld "files" (.l (f.files.map PbDataFile.toT)),
    fld "deletion_file" (T.ofOpt PbDeletionFile.toT f.deletionFile),
    fld "physical_rows" (.ofNat f.physicalRows),
    fld "row_id_sequence" (T.ofOpt (SeqMeta.toT "InlineRowIds" "ExternalRowIds") f.rowIdSequence),
    fld "last_updated_at_version_sequence"
      (T.ofOpt (SeqMeta.toT "InlineLastUpdatedAtVersions" "ExternalLastUpdatedAtVersions") f.lastUpdatedAtVersionSequence),
    fld "created_at_version_sequence"
      (T.ofOpt (SeqMeta.toT "InlineCreatedAtVersions" "ExternalCreatedAtVersions") f.createdAtVersionSequence)]

def PbDataFragment.ofT (t : T) : Option PbDataFragment := do
  return { id := ← (← t.field "id").nat?, files := ← (← t.field "files").list? PbDataFile.ofT,
           deletionFile := ← (← t.field "deletion_file").opt? PbDeletionFile.ofT,
           physicalRows := ← (← t.field "physical_rows").nat?,
           rowIdSequence := ← (← t.field "row_id_sequence").opt? (SeqMeta.ofT "InlineRowIds" "ExternalRowIds"),
           lastUpdatedAtVersionSequence := ← (← t.field "last_updated_at_version_sequence").opt?
             (SeqMeta.ofT "InlineLastUpdatedAtVersions" "ExternalLastUpdatedAtVersions"),
           createdAtVersionSequence := ← (← t.field "created_at_version_sequence").opt?
             (SeqMeta.ofT "InlineCreatedAtVersions" "ExternalCreatedAtVersions") }

/-! schema -/

def Encoding.name : Encoding → String
  | .plain => "Plain" | .varBinary => "VarBinary" | .dictionary => "Dictionary" | .rle => "RLE"

def Encoding.ofT : T → Option Encoding
  | .a "Plain" => some .plain | .a "VarBinary" => some .varBinary | .a "Dictionary" => some .dictionary
  | .a "RLE" => some .rle | _ => none

mutual
def Field.toT : Field → T
  | .mk i cs =>
    .r "Field" [fld "name" (.s i.name), fld "id" (.ofInt i.id), fld "parent_id" (.ofInt i.parentId),
      fld "logical_type" (.u "LogicalType" [.s i.logicalType]), fld "metadata" (T.ofStrMap i.metadata),
      fld "encoding" (T.ofOpt (fun e => .a (Encoding.name e)) i.encoding), fld "nullable" (.ofBool i.nullable),
      fld "children" (.l (Field.toTList cs)),
      fld "dictionary" (T.ofOpt (fun (d : Nat × Nat) =>
        .r "Dictionary" [fld "offset" (.ofNat d.1), fld "length" (.ofNat d.2), fld "values" (.a "None")]) i.dictionary),
      fld "unenforced_primary_key" (.ofBool i.unenforcedPrimaryKey)]
def Field.toTList : List Field → List T
  | [] => []
  | f :: fs => f.toT :: Field.toTList fs
end

def dictOfT (t : T) : Option (Nat × Nat) := do
  return (← (← t.field "offset").nat?, ← (← t.field "length").nat?)

mutual
def Field.ofT : Nat → T → Option Field
  | 0, _ => none
  | fuel + 1, t => do
    let lt ← match ← t.field "logical_type" with
      | .u "LogicalType" [x] => x.str?
      | _ => none
    let cs ← match ← t.field "children" with
      | .l xs => Field.ofTList fuel xs
      | _ => none
    return .mk { name := ← (← t.field "name").str?, id := ← (← t.field "id").int?,
                 parentId := ← (← t.field "parent_id").int?, logicalType := lt,
                 metadata := ← strMap? (← t.field "metadata"),
                 encoding := ← (← t.field "encoding").opt? Encoding.ofT,
                 nullable := ← (← t.field "nullable").bool?,
                 dictionary := ← (← t.field "dictionary").opt? dictOfT,
                 unenforcedPrimaryKey := ← (← t.field "unenforced_primary_key").bool? } cs
def Field.ofTList : Nat → List T → Option (List Field)
  | 0, _ => none
  | _ + 1, [] => some []
  | fuel + 1, x :: xs =>
    match Field.ofT fuel x, Field.ofTList fuel xs with
    | some f, some fs => some (f :: fs)
    | _, _ => none
end

def Schema.toT (s : Schema) : T :=
  .r "Schema" [fld "fields" (.l (Field.toTList s.fields)), fld "metadata" (T.ofStrMap s.metadata)]

def Schema.ofT (t : T) : Option Schema := do
  let fs ← match ← t.field "fields" with
    | .l xs => Field.ofTList 64 xs
    | _ => none
  return { fields := fs, metadata := ← strMap? (← t.field "metadata") }

def encNames : List String := ["None", "Plain", "VarBinary", "Dictionary", "Rle"]

def PbField.toT (p : PbField) : T :=
  .r "Field" [fld "r#type" (enumT ["Parent", "Repeated", "Leaf"] p.type), fld "name" (.s p.name), fld "id" (.ofInt p.id),
    fld "parent_id" (.ofInt p.parentId), fld "logical_type" (.s p.logicalType), fld "nullable" (.ofBool p.nullable),
    fld "metadata" (T.ofMap T.s utf8T p.metadata), fld "unenforced_primary_key" (.ofBool p.unenforcedPrimaryKey),
    fld "encoding" (enumT encNames p.encoding),
    fld "dictionary" (T.ofOpt (fun (d : Int × Int) =>
      .r "Dictionary" [fld "offset" (.ofInt d.1), fld "length" (.ofInt d.2)]) p.dictionary),
    fld "extension_name" (.s p.extensionName)]

def PbField.ofT (t : T) : Option PbField := do
  return { type := ← enumOfT ["Parent", "Repeated", "Leaf"] (← t.field "r#type"), name := ← (← t.field "name").str?,
           id := ← (← t.field "id").int?, parentId := ← (← t.field "parent_id").int?,
           logicalType := ← (← t.field "logical_type").str?, nullable := ← (← t.field "nullable").bool?,
           metadata := ← (← t.field "metadata").map? T.str? utf8OfT,
           unenforcedPrimaryKey := ← (← t.field "unenforced_primary_key").bool?,
           encoding := ← enumOfT encNames (← t.field "encoding"),
           dictionary := ← (← t.field "dictionary").opt? (fun d => do
             return (← (← d.field "offset").int?, ← (← d.field "length").int?)),
           extensionName := ← (← t.field "extension_name").str? }

/-! manifest -/

def BasePath.toT (b : BasePath) : T :=
  .r "BasePath" [fld "id" (.ofNat b.id), fld "name" (strOptT b.name), fld "is_dataset_root" (.ofBool b.isDatasetRoot),
    fld "path" (.s b.path)]

def BasePath.ofT (t : T) : Option BasePath := do
  return { id := ← (← t.field "id").nat?, name := ← strOpt? (← t.field "name"),
           isDatasetRoot := ← (← t.field "is_dataset_root").bool?, path := ← (← t.field "path").str? }

def WriterVersion.toT (w : WriterVersion) : T :=
  .r "WriterVersion" [fld "library" (.s w.library), fld "version" (.s w.version), fld "prerelease" (strOptT w.prerelease),
    fld "build_metadata" (strOptT w.buildMetadata)]

def WriterVersion.ofT (t : T) : Option WriterVersion := do
  return { library := ← (← t.field "library").str?, version := ← (← t.field "version").str?,
           prerelease := ← strOpt? (← t.field "prerelease"), buildMetadata := ← strOpt? (← t.field "build_metadata") }

def DataStorageFormat.toT (d : DataStorageFormat) : T :=
  .r "DataStorageFormat" [fld "file_format" (.s d.fileFormat), fld "version" (.s d.version)]

def DataStorageFormat.ofT (t : T) : Option DataStorageFormat := do
  return { fileFormat := ← (← t.field "file_format").str?, version := ← (← t.field "version").str? }

def Manifest.toT (m : Manifest) : T :=
  .r "Manifest" [fld "schema" m.schema.toT, fld "version" (.ofNat m.version), fld "branch" (strOptT m.branch),
    fld "writer_version" (T.ofOpt WriterVersion.toT m.writerVersion), fld "fragments" (.l (m.fragments.map Fragment.toT)),
    fld "version_aux_data" (.ofNat m.versionAuxData), fld "index_section" (natOptT m.indexSection),
    fld "timestamp_nanos" (.ofNat m.timestampNanos), fld "tag" (strOptT m.tag),
    fld "reader_feature_flags" (.ofNat m.readerFeatureFlags), fld "writer_feature_flags" (.ofNat m.writerFeatureFlags),
    fld "max_fragment_id" (natOptT m.maxFragmentId), fld "transaction_file" (strOptT m.transactionFile),
    fld "transaction_section" (natOptT m.transactionSection), fld "fragment_offsets" (.ofNats m.fragmentOffsets),
    fld "next_row_id" (.ofNat m.nextRowId), fld "data_storage_format" m.dataStorageFormat.toT,
    fld "config" (T.ofStrMap m.config), fld "table_metadata" (T.ofStrMap m.tableMetadata),
    fld "base_paths" (T.ofMap T.ofNat BasePath.toT m.basePaths)]

def Manifest.ofT (t : T) : Option Manifest := do
  return { schema := ← Schema.ofT (← t.field "schema"), version := ← (← t.field "version").nat?,
           branch := ← strOpt? (← t.field "branch"),
           writerVersion := ← (← t.field "writer_version").opt? WriterVersion.ofT,
           fragments := ← (← t.field "fragments").list? Fragment.ofT,
           versionAuxData := ← (← t.field "version_aux_data").nat?,
           indexSection := ← natOpt? (← t.field "index_section"),
           timestampNanos := ← (← t.field "timestamp_nanos").nat?, tag := ← strOpt? (← t.field "tag"),
           readerFeatureFlags := ← (← t.field "reader_feature_flags").nat?,
           writerFeatureFlags := ← (← t.field "writer_feature_flags").nat?,
           maxFragmentId := ← natOpt? (← t.field "max_fragment_id"),
           transactionFile := ← strOpt? (← t.field "transaction_file"),
           transactionSection := ← natOpt? (← t.field "transaction_section"),
           fragmentOffsets := ← (← t.field "fragment_offsets").nats?,
           nextRowId := ← (← t.field "next_row_id").nat?,
           dataStorageFormat := ← DataStorageFormat.ofT (← t.field "data_storage_format"),
           config := ← strMap? (← t.field "config"), tableMetadata := ← strMap? (← t.field "table_metadata"),
           basePaths := ← (← t.field "base_paths").map? T.nat? BasePath.ofT }

def PbManifest.toT (m : PbManifest) : T :=
  .r "Manifest" [fld "fields" (.l (m.fields.map PbField.toT)), fld "schema_metadata" (T.ofMap T.s utf8T m.schemaMetadata),
    fld "fragments" (.l (m.fragments.map PbDataFragment.toT)), fld "version" (.ofNat m.version),
    fld "version_aux_data" (.ofNat m.versionAuxData), fld "writer_version" (T.ofOpt WriterVersion.toT m.writerVersion),
    fld "index_section" (natOptT m.indexSection),
    fld "timestamp" (T.ofOpt (fun (ts : Int × Int) =>
      .r "Timestamp" [fld "seconds" (.ofInt ts.1), fld "nanos" (.ofInt ts.2)]) m.timestamp),
    fld "tag" (.s m.tag), fld "reader_feature_flags" (.ofNat m.readerFeatureFlags),
    fld "writer_feature_flags" (.ofNat m.writerFeatureFlags), fld "max_fragment_id" (natOptT m.maxFragmentId),
    fld "transaction_file" (.s m.transactionFile), fld "transaction_section" (natOptT m.transactionSection),
    fld "next_row_id" (.ofNat m.nextRowId), fld "data_format" (T.ofOpt DataStorageFormat.toT m.dataFormat),
    fld "config" (T.ofStrMap m.config), fld "table_metadata" (T.ofStrMap m.tableMetadata),
    fld "base_paths" (.l ((m.basePaths.map (fun b => (toString b.id, BasePath.toT b))).foldr (insertBy (·.1)) [] |>.map (·.2))),
    fld "branch" (strOptT m.branch)]

def PbManifest.ofT (t : T) : Option PbManifest := do
  return { fields := ← (← t.field "fields").list? PbField.ofT,
           schemaMetadata := ← (← t.field "schema_metadata").map? T.str? utf8OfT,
           fragments := ← (← t.field "fragments").list? PbDataFragment.ofT,
           version := ← (← t.field "version").nat?, versionAuxData := ← (← t.field "version_aux_data").nat?,
           writerVersion := ← (← t.field "writer_version").opt? WriterVersion.ofT,
           indexSection := ← natOpt? (← t.field "index_section"),
           timestamp := ← (← t.field "timestamp").opt? (fun ts => do
             return (← (← ts.field "seconds").int?, ← (← ts.field "nanos").int?)),
           tag := ← (← t.field "tag").str?,
           readerFeatureFlags := ← (← t.field "reader_feature_flags").nat?,
           writerFeatureFlags := ← (← t.field "writer_feature_flags").nat?,
           maxFragmentId := ← natOpt? (← t.field "max_fragment_id"),
           transactionFile := ← (← t.field "transaction_file").str?,
           transactionSection := ← natOpt? (← t.field "transaction_section"),
           nextRowId := ← (← t.field "next_row_id").nat?,
           dataFormat := ← (← t.field "data_format").opt? DataStorageFormat.ofT,
           config := ← strMap? (← t.field "config"), tableMetadata := ← strMap? (← t.field "table_metadata"),
           basePaths := ← (← t.field "base_paths").list? BasePath.ofT, branch := ← strOpt? (← t.field "branch") }

/-! index metadata -/

def AnyMsg.toT (a : AnyMsg) : T := .r "Any" [fld "type_url" (.s a.typeUrl), fld "value" (.ofNats a.value)]

def AnyMsg.ofT (t : T) : Option AnyMsg := do
  return { typeUrl := ← (← t.field "type_url").str?, value := ← (← t.field "value").nats? }

def listMinMax : List Nat → Nat × Nat
  | [] => (0, 0)
  | x :: xs => (xs.foldl min x, xs.foldl max x)

/-- roaring's `Debug`, as normalised by the harness: members below 16 values, `(len, min, max)` otherwise -/
def bitmapT (l : List Nat) : T :=
  if l.length < 16 then .u "Bm" [.ofNats l]
  else .u "Bm" [.ofNat l.length, .ofNat (listMinMax l).1, .ofNat (listMinMax l).2]

def bitmapOfT : T → Option (List Nat)
  | .u "Bm" [x] => x.nats?
  | _ => none

def IndexMetadata.toT (i : IndexMetadata) : T :=
  .r "IndexMetadata" [fld "uuid" (uuidT i.uuid), fld "fields" (.ofInts i.fields), fld "name" (.s i.name),
    fld "dataset_version" (.ofNat i.datasetVersion), fld "fragment_bitmap" (T.ofOpt bitmapT i.fragmentBitmap),
    fld "index_details" (T.ofOpt AnyMsg.toT i.indexDetails), fld "index_version" (.ofInt i.indexVersion),
    fld "created_at" (T.ofOpt (fun n => .u "At" [.ofInt n]) i.createdAt), fld "base_id" (natOptT i.baseId)]

def IndexMetadata.ofT (t : T) : Option IndexMetadata := do
  return { uuid := ← uuidOfT (← t.field "uuid"), fields := ← (← t.field "fields").ints?, name := ← (← t.field "name").str?,
           datasetVersion := ← (← t.field "dataset_version").nat?,
           fragmentBitmap := ← (← t.field "fragment_bitmap").opt? bitmapOfT,
           indexDetails := ← (← t.field "index_details").opt? AnyMsg.ofT,
           indexVersion := ← (← t.field "index_version").int?,
           createdAt := ← (← t.field "created_at").opt? (fun x => match x with | .u "At" [n] => n.int? | _ => none),
           baseId := ← natOpt? (← t.field "base_id") }

def pbUuidT (o : Option Bytes) : T := T.ofOpt (fun b => .r "Uuid" [fld "uuid" (.ofNats b)]) o
def pbUuidOfT (t : T) : Option (Option Bytes) := t.opt? (fun u => do (← u.field "uuid").nats?)

/-- the harness prints the `fragment_bitmap` bytes as `[]` when empty, `Bm([..])` when they deserialise, `Garbage` otherwise -/
def BmBytes.toT : BmBytes → T
  | .empty => .l []
  | .ser l => .u "Bm" [.ofNats l]
  | .garbage => .a "Garbage"

def BmBytes.ofT : T → Option BmBytes
  | .l [] => some .empty
  | .u "Bm" [x] => (x.nats?).map BmBytes.ser
  | .a "Garbage" => some .garbage
  | _ => none

def PbIndexMetadata.toT (i : PbIndexMetadata) : T :=
  .r "IndexMetadata" [fld "uuid" (pbUuidT i.uuid), fld "fields" (.ofInts i.fields), fld "name" (.s i.name),
    fld "dataset_version" (.ofNat i.datasetVersion), fld "fragment_bitmap" i.fragmentBitmap.toT,
    fld "index_details" (T.ofOpt AnyMsg.toT i.indexDetails), fld "index_version" (T.ofOpt T.ofInt i.indexVersion),
    fld "created_at" (natOptT i.createdAt), fld "base_id" (natOptT i.baseId)]

def PbIndexMetadata.ofT (t : T) : Option PbIndexMetadata := do
  return { uuid := ← pbUuidOfT (← t.field "uuid"), fields := ← (← t.field "fields").ints?, name := ← (← t.field "name").str?,
           datasetVersion := ← (← t.field "dataset_version").nat?,
           fragmentBitmap := ← BmBytes.ofT (← t.field "fragment_bitmap"),
           indexDetails := ← (← t.field "index_details").opt? AnyMsg.ofT,
           indexVersion := ← (← t.field "index_version").opt? T.int?,
           createdAt := ← natOpt? (← t.field "created_at"), baseId := ← natOpt? (← t.field "base_id") }

/-! mem wal -/

def walStateNames : List String := ["Open", "Sealed", "Flushed", "Merged"]

def MemWal.toT (m : MemWal) : T :=
  .r "MemWal" [fld "id" (.r "MemWalId" [fld "region" (.s m.region), fld "generation" (.ofNat m.generation)]),
    fld "mem_table_location" (.s m.memTableLocation), fld "wal_location" (.s m.walLocation),
    fld "wal_entries" (.ofNats m.walEntries),
    fld "state" (.a (match m.state with | .open => "Open" | .sealed => "Sealed" | .flushed => "Flushed" | .merged => "Merged")),
    fld "owner_id" (.s m.ownerId), fld "last_updated_dataset_version" (.ofNat m.lastUpdatedDatasetVersion)]

def MemWal.ofT (t : T) : Option MemWal := do
  let id ← t.field "id"
  let st ← match ← t.field "state" with
    | .a "Open" => some WalState.open | .a "Sealed" => some .sealed | .a "Flushed" => some .flushed
    | .a "Merged" => some .merged | _ => none
  return { region := ← (← id.field "region").str?, generation := ← (← id.field "generation").nat?,
           memTableLocation := ← (← t.field "mem_table_location").str?, walLocation := ← (← t.field "wal_location").str?,
           walEntries := ← (← t.field "wal_entries").nats?, state := st, ownerId := ← (← t.field "owner_id").str?,
           lastUpdatedDatasetVersion := ← (← t.field "last_updated_dataset_version").nat? }

def PbMemWal.toT (m : PbMemWal) : T :=
  .r "MemWal" [fld "id" (T.ofOpt (fun (i : String × Nat) =>
      .r "MemWalId" [fld "region" (.s i.1), fld "generation" (.ofNat i.2)]) m.id),
    fld "mem_table_location" (.s m.memTableLocation), fld "wal_location" (.s m.walLocation),
    fld "wal_entries" (.ofNats m.walEntries), fld "state" (enumT walStateNames m.state),
    fld "owner_id" (.s m.ownerId), fld "last_updated_dataset_version" (.ofNat m.lastUpdatedDatasetVersion)]

def PbMemWal.ofT (t : T) : Option PbMemWal := do
  return { id := ← (← t.field "id").opt? (fun i => do return (← (← i.field "region").str?, ← (← i.field "generation").nat?)),
           memTableLocation := ← (← t.field "mem_table_location").str?, walLocation := ← (← t.field "wal_location").str?,
           walEntries := ← (← t.field "wal_entries").nats?, state := ← enumOfT walStateNames (← t.field "state"),
           ownerId := ← (← t.field "owner_id").str?,
           lastUpdatedDatasetVersion := ← (← t.field "last_updated_dataset_version").nat? }

/-! transaction -/

def UpdateMap.toT (u : UpdateMap) : T :=
  .r "UpdateMap" [fld "update_entries" (.l (u.updateEntries.map (fun e =>
      .r "UpdateMapEntry" [fld "key" (.s e.1), fld "value" (strOptT e.2)]))), fld "replace" (.ofBool u.replace)]

def UpdateMap.ofT (t : T) : Option UpdateMap := do
  return { updateEntries := ← (← t.field "update_entries").list? (fun e => do
             return (← (← e.field "key").str?, ← strOpt? (← e.field "value"))),
           replace := ← (← t.field "replace").bool? }

def RewrittenIndex.toT (r : RewrittenIndex) : T :=
  .r "RewrittenIndex" [fld "old_id" (uuidT r.oldId), fld "new_id" (uuidT r.newId),
    fld "new_index_details" r.newIndexDetails.toT, fld "new_index_version" (.ofNat r.newIndexVersion)]

def RewrittenIndex.ofT (t : T) : Option RewrittenIndex := do
  return { oldId := ← uuidOfT (← t.field "old_id"), newId := ← uuidOfT (← t.field "new_id"),
           newIndexDetails := ← AnyMsg.ofT (← t.field "new_index_details"),
           newIndexVersion := ← (← t.field "new_index_version").nat? }

def PbRewrittenIndex.toT (r : PbRewrittenIndex) : T :=
  .r "RewrittenIndex" [fld "old_id" (pbUuidT r.oldId), fld "new_id" (pbUuidT r.newId),
    fld "new_index_details" (T.ofOpt AnyMsg.toT r.newIndexDetails), fld "new_index_version" (.ofNat r.newIndexVersion)]

def PbRewrittenIndex.ofT (t : T) : Option PbRewrittenIndex := do
  return { oldId := ← pbUuidOfT (← t.field "old_id"), newId := ← pbUuidOfT (← t.field "new_id"),
           newIndexDetails := ← (← t.field "new_index_details").opt? AnyMsg.ofT,
           newIndexVersion := ← (← t.field "new_index_version").nat? }

def RewriteGroup.toT (g : RewriteGroup) : T :=
  .r "RewriteGroup" [fld "old_fragments" (.l (g.oldFragments.map Fragment.toT)),
    fld "new_fragments" (.l (g.newFragments.map Fragment.toT))]

def RewriteGroup.ofT (t : T) : Option RewriteGroup := do
  return { oldFragments := ← (← t.field "old_fragments").list? Fragment.ofT,
           newFragments := ← (← t.field "new_fragments").list? Fragment.ofT }

def PbRewriteGroup.toT (g : PbRewriteGroup) : T :=
  .r "RewriteGroup" [fld "old_fragments" (.l (g.oldFragments.map PbDataFragment.toT)),
    fld "new_fragments" (.l (g.newFragments.map PbDataFragment.toT))]

def PbRewriteGroup.ofT (t : T) : Option PbRewriteGroup := do
  return { oldFragments := ← (← t.field "old_fragments").list? PbDataFragment.ofT,
           newFragments := ← (← t.field "new_fragments").list? PbDataFragment.ofT }

def frags (l : List Fragment) : T := .l (l.map Fragment.toT)
def pbFrags (l : List PbDataFragment) : T := .l (l.map PbDataFragment.toT)
def frags? (t : T) : Option (List Fragment) := t.list? Fragment.ofT
def pbFrags? (t : T) : Option (List PbDataFragment) := t.list? PbDataFragment.ofT

def Operation.toT : Operation → T
  | .append fs => .r "Append" [fld "fragments" (frags fs)]
  | .delete u d p => .r "Delete" [fld "updated_fragments" (frags u), fld "deleted_fragment_ids" (.ofNats d),
      fld "predicate" (.s p)]
  | .overwrite fs s cfg bases => .r "Overwrite" [fld "fragments" (frags fs), fld "schema" s.toT,
      fld "config_upsert_values" (T.ofOpt T.ofStrMap cfg),
      fld "initial_bases" (T.ofOpt (fun bs => .l (bs.map BasePath.toT)) bases)]
  | .createIndex n r => .r "CreateIndex" [fld "new_indices" (.l (n.map IndexMetadata.toT)),
      fld "removed_indices" (.l (r.map IndexMetadata.toT))]
  | .rewrite gs ris fri => .r "Rewrite" [fld "groups" (.l (gs.map RewriteGroup.toT)),
      fld "rewritten_indices" (.l (ris.map RewrittenIndex.toT)), fld "frag_reuse_index" (T.ofOpt IndexMetadata.toT fri)]
  | .dataReplacement rs => .r "DataReplacement" [fld "replacements" (.l (rs.map (fun g =>
      .u "DataReplacementGroup" [.ofNat g.fragmentId, g.newFile.toT])))]
  | .merge fs s => .r "Merge" [fld "fragments" (frags fs), fld "schema" s.toT]
  | .restore v => .r "Restore" [fld "version" (.ofNat v)]
  | .reserveFragments n => .r "ReserveFragments" [fld "num_fragments" (.ofNat n)]
  | .update r u n fm mw fp um => .r "Update" [fld "removed_fragment_ids" (.ofNats r), fld "updated_fragments" (frags u),
      fld "new_fragments" (frags n), fld "fields_modified" (.ofNats fm), fld "mem_wal_to_merge" (T.ofOpt MemWal.toT mw),
      fld "fields_for_preserving_frag_bitmap" (.ofNats fp),
      fld "update_mode" (T.ofOpt (fun m => .a (match m with | .rewriteRows => "RewriteRows" | .rewriteColumns => "RewriteColumns")) um)]
  | .project s => .r "Project" [fld "schema" s.toT]
  | .updateConfig c t s f => .r "UpdateConfig" [fld "config_updates" (T.ofOpt UpdateMap.toT c),
      fld "table_metadata_updates" (T.ofOpt UpdateMap.toT t), fld "schema_metadata_updates" (T.ofOpt UpdateMap.toT s),
      fld "field_metadata_updates" (T.ofMap T.ofInt UpdateMap.toT f)]
  | .updateMemWalState a u r => .r "UpdateMemWalState" [fld "added" (.l (a.map MemWal.toT)),
      fld "updated" (.l (u.map MemWal.toT)), fld "removed" (.l (r.map MemWal.toT))]
  | .clone a b c d e => .r "Clone" [fld "is_shallow" (.ofBool a), fld "ref_name" (strOptT b), fld "ref_version" (.ofNat c),
      fld "ref_path" (.s d), fld "branch_name" (strOptT e)]
  | .updateBases bs => .r "UpdateBases" [fld "new_bases" (.l (bs.map BasePath.toT))]

def updateMode? : T → Option UpdateMode
  | .a "RewriteRows" => some .rewriteRows
  | .a "RewriteColumns" => some .rewriteColumns
  | _ => none

def Operation.ofT (t : T) : Option Operation :=
  match t with
  | .r "Append" _ => do return .append (← frags? (← t.field "fragments"))
  | .r "Delete" _ => do
    return .delete (← frags? (← t.field "updated_fragments")) (← (← t.field "deleted_fragment_ids").nats?)
      (← (← t.field "predicate").str?)
  | .r "Overwrite" _ => do
    return .overwrite (← frags? (← t.field "fragments")) (← Schema.ofT (← t.field "schema"))
      (← (← t.field "config_upsert_values").opt? strMap?) (← (← t.field "initial_bases").opt? (·.list? BasePath.ofT))
  | .r "CreateIndex" _ => do
    return .createIndex (← (← t.field "new_indices").list? IndexMetadata.ofT)
      (← (← t.field "removed_indices").list? IndexMetadata.ofT)
  | .r "Rewrite" _ => do
    return .rewrite (← (← t.field "groups").list? RewriteGroup.ofT) (← (← t.field "rewritten_indices").list? RewrittenIndex.ofT)
      (← (← t.field "frag_reuse_index").opt? IndexMetadata.ofT)
  | .r "DataReplacement" _ => do
    return .dataReplacement (← (← t.field "replacements").list? (fun g => match g with
      | .u "DataReplacementGroup" [i, d] => do return { fragmentId := ← i.nat?, newFile := ← DataFile.ofT d }
      | _ => none))
  | .r "Merge" _ => do return .merge (← frags? (← t.field "fragments")) (← Schema.ofT (← t.field "schema"))
  | .r "Restore" _ => do return .restore (← (← t.field "version").nat?)
  | .r "ReserveFragments" _ => do return .reserveFragments (← (← t.field "num_fragments").nat?)
  | .r "Update" _ => do
    return .update (← (← t.field "removed_fragment_ids").nats?) (← frags? (← t.field "updated_fragments"))
      (← frags? (← t.field "new_fragments")) (← (← t.field "fields_modified").nats?)
      (← (← t.field "mem_wal_to_merge").opt? MemWal.ofT) (← (← t.field "fields_for_preserving_frag_bitmap").nats?)
      (← (← t.field "update_mode").opt? updateMode?)
  | .r "Project" _ => do return .project (← Schema.ofT (← t.field "schema"))
  | .r "UpdateConfig" _ => do
    return .updateConfig (← (← t.field "config_updates").opt? UpdateMap.ofT)
      (← (← t.field "table_metadata_updates").opt? UpdateMap.ofT) (← (← t.field "schema_metadata_updates").opt? UpdateMap.ofT)
      (← (← t.field "field_metadata_updates").map? T.int? UpdateMap.ofT)
  | .r "UpdateMemWalState" _ => do
    return .updateMemWalState (← (← t.field "added").list? MemWal.ofT) (← (← t.field "updated").list? MemWal.ofT)
      (← (← t.field "removed").list? MemWal.ofT)
  | .r "Clone" _ => do
    return .clone (← (← t.field "is_shallow").bool?) (← strOpt? (← t.field "ref_name")) (← (← t.field "ref_version").nat?)
      (← (← t.field "ref_path").str?) (← strOpt? (← t.field "branch_name"))
  | .r "UpdateBases" _ => do return .updateBases (← (← t.field "new_bases").list? BasePath.ofT)
  | _ => none

def Transaction.toT (t : Transaction) : T :=
  .r "Transaction" [fld "read_version" (.ofNat t.readVersion), fld "uuid" (.s t.uuid), fld "operation" t.operation.toT,
    fld "tag" (strOptT t.tag), fld "transaction_properties" (T.ofOpt T.ofStrMap t.transactionProperties)]

def Transaction.ofT (t : T) : Option Transaction := do
  return { readVersion := ← (← t.field "read_version").nat?, uuid := ← (← t.field "uuid").str?,
           operation := ← Operation.ofT (← t.field "operation"), tag := ← strOpt? (← t.field "tag"),
           transactionProperties := ← (← t.field "transaction_properties").opt? strMap? }

def pbFields (l : List PbField) : T := .l (l.map PbField.toT)
def pbMetaMap (m : Map String String) : T := T.ofMap T.s utf8T m

def PbUpdateConfig.toT (c : PbUpdateConfig) : T :=
  .r "UpdateConfig" [fld "config_updates" (T.ofOpt UpdateMap.toT c.configUpdates),
    fld "table_metadata_updates" (T.ofOpt UpdateMap.toT c.tableMetadataUpdates),
    fld "schema_metadata_updates" (T.ofOpt UpdateMap.toT c.schemaMetadataUpdates),
    fld "field_metadata_updates" (T.ofMap T.ofInt UpdateMap.toT c.fieldMetadataUpdates),
    fld "upsert_values" (T.ofStrMap c.upsertValues), fld "delete_keys" (.l (c.deleteKeys.map T.s)),
    fld "schema_metadata" (T.ofStrMap c.schemaMetadata),
    fld "field_metadata" (T.ofMap T.ofNat (fun m => .r "FieldMetadataUpdate" [fld "metadata" (T.ofStrMap m)]) c.fieldMetadata)]

def PbUpdateConfig.ofT (t : T) : Option PbUpdateConfig := do
  return { upsertValues := ← strMap? (← t.field "upsert_values"), deleteKeys := ← (← t.field "delete_keys").list? T.str?,
           schemaMetadata := ← strMap? (← t.field "schema_metadata"),
           fieldMetadata := ← (← t.field "field_metadata").map? T.nat? (fun m => do strMap? (← m.field "metadata")),
           configUpdates := ← (← t.field "config_updates").opt? UpdateMap.ofT,
           tableMetadataUpdates := ← (← t.field "table_metadata_updates").opt? UpdateMap.ofT,
           schemaMetadataUpdates := ← (← t.field "schema_metadata_updates").opt? UpdateMap.ofT,
           fieldMetadataUpdates := ← (← t.field "field_metadata_updates").map? T.int? UpdateMap.ofT }

def updateModeNames : List String := ["RewriteRows", "RewriteColumns"]

/-- a `oneof` value prints as `Variant(Message{..})` -/
def PbOperation.toT : PbOperation → T
  | .append fs => .u "Append" [.r "Append" [fld "fragments" (pbFrags fs)]]
  | .delete u d p => .u "Delete" [.r "Delete" [fld "updated_fragments" (pbFrags u), fld "deleted_fragment_ids" (.ofNats d),
      fld "predicate" (.s p)]]
  | .overwrite fs s md cfg bases => .u "Overwrite" [.r "Overwrite" [fld "fragments" (pbFrags fs), fld "schema" (pbFields s),
      fld "schema_metadata" (pbMetaMap md), fld "config_upsert_values" (T.ofStrMap cfg),
      fld "initial_bases" (.l (bases.map BasePath.toT))]]
  | .createIndex n r => .u "CreateIndex" [.r "CreateIndex" [fld "new_indices" (.l (n.map PbIndexMetadata.toT)),
      fld "removed_indices" (.l (r.map PbIndexMetadata.toT))]]
  | .rewrite o n gs ris => .u "Rewrite" [.r "Rewrite" [fld "old_fragments" (pbFrags o), fld "new_fragments" (pbFrags n),
      fld "groups" (.l (gs.map PbRewriteGroup.toT)), fld "rewritten_indices" (.l (ris.map PbRewrittenIndex.toT))]]
  | .merge fs s md => .u "Merge" [.r "Merge" [fld "fragments" (pbFrags fs), fld "schema" (pbFields s),
      fld "schema_metadata" (pbMetaMap md)]]
  | .restore v => .u "Restore" [.r "Restore" [fld "version" (.ofNat v)]]
  | .reserveFragments n => .u "ReserveFragments" [.r "ReserveFragments" [fld "num_fragments" (.ofNat n)]]
  | .update r u n fm mw fp um => .u "Update" [.r "Update" [fld "removed_fragment_ids" (.ofNats r),
      fld "updated_fragments" (pbFrags u), fld "new_fragments" (pbFrags n), fld "fields_modified" (.ofNats fm),
      fld "mem_wal_to_merge" (T.ofOpt PbMemWal.toT mw), fld "fields_for_preserving_frag_bitmap" (.ofNats fp),
      fld "update_mode" (enumT updateModeNames um)]]
  | .project s => .u "Project" [.r "Project" [fld "schema" (pbFields s)]]
  | .updateConfig c => .u "UpdateConfig" [c.toT]
  | .dataReplacement rs => .u "DataReplacement" [.r "DataReplacement" [fld "replacements" (.l (rs.map (fun g =>
      .r "DataReplacementGroup" [fld "fragment_id" (.ofNat g.fragmentId), fld "new_file" (T.ofOpt PbDataFile.toT g.newFile)])))]]
  | .updateMemWalState a u r => .u "UpdateMemWalState" [.r "UpdateMemWalState" [fld "added" (.l (a.map PbMemWal.toT)),
      fld "updated" (.l (u.map PbMemWal.toT)), fld "removed" (.l (r.map PbMemWal.toT))]]
  | .clone a b c d e => .u "Clone" [.r "Clone" [fld "is_shallow" (.ofBool a), fld "ref_name" (strOptT b),
      fld "ref_version" (.ofNat c), fld "ref_path" (.s d), fld "branch_name" (strOptT e)]]
  | .updateBases bs => .u "UpdateBases" [.r "UpdateBases" [fld "new_bases" (.l (bs.map BasePath.toT))]]

def pbFields? (t : T) : Option (List PbField) := t.list? PbField.ofT
def pbMetaMap? (t : T) : Option (Map String String) := t.map? T.str? utf8OfT

def PbOperation.ofT (t0 : T) : Option PbOperation :=
  match t0 with
  | .u "Append" [t] => do return .append (← pbFrags? (← t.field "fragments"))
  | .u "Delete" [t] => do
    return .delete (← pbFrags? (← t.field "updated_fragments")) (← (← t.field "deleted_fragment_ids").nats?)
      (← (← t.field "predicate").str?)
  | .u "Overwrite" [t] => do
    return .overwrite (← pbFrags? (← t.field "fragments")) (← pbFields? (← t.field "schema"))
      (← pbMetaMap? (← t.field "schema_metadata")) (← strMap? (← t.field "config_upsert_values"))
      (← (← t.field "initial_bases").list? BasePath.ofT)
  | .u "CreateIndex" [t] => do
    return .createIndex (← (← t.field "new_indices").list? PbIndexMetadata.ofT)
      (← (← t.field "removed_indices").list? PbIndexMetadata.ofT)
  | .u "Rewrite" [t] => do
    return .rewrite (← pbFrags? (← t.field "old_fragments")) (← pbFrags? (← t.field "new_fragments"))
      (← (← t.field "groups").list? PbRewriteGroup.ofT) (← (← t.field "rewritten_indices").list? PbRewrittenIndex.ofT)
  | .u "Merge" [t] => do
    return .merge (← pbFrags? (← t.field "fragments")) (← pbFields? (← t.field "schema"))
      (← pbMetaMap? (← t.field "schema_metadata"))
  | .u "Restore" [t] => do return .restore (← (← t.field "version").nat?)
  | .u "ReserveFragments" [t] => do return .reserveFragments (← (← t.field "num_fragments").nat?)
  | .u "Update" [t] => do
    return .update (← (← t.field "removed_fragment_ids").nats?) (← pbFrags? (← t.field "updated_fragments"))
      (← pbFrags? (← t.field "new_fragments")) (← (← t.field "fields_modified").nats?)
      (← (← t.field "mem_wal_to_merge").opt? PbMemWal.ofT) (← (← t.field "fields_for_preserving_frag_bitmap").nats?)
      (← enumOfT updateModeNames (← t.field "update_mode"))
  | .u "Project" [t] => do return .project (← pbFields? (← t.field "schema"))
  | .u "UpdateConfig" [t] => do return .updateConfig (← PbUpdateConfig.ofT t)
  | .u "DataReplacement" [t] => do
    return .dataReplacement (← (← t.field "replacements").list? (fun g => do
      return { fragmentId := ← (← g.field "fragment_id").nat?, newFile := ← (← g.field "new_file").opt? PbDataFile.ofT }))
  | .u "UpdateMemWalState" [t] => do
    return .updateMemWalState (← (← t.field "added").list? PbMemWal.ofT) (← (← t.field "updated").list? PbMemWal.ofT)
      (← (← t.field "removed").list? PbMemWal.ofT)
  | .u "Clone" [t] => do
    return .clone (← (← t.field "is_shallow").bool?) (← strOpt? (← t.field "ref_name")) (← (← t.field "ref_version").nat?)
      (← (← t.field "ref_path").str?) (← strOpt? (← t.field "branch_name"))
  | .u "UpdateBases" [t] => do return .updateBases (← (← t.field "new_bases").list? BasePath.ofT)
  | _ => none

def PbTransaction.toT (t : PbTransaction) : T :=
  .r "Transaction" [fld "read_version" (.ofNat t.readVersion), fld "uuid" (.s t.uuid), fld "tag" (.s t.tag),
    fld "transaction_properties" (T.ofStrMap t.transactionProperties), fld "operation" (T.ofOpt PbOperation.toT t.operation)]

def PbTransaction.ofT (t : T) : Option PbTransaction := do
  return { readVersion := ← (← t.field "read_version").nat?, uuid := ← (← t.field "uuid").str?, tag := ← (← t.field "tag").str?,
           transactionProperties := ← strMap? (← t.field "transaction_properties"),
           operation := ← (← t.field "operation").opt? PbOperation.ofT }

/-! row id segments -/

def EncArray.toT : EncArray → T
  | .u16 b o => .r "U16" [fld "base" (.ofNat b), fld "offsets" (.ofNats o)]
  | .u32 b o => .r "U32" [fld "base" (.ofNat b), fld "offsets" (.ofNats o)]
  | .u64 v => .u "U64" [.ofNats v]

def rangeT (s e : Nat) : T := .a (toString s ++ ".." ++ toString e)

/-- bitmap.rs `impl Debug for Bitmap` prints the first `len` bits; a bitmap whose data is too short for `len` cannot be
    printed (the harness prints `ShortBitmap` for it) -/
def bitsT (data : Bytes) (len : Nat) : T :=
  if data.length * 8 < len then .a "ShortBitmap"
  else .r "Bitmap" [fld "data" (.a (String.ofList ((List.range len).map (fun i =>
      if (data.getD (i / 8) 0 / 2 ^ (i % 8)) % 2 = 1 then '1' else '0')))), fld "len" (.ofNat len)]

def Seg.toT : Seg → T
  | .range s e => .u "Range" [rangeT s e]
  | .holes s e h => .r "RangeWithHoles" [fld "range" (rangeT s e), fld "holes" h.toT]
  | .bitmap s e d l => .r "RangeWithBitmap" [fld "range" (rangeT s e), fld "bitmap" (bitsT d l)]
  | .sorted a => .u "SortedArray" [a.toT]
  | .array a => .u "Array" [a.toT]

def PbEncArray.toT (a : PbEncArray) : T :=
  .r "EncodedU64Array" [fld "array" (T.ofOpt (fun (k : PbEncArrayKind) => match k with
    | .u16 b o => .u "U16Array" [.r "U16Array" [fld "base" (.ofNat b), fld "offsets" (.ofNats o)]]
    | .u32 b o => .u "U32Array" [.r "U32Array" [fld "base" (.ofNat b), fld "offsets" (.ofNats o)]]
    | .u64 v => .u "U64Array" [.r "U64Array" [fld "values" (.ofNats v)]]) a)]

def PbEncArray.ofT (t : T) : Option PbEncArray := do
  (← t.field "array").opt? (fun k => match k with
    | .u "U16Array" [x] => do return .u16 (← (← x.field "base").nat?) (← (← x.field "offsets").nats?)
    | .u "U32Array" [x] => do return .u32 (← (← x.field "base").nat?) (← (← x.field "offsets").nats?)
    | .u "U64Array" [x] => do return .u64 (← (← x.field "values").nats?)
    | _ => none)

def PbSeg.toT (s : PbSeg) : T :=
  .r "U64Segment" [fld "segment" (T.ofOpt (fun (k : PbSegKind) => match k with
    | .range s e => .u "Range" [.r "Range" [fld "start" (.ofNat s), fld "end" (.ofNat e)]]
    | .holes s e h => .u "RangeWithHoles" [.r "RangeWithHoles" [fld "start" (.ofNat s), fld "end" (.ofNat e),
        fld "holes" (T.ofOpt PbEncArray.toT h)]]
    | .bitmap s e d => .u "RangeWithBitmap" [.r "RangeWithBitmap" [fld "start" (.ofNat s), fld "end" (.ofNat e),
        fld "bitmap" (.ofNats d)]]
    | .sorted a => .u "SortedArray" [PbEncArray.toT a]
    | .array a => .u "Array" [PbEncArray.toT a]) s)]

def PbSeg.ofT (t : T) : Option PbSeg := do
  (← t.field "segment").opt? (fun k => match k with
    | .u "Range" [x] => do return .range (← (← x.field "start").nat?) (← (← x.field "end").nat?)
    | .u "RangeWithHoles" [x] => do
      return .holes (← (← x.field "start").nat?) (← (← x.field "end").nat?) (← (← x.field "holes").opt? PbEncArray.ofT)
    | .u "RangeWithBitmap" [x] => do
      return .bitmap (← (← x.field "start").nat?) (← (← x.field "end").nat?) (← (← x.field "bitmap").nats?)
    | .u "SortedArray" [x] => do return .sorted (← PbEncArray.ofT x)
    | .u "Array" [x] => do return .array (← PbEncArray.ofT x)
    | _ => none)

def resT {α : Type} (g : α → T) : Res α → T
  | .ok x => .u "Ok" [g x]
  | .error e => .u "Err" [.a (match e with
      | .notSupported => "NotSupported" | .invalidInput => "InvalidInput" | .internal => "Internal" | .io => "IO"
      | .panic => "Panic" | .unmodelled => "Unmodelled")]

end LanceModel.C32
