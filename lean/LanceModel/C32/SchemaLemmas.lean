import LanceModel.C32.Lemmas
/-
C32: the schema field forest.  `From<&Schema> for Fields` writes the fields depth first; `From<&Fields> for Schema`
rebuilds the forest by looking every field's parent up by id (`mut_field_by_id`, first match in pre-order) and pushing the
field as that parent's last child.  This file proves the structural condition under which the rebuild returns the
original forest: parent ids are consistent (top-level fields have `parent_id = -1`, children carry their parent's id),
all ids are different and none is -1.
-/
namespace LanceModel.C32

mutual
def Field.ids : Field → List Int
  | .mk i cs => i.id :: Field.idsList cs
def Field.idsList : List Field → List Int
  | [] => []
  | f :: fs => f.ids ++ Field.idsList fs
end

def Field.info : Field → FieldInfo
  | .mk i _ => i

def Field.kids : Field → List Field
  | .mk _ cs => cs

mutual
/-- the children of a field carry its id as `parent_id`, recursively -/
def Field.kidsOk : Field → Bool
  | .mk i cs => Field.childrenOk i.id cs
def Field.childrenOk (pid : Int) : List Field → Bool
  | [] => true
  | f :: fs => (f.info.parentId == pid) && f.kidsOk && Field.childrenOk pid fs
end

/-- structural well-formedness of a schema's field forest -/
def TreeWF (fs : List Field) : Prop :=
  Field.childrenOk (-1) fs = true ∧ Field.infosWfList fs = true ∧ (Field.idsList fs).Nodup ∧ (-1 : Int) ∉ Field.idsList fs

/-- `unflattenStep` for a whole subtree: where a field with parent id `pid` goes -/
def place (pid : Int) (x : Field) (acc : List Field) : Option (List Field) :=
  if pid = -1 then some (acc ++ [x]) else pushInList pid x acc

theorem idsList_append : ∀ (a b : List Field), Field.idsList (a ++ b) = Field.idsList a ++ Field.idsList b
  | [], b => by simp [Field.idsList]
  | f :: a, b => by simp [Field.idsList, idsList_append a b]

/-! ### the parent lookup -/

mutual
theorem pushInField_miss (pid : Int) (x : Field) : ∀ (f : Field), pid ∉ f.ids → pushInField pid x f = none
  | .mk i cs, h => by
    simp only [Field.ids, List.mem_cons, not_or] at h
    have h1 : ¬ (i.id = pid) := fun e => h.1 e.symm
    simp [pushInField, h1, pushInList_miss pid x cs h.2]
theorem pushInList_miss (pid : Int) (x : Field) : ∀ (fs : List Field), pid ∉ Field.idsList fs → pushInList pid x fs = none
  | [], _ => by simp [pushInList]
  | f :: fs, h => by
    simp only [Field.idsList, List.mem_append, not_or] at h
    simp [pushInList, pushInField_miss pid x f h.1, pushInList_miss pid x fs h.2]
end

theorem pushInList_append_miss (pid : Int) (x : Field) :
    ∀ (fs gs : List Field), pid ∉ Field.idsList fs → pushInList pid x (fs ++ gs) = (pushInList pid x gs).map (fs ++ ·)
  | [], gs, _ => by
    simp only [List.nil_append]
    cases pushInList pid x gs <;> simp
  | f :: fs, gs, h => by
    simp only [Field.idsList, List.mem_append, not_or] at h
    have ih := pushInList_append_miss pid x fs gs h.2
    simp only [List.cons_append, pushInList, pushInField_miss pid x f h.1, ih]
    cases pushInList pid x gs <;> simp

/- whether the lookup succeeds does not depend on what is pushed -/
mutual
theorem pushInField_isSome (pid : Int) (x y : Field) :
    ∀ (f : Field), (pushInField pid x f).isSome = (pushInField pid y f).isSome
  | .mk i cs => by
    by_cases h : i.id = pid
    · simp [pushInField, h]
    · have ih := pushInList_isSome pid x y cs
      simp only [pushInField, h, if_false]
      cases h1 : pushInList pid x cs <;> cases h2 : pushInList pid y cs <;> simp_all
theorem pushInList_isSome (pid : Int) (x y : Field) :
    ∀ (fs : List Field), (pushInList pid x fs).isSome = (pushInList pid y fs).isSome
  | [] => by simp [pushInList]
  | f :: fs => by
    have ih1 := pushInField_isSome pid x y f
    have ih2 := pushInList_isSome pid x y fs
    simp only [pushInList]
    cases h1 : pushInField pid x f <;> cases h2 : pushInField pid y f <;>
      cases h3 : pushInList pid x fs <;> cases h4 : pushInList pid y fs <;> simp_all
end

theorem place_isSome (pid : Int) (x y : Field) (acc : List Field) :
    (place pid x acc).isSome = (place pid y acc).isSome := by
  unfold place
  by_cases h : pid = -1
  · simp [h]
  · simp only [h, if_false]
    exact pushInList_isSome pid x y acc

/- the ids after a push -/
mutual
theorem pushInField_ids (pid : Int) (x : Field) :
    ∀ (f f' : Field), pushInField pid x f = some f' → ∀ y, y ∈ f'.ids ↔ (y ∈ f.ids ∨ y ∈ x.ids)
  | .mk i cs, f', h, y => by
    by_cases hi : i.id = pid
    · simp only [pushInField, hi, if_true, Option.some.injEq] at h
      subst h
      simp only [Field.ids, idsList_append, Field.idsList, List.append_nil, List.mem_cons, List.mem_append]
      constructor
      · rintro (h | h | h)
        · exact Or.inl (Or.inl h)
        · exact Or.inl (Or.inr h)
        · exact Or.inr h
      · rintro ((h | h) | h)
        · exact Or.inl h
        · exact Or.inr (Or.inl h)
        · exact Or.inr (Or.inr h)
    · simp only [pushInField, hi, if_false] at h
      cases hc : pushInList pid x cs with
      | none => rw [hc] at h; simp at h
      | some cs' =>
        rw [hc] at h
        simp only [Option.some.injEq] at h
        subst h
        have ih := pushInList_ids pid x cs cs' hc y
        simp only [Field.ids, List.mem_cons, ih]
        constructor
        · rintro (h | h | h)
          · exact Or.inl (Or.inl h)
          · exact Or.inl (Or.inr h)
          · exact Or.inr h
        · rintro ((h | h) | h)
          · exact Or.inl h
          · exact Or.inr (Or.inl h)
          · exact Or.inr (Or.inr h)
theorem pushInList_ids (pid : Int) (x : Field) :
    ∀ (fs fs' : List Field), pushInList pid x fs = some fs' → ∀ y, y ∈ Field.idsList fs' ↔ (y ∈ Field.idsList fs ∨ y ∈ x.ids)
  | [], fs', h, _ => by simp [pushInList] at h
  | f :: fs, fs', h, y => by
    simp only [pushInList] at h
    cases hf : pushInField pid x f with
    | some f' =>
      rw [hf] at h
      simp only [Option.some.injEq] at h
      subst h
      have ih := pushInField_ids pid x f f' hf y
      simp only [Field.idsList, List.mem_append, ih]
      constructor
      · rintro ((h | h) | h)
        · exact Or.inl (Or.inl h)
        · exact Or.inr h
        · exact Or.inl (Or.inr h)
      · rintro ((h | h) | h)
        · exact Or.inl (Or.inl h)
        · exact Or.inr h
        · exact Or.inl (Or.inr h)
    | none =>
      rw [hf] at h
      cases hr : pushInList pid x fs with
      | none => rw [hr] at h; simp at h
      | some fs'' =>
        rw [hr] at h
        simp only [Option.some.injEq] at h
        subst h
        have ih := pushInList_ids pid x fs fs'' hr y
        simp only [Field.idsList, List.mem_append, ih]
        constructor
        · rintro (h | h | h)
          · exact Or.inl (Or.inl h)
          · exact Or.inl (Or.inr h)
          · exact Or.inr h
        · rintro ((h | h) | h)
          · exact Or.inl h
          · exact Or.inr (Or.inl h)
          · exact Or.inr (Or.inr h)
end

theorem place_ids (pid : Int) (x : Field) (acc a : List Field) (h : place pid x acc = some a) :
    ∀ y, y ∈ Field.idsList a ↔ (y ∈ Field.idsList acc ∨ y ∈ x.ids) := by
  intro y
  unfold place at h
  by_cases hp : pid = -1
  · simp only [hp, if_true, Option.some.injEq] at h
    subst h
    simp [idsList_append, Field.idsList]
  · simp only [hp, if_false] at h
    exact pushInList_ids pid x acc a h y

/- pushing `k` under a node that has just been pushed itself: it lands at the end of that node's children -/
mutual
theorem pushInField_under_new (pid : Int) (i : FieldInfo) (ks : List Field) (k : Field) :
    ∀ (f f' : Field), pushInField pid (.mk i ks) f = some f' → i.id ∉ f.ids →
      pushInField i.id k f' = pushInField pid (.mk i (ks ++ [k])) f
  | .mk j cs, f', h, hfresh => by
    simp only [Field.ids, List.mem_cons, not_or] at hfresh
    have hj : ¬ (j.id = i.id) := fun e => hfresh.1 e.symm
    by_cases hp : j.id = pid
    · simp only [pushInField, hp, if_true, Option.some.injEq] at h
      subst h
      have hj' : ¬ (pid = i.id) := fun e => hj (hp.trans e)
      simp only [pushInField, hp, hj', if_true, if_false]
      rw [pushInList_append_miss i.id k cs [.mk i ks] hfresh.2]
      simp [pushInList, pushInField]
    · simp only [pushInField, hp, if_false] at h
      cases hc : pushInList pid (.mk i ks) cs with
      | none => rw [hc] at h; simp at h
      | some cs' =>
        rw [hc] at h
        simp only [Option.some.injEq] at h
        subst h
        have ih := pushInList_under_new pid i ks k cs cs' hc hfresh.2
        simp only [pushInField, hj, hp, if_false, ih]
theorem pushInList_under_new (pid : Int) (i : FieldInfo) (ks : List Field) (k : Field) :
    ∀ (fs fs' : List Field), pushInList pid (.mk i ks) fs = some fs' → i.id ∉ Field.idsList fs →
      pushInList i.id k fs' = pushInList pid (.mk i (ks ++ [k])) fs
  | [], fs', h, _ => by simp [pushInList] at h
  | f :: fs, fs', h, hfresh => by
    simp only [Field.idsList, List.mem_append, not_or] at hfresh
    simp only [pushInList] at h
    cases hf : pushInField pid (.mk i ks) f with
    | some f' =>
      rw [hf] at h
      simp only [Option.some.injEq] at h
      subst h
      have ih := pushInField_under_new pid i ks k f f' hf hfresh.1
      have hs : (pushInField pid (.mk i (ks ++ [k])) f).isSome = true := by
        rw [pushInField_isSome pid (.mk i (ks ++ [k])) (.mk i ks) f, hf]; rfl
      cases hx : pushInField pid (.mk i (ks ++ [k])) f with
      | none => rw [hx] at hs; simp at hs
      | some f'' =>
        rw [hx] at ih
        simp [pushInList, ih, hx]
    | none =>
      rw [hf] at h
      cases hr : pushInList pid (.mk i ks) fs with
      | none => rw [hr] at h; simp at h
      | some fs'' =>
        rw [hr] at h
        simp only [Option.some.injEq] at h
        subst h
        have ih := pushInList_under_new pid i ks k fs fs'' hr hfresh.2
        have hn : pushInField pid (.mk i (ks ++ [k])) f = none := by
          have := pushInField_isSome pid (.mk i (ks ++ [k])) (.mk i ks) f
          rw [hf] at this
          cases hx : pushInField pid (.mk i (ks ++ [k])) f with
          | none => rfl
          | some _ => rw [hx] at this; simp at this
        simp only [pushInList, pushInField_miss i.id k f hfresh.1, hn, ih]
end

theorem place_under_new (pid : Int) (i : FieldInfo) (ks : List Field) (k : Field) (acc a : List Field)
    (h : place pid (.mk i ks) acc = some a) (hfresh : i.id ∉ Field.idsList acc) (hne : i.id ≠ -1) :
    place i.id k a = place pid (.mk i (ks ++ [k])) acc := by
  unfold place at *
  simp only [hne, if_false]
  by_cases hp : pid = -1
  · simp only [hp, if_true, Option.some.injEq] at h ⊢
    subst h
    rw [pushInList_append_miss i.id k acc [.mk i ks] hfresh]
    simp [pushInList, pushInField]
  · simp only [hp, if_false] at h ⊢
    exact pushInList_under_new pid i ks k acc a h hfresh

/-! ### one field's attributes -/

theorem fieldInfo_rt (i : FieldInfo) (h : i.wf = true) : FieldInfo.fromPb i.toPb = i := by
  cases i with
  | mk name id pid lt md enc nul dict upk =>
    have hd : (dict.map (fun d => (toI64 d.1, toI64 d.2))).map (fun d => (toU64 d.1, toU64 d.2)) = dict := by
      cases dict with
      | none => rfl
      | some d =>
        simp only [FieldInfo.wf, Bool.and_eq_true, decide_eq_true_eq] at h
        simp [toU64_toI64 d.1 h.1, toU64_toI64 d.2 h.2]
    have he : (if (match enc with
          | some .plain => (1 : Int) | some .varBinary => 2 | some .dictionary => 3 | some .rle => 4 | none => 0) = 1
        then some Encoding.plain else if (match enc with
          | some .plain => (1 : Int) | some .varBinary => 2 | some .dictionary => 3 | some .rle => 4 | none => 0) = 2
        then some .varBinary else if (match enc with
          | some .plain => (1 : Int) | some .varBinary => 2 | some .dictionary => 3 | some .rle => 4 | none => 0) = 3
        then some .dictionary else if (match enc with
          | some .plain => (1 : Int) | some .varBinary => 2 | some .dictionary => 3 | some .rle => 4 | none => 0) = 4
        then some .rle else none) = enc := by
      cases enc with
      | none => rfl
      | some e => cases e <;> rfl
    cases hg : Map.get? arrowExtNameKey md with
    | none =>
      cases enc with
      | none => simp [FieldInfo.fromPb, FieldInfo.toPb, hg, hd]
      | some e => cases e <;> simp [FieldInfo.fromPb, FieldInfo.toPb, hg, hd]
    | some n =>
      have hins := Map.insert_of_get arrowExtNameKey n md hg
      by_cases hn : n = ""
      · cases enc with
        | none => simp [FieldInfo.fromPb, FieldInfo.toPb, hg, hd, hn]
        | some e => cases e <;> simp [FieldInfo.fromPb, FieldInfo.toPb, hg, hd, hn]
      · cases enc with
        | none => simp [FieldInfo.fromPb, FieldInfo.toPb, hg, hd, hn, hins]
        | some e => cases e <;> simp [FieldInfo.fromPb, FieldInfo.toPb, hg, hd, hn, hins]

theorem unflattenStep_toPb (acc : List Field) (i : FieldInfo) (h : i.wf = true) :
    unflattenStep acc i.toPb = place i.parentId (.mk i []) acc := by
  have hp : i.toPb.parentId = i.parentId := by cases i; rfl
  unfold unflattenStep place
  rw [fieldInfo_rt i h, hp]

/-! ### the rebuild -/

mutual
theorem build_tree : ∀ (t : Field) (acc : List Field) (pid : Int) (rest : List PbField) (a : List Field),
    t.info.parentId = pid → t.kidsOk = true → t.infosWf = true → (-1 : Int) ∉ t.ids → t.ids.Nodup →
    (∀ y ∈ t.ids, y ∉ Field.idsList acc) → place pid t acc = some a →
    unflattenFrom acc (t.flatten ++ rest) = unflattenFrom a rest
  | .mk i kids, acc, pid, rest, a, hp, hk, hw, hm1, hnd, hfr, hpl => by
    simp only [Field.info] at hp
    simp only [Field.kidsOk] at hk
    simp only [Field.infosWf, Bool.and_eq_true] at hw
    simp only [Field.ids, List.mem_cons, not_or] at hm1
    simp only [Field.ids, List.nodup_cons] at hnd
    have hstep : unflattenStep acc i.toPb = place pid (.mk i []) acc := by
      rw [unflattenStep_toPb acc i hw.1, hp]
    have hs : (place pid (.mk i []) acc).isSome = true := by
      rw [place_isSome pid (.mk i []) (.mk i kids) acc, hpl]; rfl
    cases h0 : place pid (.mk i []) acc with
    | none => rw [h0] at hs; simp at hs
    | some a0 =>
      have hne : i.id ≠ -1 := fun e => hm1.1 e.symm
      have hfi : i.id ∉ Field.idsList acc := hfr i.id (by simp [Field.ids])
      obtain ⟨a', h1, h2⟩ := build_kids kids i [] acc pid rest a0 hk hw.2 hm1.2 hnd.2
        (fun y hy => ⟨hfr y (by simp [Field.ids, hy]), by simp [Field.idsList], fun e => hnd.1 (e ▸ hy)⟩)
        hfi hne h0
      simp only [List.nil_append] at h1
      rw [hpl] at h1
      simp only [Option.some.injEq] at h1
      subst h1
      simp only [Field.flatten, List.cons_append, unflattenFrom, hstep, h0, h2]
theorem build_kids : ∀ (kids : List Field) (i : FieldInfo) (ks acc : List Field) (pid : Int) (rest : List PbField)
    (a : List Field),
    Field.childrenOk i.id kids = true → Field.infosWfList kids = true → (-1 : Int) ∉ Field.idsList kids →
    (Field.idsList kids).Nodup →
    (∀ y ∈ Field.idsList kids, y ∉ Field.idsList acc ∧ y ∉ Field.idsList ks ∧ y ≠ i.id) →
    i.id ∉ Field.idsList acc → i.id ≠ -1 → place pid (.mk i ks) acc = some a →
    ∃ a', place pid (.mk i (ks ++ kids)) acc = some a' ∧
      unflattenFrom a (Field.flattenList kids ++ rest) = unflattenFrom a' rest
  | [], i, ks, acc, pid, rest, a, _, _, _, _, _, _, _, hpl => by
    exact ⟨a, by simpa using hpl, by simp [Field.flattenList]⟩
  | k :: kids', i, ks, acc, pid, rest, a, hk, hw, hm1, hnd, hfr, hfi, hne, hpl => by
    simp only [Field.childrenOk, Bool.and_eq_true, beq_iff_eq] at hk
    simp only [Field.infosWfList, Bool.and_eq_true] at hw
    simp only [Field.idsList, List.mem_append, not_or] at hm1
    simp only [Field.idsList] at hnd hfr
    have hnd' := List.nodup_append.mp hnd
    have hP := place_under_new pid i ks k acc a hpl hfi hne
    have hs : (place pid (.mk i (ks ++ [k])) acc).isSome = true := by
      rw [place_isSome pid (.mk i (ks ++ [k])) (.mk i ks) acc, hpl]; rfl
    cases h1 : place pid (.mk i (ks ++ [k])) acc with
    | none => rw [h1] at hs; simp at hs
    | some a1 =>
      rw [h1] at hP
      have hids := place_ids pid (.mk i ks) acc a hpl
      have htree := build_tree k a i.id (Field.flattenList kids' ++ rest) a1 hk.1.1 hk.1.2 hw.1 hm1.1 hnd'.1
        (fun y hy hya => by
          have hy' := hfr y (List.mem_append_left _ hy)
          rcases (hids y).mp hya with h | h
          · exact hy'.1 h
          · simp only [Field.ids, List.mem_cons] at h
            rcases h with h | h
            · exact hy'.2.2 h
            · exact hy'.2.1 h)
        hP
      obtain ⟨a', h2, h3⟩ := build_kids kids' i (ks ++ [k]) acc pid rest a1 hk.2 hw.2 hm1.2 hnd'.2.1
        (fun y hy => by
          have hy' := hfr y (List.mem_append_right _ hy)
          refine ⟨hy'.1, ?_, hy'.2.2⟩
          simp only [idsList_append, Field.idsList, List.append_nil, List.mem_append, not_or]
          exact ⟨hy'.2.1, fun hyk => hnd'.2.2 y hyk y hy rfl⟩)
        hfi hne h1
      refine ⟨a', by simpa using h2, ?_⟩
      simp only [Field.flattenList, List.append_assoc]
      rw [htree, h3]
end

theorem build_forest : ∀ (fs acc : List Field), Field.childrenOk (-1) fs = true → Field.infosWfList fs = true →
    (-1 : Int) ∉ Field.idsList fs → (Field.idsList fs).Nodup → (∀ y ∈ Field.idsList fs, y ∉ Field.idsList acc) →
    unflattenFrom acc (Field.flattenList fs) = some (acc ++ fs)
  | [], acc, _, _, _, _, _ => by simp [Field.flattenList, unflattenFrom]
  | t :: fs', acc, hk, hw, hm1, hnd, hfr => by
    simp only [Field.childrenOk, Bool.and_eq_true, beq_iff_eq] at hk
    simp only [Field.infosWfList, Bool.and_eq_true] at hw
    simp only [Field.idsList, List.mem_append, not_or] at hm1
    simp only [Field.idsList] at hnd hfr
    have hnd' := List.nodup_append.mp hnd
    have htree := build_tree t acc (-1) (Field.flattenList fs') (acc ++ [t]) hk.1.1 hk.1.2 hw.1 hm1.1 hnd'.1
      (fun y hy => hfr y (List.mem_append_left _ hy)) (by simp [place])
    have ih := build_forest fs' (acc ++ [t]) hk.2 hw.2 hm1.2 hnd'.2.1
      (fun y hy => by
        simp only [idsList_append, Field.idsList, List.append_nil, List.mem_append, not_or]
        exact ⟨hfr y (List.mem_append_right _ hy), fun hyt => hnd'.2.2 y hyt y hy rfl⟩)
    simp only [Field.flattenList]
    rw [htree, ih]
    simp

/-- a structurally well-formed field forest is rebuilt unchanged from its depth-first list -/
theorem fields_roundtrip_structural (fs : List Field) (h : TreeWF fs) :
    unflatten (Field.flattenList fs) = some fs := by
  obtain ⟨h1, h2, h3, h4⟩ := h
  have := build_forest fs [] h1 h2 h4 h3 (fun y _ => by simp [Field.idsList])
  simpa [unflatten] using this

theorem treeWF_fieldsWf (fs : List Field) (h : TreeWF fs) : fieldsWf fs = true := by
  have h' := fields_roundtrip_structural fs h
  simp [fieldsWf, h.2.1, h']

end LanceModel.C32
