import LanceModel.C32.Model
import LanceModel.C32.WF
/-
C32 helper lemmas: `mapE`/`optE` over round-tripping element conversions, `Map.collect` on duplicate-free maps,
integer casts, little-endian byte packing.
-/
namespace LanceModel.C32

theorem mapE_map_ok {α β : Type} (f : β → Res α) (g : α → β) :
    ∀ (xs : List α), (∀ x ∈ xs, f (g x) = .ok x) → mapE f (xs.map g) = .ok xs
  | [], _ => rfl
  | x :: xs, h => by
    have h1 : f (g x) = .ok x := h x (by simp)
    have h2 : mapE f (xs.map g) = .ok xs := mapE_map_ok f g xs (fun y hy => h y (by simp [hy]))
    simp [mapE, h1, h2]

theorem optE_map_ok {α β : Type} (f : β → Res α) (g : α → β) :
    ∀ (o : Option α), (∀ x, o = some x → f (g x) = .ok x) → optE f (o.map g) = .ok o
  | none, _ => rfl
  | some x, h => by
    have h1 : f (g x) = .ok x := h x rfl
    simp [optE, h1]

theorem all_mem {α : Type} {p : α → Bool} {xs : List α} (h : xs.all p = true) : ∀ x ∈ xs, p x = true := by
  intro x hx
  exact (List.all_eq_true.mp h) x hx

/-! ### maps -/

theorem Map.insert_of_get {κ ν : Type} [DecidableEq κ] (k : κ) (v : ν) :
    ∀ (m : Map κ ν), Map.get? k m = some v → Map.insert k v m = m
  | [], h => by simp [Map.get?] at h
  | (k', v') :: m, h => by
    by_cases hk : k' = k
    · simp [Map.get?, hk] at h
      simp [Map.insert, hk, h]
    · simp [Map.get?, hk] at h
      simp [Map.insert, hk, Map.insert_of_get k v m h]

theorem Map.insert_fresh {κ ν : Type} [DecidableEq κ] (k : κ) (v : ν) :
    ∀ (m : Map κ ν), (m.map (·.1)).contains k = false → Map.insert k v m = m ++ [(k, v)]
  | [], _ => rfl
  | (k', v') :: m, h => by
    have h' : ¬ (k = k') ∧ (m.map (·.1)).contains k = false := by
      simpa [List.contains_cons, Bool.or_eq_false_iff] using h
    have hk : ¬ (k' = k) := fun e => h'.1 e.symm
    simp [Map.insert, hk, Map.insert_fresh k v m h'.2]

theorem foldl_insert_append {κ ν : Type} [DecidableEq κ] :
    ∀ (m acc : Map κ ν), keysNodup m = true → (∀ kv ∈ m, (acc.map (·.1)).contains kv.1 = false) →
      m.foldl (fun a kv => Map.insert kv.1 kv.2 a) acc = acc ++ m
  | [], acc, _, _ => by simp
  | (k, v) :: m, acc, hn, hd => by
    have hn' : (m.map (·.1)).contains k = false ∧ keysNodup m = true := by
      simpa [keysNodup] using hn
    have hk : (acc.map (·.1)).contains k = false := hd (k, v) (by simp)
    rw [List.foldl_cons, Map.insert_fresh k v acc hk]
    rw [foldl_insert_append m (acc ++ [(k, v)]) hn'.2]
    · simp
    · intro kv hkv
      have h1 : (acc.map (·.1)).contains kv.1 = false := hd kv (by simp [hkv])
      have h2 : ¬ (kv.1 = k) := by
        intro e
        have : (m.map (·.1)).contains k = true := by
          rw [← e]
          simp only [List.contains_eq_mem, List.mem_map, decide_eq_true_eq]
          exact ⟨kv, hkv, rfl⟩
        rw [this] at hn'
        exact absurd hn'.1 (by simp)
      simp only [List.map_append, List.map_cons, List.map_nil, List.contains_eq_mem, List.mem_append,
        List.mem_cons, List.not_mem_nil, or_false, decide_eq_false_iff_not, not_or]
      refine ⟨?_, h2⟩
      simpa using h1

/-- `collect()` of a duplicate-free list of entries is that list -/
theorem Map.collect_of_nodup {κ ν : Type} [DecidableEq κ] (m : Map κ ν) (h : keysNodup m = true) :
    Map.collect m = m := by
  unfold Map.collect
  rw [foldl_insert_append m [] h (by intro kv _; rfl)]
  simp

theorem keysNodup_map_snd {κ ν μ : Type} [DecidableEq κ] (g : ν → μ) :
    ∀ (m : Map κ ν), keysNodup (m.map (fun kv => (kv.1, g kv.2))) = keysNodup m
  | [] => rfl
  | (k, v) :: m => by
    have hm : (m.map (fun kv => (kv.1, g kv.2))).map (·.1) = m.map (·.1) := by
      rw [List.map_map]; rfl
    simp only [List.map_cons, keysNodup, hm, keysNodup_map_snd g m]

/-! ### casts -/

theorem toU64_toI64 (n : Nat) (h : n < two64) : toU64 (toI64 n) = n := by
  unfold toU64 toI64 two64 two63 at *
  split <;> omega

theorem toI64_small (n : Nat) (h : n < two63) : toI64 n = (n : Int) := by
  unfold toI64 two64 two63 at *
  split <;> omega

theorem toI64_toU64 (x : Int) (h1 : -(two63 : Int) ≤ x) (h2 : x < (two63 : Int)) : toI64 (toU64 x) = x := by
  unfold toU64 toI64 two64 two63 at *
  split <;> omega

/-- manifest.rs: nanoseconds -> (seconds, nanos) -> nanoseconds -/
theorem timestamp_roundtrip (t : Nat) (h : t < maxTimestampNanos) :
    (toI64 ((t - t % nanosPerSec) / nanosPerSec)).toNat * nanosPerSec + ((t % nanosPerSec : Nat) : Int).toNat = t := by
  have hs : (t - t % nanosPerSec) / nanosPerSec < two63 := by
    simp only [maxTimestampNanos, nanosPerSec, two63] at *
    omega
  rw [toI64_small _ hs]
  simp only [nanosPerSec] at *
  omega

theorem timestamp_nonneg (t : Nat) (h : t < maxTimestampNanos) :
    ¬ (toI64 ((t - t % nanosPerSec) / nanosPerSec) < 0 ∨ ((t % nanosPerSec : Nat) : Int) < 0) := by
  have hs : (t - t % nanosPerSec) / nanosPerSec < two63 := by
    simp only [maxTimestampNanos, nanosPerSec, two63] at *
    omega
  rw [toI64_small _ hs]
  simp only [nanosPerSec]
  omega

/-- index.rs: nanoseconds -> milliseconds as u64 -> i64 -> nanoseconds, for whole milliseconds in chrono's range -/
theorem created_at_roundtrip (n : Int) (h0 : n % 1000000 = 0) (h1 : chronoMinMillis ≤ n / 1000000)
    (h2 : n / 1000000 ≤ chronoMaxMillis) :
    chronoMinMillis ≤ toI64 (toU64 (n / 1000000)) ∧ toI64 (toU64 (n / 1000000)) ≤ chronoMaxMillis
      ∧ toI64 (toU64 (n / 1000000)) * 1000000 = n := by
  have hr : toI64 (toU64 (n / 1000000)) = n / 1000000 := by
    apply toI64_toU64
    · unfold chronoMinMillis two63 at *; omega
    · unfold chronoMaxMillis two63 at *; omega
  rw [hr]
  refine ⟨h1, h2, ?_⟩
  omega

/-! ### little-endian packing -/

theorem leBytes_length : ∀ (k v : Nat), (leBytes k v).length = k
  | 0, _ => rfl
  | k + 1, v => by simp [leBytes, leBytes_length k]

theorem leValue_leBytes : ∀ (k v : Nat), v < 256 ^ k → leValue (leBytes k v) = v
  | 0, v, h => by simp at h; simp [leBytes, leValue, h]
  | k + 1, v, h => by
    have h' : v / 256 < 256 ^ k := by
      rw [Nat.pow_succ] at h
      omega
    simp only [leBytes, leValue, leValue_leBytes k (v / 256) h']
    omega

theorem decodeLE_encodeLE (k : Nat) (hk : 0 < k) :
    ∀ (vs : List Nat) (fuel : Nat), (∀ v ∈ vs, v < 256 ^ k) → vs.length ≤ fuel →
      decodeLE k fuel (encodeLE k vs) = vs
  | [], fuel, _, _ => by
    cases fuel with
    | zero => rfl
    | succ f =>
      simp only [encodeLE, List.flatMap_nil, decodeLE, List.length_nil]
      have : (0 < k ∨ k = 0) := Or.inl hk
      simp [this]
  | v :: vs, fuel, hv, hf => by
    cases fuel with
    | zero => simp at hf
    | succ f =>
      have hlen : (leBytes k v).length = k := leBytes_length k v
      have hnot : ¬ ((leBytes k v ++ encodeLE k vs).length < k ∨ k = 0) := by
        simp only [List.length_append, hlen]
        omega
      have htake : (leBytes k v ++ encodeLE k vs).take k = leBytes k v := by
        exact List.take_left' hlen
      have hdrop : (leBytes k v ++ encodeLE k vs).drop k = encodeLE k vs := by
        exact List.drop_left' hlen
      have hv0 : v < 256 ^ k := hv v (by simp)
      have ih := decodeLE_encodeLE k hk vs f (fun y hy => hv y (by simp [hy])) (by simpa using hf)
      simp only [encodeLE, List.flatMap_cons] at *
      rw [decodeLE]
      simp only [hnot, if_false, htake, hdrop, leValue_leBytes k v hv0, ih]

theorem encodeLE_length (k : Nat) : ∀ (vs : List Nat), (encodeLE k vs).length = k * vs.length
  | [] => by simp [encodeLE]
  | v :: vs => by
    have ih := encodeLE_length k vs
    simp only [encodeLE, List.flatMap_cons, List.length_append, leBytes_length, List.length_cons] at *
    rw [ih, Nat.mul_succ]
    omega

end LanceModel.C32
