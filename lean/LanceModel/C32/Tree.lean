/-
C32 driver support: a generic value tree in the syntax of Rust's derived `Debug` output (without whitespace), its
parser and printer.  Used only by the driver (the op lines carry values in this syntax); no theorem depends on it.
-/
namespace LanceModel.C32

inductive T where
  | a (s : String)                        -- bare token
  | s (v : String)                        -- "string" (text between the quotes, verbatim)
  | l (xs : List T)                       -- [a,b]
  | m (entries : List T)                  -- {k:v,..}, entries are `kv`
  | kv (k v : T)
  | r (name : String) (fields : List T)   -- Name{f:v,..}, fields are `f`
  | f (name : String) (v : T)
  | u (name : String) (xs : List T)       -- Name(a,b)
  deriving Repr, Inhabited

mutual
def T.render : T → String
  | .a x => x
  | .s x => "\"" ++ x ++ "\""
  | .l xs => "[" ++ T.renderList xs ++ "]"
  | .m es => "{" ++ T.renderList es ++ "}"
  | .kv k v => k.render ++ ":" ++ v.render
  | .r n fs => n ++ "{" ++ T.renderList fs ++ "}"
  | .f n v => n ++ ":" ++ v.render
  | .u n xs => n ++ "(" ++ T.renderList xs ++ ")"
def T.renderList : List T → String
  | [] => ""
  | [x] => x.render
  | x :: y :: xs => x.render ++ "," ++ T.renderList (y :: xs)
end

def atomStop (mapKey : Bool) (c : Char) : Bool :=
  c = ',' || c = '}' || c = ')' || c = ']' || c = '{' || c = '(' || c = '"' || (mapKey && c = ':')

def takeAtom (mapKey : Bool) : List Char → List Char × List Char
  | [] => ([], [])
  | c :: cs => if atomStop mapKey c then ([], c :: cs) else
      let (a, rest) := takeAtom mapKey cs
      (c :: a, rest)

def takeString : List Char → Option (List Char × List Char)
  | [] => none
  | '"' :: cs => some ([], cs)
  | '\\' :: c :: cs => (takeString cs).map (fun (a, rest) => ('\\' :: c :: a, rest))
  | c :: cs => (takeString cs).map (fun (a, rest) => (c :: a, rest))

def isIdentStart (c : Char) : Bool := c.isAlpha
def isIdent (c : Char) : Bool := c.isAlphanum || c = '_' || c = '#'

def takeIdent : List Char → List Char × List Char
  | [] => ([], [])
  | c :: cs => if isIdent c then
      let (a, rest) := takeIdent cs
      (c :: a, rest) else ([], c :: cs)

mutual
/-- one value; `mapKey`: stop an atom at `:` -/
def parseValue : Nat → Bool → List Char → Option (T × List Char)
  | 0, _, _ => none
  | fuel + 1, mapKey, cs =>
    match cs with
    | '"' :: rest =>
      match takeString rest with
      | some (a, rest') => some (.s (String.ofList a), rest')
      | none => none
    | '[' :: rest =>
      match parseSeq fuel ']' rest with
      | some (xs, rest') => some (.l xs, rest')
      | none => none
    | '{' :: rest =>
      match parseEntries fuel rest with
      | some (es, rest') => some (.m es, rest')
      | none => none
    | _ =>
      match takeAtom mapKey cs with
      | (a, '{' :: rest) =>
        match parseFields fuel rest with
        | some (fs, rest') => some (.r (String.ofList a) fs, rest')
        | none => none
      | (a, '(' :: rest) =>
        match parseSeq fuel ')' rest with
        | some (xs, rest') => some (.u (String.ofList a) xs, rest')
        | none => none
      | (a, rest) => some (.a (String.ofList a), rest)
def parseSeq : Nat → Char → List Char → Option (List T × List Char)
  | 0, _, _ => none
  | fuel + 1, close, cs =>
    match cs with
    | [] => none
    | c :: rest =>
      if c = close then some ([], rest)
      else if c = ',' then parseSeq fuel close rest
      else
        match parseValue fuel false (c :: rest) with
        | some (x, rest') =>
          match parseSeq fuel close rest' with
          | some (xs, rest'') => some (x :: xs, rest'')
          | none => none
        | none => none
def parseEntries : Nat → List Char → Option (List T × List Char)
  | 0, _ => none
  | fuel + 1, cs =>
    match cs with
    | [] => none
    | '}' :: rest => some ([], rest)
    | ',' :: rest => parseEntries fuel rest
    | _ =>
      match parseValue fuel true cs with
      | some (k, ':' :: rest') =>
        match parseValue fuel false rest' with
        | some (v, rest'') =>
          match parseEntries fuel rest'' with
          | some (es, rest''') => some (.kv k v :: es, rest''')
          | none => none
        | none => none
      | _ => none
def parseFields : Nat → List Char → Option (List T × List Char)
  | 0, _ => none
  | fuel + 1, cs =>
    match cs with
    | [] => none
    | '}' :: rest => some ([], rest)
    | ',' :: rest => parseFields fuel rest
    | _ =>
      match takeIdent cs with
      | (k, ':' :: rest') =>
        match parseValue fuel false rest' with
        | some (v, rest'') =>
          match parseFields fuel rest'' with
          | some (fs, rest''') => some (.f (String.ofList k) v :: fs, rest''')
          | none => none
        | none => none
      | _ => none
end

def T.parse (s : String) : Option T :=
  let cs := s.toList
  match parseValue (2 * cs.length + 4) false cs with
  | some (t, []) => some t
  | _ => none

/-! accessors -/

def T.field (name : String) : T → Option T
  | .r _ fs => fs.findSome? (fun x => match x with | .f n v => if n = name then some v else none | _ => none)
  | _ => none

def T.nat? : T → Option Nat
  | .a x => x.toNat?
  | _ => none

def T.int? : T → Option Int
  | .a x => x.toInt?
  | _ => none

def T.bool? : T → Option Bool
  | .a "true" => some true
  | .a "false" => some false
  | _ => none

def T.str? : T → Option String
  | .s x => some x
  | _ => none

def T.list? {α : Type} (g : T → Option α) : T → Option (List α)
  | .l xs => xs.mapM g
  | _ => none

def T.opt? {α : Type} (g : T → Option α) : T → Option (Option α)
  | .a "None" => some none
  | .u "Some" [x] => (g x).map some
  | _ => none

def T.map? {κ ν : Type} (gk : T → Option κ) (gv : T → Option ν) : T → Option (List (κ × ν))
  | .m es => es.mapM (fun e => match e with
      | .kv k v => match gk k, gv v with
        | some k, some v => some (k, v)
        | _, _ => none
      | _ => none)
  | _ => none

def T.nats? (t : T) : Option (List Nat) := t.list? T.nat?
def T.ints? (t : T) : Option (List Int) := t.list? T.int?

/-! builders -/

def T.ofNat (n : Nat) : T := .a (toString n)
def T.ofInt (n : Int) : T := .a (toString n)
def T.ofBool (b : Bool) : T := .a (if b then "true" else "false")
def T.ofNats (l : List Nat) : T := .l (l.map T.ofNat)
def T.ofInts (l : List Int) : T := .l (l.map T.ofInt)
def T.ofOpt {α : Type} (g : α → T) : Option α → T
  | none => .a "None"
  | some x => .u "Some" [g x]

def insertBy {α : Type} (key : α → String) (x : α) : List α → List α
  | [] => [x]
  | y :: t => if key x ≤ key y then x :: y :: t else y :: insertBy key x t

/-- a map, entries sorted by the rendered key (the harness sorts the Rust side in the same way) -/
def T.ofMap {κ ν : Type} (gk : κ → T) (gv : ν → T) (m : List (κ × ν)) : T :=
  .m ((m.map (fun kv => ((gk kv.1).render, T.kv (gk kv.1) (gv kv.2)))).foldr (insertBy (·.1)) [] |>.map (·.2))

def T.ofStrMap (m : List (String × String)) : T := T.ofMap T.s T.s m

end LanceModel.C32
