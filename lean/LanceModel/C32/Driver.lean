import LanceModel.Util
import LanceModel.C32.Model
import LanceModel.C32.WF
import LanceModel.C32.Tree
import LanceModel.C32.Codec
/-
C32 driver.  One op line = `<op> <value in Debug syntax>`; stateless.

  rt.<ty> v / rtn.<ty> v   in-memory value v: `wf=<WF v> eq=<back = Ok v> pb=<toPb v> back=<fromPb (toPb v)>`
                           (`rt` is used by the harness for values it generated as well-formed, `rtn` for values that break
                           one well-formedness clause; both print the same thing)
  dec.<ty> p               protobuf message p: `<fromPb p> re=<toPb of the result | ->`
  dec.seg p                additionally ` back=<fromPb (toPb (fromPb p))>`
  json.tag v / json.branch v
-/
namespace LanceModel.C32.Driver
open LanceModel.Util LanceModel.C32

def b01 (b : Bool) : String := if b then "1" else "0"

def rtLine {α β : Type} (ofT : T → Option α) (toT : α → T) (pbT : β → T) (wf : α → Bool) (toPb : α → β)
    (fromPb : β → Res α) (arg : String) : String :=
  match T.parse arg with
  | none => "bad-term"
  | some t =>
    match ofT t with
    | none => "bad-value"
    | some v =>
      let back := fromPb (toPb v)
      let backS := (resT toT back).render
      "wf=" ++ b01 (wf v) ++ " eq=" ++ b01 (backS == "Ok(" ++ (toT v).render ++ ")") ++ " pb=" ++ (pbT (toPb v)).render
        ++ " back=" ++ backS

def decLine {α β : Type} (ofT : T → Option β) (toT : α → T) (pbT : β → T) (toPb : α → β) (fromPb : β → Res α)
    (withBack : Bool) (arg : String) : String :=
  match T.parse arg with
  | none => "bad-term"
  | some t =>
    match ofT t with
    | none => "bad-value"
    | some p =>
      let r := fromPb p
      (resT toT r).render ++ " re=" ++ (match r with | .ok v => (pbT (toPb v)).render | .error _ => "-")
        ++ (if withBack then " back=" ++ (match r with | .ok v => (resT toT (fromPb (toPb v))).render | .error _ => "-") else "")

/-- the `DeletionFile` conversion lives inside `From<&Fragment>`; the harness wraps the value in a fragment -/
def delToPb (d : DeletionFile) : PbDeletionFile := d.toPb

def tagT (t : TagContents) : T :=
  .r "TagContents" [fld "branch" (strOptT t.branch), fld "version" (.ofNat t.version), fld "manifest_size" (.ofNat t.manifestSize)]

def tagOfT (t : T) : Option TagContents := do
  return { branch := ← strOpt? (← t.field "branch"), version := ← (← t.field "version").nat?,
           manifestSize := ← (← t.field "manifest_size").nat? }

def branchT (b : BranchContents) : T :=
  .r "BranchContents" [fld "parent_branch" (strOptT b.parentBranch), fld "parent_version" (.ofNat b.parentVersion),
    fld "create_at" (.ofNat b.createAt), fld "manifest_size" (.ofNat b.manifestSize)]

def branchOfT (t : T) : Option BranchContents := do
  return { parentBranch := ← strOpt? (← t.field "parent_branch"), parentVersion := ← (← t.field "parent_version").nat?,
           createAt := ← (← t.field "create_at").nat?, manifestSize := ← (← t.field "manifest_size").nat? }

def jvalS : JVal → String
  | .null => "null"
  | .num n => toString n
  | .str s => "\"" ++ s ++ "\""

/-- serde_json's compact object text (strings of the generated alphabet need no escaping) -/
def jsonS (j : List (String × JVal)) : String :=
  "{" ++ ",".intercalate (j.map (fun kv => "\"" ++ kv.1 ++ "\":" ++ jvalS kv.2)) ++ "}"

def optT {α : Type} (g : α → T) : Option α → T
  | some x => .u "Ok" [g x]
  | none => .u "Err" [.a "Json"]

def runT (r : Seg × Nat) : T := .r "RowDatasetVersionRun" [fld "span" r.1.toT, fld "version" (.ofNat r.2)]
def pbRunT (r : Option PbSeg × Nat) : T :=
  .r "RowDatasetVersionRun" [fld "span" (T.ofOpt PbSeg.toT r.1), fld "version" (.ofNat r.2)]
def pbRunOfT (t : T) : Option (Option PbSeg × Nat) := do
  return (← (← t.field "span").opt? PbSeg.ofT, ← (← t.field "version").nat?)

def step (_s : Unit) (line : String) : Unit × String :=
  let line := line.trimAscii.toString
  let (op, arg) := match line.splitOn " " with
    | [] => ("", "")
    | o :: rest => (o, " ".intercalate rest)
  let out :=
    match op with
    | "rt.datafile" | "rtn.datafile" => rtLine DataFile.ofT DataFile.toT PbDataFile.toT (fun _ => true) DataFile.toPb DataFile.fromPb arg
    | "rt.delfile" | "rtn.delfile" => rtLine DeletionFile.ofT DeletionFile.toT PbDeletionFile.toT DeletionFile.wf delToPb DeletionFile.fromPb arg
    | "rt.frag" | "rtn.frag" => rtLine Fragment.ofT Fragment.toT PbDataFragment.toT Fragment.wf Fragment.toPb Fragment.fromPb arg
    | "rt.manifest" | "rtn.manifest" => rtLine Manifest.ofT Manifest.toT PbManifest.toT Manifest.wf Manifest.toPb Manifest.fromPb arg
    | "rt.index" | "rtn.index" => rtLine IndexMetadata.ofT IndexMetadata.toT PbIndexMetadata.toT IndexMetadata.wf IndexMetadata.toPb IndexMetadata.fromPb arg
    | "rt.memwal" | "rtn.memwal" => rtLine MemWal.ofT MemWal.toT PbMemWal.toT (fun _ => true) MemWal.toPb MemWal.fromPb arg
    | "rt.txn" | "rtn.txn" => rtLine Transaction.ofT Transaction.toT PbTransaction.toT Transaction.wf Transaction.toPb Transaction.fromPb arg
    | "dec.datafile" => decLine PbDataFile.ofT DataFile.toT PbDataFile.toT DataFile.toPb DataFile.fromPb false arg
    | "dec.delfile" => decLine PbDeletionFile.ofT DeletionFile.toT PbDeletionFile.toT delToPb DeletionFile.fromPb false arg
    | "dec.frag" => decLine PbDataFragment.ofT Fragment.toT PbDataFragment.toT Fragment.toPb Fragment.fromPb false arg
    | "dec.manifest" => decLine PbManifest.ofT Manifest.toT PbManifest.toT Manifest.toPb Manifest.fromPb false arg
    | "dec.index" => decLine PbIndexMetadata.ofT IndexMetadata.toT PbIndexMetadata.toT IndexMetadata.toPb IndexMetadata.fromPb false arg
    | "dec.memwal" => decLine PbMemWal.ofT MemWal.toT PbMemWal.toT MemWal.toPb MemWal.fromPb false arg
    | "dec.txn" => decLine PbTransaction.ofT Transaction.toT PbTransaction.toT Transaction.toPb Transaction.fromPb false arg
    | "dec.seg" => decLine PbSeg.ofT Seg.toT PbSeg.toT Seg.toPb Seg.fromPb true arg
    | "dec.seq" =>
      decLine (fun t => do (← t.field "segments").list? PbSeg.ofT) (fun (s : List Seg) => .u "RowIdSequence" [.l (s.map Seg.toT)])
        (fun (p : List PbSeg) => .r "RowIdSequence" [fld "segments" (.l (p.map PbSeg.toT))]) seqToPb seqFromPb true arg
    | "dec.vseq" =>
      decLine (fun t => do (← t.field "runs").list? pbRunOfT)
        (fun (s : List (Seg × Nat)) => .r "RowDatasetVersionSequence" [fld "runs" (.l (s.map runT))])
        (fun (p : List (Option PbSeg × Nat)) => .r "RowDatasetVersionSequence" [fld "runs" (.l (p.map pbRunT))])
        runsToPb runsFromPb true arg
    | "json.tag" =>
      match (T.parse arg).bind tagOfT with
      | some v => "json=" ++ jsonS v.toJson ++ " back=" ++ (optT tagT (TagContents.fromJson v.toJson)).render
      | none => "bad-value"
    | "json.branch" =>
      match (T.parse arg).bind branchOfT with
      | some v => "json=" ++ jsonS v.toJson ++ " back=" ++ (optT branchT (BranchContents.fromJson v.toJson)).render
      | none => "bad-value"
    | _ => "bad-op"
  ((), out)

end LanceModel.C32.Driver
