import LanceModel.C32.FragLemmas
import LanceModel.C32.SchemaLemmas
/-
C32 — metadata serialisation round trips.

properties.jsonl: "Every persisted metadata value - manifests, transactions of every operation type, index metadata,
data file/fragment/deletion file descriptors, row id sequences, row version sequences, ... MemWAL details, tag and
branch files - decodes to a value equal to the one encoded."

`C32_full` is that statement over *all* values of the modelled types.  The code does not meet it: the decoders
normalise some values (`Some(0)` row counts, `Some("")` tags, empty `Option` collections, default update mode) and three
conversions lose information (index `created_at` below a millisecond, `Rewrite::frag_reuse_index`, schema metadata
inside Overwrite / Merge / Project).  The `_roundtrip` theorems prove the property for every value satisfying the
explicit, executable predicate `X.wf` (WF.lean), which excludes exactly those regions; `_counterexample`s witness each
excluded region.  Every theorem is universally quantified; the `example`s show the hypotheses are inhabited by
non-trivial values.
-/
namespace LanceModel.C32

/-! ## small facts about the helper conversions -/

theorem emptyToNone_strOrEmpty (o : Option String) (h : (o != some "") = true) : emptyToNone (strOrEmpty o) = o := by
  cases o with
  | none => rfl
  | some t =>
    have ht : t ≠ "" := by
      intro e
      rw [e] at h
      simp at h
    simp [emptyToNone, strOrEmpty, ht]

theorem emptyListToNone_optListOrEmpty {α : Type} [DecidableEq α] (o : Option (List α)) (h : o ≠ some []) :
    emptyListToNone (optListOrEmpty o) = o := by
  cases o with
  | none => rfl
  | some l =>
    cases l with
    | nil => exact absurd rfl h
    | cons x xs => rfl

theorem wvCopy_map (o : Option WriterVersion) : (o.map wvCopy).map wvCopy = o := by
  cases o with
  | none => rfl
  | some w => cases w; rfl

theorem tsFromPb_tsToPb (t : Nat) (h : t < maxTimestampNanos) :
    tsFromPb (tsToPb t) = .ok (if t = 0 then none else some t) := by
  by_cases h0 : t = 0
  · simp [tsToPb, tsFromPb, h0]
  · have hn := timestamp_nonneg t h
    have hr := timestamp_roundtrip t h
    simp only [tsToPb, h0, if_false, tsFromPb, hn]
    rw [hr]

theorem basePaths_collect (m : Map Nat BasePath) (hn : keysNodup m = true)
    (hk : m.all (fun kv => kv.1 == kv.2.id) = true) :
    Map.collect ((m.map (fun kv => BasePath.toPb kv.2)).map (fun b => (b.id, BasePath.fromPb b))) = m := by
  have hm : (m.map (fun kv => BasePath.toPb kv.2)).map (fun b => (b.id, BasePath.fromPb b)) = m := by
    rw [List.map_map]
    have : ∀ kv ∈ m, ((fun b => (b.id, BasePath.fromPb b)) ∘ fun (kv : Nat × BasePath) => BasePath.toPb kv.2) kv = kv := by
      intro kv hkv
      have h1 : (kv.1 == kv.2.id) = true := all_mem hk kv hkv
      have h2 : kv.1 = kv.2.id := by simpa using h1
      obtain ⟨k, b⟩ := kv
      cases b
      simp only [Function.comp, BasePath.toPb, BasePath.fromPb] at *
      rw [← h2]
    calc m.map _ = m.map id := List.map_congr_left this
      _ = m := List.map_id m
  rw [hm]
  exact Map.collect_of_nodup m hn

/-! ## schemas -/

theorem schema_manifest_rt (s : Schema) (h : s.wfManifest = true) :
    Schema.fromFieldsWithMeta (Field.flattenList s.fields) s.metadata = .ok s := by
  cases s with
  | mk fs md =>
    simp only [Schema.wfManifest, fieldsWf, Bool.and_eq_true, decide_eq_true_eq] at h
    simp [Schema.fromFieldsWithMeta, h.1.2, Map.collect_of_nodup md h.2]

theorem schema_txn_rt (s : Schema) (h : s.wfTxn = true) :
    Schema.fromFields (Field.flattenList s.fields) = .ok s := by
  cases s with
  | mk fs md =>
    simp only [Schema.wfTxn, fieldsWf, Bool.and_eq_true, decide_eq_true_eq, List.isEmpty_iff] at h
    simp [Schema.fromFields, h.1.2, h.2]

/-- the attributes of one field (`From<&Field> for pb::Field` then `From<&pb::Field> for Field`), including the
    `ARROW:extension:name` metadata entry that is written twice -/
theorem fieldInfo_roundtrip (i : FieldInfo) (h : i.wf = true) : FieldInfo.fromPb i.toPb = i := fieldInfo_rt i h

/-- the field forest: depth-first flattening followed by the parent-id rebuild is the identity on every forest whose
    parent ids are consistent and whose ids are pairwise different and not -1 (`TreeWF`, SchemaLemmas.lean) -/
theorem schema_fields_roundtrip (fs : List Field) (h : TreeWF fs) : unflatten (Field.flattenList fs) = some fs :=
  fields_roundtrip_structural fs h

/-- so the decidable clause `fieldsWf` of the manifest / transaction predicates follows from the structural one -/
theorem schema_fieldsWf_of_treeWF (fs : List Field) (h : TreeWF fs) : fieldsWf fs = true := treeWF_fieldsWf fs h

/-- unassigned ids (all -1) do not survive: the nested field comes back as a top-level one -/
theorem schema_fields_counterexample : ¬ (∀ fs : List Field, unflatten (Field.flattenList fs) = some fs) := by
  intro h
  have := h [.mk { name := "s", id := -1, parentId := -1, logicalType := "struct", metadata := [], encoding := none,
                   nullable := true, dictionary := none, unenforcedPrimaryKey := false }
               [.mk { name := "c", id := -1, parentId := -1, logicalType := "int32", metadata := [], encoding := none,
                      nullable := true, dictionary := none, unenforcedPrimaryKey := false } []]]
  revert this
  decide

/-! ## (1) data files, deletion files, row id metadata, fragments -/

/-- every `DataFile` round-trips (`file_size_bytes` 0 is "unknown" on both sides) -/
theorem dataFile_roundtrip (d : DataFile) : DataFile.fromPb d.toPb = .ok d := dataFile_rt d

theorem deletionFile_roundtrip (d : DeletionFile) (h : d.wf = true) : DeletionFile.fromPb d.toPb = .ok d :=
  deletionFile_rt d h

/-- `RowIdMeta` and `RowDatasetVersionMeta`, inline and external -/
theorem seqMeta_roundtrip (s : SeqMeta) : SeqMeta.fromPb s.toPb = .ok s := seqMeta_rt s

theorem fragment_roundtrip (f : Fragment) (h : f.wf = true) : Fragment.fromPb f.toPb = .ok f := fragment_rt f h

def fragEx : Fragment :=
  { id := 5,
    files := [{ path := "a.lance", fields := [0, -1], columnIndices := [0, 1], fileMajorVersion := 2, fileMinorVersion := 0,
                fileSizeBytes := 0, baseId := some 3 }],
    deletionFile := some { readVersion := 1, id := two64 - 1, fileType := .bitmap, numDeletedRows := some 3, baseId := none },
    rowIdMeta := some (.inline [1, 2]), physicalRows := some 10, lastUpdatedAtVersionMeta := none,
    createdAtVersionMeta := some (.external { path := "x", offset := 1, size := 2 }) }

example : fragEx.wf = true := by decide

def fragZeroRows : Fragment :=
  { id := 0, files := [], deletionFile := none, rowIdMeta := none, physicalRows := some 0,
    lastUpdatedAtVersionMeta := none, createdAtVersionMeta := none }

/-- a fragment that records zero physical rows comes back with an unknown row count -/
theorem fragment_counterexample :
    ¬ (∀ f : Fragment, Fragment.fromPb f.toPb = .ok f) := by
  intro h
  have := congrArg Except.toOption (h fragZeroRows)
  revert this
  decide

/-! ## (2) manifests -/

theorem manifest_roundtrip (m : Manifest) (h : m.wf = true) : Manifest.fromPb m.toPb = .ok m := by
  cases m with
  | mk schema version branch wv frags aux idx ts tag rf wf maxf tf tsec offs nrow fmt cfg tmd bps =>
    simp only [Manifest.wf, Bool.and_eq_true, decide_eq_true_eq, Bool.or_eq_true, Bool.not_eq_true'] at h
    obtain ⟨⟨⟨⟨⟨⟨⟨⟨hs, hf⟩, hts⟩, htag⟩, htf⟩, hoff⟩, hstable⟩, hbn⟩, hbk⟩ := h
    have e1 := tsFromPb_tsToPb ts hts
    have e2 := fragments_rt frags hf
    have e3 := schema_manifest_rt schema hs
    have e4 := emptyToNone_strOrEmpty tag htag
    have e5 := emptyToNone_strOrEmpty tf htf
    have e6 := basePaths_collect bps hbn hbk
    have e7 := wvCopy_map wv
    have e8 : ¬ (flagStableRowIds rf = true ∧ ¬ (frags.all (fun f => f.rowIdMeta.isSome) = true)) := by
      intro hc
      cases hstable with
      | inl hl => rw [hl] at hc; exact absurd hc.1 (by simp)
      | inr hr => exact hc.2 hr
    simp only [Manifest.fromPb, Manifest.toPb, e1, e2, e3, e4, e5, e6, e7, e8, storageFormatFromPb, if_false, hoff]
    by_cases h0 : ts = 0 <;> simp [h0]

def manifestEx : Manifest :=
  { schema := { fields := [.mk { name := "s", id := 0, parentId := -1, logicalType := "struct", metadata := [], encoding := none,
                                 nullable := true, dictionary := none, unenforcedPrimaryKey := false }
                            [.mk { name := "x", id := 1, parentId := 0, logicalType := "int32",
                                   metadata := [("ARROW:extension:name", "e")], encoding := some .plain,
                                   nullable := false, dictionary := some (4, 5), unenforcedPrimaryKey := true } []]],
                metadata := [("k", "v")] },
    version := two63 + 7, branch := some "b", writerVersion := some { library := "lance", version := "1.0.0", prerelease := some "beta.1", buildMetadata := none },
    fragments := [fragEx], versionAuxData := 0, indexSection := some 99, timestampNanos := 1700000000123456789,
    tag := some "t", readerFeatureFlags := 3, writerFeatureFlags := 3, maxFragmentId := some 5, transactionFile := none,
    transactionSection := some 1, fragmentOffsets := [0, 7], nextRowId := 10,
    dataStorageFormat := { fileFormat := "lance", version := "2.0" }, config := [("a", "b")], tableMetadata := [],
    basePaths := [(3, { id := 3, name := none, isDatasetRoot := true, path := "s3://b" })] }

example : manifestEx.wf = true := by decide

/-- a manifest whose tag is the empty string comes back without a tag -/
theorem manifest_counterexample : ¬ (∀ m : Manifest, Manifest.fromPb m.toPb = .ok m) := by
  intro h
  have := congrArg Except.toOption (h { manifestEx with tag := some "" })
  revert this
  decide

/-! ## (3) index metadata -/

theorem indexMetadata_roundtrip (i : IndexMetadata) (h : i.wf = true) : IndexMetadata.fromPb i.toPb = .ok i :=
  indexMetadata_rt i h

def indexEx : IndexMetadata :=
  { uuid := [1, 2, 3, 4, 5, 6, 7, 8, 9, 10, 11, 12, 13, 14, 15, 255], fields := [1, -1], name := "idx", datasetVersion := 3,
    fragmentBitmap := some [], indexDetails := some { typeUrl := "u", value := [1] }, indexVersion := -2,
    createdAt := some (-1000000), baseId := some 1 }

example : indexEx.wf = true := by decide

/-- an empty fragment bitmap (`Some(empty)`) stays distinct from an unknown one -/
example : (IndexMetadata.fromPb indexEx.toPb).toOption.map (·.fragmentBitmap) = some (some []) := by decide

/-- `created_at` is persisted in milliseconds: a timestamp with sub-millisecond digits does not come back
    (known finding `index_created_at_submilli`) -/
theorem indexMetadata_counterexample : ¬ (∀ i : IndexMetadata, IndexMetadata.fromPb i.toPb = .ok i) := by
  intro h
  have := congrArg Except.toOption (h { indexEx with createdAt := some 1700000000123456789 })
  revert this
  decide

/-! ## MemWAL details -/

theorem memWal_roundtrip (m : MemWal) : MemWal.fromPb m.toPb = .ok m := memWal_rt m

/-! ## (4) transactions -/

theorem fieldMetadataUpdates_rt (f : Map Int UpdateMap) (h : keysNodup f = true) :
    Map.collect ((Map.collect (f.map (fun kv => (kv.1, UpdateMap.toPb kv.2)))).map (fun kv => (kv.1, UpdateMap.fromPb kv.2))) = f := by
  have h1 : keysNodup (f.map (fun kv => (kv.1, UpdateMap.toPb kv.2))) = true := by
    rw [keysNodup_map_snd]; exact h
  rw [Map.collect_of_nodup _ h1, List.map_map]
  have : (f.map ((fun (kv : Int × UpdateMap) => (kv.1, UpdateMap.fromPb kv.2)) ∘ fun kv => (kv.1, UpdateMap.toPb kv.2))) = f := by
    calc _ = f.map id := List.map_congr_left (fun kv _ => by
            obtain ⟨k, u⟩ := kv
            simp [Function.comp, updateMap_rt])
      _ = f := List.map_id f
  rw [this]
  exact Map.collect_of_nodup f h

theorem optUpdateMap_rt (o : Option UpdateMap) : (o.map UpdateMap.toPb).map UpdateMap.fromPb = o := by
  cases o with
  | none => rfl
  | some u => simp [updateMap_rt]

theorem basePaths_map_rt (bs : List BasePath) : (bs.map BasePath.toPb).map BasePath.fromPb = bs := by
  rw [List.map_map]
  calc _ = bs.map id := List.map_congr_left (fun b _ => by simp [Function.comp, basePath_rt])
    _ = bs := List.map_id bs

theorem operation_roundtrip (op : Operation) (h : op.wf = true) : Operation.fromPb op.toPb = .ok op := by
  cases op with
  | append fs =>
    simp only [Operation.wf] at h
    simp [Operation.fromPb, Operation.toPb, fragments_rt fs h]
  | delete u d p =>
    simp only [Operation.wf] at h
    simp [Operation.fromPb, Operation.toPb, fragments_rt u h]
  | overwrite fs s cfg bases =>
    simp only [Operation.wf, Bool.and_eq_true, bne_iff_ne, ne_eq] at h
    obtain ⟨⟨⟨hf, hs⟩, hc⟩, hb⟩ := h
    have e1 := fragments_rt fs hf
    have e2 := schema_txn_rt s hs
    have e3 := emptyListToNone_optListOrEmpty cfg hc
    have e4 : (emptyListToNone (optListOrEmpty (bases.map (List.map BasePath.toPb)))).map (List.map BasePath.fromPb) = bases := by
      cases bases with
      | none => rfl
      | some bs =>
        cases bs with
        | nil => exact absurd rfl hb
        | cons x xs =>
          have := basePaths_map_rt (x :: xs)
          simp only [List.map_cons] at this
          simp only [Option.map, optListOrEmpty, emptyListToNone, List.map_cons, List.isEmpty_cons, Bool.false_eq_true,
            if_false, this]
    simp only [Operation.fromPb, Operation.toPb, e1, e2, e3, e4]
  | createIndex n r =>
    simp only [Operation.wf, Bool.and_eq_true] at h
    simp [Operation.fromPb, Operation.toPb, indices_rt n h.1, indices_rt r h.2]
  | rewrite gs ris fri =>
    simp only [Operation.wf, Bool.and_eq_true, Bool.not_eq_true', Option.isNone_iff_eq_none] at h
    obtain ⟨⟨⟨hne, hg⟩, hr⟩, hfri⟩ := h
    have e1 : mapE RewriteGroup.fromPb (gs.map RewriteGroup.toPb) = .ok gs :=
      mapE_map_ok _ _ gs (fun x hx => rewriteGroup_rt x (all_mem hg x hx))
    have e2 : mapE RewrittenIndex.fromPb (ris.map RewrittenIndex.toPb) = .ok ris :=
      mapE_map_ok _ _ ris (fun x hx => rewrittenIndex_rt x (all_mem hr x hx))
    have e3 : ¬ ((gs.map RewriteGroup.toPb).isEmpty = true) := by
      cases gs with
      | nil => simp at hne
      | cons x xs => simp
    simp only [Operation.fromPb, Operation.toPb, e1, e2, e3, hfri]
    simp
  | dataReplacement rs =>
    have e1 : mapE DataReplacementGroup.fromPb (rs.map DataReplacementGroup.toPb) = .ok rs :=
      mapE_map_ok _ _ rs (fun x _ => dataReplacementGroup_rt x)
    simp [Operation.fromPb, Operation.toPb, e1]
  | merge fs s =>
    simp only [Operation.wf, Bool.and_eq_true] at h
    simp [Operation.fromPb, Operation.toPb, fragments_rt fs h.1, schema_txn_rt s h.2]
  | restore v => rfl
  | reserveFragments n => rfl
  | update r u n fm mw fp um =>
    simp only [Operation.wf, Bool.and_eq_true] at h
    obtain ⟨⟨hu, hn⟩, hm⟩ := h
    have e1 := fragments_rt u hu
    have e2 := fragments_rt n hn
    have e3 : optE MemWal.fromPbUnwrap (mw.map MemWal.toPb) = .ok mw :=
      optE_map_ok _ _ mw (fun x _ => memWal_rt' x)
    cases um with
    | none => simp at hm
    | some m => cases m <;> simp [Operation.fromPb, Operation.toPb, e1, e2, e3]
  | project s =>
    simp only [Operation.wf] at h
    simp [Operation.fromPb, Operation.toPb, schema_txn_rt s h]
  | updateConfig c t s f =>
    simp only [Operation.wf] at h
    have e1 := fieldMetadataUpdates_rt f h
    simp only [Operation.fromPb, Operation.toPb, updateConfigFromPb, List.isEmpty_nil, not_true_eq_false, or_self,
      and_false, if_false, optUpdateMap_rt, e1]
  | updateMemWalState a u r =>
    simp [Operation.fromPb, Operation.toPb, memWals_rt]
  | clone a b c d e => rfl
  | updateBases bs =>
    have := basePaths_map_rt bs
    rw [List.map_map] at this
    simpa [Operation.fromPb, Operation.toPb] using this

/-- transactions of every operation type -/
theorem transaction_roundtrip (t : Transaction) (h : t.wf = true) : Transaction.fromPb t.toPb = .ok t := by
  cases t with
  | mk rv uuid op tag props =>
    simp only [Transaction.wf, Bool.and_eq_true, bne_iff_ne, ne_eq] at h
    obtain ⟨⟨hop, htag⟩, hp⟩ := h
    have e1 := operation_roundtrip op hop
    have e2 := emptyToNone_strOrEmpty tag (by simpa using htag)
    have e3 := emptyListToNone_optListOrEmpty props hp
    simp only [Transaction.fromPb, Transaction.toPb, e1, e2, e3]

def schemaEx : Schema :=
  { fields := [.mk { name := "a", id := 0, parentId := -1, logicalType := "list", metadata := [], encoding := none, nullable := true,
                     dictionary := none, unenforcedPrimaryKey := false }
                 [.mk { name := "item", id := 1, parentId := 0, logicalType := "int32", metadata := [], encoding := some .plain,
                        nullable := true, dictionary := none, unenforcedPrimaryKey := false } []],
               .mk { name := "b", id := 2, parentId := -1, logicalType := "string", metadata := [("m", "1")], encoding := some .varBinary,
                     nullable := false, dictionary := none, unenforcedPrimaryKey := false } []],
    metadata := [] }

example : TreeWF schemaEx.fields := by unfold TreeWF; decide

def txnEx (op : Operation) : Transaction :=
  { readVersion := 3, uuid := "u-1", operation := op, tag := some "t", transactionProperties := some [("k", "v")] }

example : (txnEx (.overwrite [fragEx] schemaEx (some [("lance.auto_cleanup.interval", "20")])
            (some [{ id := 1, name := some "n", isDatasetRoot := false, path := "p" }]))).wf = true := by decide
example : (txnEx (.rewrite [{ oldFragments := [fragEx], newFragments := [] }]
            [{ oldId := indexEx.uuid, newId := indexEx.uuid, newIndexDetails := { typeUrl := "x", value := [] }, newIndexVersion := 1 }]
            none)).wf = true := by decide
example : (txnEx (.update [1] [fragEx] [] [2] none [3] (some .rewriteColumns))).wf = true := by decide
example : (txnEx (.createIndex [indexEx] [])).wf = true := by decide
example : (txnEx (.updateConfig (some { updateEntries := [("a", some "1"), ("b", none)], replace := false }) none none
            [(-1, { updateEntries := [], replace := true })])).wf = true := by decide

/-- `Rewrite::frag_reuse_index` is not written to the message (known finding `txn_rewrite_frag_reuse_index`) -/
theorem transaction_counterexample_frag_reuse :
    ¬ (∀ t : Transaction, Transaction.fromPb t.toPb = .ok t) := by
  intro h
  have := congrArg Except.toOption (h (txnEx (.rewrite [{ oldFragments := [], newFragments := [] }] [] (some indexEx))))
  revert this
  decide

/-- schema metadata inside Overwrite / Merge / Project is not written (known finding `txn_schema_metadata`) -/
theorem transaction_counterexample_schema_metadata :
    ¬ (∀ t : Transaction, Transaction.fromPb t.toPb = .ok t) := by
  intro h
  have := congrArg Except.toOption (h (txnEx (.project { schemaEx with metadata := [("k", "v")] })))
  revert this
  decide

/-! ## (5) row id sequences and row version sequences -/

theorem encArray_roundtrip (a : EncArray) (h : a.wf = true) : EncArray.fromPb a.toPb = .ok a := encArray_rt a h

theorem segment_roundtrip (s : Seg) (h : s.wf = true) : Seg.fromPb s.toPb = .ok s := seg_rt s h

/-- `read_row_ids (write_row_ids s) = s` (up to prost) -/
theorem rowIdSequence_roundtrip (s : List Seg) (h : s.all Seg.wf = true) : seqFromPb (seqToPb s) = .ok s :=
  mapE_map_ok _ _ s (fun x hx => seg_rt x (all_mem h x hx))

/-- `read_dataset_versions (write_dataset_versions s) = s` (up to prost) -/
theorem versionSequence_roundtrip (rs : List (Seg × Nat)) (h : rs.all (fun r => r.1.wf) = true) :
    runsFromPb (runsToPb rs) = .ok rs := by
  unfold runsFromPb runsToPb
  apply mapE_map_ok
  intro r hr
  have := seg_rt r.1 (all_mem h r hr)
  simp [this]

example : ([Seg.range 0 20, .holes 100 200 (.u64 [104, 108, 150]), .bitmap 200 300 (List.replicate 13 0) 100,
            .sorted (.u16 200 [1, 2, 65535]), .array (.u32 7 [4294967295, 0])].all Seg.wf) = true := by decide

/-- a bitmap segment whose `len` differs from `end - start` does not come back -/
theorem segment_counterexample : ¬ (∀ s : Seg, Seg.fromPb s.toPb = .ok s) := by
  intro h
  have := congrArg Except.toOption (h (.bitmap 0 8 [255] 7))
  revert this
  decide

/-! ## (6) tag and branch files -/

theorem tag_json_roundtrip (t : TagContents) : TagContents.fromJson t.toJson = some t := by
  cases t with
  | mk b v m => cases b <;> rfl

theorem branch_json_roundtrip (b : BranchContents) : BranchContents.fromJson b.toJson = some b := by
  cases b with
  | mk p v c m => cases p <;> rfl

/-! ## the property at full strength -/

/-- C32 as stated, over all values of the modelled types -/
def C32_full : Prop :=
  (∀ d : DataFile, DataFile.fromPb d.toPb = .ok d) ∧
  (∀ d : DeletionFile, DeletionFile.fromPb d.toPb = .ok d) ∧
  (∀ f : Fragment, Fragment.fromPb f.toPb = .ok f) ∧
  (∀ m : Manifest, Manifest.fromPb m.toPb = .ok m) ∧
  (∀ i : IndexMetadata, IndexMetadata.fromPb i.toPb = .ok i) ∧
  (∀ m : MemWal, MemWal.fromPb m.toPb = .ok m) ∧
  (∀ t : Transaction, Transaction.fromPb t.toPb = .ok t) ∧
  (∀ s : List Seg, seqFromPb (seqToPb s) = .ok s) ∧
  (∀ rs : List (Seg × Nat), runsFromPb (runsToPb rs) = .ok rs) ∧
  (∀ t : TagContents, TagContents.fromJson t.toJson = some t) ∧
  (∀ b : BranchContents, BranchContents.fromJson b.toJson = some b)

/-- what the code does meet: the same statement restricted to well-formed values -/
theorem C32_partial :
    (∀ d : DataFile, DataFile.fromPb d.toPb = .ok d) ∧
    (∀ d : DeletionFile, d.wf = true → DeletionFile.fromPb d.toPb = .ok d) ∧
    (∀ f : Fragment, f.wf = true → Fragment.fromPb f.toPb = .ok f) ∧
    (∀ m : Manifest, m.wf = true → Manifest.fromPb m.toPb = .ok m) ∧
    (∀ i : IndexMetadata, i.wf = true → IndexMetadata.fromPb i.toPb = .ok i) ∧
    (∀ m : MemWal, MemWal.fromPb m.toPb = .ok m) ∧
    (∀ t : Transaction, t.wf = true → Transaction.fromPb t.toPb = .ok t) ∧
    (∀ s : List Seg, s.all Seg.wf = true → seqFromPb (seqToPb s) = .ok s) ∧
    (∀ rs : List (Seg × Nat), rs.all (fun r => r.1.wf) = true → runsFromPb (runsToPb rs) = .ok rs) ∧
    (∀ t : TagContents, TagContents.fromJson t.toJson = some t) ∧
    (∀ b : BranchContents, BranchContents.fromJson b.toJson = some b) :=
  ⟨dataFile_roundtrip, deletionFile_roundtrip, fragment_roundtrip, manifest_roundtrip, indexMetadata_roundtrip,
   memWal_roundtrip, transaction_roundtrip, rowIdSequence_roundtrip, versionSequence_roundtrip, tag_json_roundtrip,
   branch_json_roundtrip⟩

theorem C32_full_counterexample : ¬ C32_full := fun h => indexMetadata_counterexample h.2.2.2.2.1

end LanceModel.C32
