import LanceModel.C17Base.StepLemmas
/-
C17 helper lemmas, layer 3: where every visible row of the new version comes from, and the history invariant
(row ids below `next_row_id` in every version, no id twice in a version, fragment ids distinct).
-/
namespace LanceModel.C17Base
open LanceModel.Table List

def rids (l : List PRow) : List Nat := l.map (·.rid)

/-! ### membership in the Update arm's new rows -/

theorem mem_updatedRowsOf {frags : List Frag} {v : Nat} {p : Pred} {y : Int} {r' : PRow}
    (h : r' ∈ updatedRowsOf frags v p y) :
    ∃ r ∈ liveOf frags, predHit p r = true ∧ r'.rid = r.rid ∧ r'.updated = v ∧ r'.created = lookupCreated frags r.rid := by
  unfold updatedRowsOf at h
  obtain ⟨r, hr, rfl⟩ := List.mem_map.mp h
  obtain ⟨hr1, hr2⟩ := List.mem_filter.mp hr
  exact ⟨r, hr1, hr2, rfl, rfl, rfl⟩

theorem upsertHit_of_joins {src : List Row} {s : Row} {r : PRow} (hs : s ∈ src) (hj : joins s r = true) :
    upsertHit src r = true := by
  unfold joins at hj
  cases hk : keyOf s with
  | none => simp [hk] at hj
  | some k =>
    simp only [hk] at hj
    have hrk : keyOf r.cells = some k := by simpa using hj
    unfold upsertHit sourceFor
    rw [hrk]
    simp only
    cases hf : List.find? (fun s => keyOf s == some k) src with
    | some x => rfl
    | none =>
      have := List.find?_eq_none.mp hf s hs
      simp [hk] at this

theorem mem_upsertMoved {frags : List Frag} {v : Nat} {src : List Row} {r' : PRow}
    (h : r' ∈ upsertMoved frags v src) :
    ∃ r ∈ liveOf frags, upsertHit src r = true ∧ r'.rid = r.rid ∧ r'.updated = v ∧ r'.created = lookupCreated frags r.rid := by
  unfold upsertMoved at h
  obtain ⟨s, hs, he⟩ := List.mem_filterMap.mp h
  cases hf : List.find? (joins s) (liveOf frags) with
  | none => simp [hf] at he
  | some r =>
    simp only [hf, Option.some.injEq] at he
    subst he
    exact ⟨r, List.mem_of_find?_eq_some hf, upsertHit_of_joins hs (List.find?_some hf), rfl, rfl, rfl⟩

theorem mem_insertedRowsOf {frags : List Frag} {v next k : Nat} {rows : List Row} {r' : PRow}
    (h : r' ∈ insertedRowsOf frags v next k rows) :
    next ≤ r'.rid ∧ r'.rid < next + rows.length ∧ r'.updated = v ∧ r'.created = lookupCreated frags r'.rid := by
  induction rows generalizing next with
  | nil => simp [insertedRowsOf] at h
  | cons s ss ih =>
    simp only [insertedRowsOf, List.mem_cons] at h
    rcases h with h | h
    · subst h; simp [movedRow]
    · obtain ⟨a, b, c, d⟩ := ih h
      simp only [List.length_cons]
      exact ⟨by omega, by omega, c, d⟩

theorem rids_updatedRowsOf (frags : List Frag) (v : Nat) (p : Pred) (y : Int) :
    rids (updatedRowsOf frags v p y) = rids ((liveOf frags).filter (predHit p)) := by
  simp [rids, updatedRowsOf, movedRow, List.map_map, Function.comp_def]

theorem rids_insertedRowsOf (frags : List Frag) (v next k : Nat) (rows : List Row) :
    (rids (insertedRowsOf frags v next k rows)).Nodup := by
  induction rows generalizing next with
  | nil => simp [insertedRowsOf, rids]
  | cons s ss ih =>
    simp only [insertedRowsOf, rids, List.map_cons, List.nodup_cons]
    refine ⟨?_, ih _⟩
    intro hm
    obtain ⟨r, hr, he⟩ := List.mem_map.mp hm
    have := mem_insertedRowsOf hr
    simp only [movedRow] at he
    omega

theorem rids_patch (v : Nat) (src : List Row) (l : List PRow) : rids (l.map (patchRow v src)) = rids l := by
  simp only [rids, List.map_map]
  apply List.map_congr_left
  intro r _
  simp only [Function.comp]
  unfold patchRow
  split
  · rfl
  · split <;> rfl

/-! ### where a visible row of the new version comes from -/

/-- the operation sends the rows it touches through the Update arm's new fragments (update; full-schema upsert) -/
def movesRows (m : Manifest) (op : Op) : Bool :=
  match op with
  | .update _ _ => true
  | .upsert rows => (rows.head?.map List.length) == some m.k
  | _ => false

/-- provenance of a row of `liveAfter m op` -/
inductive Origin (m : Manifest) (op : Op) (r' : PRow) : Prop where
  /-- carried over unchanged -/
  | kept : r' ∈ live m → touches op r' = false → Origin m op r'
  /-- written by Append / Overwrite with a fresh id -/
  | fresh : m.nextRowId ≤ r'.rid → r'.rid < nextAfter m op → r'.created = pubVersion m op → r'.updated = pubVersion m op →
      Origin m op r'
  /-- an updated row re-written into a new fragment of the Update arm -/
  | moved (r : PRow) : movesRows m op = true → r ∈ live m → touches op r = true → r'.rid = r.rid →
      r'.updated = pubVersion m op → r'.created = lookupCreated m.frags r.rid → Origin m op r'
  /-- a row inserted by merge_insert: fresh id, but written through the Update arm -/
  | inserted (rows : List Row) : op = .upsert rows → m.nextRowId ≤ r'.rid → r'.rid < nextAfter m op →
      r'.updated = pubVersion m op →
      r'.created = lookupCreated m.frags r'.rid → Origin m op r'
  /-- a row whose column was rewritten in place -/
  | patched (r : PRow) : r ∈ live m → touches op r = true → r'.rid = r.rid → r'.created = r.created →
      r'.updated = pubVersion m op → Origin m op r'

theorem origin_of_mem (m : Manifest) (op : Op) (r' : PRow) (h : r' ∈ liveAfter m op) : Origin m op r' := by
  cases op with
  | create f k rows => exact .kept h rfl
  | append f rows =>
    simp only [liveAfter, List.mem_append] at h
    rcases h with h | h
    · exact .kept h rfl
    · obtain ⟨a, b, c, d, _⟩ := mem_numberRows h
      exact .fresh a (by simpa [nextAfter] using b) c d
  | overwrite f rows =>
    simp only [liveAfter] at h
    obtain ⟨a, b, c, d, _⟩ := mem_numberRows h
    exact .fresh a (by simpa [nextAfter] using b) c d
  | delete p =>
    simp only [liveAfter, List.mem_filter] at h
    exact .kept h.1 rfl
  | update p y =>
    simp only [liveAfter, List.mem_append, List.mem_filter] at h
    rcases h with h | h
    · exact .kept h.1 (by simpa [touches] using h.2)
    · obtain ⟨r, hr, hp, a, b, c⟩ := mem_updatedRowsOf h
      exact .moved r rfl hr (by simpa [touches] using hp) a b c
  | upsert rows =>
    simp only [liveAfter] at h
    split at h
    · cases h
    split at h
    · rename_i hfull
      simp only [List.mem_append, List.mem_filter] at h
      rcases h with h | h | h
      · exact .kept h.1 (by simpa [touches] using h.2)
      · obtain ⟨r, hr, hp, a, b, c⟩ := mem_upsertMoved h
        exact .moved r (by simp [movesRows, hfull]) hr (by simpa [touches] using hp) a b c
      · obtain ⟨a, b, c, d⟩ := mem_insertedRowsOf h
        exact .inserted rows rfl a (by simpa [nextAfter] using b) c d
    · simp only [List.mem_append, List.mem_map] at h
      rcases h with ⟨r, hr, rfl⟩ | h
      · have hd : r.deleted = false := deleted_of_mem_liveOf hr
        unfold patchRow
        simp only [hd, Bool.false_eq_true, if_false]
        cases hs : sourceFor rows (keyOf r.cells) with
        | none => exact .kept hr (by simp [touches, upsertHit, hs])
        | some s => exact .patched r hr (by simp [touches, upsertHit, hs]) rfl rfl rfl
      · obtain ⟨a, b, c, d⟩ := mem_insertedRowsOf h
        exact .inserted rows rfl a (by simpa [nextAfter] using b) c d
  | compact t mat => exact .kept h rfl

theorem nextAfter_ge (m : Manifest) (op : Op) : m.nextRowId ≤ nextAfter m op := by
  cases op <;> simp [nextAfter]

/-- every id of the new version is below the new `next_row_id` -/
theorem liveAfter_bound (m : Manifest) (op : Op) (hb : ∀ r ∈ live m, r.rid < m.nextRowId) :
    ∀ r' ∈ liveAfter m op, r'.rid < nextAfter m op := by
  intro r' h
  have hge := nextAfter_ge m op
  cases origin_of_mem m op r' h with
  | kept a _ => have := hb r' a; omega
  | fresh _ b _ _ => exact b
  | moved r _ a _ c _ _ => have := hb r a; omega
  | inserted _ _ _ b _ _ => exact b
  | patched r a _ c _ _ => have := hb r a; omega

theorem nodup_append_fresh {a b : List Nat} {n : Nat} (ha : a.Nodup) (hlt : ∀ x ∈ a, x < n) (hb : b.Nodup)
    (hge : ∀ x ∈ b, n ≤ x) : (a ++ b).Nodup := by
  apply List.nodup_append.mpr
  refine ⟨ha, hb, ?_⟩
  intro x hx y hy
  have := hlt x hx
  have := hge y hy
  omega

theorem rids_filter_split (p : PRow → Bool) (l : List PRow) :
    (rids (l.filter fun r => !p r) ++ rids (l.filter p)).Perm (rids l) := by
  have h := (List.filter_append_perm p l)
  have h2 : (l.filter (fun r => !p r) ++ l.filter p).Perm l := List.perm_append_comm.trans h
  simpa [rids] using h2.map (·.rid)

/-- in a list without repeated ids, a row is determined by its id -/
theorem eq_of_rid_eq {l : List PRow} (hn : (rids l).Nodup) {a b : PRow} (ha : a ∈ l) (hb : b ∈ l) (h : a.rid = b.rid) :
    a = b := by
  induction l with
  | nil => cases ha
  | cons x xs ih =>
    simp only [rids, List.map_cons, List.nodup_cons] at hn
    rcases List.mem_cons.mp ha with rfl | ha' <;> rcases List.mem_cons.mp hb with rfl | hb'
    · rfl
    · exact absurd (List.mem_map.mpr ⟨b, hb', h.symm⟩) hn.1
    · exact absurd (List.mem_map.mpr ⟨a, ha', h⟩) hn.1
    · exact ih hn.2 ha' hb'

theorem key_of_joins {s : Row} {r : PRow} (h : joins s r = true) : keyOf r.cells = keyOf s := by
  unfold joins at h
  split at h
  · cases h
  · simpa using h

/-- distinct source keys join distinct target rows -/
theorem upsertMoved_nodup (frags : List Frag) (v : Nat) (src : List Row) (hn : (rids (liveOf frags)).Nodup)
    (hd : distinctKeys src = true) : (rids (upsertMoved frags v src)).Nodup := by
  induction src with
  | nil => simp [upsertMoved, rids]
  | cons s ss ih =>
    simp only [distinctKeys, Bool.and_eq_true, Bool.not_eq_true'] at hd
    have ih' := ih hd.2
    unfold upsertMoved at ih' ⊢
    simp only [List.filterMap_cons]
    cases hf : List.find? (joins s) (liveOf frags) with
    | none => simpa [hf] using ih'
    | some r =>
      simp only [rids, List.map_cons, List.nodup_cons]
      refine ⟨?_, ih'⟩
      intro hm
      obtain ⟨r2', hr2', he⟩ := List.mem_map.mp hm
      obtain ⟨s2, hs2, he2⟩ := List.mem_filterMap.mp hr2'
      cases hf2 : List.find? (joins s2) (liveOf frags) with
      | none => simp [hf2] at he2
      | some r2 =>
        simp only [hf2, Option.some.injEq] at he2
        subst he2
        simp only [movedRow] at he
        have : r2 = r := eq_of_rid_eq hn (List.mem_of_find?_eq_some hf2) (List.mem_of_find?_eq_some hf) he
        subst this
        have k1 := key_of_joins (List.find?_some hf)
        have k2 := key_of_joins (List.find?_some hf2)
        have : (ss.any fun x => keyOf x == keyOf s) = true :=
          List.any_eq_true.mpr ⟨s2, hs2, by rw [← k2, k1]; simp⟩
        rw [hd.1] at this
        cases this

/-- no id twice in the new version -/
theorem liveAfter_nodup (m : Manifest) (op : Op) (hb : ∀ r ∈ live m, r.rid < m.nextRowId)
    (hn : (rids (live m)).Nodup) : (rids (liveAfter m op)).Nodup := by
  have hlt : ∀ x ∈ rids (live m), x < m.nextRowId := by
    intro x hx
    obtain ⟨r, hr, rfl⟩ := List.mem_map.mp hx
    exact hb r hr
  cases op with
  | create f k rows => exact hn
  | append f rows =>
    simp only [liveAfter, rids, List.map_append]
    refine nodup_append_fresh hn hlt (numberRows_nodup _ _ _) ?_
    intro x hx
    obtain ⟨r, hr, rfl⟩ := List.mem_map.mp hx
    exact (mem_numberRows hr).1
  | overwrite f rows => exact numberRows_nodup _ _ _
  | delete p =>
    simp only [liveAfter]
    exact hn.sublist ((List.filter_sublist).map _)
  | update p y =>
    simp only [liveAfter, rids, List.map_append]
    have := rids_updatedRowsOf m.frags (m.version + 1) p y
    simp only [rids] at this
    rw [this]
    exact (rids_filter_split (predHit p) (live m)).nodup_iff.mpr hn
  | upsert rows =>
    simp only [liveAfter]
    split
    · simp [rids]
    · rename_i hkeys
      have hkeys' : keysOk rows = true := by simpa using hkeys
      have hdist : distinctKeys rows = true := by
        unfold keysOk at hkeys'
        simp only [Bool.and_eq_true] at hkeys'
        exact hkeys'.2
      split
      · simp only [rids, List.map_append]
        rw [← List.append_assoc]
        refine nodup_append_fresh (n := m.nextRowId) ?_ ?_ (rids_insertedRowsOf _ _ _ _ _) ?_
        · apply List.nodup_append.mpr
          refine ⟨hn.sublist ((List.filter_sublist).map _), upsertMoved_nodup _ _ _ hn hdist, ?_⟩
          intro a ha b hb hab
          obtain ⟨k, hk, rfl⟩ := List.mem_map.mp ha
          obtain ⟨r', hr', rfl⟩ := List.mem_map.mp hb
          obtain ⟨hk1, hk2⟩ := List.mem_filter.mp hk
          obtain ⟨r, hr, hit, hid, _, _⟩ := mem_upsertMoved hr'
          have : k = r := eq_of_rid_eq hn hk1 hr (by rw [hab, hid])
          subst this
          rw [hit] at hk2
          cases hk2
        · intro x hx
          rcases List.mem_append.mp hx with hx | hx
          · obtain ⟨k, hk, rfl⟩ := List.mem_map.mp hx
            exact hb k (List.mem_filter.mp hk).1
          · obtain ⟨r', hr', rfl⟩ := List.mem_map.mp hx
            obtain ⟨r, hr, _, hid, _, _⟩ := mem_upsertMoved hr'
            rw [hid]
            exact hb r hr
        · intro x hx
          obtain ⟨r, hr, rfl⟩ := List.mem_map.mp hx
          exact (mem_insertedRowsOf hr).1
      · have h1 := rids_patch (m.version + 1) rows (live m)
        simp only [rids, List.map_append] at h1 ⊢
        rw [h1]
        refine nodup_append_fresh hn hlt (rids_insertedRowsOf _ _ _ _ _) ?_
        intro x hx
        obtain ⟨r, hr, rfl⟩ := List.mem_map.mp hx
        exact (mem_insertedRowsOf hr).1
  | compact t mat => exact hn

/-! ### the history invariant -/

theorem rids_nodup_perm {a b : List PRow} (h : a.Perm b) : (rids a).Nodup ↔ (rids b).Nodup :=
  (h.map (fun r : PRow => r.rid)).nodup_iff

def Inv : Hist → Prop
  | [] => True
  | m :: h =>
    FragOk m ∧ (∀ m1 ∈ m :: h, ∀ r ∈ live m1, r.rid < m.nextRowId) ∧ (∀ m1 ∈ m :: h, (rids (live m1)).Nodup)

theorem inv_step (h : Hist) (op : Op) (hi : Inv h) : Inv (step h op).1 := by
  cases h with
  | nil =>
    rcases step_nil op with h0 | ⟨f, k, rows, _, _, m', hm', _, hok, hnext, hperm⟩
    · rw [h0]; trivial
    · rw [hm']
      refine ⟨hok, ?_, ?_⟩
      · intro m1 hm1 r hr
        simp only [List.mem_singleton] at hm1
        subst hm1
        have := mem_numberRows (hperm.mem_iff.mp hr)
        omega
      · intro m1 hm1
        simp only [List.mem_singleton] at hm1
        subst hm1
        exact (rids_nodup_perm hperm).mpr (numberRows_nodup _ _ _)
  | cons m h =>
    obtain ⟨hok, hb, hn⟩ := hi
    rcases step_cons m h op hok with h0 | ⟨m', hm', _, hok', hnext, hperm⟩
    · rw [h0]; exact ⟨hok, hb, hn⟩
    · rw [hm']
      have hbm : ∀ r ∈ live m, r.rid < m.nextRowId := hb m (List.mem_cons_self ..)
      have hge := nextAfter_ge m op
      refine ⟨hok', ?_, ?_⟩
      · intro m1 hm1 r hr
        rw [hnext]
        rcases List.mem_cons.mp hm1 with rfl | hm1
        · exact liveAfter_bound m op hbm r (hperm.mem_iff.mp hr)
        · rcases List.mem_append.mp hm1 with hmid | hm1
          · rw [(live_midOf m op m1 hmid).1] at hr
            have := hbm r hr
            omega
          · have := hb m1 hm1 r hr
            omega
      · intro m1 hm1
        rcases List.mem_cons.mp hm1 with rfl | hm1
        · exact (rids_nodup_perm hperm).mpr (liveAfter_nodup m op hbm (hn m (List.mem_cons_self ..)))
        · rcases List.mem_append.mp hm1 with hmid | hm1
          · rw [(live_midOf m op m1 hmid).1]
            exact hn m (List.mem_cons_self ..)
          · exact hn m1 hm1

theorem inv_runFrom (h : Hist) (ops : List Op) (hi : Inv h) : Inv (runFrom h ops) := by
  induction ops generalizing h with
  | nil => exact hi
  | cons op ops ih => exact ih _ (inv_step h op hi)

theorem inv_run (ops : List Op) : Inv (run ops) := inv_runFrom [] ops trivial

end LanceModel.C17Base
