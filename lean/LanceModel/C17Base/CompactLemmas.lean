import LanceModel.C17Base.LiveLemmas
/-
C17 helper lemmas: fragment ids stay distinct and below the high-water mark; the compaction planner only regroups
fragments; a compaction permutes the visible rows.
-/
namespace LanceModel.C17Base
open LanceModel.Table List

/-! ### fragment ids -/

def fragIds (frags : List Frag) : List Nat := frags.map (·.id)

theorem fragIds_assign (start : Nat) (fs : List (List PRow)) :
    ∀ x ∈ fragIds (assignFragIds start fs), start ≤ x ∧ x < start + fs.length := by
  induction fs generalizing start with
  | nil => simp [assignFragIds, fragIds]
  | cons f fs ih =>
    intro x hx
    simp only [assignFragIds, fragIds, List.map_cons, List.mem_cons] at hx
    rcases hx with hx | hx
    · subst hx; simp
    · have := ih (start + 1) x hx
      simp only [List.length_cons]; omega

theorem fragIds_assign_nodup (start : Nat) (fs : List (List PRow)) : (fragIds (assignFragIds start fs)).Nodup := by
  induction fs generalizing start with
  | nil => simp [assignFragIds, fragIds]
  | cons f fs ih =>
    simp only [assignFragIds, fragIds, List.map_cons, List.nodup_cons]
    refine ⟨?_, ih _⟩
    intro hm
    have := fragIds_assign (start + 1) fs start hm
    omega

theorem maxIdOf_bound : ∀ (frags : List Frag), frags ≠ [] → ∃ m, maxIdOf frags = some m ∧ ∀ f ∈ frags, f.id ≤ m := by
  intro frags
  induction frags with
  | nil => intro h; exact absurd rfl h
  | cons f fs ih =>
    intro _
    by_cases hfs : fs = []
    · subst hfs; exact ⟨f.id, by simp [maxIdOf], by simp⟩
    · obtain ⟨m, hm, hb⟩ := ih hfs
      refine ⟨max f.id m, by simp [maxIdOf, hm], ?_⟩
      intro g hg
      simp only [List.mem_cons] at hg
      rcases hg with hg | hg
      · subst hg; omega
      · have := hb g hg; omega

theorem updateMax_bound (hw : Option Nat) (frags : List Frag) :
    startId hw ≤ startId (updateMax hw frags) ∧ ∀ f ∈ frags, f.id < startId (updateMax hw frags) := by
  by_cases hf : frags = []
  · subst hf; simp [updateMax, maxIdOf]
  · obtain ⟨m, hm, hb⟩ := maxIdOf_bound frags hf
    unfold updateMax
    rw [hm]
    cases hw with
    | none =>
      refine ⟨by simp [startId], ?_⟩
      intro f hfm; have := hb f hfm; simp [startId]; omega
    | some h =>
      simp only
      split
      · refine ⟨by simp [startId]; omega, ?_⟩
        intro f hfm; have := hb f hfm; simp [startId]; omega
      · refine ⟨by simp [startId], ?_⟩
        intro f hfm; have := hb f hfm; simp [startId]; omega

theorem fragIds_markFrags_sub (hit : PRow → Bool) (frags : List Frag) :
    (fragIds (markFrags hit frags)).Sublist (fragIds frags) := by
  induction frags with
  | nil => simp [markFrags, fragIds]
  | cons f fs ih =>
    have ih' : (List.map (fun x => x.id) (List.filterMap (markFrag hit) fs)).Sublist (List.map (fun x => x.id) fs) := ih
    simp only [markFrags, fragIds, List.filterMap_cons]
    by_cases hall : (f.rows.map (markRow hit)).all (·.deleted) = true
    · simp only [markFrag, hall, if_true, List.map_cons]; exact List.Sublist.cons _ ih'
    · simp only [markFrag, hall, Bool.false_eq_true, if_false, List.map_cons]; exact List.Sublist.cons_cons _ ih'

theorem fragIds_patchFrags (v : Nat) (src : List Row) (frags : List Frag) :
    fragIds (patchFrags v src frags) = fragIds frags := by
  simp [fragIds, patchFrags, List.map_map, Function.comp_def]

/-! ### the planner regroups fragments -/

theorem takeForSize_append (t : Nat) : ∀ (acc : Nat) (b : List Frag), (takeForSize t acc b).1 ++ (takeForSize t acc b).2 = b := by
  intro acc b
  induction b generalizing acc with
  | nil => simp [takeForSize]
  | cons f fs ih =>
    unfold takeForSize
    split
    · simp [ih]
    · simp

theorem splitForSize_flatten (t : Nat) : ∀ (fuel : Nat) (b : List Frag), (splitForSize t fuel b).flatten = b := by
  intro fuel
  induction fuel with
  | zero => intro b; simp [splitForSize]
  | succ n ih =>
    intro b
    unfold splitForSize
    split
    · simp only [List.flatten_cons, ih]; exact takeForSize_append t 0 b
    · simp

theorem binsGo_sublist (t : Nat) (mat : Bool) :
    ∀ (frags cur : List Frag), (binsGo t mat frags cur).flatten.Sublist (cur.reverse ++ frags) := by
  intro frags
  induction frags with
  | nil =>
    intro cur
    unfold binsGo
    split <;> simp
  | cons f fs ih =>
    intro cur
    unfold binsGo
    split
    · have := ih (f :: cur)
      simpa using this
    · split
      · have := ih []
        simp only [List.reverse_nil, List.nil_append] at this
        exact (this.trans (List.sublist_cons_self f fs)).trans (List.sublist_append_right _ _)
      · have := ih []
        simp only [List.reverse_nil, List.nil_append] at this
        simp only [List.flatten_cons]
        exact List.Sublist.append (List.Sublist.refl _) (this.trans (List.sublist_cons_self f fs))

theorem flatten_flatMap_split (t : Nat) (bins : List (List Frag)) :
    (bins.flatMap fun b => splitForSize t b.length b).flatten = bins.flatten := by
  induction bins with
  | nil => simp
  | cons b bs ih => simp [List.flatMap_cons, splitForSize_flatten, ih]

theorem filter_flatten_sublist {α : Type} (p : List α → Bool) (L : List (List α)) :
    (L.filter p).flatten.Sublist L.flatten := by
  induction L with
  | nil => simp
  | cons x xs ih =>
    simp only [List.filter_cons]
    split
    · simp only [List.flatten_cons]; exact List.Sublist.append (List.Sublist.refl _) ih
    · simp only [List.flatten_cons]; exact ih.trans (List.sublist_append_right _ _)

theorem plan_sublist (t : Nat) (mat : Bool) (frags : List Frag) :
    (planCompaction t mat frags).flatten.Sublist frags := by
  unfold planCompaction
  rw [flatten_flatMap_split]
  have h1 := filter_flatten_sublist (fun b => !binNoop t mat b) (binsGo t mat frags [])
  have h2 := binsGo_sublist t mat frags []
  simp only [List.reverse_nil, List.nil_append] at h2
  exact h1.trans h2

theorem inTasks_eq (tasks : List (List Frag)) (f : Frag) : inTasks tasks f = tasks.flatten.any fun g => g.id == f.id := by
  simp [inTasks, List.any_flatten]

/-- removing the members of a sub-list by id and putting the sub-list back is a permutation when ids are distinct -/
theorem remove_sublist_perm : ∀ {T frags : List Frag}, T.Sublist frags → (fragIds frags).Nodup →
    ((frags.filter fun f => !(T.any fun g => g.id == f.id)) ++ T).Perm frags := by
  intro T frags h
  induction h with
  | slnil => intro _; simp
  | @cons T l a hs ih =>
    intro hn
    simp only [fragIds, List.map_cons, List.nodup_cons] at hn
    have hnot : (T.any fun g => g.id == a.id) = false := by
      apply Bool.eq_false_iff.mpr
      intro hany
      obtain ⟨g, hg, he⟩ := List.any_eq_true.mp hany
      have : g.id = a.id := by simpa using he
      exact hn.1 (List.mem_map.mpr ⟨g, hs.subset hg, this⟩)
    simp only [List.filter_cons, hnot, Bool.not_false, if_true, List.cons_append]
    exact List.Perm.cons a (ih hn.2)
  | @cons_cons T l a hs ih =>
    intro hn
    simp only [fragIds, List.map_cons, List.nodup_cons] at hn
    have hfil : (l.filter fun f => !((a :: T).any fun g => g.id == f.id)) = l.filter fun f => !(T.any fun g => g.id == f.id) := by
      apply List.filter_congr
      intro f hf
      have : (a.id == f.id) = false := by
        apply Bool.eq_false_iff.mpr
        intro he
        have : a.id = f.id := by simpa using he
        exact hn.1 (List.mem_map.mpr ⟨f, hf, this.symm⟩)
      simp [List.any_cons, this]
    simp only [List.filter_cons, List.any_cons, beq_self_eq_true, Bool.true_or, Bool.not_true]
    have hfil' : (l.filter fun f => !(a.id == f.id || T.any fun g => g.id == f.id)) =
        l.filter fun f => !(T.any fun g => g.id == f.id) := by
      simpa [List.any_cons] using hfil
    simp only [Bool.false_eq_true, if_false]
    rw [hfil']
    exact (List.perm_middle).trans (List.Perm.cons a (ih hn.2))

/-! ### rewriting the tasks -/

theorem liveOf_filter_live (frags : List Frag) : ((liveOf frags).filter fun r => !r.deleted) = liveOf frags := by
  apply List.filter_eq_self.mpr
  intro a ha
  simp [deleted_of_mem_liveOf ha]

theorem live_rewriteAll (t : Nat) (ht : t ≠ 0) : ∀ (start : Nat) (tasks : List (List Frag)),
    liveOf (rewriteAll t start tasks) = liveOf tasks.flatten := by
  intro start tasks
  induction tasks generalizing start with
  | nil => simp [rewriteAll, liveOf]
  | cons task tasks ih =>
    simp only [rewriteAll, liveOf_append, List.flatten_cons, ih]
    rw [rewriteTask, live_newFrags start t ht _ (liveOf_filter_live task)]

theorem fragIds_rewriteAll (t : Nat) : ∀ (start : Nat) (tasks : List (List Frag)),
    (fragIds (rewriteAll t start tasks)).Nodup ∧ ∀ x ∈ fragIds (rewriteAll t start tasks), start ≤ x := by
  intro start tasks
  induction tasks generalizing start with
  | nil => simp [rewriteAll, fragIds]
  | cons task tasks ih =>
    have ih' := ih (start + (rewriteTask t task).length)
    simp only [rewriteAll, fragIds, List.map_append]
    refine ⟨?_, ?_⟩
    · apply List.nodup_append.mpr
      refine ⟨fragIds_assign_nodup _ _, ih'.1, ?_⟩
      intro a ha b hb
      have h1 := fragIds_assign start _ a ha
      have h2 := ih'.2 b hb
      omega
    · intro x hx
      rcases List.mem_append.mp hx with hx | hx
      · exact (fragIds_assign start _ x hx).1
      · have := ih'.2 x hx; omega

/-- the final fragment list of a compaction shows the same rows -/
theorem live_compact (t : Nat) (ht : t ≠ 0) (mat : Bool) (start : Nat) (frags : List Frag) (hn : (fragIds frags).Nodup) :
    (liveOf ((frags.filter fun f => !inTasks (planCompaction t mat frags) f) ++
      rewriteAll t start (planCompaction t mat frags))).Perm (liveOf frags) := by
  rw [liveOf_append, live_rewriteAll t ht, ← liveOf_append]
  apply liveOf_perm
  have := remove_sublist_perm (plan_sublist t mat frags) hn
  simpa [inTasks_eq] using this

end LanceModel.C17Base
