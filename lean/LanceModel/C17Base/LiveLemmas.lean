import LanceModel.C17Base.Model
/-
C17 helper lemmas, layer 1: what each piece of the fragment-level model does to the list of VISIBLE rows
(`liveOf`), exactly or up to a permutation.
-/
namespace LanceModel.C17Base
open LanceModel.Table List

/-! ### chunks -/

theorem chunksFuel_flatten {α : Type} (f : Nat) (hf : f ≠ 0) :
    ∀ (fuel : Nat) (xs : List α), xs.length ≤ fuel → (chunksFuel f fuel xs).flatten = xs := by
  intro fuel
  induction fuel with
  | zero =>
    intro xs h
    have : xs = [] := List.eq_nil_of_length_eq_zero (by omega)
    subst this; simp [chunksFuel]
  | succ n ih =>
    intro xs h
    unfold chunksFuel
    by_cases he : xs.isEmpty
    · simp only [he, if_true]; simp at he; simp [he]
    · simp only [he]
      have hne : xs ≠ [] := by simpa using he
      have hlen : 0 < xs.length := List.length_pos_iff.mpr hne
      have : (xs.drop f).length ≤ n := by simp; omega
      simp [List.flatten_cons, ih _ this]

theorem chunks_flatten {α : Type} (f : Nat) (hf : f ≠ 0) (xs : List α) : (chunks f xs).flatten = xs :=
  chunksFuel_flatten f hf xs.length xs (Nat.le_refl _)

/-! ### liveOf -/

theorem liveOf_nil : liveOf [] = [] := rfl

theorem liveOf_cons (f : Frag) (fs : List Frag) :
    liveOf (f :: fs) = (f.rows.filter fun r => !r.deleted) ++ liveOf fs := by
  simp [liveOf]

theorem liveOf_append (a b : List Frag) : liveOf (a ++ b) = liveOf a ++ liveOf b := by
  simp [liveOf]

theorem liveOf_perm {a b : List Frag} (h : a.Perm b) : (liveOf a).Perm (liveOf b) :=
  List.Perm.flatMap_right _ h

theorem liveOf_assignFragIds (start : Nat) (fs : List (List PRow)) :
    liveOf (assignFragIds start fs) = fs.flatten.filter fun r => !r.deleted := by
  induction fs generalizing start with
  | nil => simp [assignFragIds, liveOf]
  | cons f fs ih => simp [assignFragIds, liveOf_cons, ih]

theorem mem_liveOf {frags : List Frag} {r : PRow} :
    r ∈ liveOf frags ↔ ∃ f ∈ frags, r ∈ f.rows ∧ r.deleted = false := by
  simp [liveOf, List.mem_flatMap, List.mem_filter]

theorem deleted_of_mem_liveOf {frags : List Frag} {r : PRow} (h : r ∈ liveOf frags) : r.deleted = false := by
  obtain ⟨_, _, _, hd⟩ := mem_liveOf.mp h
  exact hd

/-! ### sorting fragments -/

theorem insertFrag_perm (f : Frag) (l : List Frag) : (insertFrag f l).Perm (f :: l) := by
  induction l with
  | nil => simp [insertFrag]
  | cons g t ih =>
    unfold insertFrag
    split
    · exact List.Perm.refl _
    · exact (List.Perm.cons g ih).trans (List.Perm.swap f g t)

theorem sortFrags_perm (l : List Frag) : (sortFrags l).Perm l := by
  induction l with
  | nil => simp [sortFrags]
  | cons f t ih =>
    unfold sortFrags
    exact (insertFrag_perm f _).trans (List.Perm.cons f ih)

theorem live_sortFrags (l : List Frag) : (liveOf (sortFrags l)).Perm (liveOf l) := liveOf_perm (sortFrags_perm l)

/-! ### written rows -/

theorem numberRows_live (v next : Nat) (rows : List Row) :
    ((numberRows v next rows).filter fun r => !r.deleted) = numberRows v next rows := by
  induction rows generalizing next with
  | nil => simp [numberRows]
  | cons r rs ih => simp [numberRows, ih]

theorem numberRows_append (v next : Nat) (a b : List Row) :
    numberRows v next (a ++ b) = numberRows v next a ++ numberRows v (next + a.length) b := by
  induction a generalizing next with
  | nil => simp [numberRows]
  | cons r rs ih =>
    simp only [List.cons_append, numberRows, ih, List.length_cons]
    congr 3
    omega

theorem assignRows_flatten (v next : Nat) (cs : List (List Row)) :
    (assignRows v next cs).flatten = numberRows v next cs.flatten := by
  induction cs generalizing next with
  | nil => simp [assignRows, numberRows]
  | cons c cs ih => simp [assignRows, numberRows_append, ih]

theorem live_writtenFrags (v s next f : Nat) (hf : f ≠ 0) (rows : List Row) :
    liveOf (writtenFrags v s next f rows) = numberRows v next rows := by
  simp [writtenFrags, liveOf_assignFragIds, assignRows_flatten, chunks_flatten f hf, numberRows_live]

theorem mem_numberRows {v next : Nat} {rows : List Row} {r : PRow} (h : r ∈ numberRows v next rows) :
    next ≤ r.rid ∧ r.rid < next + rows.length ∧ r.created = v ∧ r.updated = v ∧ r.deleted = false := by
  induction rows generalizing next with
  | nil => simp [numberRows] at h
  | cons x xs ih =>
    simp only [numberRows, List.mem_cons] at h
    rcases h with h | h
    · subst h; simp
    · obtain ⟨a, b, c, d, e⟩ := ih h
      simp only [List.length_cons]
      exact ⟨by omega, by omega, c, d, e⟩

theorem numberRows_nodup (v next : Nat) (rows : List Row) : ((numberRows v next rows).map (·.rid)).Nodup := by
  induction rows generalizing next with
  | nil => simp [numberRows]
  | cons x xs ih =>
    simp only [numberRows, List.map_cons, List.nodup_cons]
    refine ⟨?_, ih _⟩
    intro hm
    obtain ⟨r, hr, he⟩ := List.mem_map.mp hm
    have := mem_numberRows hr
    omega

/-! ### marking rows deleted -/

theorem markRows_live (hit : PRow → Bool) (rows : List PRow) :
    ((rows.map (markRow hit)).filter fun r => !r.deleted) =
      (rows.filter fun r => !r.deleted).filter fun r => !hit r := by
  induction rows with
  | nil => simp
  | cons r rs ih =>
    simp only [List.map_cons]
    by_cases hd : r.deleted = true
    · simp [markRow, hd, ih]
    · have hd' : r.deleted = false := by simpa using hd
      by_cases hh : hit r = true
      · simp [markRow, hd', hh, ih]
      · have hh' : hit r = false := by simpa using hh
        simp [markRow, hd', hh', ih]

theorem live_markFrags (hit : PRow → Bool) (frags : List Frag) :
    liveOf (markFrags hit frags) = (liveOf frags).filter fun r => !hit r := by
  induction frags with
  | nil => simp [markFrags, liveOf]
  | cons f fs ih =>
    have ih' : liveOf (List.filterMap (markFrag hit) fs) = (liveOf fs).filter fun r => !hit r := ih
    simp only [markFrags, List.filterMap_cons, liveOf_cons, List.filter_append]
    by_cases hall : (f.rows.map (markRow hit)).all (·.deleted) = true
    · simp only [markFrag, hall, if_true]
      rw [ih', ← markRows_live]
      have : ((f.rows.map (markRow hit)).filter fun r => !r.deleted) = [] := by
        apply List.filter_eq_nil_iff.mpr
        intro a ha
        have := List.all_eq_true.mp hall a ha
        simp [this]
      simp [this]
    · simp only [markFrag, hall]
      simp only [Bool.false_eq_true, if_false, liveOf_cons]
      rw [ih', markRows_live]

/-! ### in-place column rewrite -/

theorem patchRow_deleted (v : Nat) (src : List Row) (r : PRow) : (patchRow v src r).deleted = r.deleted := by
  unfold patchRow
  split
  · rfl
  · split <;> rfl

theorem live_patchFrags (v : Nat) (src : List Row) (frags : List Frag) :
    liveOf (patchFrags v src frags) = (liveOf frags).map (patchRow v src) := by
  induction frags with
  | nil => simp [patchFrags, liveOf]
  | cons f fs ih =>
    have ih' : liveOf (List.map (fun f => ({ f with rows := f.rows.map (patchRow v src) } : Frag)) fs)
        = (liveOf fs).map (patchRow v src) := ih
    simp only [patchFrags, List.map_cons, liveOf_cons, List.map_append]
    rw [ih']
    congr 1
    induction f.rows with
    | nil => simp
    | cons r rs ihr =>
      simp only [List.map_cons, List.filter_cons, patchRow_deleted]
      split <;> simp [ihr]

/-! ### the rows of the Update arm's new fragments -/

theorem movedRow_deleted (frags : List Frag) (v rid : Nat) (c : Row) : (movedRow frags v rid c).deleted = false := rfl

theorem insertedRowsOf_live (frags : List Frag) (v next k : Nat) (rows : List Row) :
    ((insertedRowsOf frags v next k rows).filter fun r => !r.deleted) = insertedRowsOf frags v next k rows := by
  induction rows generalizing next with
  | nil => simp [insertedRowsOf]
  | cons r rs ih => simp [insertedRowsOf, movedRow, ih]

theorem updatedRowsOf_live (frags : List Frag) (v : Nat) (p : Pred) (y : Int) :
    ((updatedRowsOf frags v p y).filter fun r => !r.deleted) = updatedRowsOf frags v p y := by
  unfold updatedRowsOf
  apply List.filter_eq_self.mpr
  intro a ha
  obtain ⟨_, _, rfl⟩ := List.mem_map.mp ha
  rfl

theorem upsertMoved_live (frags : List Frag) (v : Nat) (src : List Row) :
    ((upsertMoved frags v src).filter fun r => !r.deleted) = upsertMoved frags v src := by
  unfold upsertMoved
  apply List.filter_eq_self.mpr
  intro a ha
  obtain ⟨s, _, hs⟩ := List.mem_filterMap.mp ha
  split at hs
  · cases hs; rfl
  · cases hs

theorem live_newFrags (start t : Nat) (ht : t ≠ 0) (rows : List PRow)
    (h : (rows.filter fun r => !r.deleted) = rows) :
    liveOf (assignFragIds start (chunks t rows)) = rows := by
  rw [liveOf_assignFragIds, chunks_flatten t ht, h]

end LanceModel.C17Base
