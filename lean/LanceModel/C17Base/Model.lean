import LanceModel.Table.Basic
/-
C17 model: per-row version metadata (`_row_created_at_version`, `_row_last_updated_at_version`) of a table with stable row
ids through histories of create / append / overwrite / delete / update / merge_insert upsert (full and partial source
schema) / compaction, and the change-data-feed filters of `DatasetDelta`.

Mirrors (pinned commit + the fix: commits of /repo):
  rust/lance-table/src/rowids/version.rs   build_version_meta (uniform sequence of `physical_rows` entries),
                                           refresh_row_latest_update_meta_for_{full,partial}_frag_rewrite_cols,
                                           RowDatasetVersionSequence::{versions, mask}, rechunk_version_sequences
  rust/lance/src/dataset/transaction.rs    Transaction::build_manifest — Append / Overwrite / Delete / Update / Rewrite arms,
                                           fragments_with_ids, assign_row_ids (partial fill for merge_insert),
                                           handle_rewrite_fragments, the final `sort_by_key(id)` and `update_max_fragment_id`;
                                           the Update arm's created-at reconstruction for the rows of its new fragments:
                                           `orig_frag_id = row_id >> 32`, `row_offset = row_id & 0xFFFFFFFF`, looked up in the
                                           EXISTING fragments' created-at sequence, default 1
  rust/lance/src/dataset/write/update.rs   UpdateJob::execute_impl (ordered scan of the matching rows → new fragment(s) that keep
                                           the captured row ids; apply_deletions on the old fragments), Update / RewriteRows
  rust/lance/src/dataset/write/merge_insert.rs (+ merge_insert/exec/write.rs)
                                           full schema: updated rows first (target scan order) then inserted rows, captured
                                           row ids rechunked with allow_incomplete, Update / RewriteRows;
                                           partial schema: update_fragments → in-place column rewrite with the last-updated
                                           sequence refreshed at the matched offsets, Update / RewriteColumns
  rust/lance/src/dataset/optimize.rs       plan_compaction (candidacy, bins, is_noop, split_for_size), rewrite_files,
                                           rechunk_stable_row_ids, recalc_versions_for_rewritten_fragments, commit_compaction
  rust/lance-table/src/utils/stream.rs     apply_row_id_and_deletes (meta columns by physical position, then the deletion mask)
  rust/lance/src/dataset/delta.rs          DatasetDelta::{get_inserted_rows, get_updated_rows}

A fragment is the list of its physical rows; each row carries its cells, its entry of the fragment's row-id sequence, of the
created-at and of the last-updated-at sequence, and whether the deletion vector covers it (the four per-fragment sequences
always have `physical_rows` entries; run-length encoding of the sequences is abstracted).  A data file is the rows written
to it (encodings: C25–C27; write splitting: C11).
-/
namespace LanceModel.C17Base
open LanceModel.Table

structure PRow where
  cells : Row
  rid : Nat
  created : Nat
  updated : Nat
  deleted : Bool
  deriving DecidableEq, Repr

structure Frag where
  id : Nat
  rows : List PRow
  deriving DecidableEq, Repr

/-- the fields of `Manifest` this property talks about (`k` Int64 columns `c0..`; `c0` is the key column of the ops) -/
structure Manifest where
  version : Nat
  k : Nat
  frags : List Frag
  nextRowId : Nat
  maxFragId : Option Nat
  deriving DecidableEq, Repr

/-- every published manifest, newest first; `[]` = no table -/
abbrev Hist := List Manifest

inductive Pred where
  | lt (x : Int)
  | ge (x : Int)
  | isIn (xs : List Int)
  | all
  deriving DecidableEq, Repr

inductive Op where
  | create (f k : Nat) (rows : List Row)
  | append (f : Nat) (rows : List Row)
  | overwrite (f : Nat) (rows : List Row)
  | delete (p : Pred)
  | update (p : Pred) (y : Int)
  | upsert (rows : List Row)
  | compact (t : Nat) (m : Bool)
  deriving DecidableEq, Repr

inductive Res where
  | ok
  | err (kind : String)
  deriving DecidableEq, Repr

/-! ## observations -/

/-- the visible rows of a fragment list: physical order, rows under the deletion vector dropped
    (stream.rs `apply_row_id_and_deletes`: the meta columns are taken by physical position, then the mask is applied) -/
def liveOf (frags : List Frag) : List PRow := frags.flatMap fun f => f.rows.filter fun r => !r.deleted

/-- ordered scan projecting the columns, `_rowid`, `_row_created_at_version`, `_row_last_updated_at_version` -/
def live (m : Manifest) : List PRow := liveOf m.frags

/-- delta.rs `get_inserted_rows`: `_row_created_at_version > begin AND _row_created_at_version <= end` -/
def insertedRows (m : Manifest) (b e : Nat) : List PRow :=
  (live m).filter fun r => decide (b < r.created) && decide (r.created ≤ e)

/-- delta.rs `get_updated_rows`:
    `_row_created_at_version <= begin AND _row_last_updated_at_version > begin AND _row_last_updated_at_version <= end` -/
def updatedRows (m : Manifest) (b e : Nat) : List PRow :=
  (live m).filter fun r => decide (r.created ≤ b) && decide (b < r.updated) && decide (r.updated ≤ e)

/-! ## fragment ids -/

/-- write.rs `do_write_fragments` on one batch: consecutive files of `f` rows (`f ≥ 1`; fuel = number of rows) -/
def chunksFuel {α : Type} (f : Nat) : Nat → List α → List (List α)
  | 0, _ => []
  | fuel + 1, xs => if xs.isEmpty then [] else xs.take f :: chunksFuel f fuel (xs.drop f)

def chunks {α : Type} (f : Nat) (xs : List α) : List (List α) := chunksFuel f xs.length xs

/-- transaction.rs `fragments_with_ids` (written fragments arrive with id 0) -/
def assignFragIds (start : Nat) : List (List PRow) → List Frag
  | [] => []
  | f :: fs => { id := start, rows := f } :: assignFragIds (start + 1) fs

def maxIdOf : List Frag → Option Nat
  | [] => none
  | f :: fs =>
    match maxIdOf fs with
    | none => some f.id
    | some m => some (max f.id m)

/-- manifest.rs `update_max_fragment_id`: nothing for an empty fragment list; else the mark is only ever raised -/
def updateMax (hw : Option Nat) (frags : List Frag) : Option Nat :=
  match maxIdOf frags with
  | none => hw
  | some m =>
    match hw with
    | none => some m
    | some h => if m > h then some m else some h

/-- build_manifest: `current_manifest.and_then(|m| m.max_fragment_id()).map(|id| id + 1).unwrap_or(0)` -/
def startId (hw : Option Nat) : Nat :=
  match hw with
  | none => 0
  | some h => h + 1

def insertFrag (f : Frag) : List Frag → List Frag
  | [] => [f]
  | g :: t => if f.id < g.id then f :: g :: t else g :: insertFrag f t

/-- build_manifest: `final_fragments.sort_by_key(|frag| frag.id)` (stable) -/
def sortFrags : List Frag → List Frag
  | [] => []
  | f :: t => insertFrag f (sortFrags t)

/-! ## writing new rows -/

/-- one written fragment of an Append / Overwrite: `assign_row_ids` gives `next .. next + physical_rows`, and
    `build_version_meta(fragment, new_version)` both sequences uniformly `v` -/
def numberRows (v next : Nat) : List Row → List PRow
  | [] => []
  | r :: rs => { cells := r, rid := next, created := v, updated := v, deleted := false } :: numberRows v (next + 1) rs

/-- `assign_row_ids` over the new fragments, `next_row_id += physical_rows` -/
def assignRows (v next : Nat) : List (List Row) → List (List PRow)
  | [] => []
  | f :: fs => numberRows v next f :: assignRows v (next + f.length) fs

/-- the new fragments of Append / Overwrite -/
def writtenFrags (v fragStart next f : Nat) (rows : List Row) : List Frag :=
  assignFragIds fragStart (assignRows v next (chunks f rows))

/-! ## predicates, deletion -/

/-- SQL three-valued logic on `c0`: NULL never matches a comparison; `true` matches everything -/
def Pred.matches (p : Pred) (c0 : Cell) : Bool :=
  match p, c0 with
  | .all, _ => true
  | _, none => false
  | .lt x, some v => decide (v < x)
  | .ge x, some v => decide (x ≤ v)
  | .isIn xs, some v => xs.contains v

/-- mark the live rows selected by `hit` in the deletion vector -/
def markRow (hit : PRow → Bool) (r : PRow) : PRow := if !r.deleted && hit r then { r with deleted := true } else r

/-- `apply_deletions` for one fragment (delete.rs / update.rs / merge_insert.rs): a fragment whose extended deletion vector
    covers every physical row is removed -/
def markFrag (hit : PRow → Bool) (f : Frag) : Option Frag :=
  if (f.rows.map (markRow hit)).all (·.deleted) then none else some { f with rows := f.rows.map (markRow hit) }

def markFrags (hit : PRow → Bool) (frags : List Frag) : List Frag := frags.filterMap (markFrag hit)

def predHit (p : Pred) (r : PRow) : Bool := p.matches (cellAt r.cells 0)

/-- build_manifest, Delete arm.  The literal `true` predicate removes every fragment. -/
def deleteFrags (p : Pred) (frags : List Frag) : List Frag :=
  if p = .all then [] else markFrags (predHit p) frags

/-! ## the Update arm -/

/-- build_manifest, Update arm, created-at of a row of a NEW fragment: the stable row id is read as a row address
    (`row_id >> 32` = fragment id, `row_id & 0xFFFFFFFF` = offset) and looked up in the existing fragments' created-at
    sequence; "not found" and "out of range" default to 1 -/
def lookupCreated (frags : List Frag) (rid : Nat) : Nat :=
  match frags.find? (fun f => f.id == rid / 4294967296) with
  | none => 1
  | some f =>
    match f.rows[rid % 4294967296]? with
    | none => 1
    | some r => r.created

/-- a row of a new fragment of the Update arm: created-at by `lookupCreated`, last-updated-at = the new version
    (`build_version_meta(fragment, new_version)`) -/
def movedRow (frags : List Frag) (v : Nat) (rid : Nat) (cells : Row) : PRow :=
  { cells := cells, rid := rid, created := lookupCreated frags rid, updated := v, deleted := false }

/-- `WriteParams::default().max_rows_per_file` -/
def defaultMaxRows : Nat := 1048576

/-- update.rs: `c1 := y` on the matching rows, in scan order, row ids kept -/
def updatedRowsOf (frags : List Frag) (v : Nat) (p : Pred) (y : Int) : List PRow :=
  ((liveOf frags).filter (predHit p)).map fun r => movedRow frags v r.rid (r.cells.set 1 (some y))

def keyOf (r : Row) : Cell := cellAt r 0

/-- the source row joined to a target row (`c0` equal, NULL never joins) -/
def sourceFor (src : List Row) (c : Cell) : Option Row :=
  match c with
  | none => none
  | some _ => src.find? fun s => keyOf s == c

def upsertHit (src : List Row) (r : PRow) : Bool := (sourceFor src (keyOf r.cells)).isSome

/-- the join of merge_insert on `c0`: a NULL key never joins -/
def joins (s : Row) (r : PRow) : Bool :=
  match keyOf s with
  | none => false
  | some _ => keyOf r.cells == keyOf s

/-- merge_insert, full schema (exec/write.rs, stable row ids: updates first, then inserts): one output row per source row
    that joins a visible target row, in SOURCE order, with the source cells and the target's row id -/
def upsertMoved (frags : List Frag) (v : Nat) (src : List Row) : List PRow :=
  src.filterMap fun s =>
    match (liveOf frags).find? (joins s) with
    | some r => some (movedRow frags v r.rid s)
    | none => none

/-- the source rows that join no visible target row, in source order -/
def upsertNew (frags : List Frag) (src : List Row) : List Row :=
  src.filter fun s => !((liveOf frags).any (joins s))

/-- `assign_row_ids` partial fill: the rows after the captured ids get `next, next + 1, …`; they too go through the Update
    arm's created-at reconstruction -/
def insertedRowsOf (frags : List Frag) (v next k : Nat) : List Row → List PRow
  | [] => []
  | s :: ss => movedRow frags v next (s ++ List.replicate (k - s.length) none) :: insertedRowsOf frags v (next + 1) k ss

/-- merge_insert, partial schema (`c0`, `c1`): in-place column rewrite of the matched rows; the fragment's last-updated-at
    sequence gets the new version at the matched offsets (full rewrite = every offset) -/
def patchRow (v : Nat) (src : List Row) (r : PRow) : PRow :=
  if r.deleted then r
  else
    match sourceFor src (keyOf r.cells) with
    | some s => { r with cells := r.cells.set 1 (cellAt s 1), updated := v }
    | none => r

def patchFrags (v : Nat) (src : List Row) (frags : List Frag) : List Frag :=
  frags.map fun f => { f with rows := f.rows.map (patchRow v src) }

/-! ## compaction -/

def numDeleted (f : Frag) : Nat := (f.rows.filter (·.deleted)).length
def numLive (f : Frag) : Nat := (f.rows.filter fun r => !r.deleted).length

/-- optimize.rs `CompactionCandidacy` with `materialize_deletions_threshold = 0` -/
inductive Cand where
  | itself
  | neighbors
  deriving DecidableEq, Repr

def candidacy (t : Nat) (mat : Bool) (f : Frag) : Option Cand :=
  if mat && decide (0 < numDeleted f) then some .itself
  else if f.rows.length < t then some .neighbors
  else none

/-- plan_compaction's walk (no indices): maximal runs of adjacent candidates; returns the bins in order -/
def binsGo (t : Nat) (mat : Bool) : List Frag → List Frag → List (List Frag)
  | [], cur => if cur.isEmpty then [] else [cur.reverse]
  | f :: fs, cur =>
    match candidacy t mat f with
    | some _ => binsGo t mat fs (f :: cur)
    | none => if cur.isEmpty then binsGo t mat fs [] else cur.reverse :: binsGo t mat fs []

/-- `CandidateBin::is_noop` -/
def binNoop (t : Nat) (mat : Bool) (b : List Frag) : Bool :=
  match b with
  | [] => true
  | [f] => candidacy t mat f != some .itself
  | _ => false

/-- inner `while` of `split_for_size`: the shortest prefix holding at least `t` live rows (all of it if there is none) -/
def takeForSize (t : Nat) : Nat → List Frag → List Frag × List Frag
  | _, [] => ([], [])
  | acc, f :: fs =>
    if acc < t then
      ((f :: (takeForSize t (acc + numLive f) fs).1), (takeForSize t (acc + numLive f) fs).2)
    else ([], f :: fs)

def liveCount (fs : List Frag) : Nat := natSum (fs.map numLive)

/-- `CandidateBin::split_for_size` (fuel = number of fragments) -/
def splitForSize (t : Nat) : Nat → List Frag → List (List Frag)
  | 0, b => [b]
  | fuel + 1, b =>
    if liveCount (takeForSize t 0 b).2 ≥ t then (takeForSize t 0 b).1 :: splitForSize t fuel (takeForSize t 0 b).2
    else [b]

/-- plan_compaction: the task list -/
def planCompaction (t : Nat) (mat : Bool) (frags : List Frag) : List (List Frag) :=
  ((binsGo t mat frags []).filter fun b => !binNoop t mat b).flatMap fun b => splitForSize t b.length b

/-- rewrite_files + rechunk_stable_row_ids + recalc_versions_for_rewritten_fragments: the visible rows of the task's
    fragments, in order, with their row ids and both version entries, re-split into files of `t` rows -/
def rewriteTask (t : Nat) (task : List Frag) : List (List PRow) := chunks t (liveOf task)

/-- handle_rewrite_fragments: every group's old fragments leave, its new fragments get the next fragment ids
    (one counter over all groups, in task order) -/
def rewriteAll (t : Nat) : Nat → List (List Frag) → List Frag
  | _, [] => []
  | start, task :: tasks =>
    assignFragIds start (rewriteTask t task) ++ rewriteAll t (start + (rewriteTask t task).length) tasks

def inTasks (tasks : List (List Frag)) (f : Frag) : Bool := tasks.any fun task => task.any fun g => g.id == f.id

/-! ## one operation -/

def pushM (h : Hist) (m : Manifest) : Hist := m :: h

/-- a new manifest from the previous one and the operation's final fragment list (sorted by id, mark raised) -/
def nextManifest (m : Manifest) (frags : List Frag) (next : Nat) : Manifest :=
  { version := m.version + 1, k := m.k, frags := sortFrags frags, nextRowId := next
    maxFragId := updateMax m.maxFragId (sortFrags frags) }

/-- the manifest published by `reserve_fragment_ids` (Operation::ReserveFragments): nothing but the version and
    `max_fragment_id = Some(max_fragment_id.unwrap_or(0) + n)` change -/
def reserveManifest (m : Manifest) (n : Nat) : Manifest :=
  { m with version := m.version + 1
           maxFragId := some ((match m.maxFragId with | some h => h | none => 0) + n) }

/-- first reserved id: `new_max_exclusive - n` with `new_max_exclusive = manifest.max_fragment_id.unwrap_or(0) + 1` -/
def reserveStart (m : Manifest) (n : Nat) : Nat := (match m.maxFragId with | some h => h | none => 0) + n + 1 - n

/-- number of fragments the tasks write -/
def newFragCount (t : Nat) (tasks : List (List Frag)) : Nat := (rewriteAll t 0 tasks).length

def rowsWidthOk (k : Nat) (rows : List Row) : Bool := rows.all fun r => r.length == k

def distinctKeys : List Row → Bool
  | [] => true
  | s :: ss => !(ss.any fun x => keyOf x == keyOf s) && distinctKeys ss

/-- the source keys are non-NULL and pairwise different -/
def keysOk (rows : List Row) : Bool := rows.all (fun r => (keyOf r).isSome) && distinctKeys rows

def ambiguous (frags : List Frag) (rows : List Row) : Bool :=
  rows.any fun s => decide (1 < ((liveOf frags).filter fun r => keyOf r.cells == keyOf s).length)

/-- one public call on the table.  Errors leave the state unchanged; a compaction with an empty plan publishes nothing,
    any other compaction publishes two versions. -/
def step (h : Hist) (op : Op) : Hist × Res :=
  match h, op with
  | [], .create f k rows =>
    if f = 0 then ([], .err "invalid_input")
    else
      ([{ version := 1, k := k
          frags := sortFrags (writtenFrags 1 0 0 f rows)
          nextRowId := rows.length
          maxFragId := updateMax none (sortFrags (writtenFrags 1 0 0 f rows)) }], .ok)
  | [], _ => ([], .err "no_table")
  | m :: h, .create _ _ _ => (m :: h, .err "already_exists")
  | m :: h, .append f rows =>
    if !rowsWidthOk m.k rows then (m :: h, .err "width")
    else if f = 0 then (m :: h, .err "invalid_input")
    else
      (nextManifest m (m.frags ++ writtenFrags (m.version + 1) (startId m.maxFragId) m.nextRowId f rows)
        (m.nextRowId + rows.length) :: m :: h, .ok)
  | m :: h, .overwrite f rows =>
    if !rowsWidthOk m.k rows then (m :: h, .err "width")
    else if f = 0 then (m :: h, .err "invalid_input")
    else
      (nextManifest m (writtenFrags (m.version + 1) 0 m.nextRowId f rows) (m.nextRowId + rows.length) :: m :: h, .ok)
  | m :: h, .delete p => (nextManifest m (deleteFrags p m.frags) m.nextRowId :: m :: h, .ok)
  | m :: h, .update p y =>
    (nextManifest m
      (markFrags (predHit p) m.frags ++
        assignFragIds (startId m.maxFragId) (chunks defaultMaxRows (updatedRowsOf m.frags (m.version + 1) p y)))
      m.nextRowId :: m :: h, .ok)
  | m :: h, .upsert rows =>
    match rows with
    | [] => (m :: h, .err "parse")
    | r0 :: _ =>
      if !(rowsWidthOk r0.length rows && (r0.length == m.k || (r0.length == 2 && m.k == 3))) then (m :: h, .err "width")
      else if !keysOk rows then (m :: h, .err "keys")
      else if ambiguous m.frags rows then (m :: h, .err "ambiguous")
      else if r0.length == m.k then
        (nextManifest m
          (markFrags (upsertHit rows) m.frags ++
            assignFragIds (startId m.maxFragId) (chunks defaultMaxRows
              (upsertMoved m.frags (m.version + 1) rows ++
                insertedRowsOf m.frags (m.version + 1) m.nextRowId m.k (upsertNew m.frags rows))))
          (m.nextRowId + (upsertNew m.frags rows).length) :: m :: h, .ok)
      else
        (nextManifest m
          (patchFrags (m.version + 1) rows m.frags ++
            assignFragIds (startId m.maxFragId) (chunks defaultMaxRows
              (insertedRowsOf m.frags (m.version + 1) m.nextRowId m.k (upsertNew m.frags rows))))
          (m.nextRowId + (upsertNew m.frags rows).length) :: m :: h, .ok)
  | m :: h, .compact t mat =>
    if t = 0 then (m :: h, .err "invalid_input")
    else if (planCompaction t mat m.frags).isEmpty then (m :: h, .ok)
    else
      -- commit_compaction on a table with stable row ids: reserve the new fragment ids (own commit), then Rewrite
      (nextManifest (reserveManifest m (newFragCount t (planCompaction t mat m.frags)))
        (m.frags.filter (fun f => !inTasks (planCompaction t mat m.frags) f) ++
          rewriteAll t (reserveStart m (newFragCount t (planCompaction t mat m.frags))) (planCompaction t mat m.frags))
        m.nextRowId :: reserveManifest m (newFragCount t (planCompaction t mat m.frags)) :: m :: h, .ok)

def runFrom (h : Hist) : List Op → Hist
  | [] => h
  | op :: ops => runFrom (step h op).1 ops

/-- a history: any list of operations from "no table" -/
def run (ops : List Op) : Hist := runFrom [] ops

end LanceModel.C17Base
