import LanceModel.C17Base.CompactLemmas
/-
C17 helper lemmas, layer 2: one committed operation, described on the list of visible rows.
-/
namespace LanceModel.C17Base
open LanceModel.Table List

/-- fragment ids are distinct and below the high-water mark -/
def FragOk (m : Manifest) : Prop := (fragIds m.frags).Nodup ∧ ∀ f ∈ m.frags, f.id < startId m.maxFragId

/-- the rows an operation rewrites: matched by the update predicate / joined by the upsert source -/
def touches (op : Op) (r : PRow) : Bool :=
  match op with
  | .update p _ => predHit p r
  | .upsert rows => upsertHit rows r
  | _ => false

/-- the visible rows after a committed operation on version `m`, up to order -/
def liveAfter (m : Manifest) (op : Op) : List PRow :=
  match op with
  | .create _ _ _ => live m
  | .append _ rows => live m ++ numberRows (m.version + 1) m.nextRowId rows
  | .overwrite _ rows => numberRows (m.version + 1) m.nextRowId rows
  | .delete p => (live m).filter fun r => !predHit p r
  | .update p y => ((live m).filter fun r => !predHit p r) ++ updatedRowsOf m.frags (m.version + 1) p y
  | .upsert rows =>
    if !keysOk rows then []   -- never committed (`err keys`)
    else if (rows.head?.map List.length) = some m.k then
      ((live m).filter fun r => !upsertHit rows r) ++
        (upsertMoved m.frags (m.version + 1) rows ++
          insertedRowsOf m.frags (m.version + 1) m.nextRowId m.k (upsertNew m.frags rows))
    else
      (live m).map (patchRow (m.version + 1) rows) ++
        insertedRowsOf m.frags (m.version + 1) m.nextRowId m.k (upsertNew m.frags rows)
  | .compact _ _ => live m

/-- the version a committed operation publishes last -/
def pubVersion (m : Manifest) (op : Op) : Nat :=
  match op with
  | .compact _ _ => m.version + 2
  | _ => m.version + 1

/-- the versions a committed operation publishes before its last one (compaction: the fragment-id reservation) -/
def midOf (m : Manifest) (op : Op) : List Manifest :=
  match op with
  | .compact t mat => [reserveManifest m (newFragCount t (planCompaction t mat m.frags))]
  | _ => []

theorem pubVersion_gt (m : Manifest) (op : Op) : m.version < pubVersion m op := by
  cases op <;> simp [pubVersion]

theorem live_midOf (m : Manifest) (op : Op) : ∀ x ∈ midOf m op, live x = live m ∧ x.nextRowId = m.nextRowId := by
  intro x hx
  cases op <;> simp [midOf] at hx
  subst hx
  exact ⟨rfl, rfl⟩

theorem reserveStart_ge (m : Manifest) (n : Nat) : startId m.maxFragId ≤ reserveStart m n := by
  unfold reserveStart startId
  cases m.maxFragId <;> simp <;> omega

def nextAfter (m : Manifest) (op : Op) : Nat :=
  match op with
  | .append _ rows => m.nextRowId + rows.length
  | .overwrite _ rows => m.nextRowId + rows.length
  | .upsert rows => m.nextRowId + (upsertNew m.frags rows).length
  | _ => m.nextRowId

/-! ### nextManifest -/

theorem live_nextManifest (m : Manifest) (X : List Frag) (n : Nat) : (live (nextManifest m X n)).Perm (liveOf X) :=
  live_sortFrags X

theorem fragIds_nodup_perm {a b : List Frag} (h : a.Perm b) : (fragIds a).Nodup ↔ (fragIds b).Nodup :=
  (h.map (fun f : Frag => f.id)).nodup_iff

theorem fragOk_nextManifest (m : Manifest) (X : List Frag) (n : Nat) (hn : (fragIds X).Nodup) :
    FragOk (nextManifest m X n) := by
  refine ⟨?_, ?_⟩
  · exact (fragIds_nodup_perm (sortFrags_perm X)).mpr hn
  · exact (updateMax_bound m.maxFragId (sortFrags X)).2

theorem nodup_old_new {m : Manifest} (hok : FragOk m) {old new : List Frag}
    (hsub : (fragIds old).Sublist (fragIds m.frags)) (hnew : (fragIds new).Nodup)
    (hge : ∀ x ∈ fragIds new, startId m.maxFragId ≤ x) : (fragIds (old ++ new)).Nodup := by
  simp only [fragIds, List.map_append]
  apply List.nodup_append.mpr
  refine ⟨hok.1.sublist hsub, hnew, ?_⟩
  intro a ha b hb
  have ha' := hsub.subset ha
  obtain ⟨f, hf, rfl⟩ := List.mem_map.mp ha'
  have := hok.2 f hf
  have := hge b hb
  omega

theorem assign_ge (start : Nat) (fs : List (List PRow)) : ∀ x ∈ fragIds (assignFragIds start fs), start ≤ x :=
  fun x hx => (fragIds_assign start fs x hx).1

theorem defaultMaxRows_ne : defaultMaxRows ≠ 0 := by decide

/-! ### one step -/

/-- the outcome of a step on an existing table: nothing published, or one new manifest described by `liveAfter` -/
theorem step_cons (m : Manifest) (h : Hist) (op : Op) (hok : FragOk m) :
    (step (m :: h) op).1 = m :: h ∨
    ∃ m', (step (m :: h) op).1 = m' :: (midOf m op ++ m :: h) ∧ m'.version = pubVersion m op ∧ FragOk m' ∧
      m'.nextRowId = nextAfter m op ∧ (live m').Perm (liveAfter m op) := by
  cases op with
  | create f k rows => left; rfl
  | append f rows =>
    simp only [step]
    split
    · left; rfl
    · split
      · left; rfl
      · rename_i _ hf
        right
        refine ⟨_, rfl, rfl, ?_, rfl, ?_⟩
        · apply fragOk_nextManifest
          exact nodup_old_new hok (List.Sublist.refl _) (fragIds_assign_nodup _ _) (assign_ge _ _)
        · refine (live_nextManifest _ _ _).trans ?_
          rw [liveOf_append, live_writtenFrags _ _ _ _ hf]
          exact List.Perm.refl _
  | overwrite f rows =>
    simp only [step]
    split
    · left; rfl
    · split
      · left; rfl
      · rename_i _ hf
        right
        refine ⟨_, rfl, rfl, ?_, rfl, ?_⟩
        · apply fragOk_nextManifest
          exact fragIds_assign_nodup _ _
        · refine (live_nextManifest _ _ _).trans ?_
          rw [live_writtenFrags _ _ _ _ hf]
          exact List.Perm.refl _
  | delete p =>
    simp only [step]
    right
    refine ⟨_, rfl, rfl, ?_, rfl, ?_⟩
    · apply fragOk_nextManifest
      unfold deleteFrags
      split
      · simp [fragIds]
      · exact hok.1.sublist (fragIds_markFrags_sub _ _)
    · refine (live_nextManifest _ _ _).trans ?_
      unfold deleteFrags
      split
      · rename_i hp
        subst hp
        simp [liveAfter, liveOf, predHit, Pred.matches]
      · rw [live_markFrags]
        exact List.Perm.refl _
  | update p y =>
    simp only [step]
    right
    refine ⟨_, rfl, rfl, ?_, rfl, ?_⟩
    · apply fragOk_nextManifest
      exact nodup_old_new hok (fragIds_markFrags_sub _ _) (fragIds_assign_nodup _ _) (assign_ge _ _)
    · refine (live_nextManifest _ _ _).trans ?_
      rw [liveOf_append, live_markFrags, live_newFrags _ _ defaultMaxRows_ne _ (updatedRowsOf_live _ _ _ _)]
      exact List.Perm.refl _
  | upsert rows =>
    simp only [step]
    cases rows with
    | nil => left; rfl
    | cons r0 rs =>
      simp only
      split
      · left; rfl
      · split
        · left; rfl
        · rename_i hkeys
          have hkeys' : keysOk (r0 :: rs) = true := by simpa using hkeys
          split
          · left; rfl
          · split
            · rename_i hfull
              have hk : r0.length = m.k := by simpa using hfull
              right
              refine ⟨_, rfl, rfl, ?_, rfl, ?_⟩
              · apply fragOk_nextManifest
                exact nodup_old_new hok (fragIds_markFrags_sub _ _) (fragIds_assign_nodup _ _) (assign_ge _ _)
              · refine (live_nextManifest _ _ _).trans ?_
                have hl : ((upsertMoved m.frags (m.version + 1) (r0 :: rs) ++
                    insertedRowsOf m.frags (m.version + 1) m.nextRowId m.k (upsertNew m.frags (r0 :: rs))).filter
                      fun r => !r.deleted) = upsertMoved m.frags (m.version + 1) (r0 :: rs) ++
                    insertedRowsOf m.frags (m.version + 1) m.nextRowId m.k (upsertNew m.frags (r0 :: rs)) := by
                  rw [List.filter_append, upsertMoved_live, insertedRowsOf_live]
                rw [liveOf_append, live_markFrags, live_newFrags _ _ defaultMaxRows_ne _ hl]
                simp only [liveAfter, hkeys', Bool.not_true, Bool.false_eq_true, if_false, List.head?_cons, Option.map_some, hk, if_true]
                exact List.Perm.refl _
            · rename_i hfull
              have hk : ¬ r0.length = m.k := by simpa using hfull
              right
              refine ⟨_, rfl, rfl, ?_, rfl, ?_⟩
              · apply fragOk_nextManifest
                refine nodup_old_new hok ?_ (fragIds_assign_nodup _ _) (assign_ge _ _)
                rw [fragIds_patchFrags]
                exact List.Sublist.refl _
              · refine (live_nextManifest _ _ _).trans ?_
                rw [liveOf_append, live_patchFrags,
                  live_newFrags _ _ defaultMaxRows_ne _ (insertedRowsOf_live _ _ _ _ _)]
                have : ¬ (some r0.length = some m.k) := by simpa using hk
                simp only [liveAfter, hkeys', Bool.not_true, Bool.false_eq_true, List.head?_cons, Option.map_some, this, if_false]
                exact List.Perm.refl _
  | compact t mat =>
    simp only [step]
    split
    · left; rfl
    · split
      · left; rfl
      · rename_i ht _
        right
        refine ⟨_, rfl, rfl, ?_, rfl, ?_⟩
        · apply fragOk_nextManifest
          refine nodup_old_new hok ?_ (fragIds_rewriteAll _ _ _).1 ?_
          · exact (List.filter_sublist).map _
          · intro x hx
            have := (fragIds_rewriteAll _ _ _).2 x hx
            have := reserveStart_ge m (newFragCount t (planCompaction t mat m.frags))
            omega
        · refine (live_nextManifest _ _ _).trans ?_
          exact live_compact t ht mat _ m.frags hok.1

/-- the first operation: only `create` publishes -/
theorem step_nil (op : Op) :
    (step [] op).1 = [] ∨
    ∃ f k rows, op = .create f k rows ∧ f ≠ 0 ∧ ∃ m', (step [] op).1 = [m'] ∧ m'.version = 1 ∧ FragOk m' ∧
      m'.nextRowId = rows.length ∧ (live m').Perm (numberRows 1 0 rows) := by
  cases op with
  | create f k rows =>
    simp only [step]
    split
    · left; rfl
    · rename_i hf
      right
      refine ⟨f, k, rows, rfl, hf, _, rfl, rfl, ?_, rfl, ?_⟩
      · refine ⟨?_, ?_⟩
        · exact (fragIds_nodup_perm (sortFrags_perm _)).mpr (fragIds_assign_nodup _ _)
        · exact (updateMax_bound none _).2
      · refine (live_sortFrags _).trans ?_
        rw [live_writtenFrags _ _ _ _ hf]
  | append f rows => left; rfl
  | overwrite f rows => left; rfl
  | delete p => left; rfl
  | update p y => left; rfl
  | upsert rows => left; rfl
  | compact t mat => left; rfl

end LanceModel.C17Base
