/-
C15 model: random access (`take`, `take_rows`) versus the ordered scan.

Counterparts in /repo (read line by line before modelling):
* rust/lance-core/src/utils/deletion.rs   `DeletionVector::{contains, range_cardinality, len}`,
                                          `OffsetMapper::{new, map_offset}`
* rust/lance/src/dataset/take.rs          `row_offsets_to_row_addresses`, `take`, `check_row_addrs`,
                                          `do_take_rows` (contiguous / sorted / slow path), `TakeBuilder::get_row_addrs`
* rust/lance/src/dataset/fragment.rs      `FileFragment::{count_rows, take_rows, row_ids_contiguous}`,
                                          `FragmentReader::{legacy_read_range_as_batch, take_as_batch}` (result only)
* rust/lance-table/src/rowids/index.rs    `RowIdIndex::{new, get}` (as the association row id -> address of the live rows;
                                          the chunk decomposition/merge is abstracted, see Props.lean)

Import-free (core only) so that the driver links natively.

Modelling choices
* u32/u64 values are `Nat`; no wrap-around is modelled except the one place where the code can
  overflow on valid-looking input (`check_row_addrs`: `last + 1` with `last = u64::MAX`, the
  tombstone address) which is modelled as `Res.panic` (the harness builds lance with overflow checks).
* A `DeletionVector` (Set and Bitmap variants have the same set semantics) is a duplicate-free
  `List Nat` of deleted physical offsets.
* A row address is a pair (fragment id, physical offset); u64 order = lexicographic order.
* The file reader is modelled by its result: the live rows among the requested physical offsets,
  `InvalidInput` when a requested offset is beyond the fragment's physical rows.
-/
namespace LanceModel.C15

/-! ## DeletionVector / OffsetMapper (lance-core/src/utils/deletion.rs) -/

/-- `DeletionVector::range_cardinality(0..n)`: number of deleted offsets below `n` -/
def rangeCard (dv : List Nat) (n : Nat) : Nat := (dv.filter (· < n)).length

/-- the `loop` of `OffsetMapper::map_offset`.  State `left`, locals `mid`, `right`.
    Returns `(answer, left')`; `none` = fuel exhausted or `assert_ne!(self.left, mid + 1)` fired. -/
def mapLoop (dv : List Nat) (offset : Nat) : Nat → Nat → Nat → Nat → Option (Nat × Nat)
  | 0, _, _, _ => none
  | fuel + 1, left, mid, right =>
    if mid = offset + rangeCard dv (mid + 1) ∧ mid ∉ dv then some (mid, left)
    else if mid < offset + rangeCard dv (mid + 1) then
      if left = mid + 1 then none
      else mapLoop dv offset fuel (mid + 1) ((mid + 1) + (right - (mid + 1)) / 2) right
    else mapLoop dv offset fuel left (left + (mid - left) / 2) mid

/-- `OffsetMapper { dv, left, last_diff }` -/
structure Mapper where
  dv : List Nat
  left : Nat
  lastDiff : Nat
deriving Repr

/-- `OffsetMapper::new` -/
def Mapper.new (dv : List Nat) : Mapper := ⟨dv, 0, 0⟩

/-- iterations that always suffice (see `Props.map_offset_spec`) -/
def fuelFor (m : Mapper) (offset : Nat) : Nat := 2 * (offset + m.dv.length) + 2

/-- `OffsetMapper::map_offset`: `mid = offset + last_diff`, `right = offset + dv.len()` -/
def Mapper.mapOffset (m : Mapper) (offset : Nat) : Option (Nat × Mapper) :=
  match mapLoop m.dv offset (fuelFor m offset) m.left (offset + m.lastDiff) (offset + m.dv.length) with
  | some (r, l) => some (r, { m with left := l, lastDiff := r - offset })
  | none => none

/-- a sequence of `map_offset` calls on one mapper -/
def runMapper : Mapper → List Nat → Option (List Nat)
  | _, [] => some []
  | m, o :: os =>
    match m.mapOffset o with
    | none => none
    | some (r, m') => (runMapper m' os).map (r :: ·)

/-! ## Fragments, rows, scan -/

/-- (fragment id, physical offset) -/
abbrev Addr := Nat × Nat

/-- `RowAddress::TOMBSTONE_ROW` = 0xffffffff_ffffffff -/
def tombstone : Addr := (4294967295, 4294967295)

/-- u64 `<` on addresses -/
def Addr.lt (a b : Addr) : Bool := a.1 < b.1 || (a.1 == b.1 && a.2 < b.2)

/-- one fragment of the manifest with its data: physical row count, deletion vector, and per
    physical row the two data columns and the stable row id (`rowids = []` without stable row ids) -/
structure Frag where
  id : Nat
  nphys : Nat
  dv : List Nat
  ks : List Nat
  xs : List Nat
  rowids : List Nat
deriving Repr

structure Row where
  addr : Addr
  k : Nat
  x : Nat
  rowid : Nat
deriving Repr, DecidableEq

def Frag.live (f : Frag) (o : Nat) : Bool := !f.dv.contains o

/-- `FileFragment::count_rows(None)` = physical rows − deleted rows -/
def Frag.countRows (f : Frag) : Nat := f.nphys - f.dv.length

/-- u64 value of an address (the `_rowid` of a row when stable row ids are off) -/
def Addr.toNat (a : Addr) : Nat := a.1 * 4294967296 + a.2

/-- the row stored at physical offset `o` -/
def Frag.rowAt (f : Frag) (stable : Bool) (o : Nat) : Row :=
  { addr := (f.id, o), k := (f.ks[o]?).getD 0, x := (f.xs[o]?).getD 0,
    rowid := if stable then (f.rowids[o]?).getD 0 else Addr.toNat (f.id, o) }

def Frag.liveOffsets (f : Frag) : List Nat := (List.range f.nphys).filter f.live

/-- ordered scan (`scan_in_order(true)`): fragments in manifest order, live physical rows in order -/
def scanRows (frags : List Frag) (stable : Bool) : List Row :=
  frags.flatMap (fun f => f.liveOffsets.map (f.rowAt stable))

def scanAddrs (frags : List Frag) : List Addr :=
  frags.flatMap (fun f => f.liveOffsets.map (fun o => (f.id, o)))

/-! ## row_offsets_to_row_addresses (lance/src/dataset/take.rs) -/

/-- the `while cur_frag.is_some() && sorted_offset >= frag_offset + cur_frag_rows` loop.
    State: remaining fragments (head = `cur_frag`, `[]` = `None`), `frag_offset`, `offset_mapper`. -/
def skipFrags (off : Nat) : List Frag → Nat → Mapper → List Frag × Nat × Mapper
  | [], fo, m => ([], fo, m)
  | f :: rest, fo, m =>
    if off ≥ fo + f.countRows then
      match rest with
      | [] => ([], fo + f.countRows, m)
      | g :: _ => skipFrags off rest (fo + f.countRows) (Mapper.new g.dv)
    else (f :: rest, fo, m)

/-- the `for sorted_offset in sorted_offsets` loop; `none` = `map_offset` did not return -/
def walk : List Frag → Nat → Mapper → List Nat → Option (List Addr)
  | _, _, _, [] => some []
  | frs, fo, m, o :: os =>
    match skipFrags o frs fo m with
    | ([], fo', m') => (walk [] fo' m' os).map (tombstone :: ·)
    | (f :: rest, fo', m') =>
      if f.dv.isEmpty then (walk (f :: rest) fo' m' os).map ((f.id, o - fo') :: ·)
      else
        match m'.mapOffset (o - fo') with
        | none => none
        | some (r, m'') => (walk (f :: rest) fo' m'' os).map ((f.id, r) :: ·)

/-- stable insertion into a list of (offset, original index) sorted by offset -/
def insertByKey (p : Nat × Nat) : List (Nat × Nat) → List (Nat × Nat)
  | [] => [p]
  | q :: t => if p.1 ≤ q.1 then p :: q :: t else q :: insertByKey p t

/-- `permutation::sort(row_indices)` as the list of (offset, original index) in sorted order -/
def sortByKey (l : List (Nat × Nat)) : List (Nat × Nat) := l.foldr insertByKey []

/-- `perm.apply_inv_slice_in_place`: put the i-th computed value back at its original index -/
def unpermute {α : Type} (idxs : List Nat) (vals : List α) (dflt : α) : List α :=
  (List.range idxs.length).map (fun i =>
    match (idxs.zip vals).find? (fun p => p.1 == i) with
    | some p => p.2
    | none => dflt)

def initMapper : List Frag → Mapper
  | [] => Mapper.new []
  | f :: _ => Mapper.new f.dv

/-- `row_offsets_to_row_addresses` -/
def rowOffsetsToAddrs (frags : List Frag) (offs : List Nat) : Option (List Addr) :=
  let sorted := sortByKey offs.zipIdx
  match walk frags 0 (initMapper frags) (sorted.map (·.1)) with
  | none => none
  | some addrs => some (unpermute (sorted.map (·.2)) addrs tombstone)

/-! ## take by address (do_take_rows) -/

inductive Res (α : Type) where
  | ok (v : α)
  | err            -- Error::InvalidInput
  | panic
deriving Repr, DecidableEq

def findFrag (frags : List Frag) (id : Nat) : Option Frag := frags.find? (fun f => f.id == id)

/-- `legacy_read_range_as_batch(s..e)` on a fragment reader: live rows of the physical range -/
def Frag.readRange (f : Frag) (stable : Bool) (s e : Nat) : Res (List Row) :=
  if e > f.nphys then .err
  else .ok (((List.range' s (e - s)).filter f.live).map (f.rowAt stable))

/-- `take_as_batch(offsets)`: live rows among the requested physical offsets -/
def Frag.takeIdx (f : Frag) (stable : Bool) (offs : List Nat) : Res (List Row) :=
  if offs.any (fun o => decide (o ≥ f.nphys)) then .err
  else .ok ((offs.filter f.live).map (f.rowAt stable))

/-- `FileFragment::row_ids_contiguous` -/
def contiguousOffs : List Nat → Bool
  | [] => false
  | [_] => true
  | a :: b :: t => b == a + 1 && contiguousOffs (b :: t)

/-- `FileFragment::take_rows` -/
def Frag.takeRows (f : Frag) (stable : Bool) (offs : List Nat) : Res (List Row) :=
  if offs.length > 1 ∧ contiguousOffs offs then
    f.readRange stable (offs.headD 0) ((offs.getLastD 0) + 1)
  else f.takeIdx stable offs

/-- the loop of `check_row_addrs` after the first element -/
def checkGo (firstFrag : Nat) (last : Addr) : List Addr → Option (Bool × Bool)
  | [] => some (true, true)
  | a :: t =>
    if last = tombstone then none
    else
      match checkGo firstFrag a t with
      | none => none
      | some (s, c) =>
        some (last.lt a && s, (a.1 == last.1 && a.2 == last.2 + 1) && (a.1 == firstFrag) && c)

/-- `check_row_addrs`: `(sorted, contiguous)`; `none` = `last_offset + 1` overflowed (u64::MAX = tombstone) -/
def checkAddrs : List Addr → Option (Bool × Bool)
  | [] => some (true, true)
  | first :: rest => checkGo first.1 first rest

/-- maximal runs of addresses of the same fragment (the grouping loop of the sorted path) -/
def runs : List Addr → List (Nat × List Nat)
  | [] => []
  | a :: t =>
    match runs t with
    | (fid, offs) :: rest =>
      if fid = a.1 then (fid, a.2 :: offs) :: rest else (a.1, [a.2]) :: (fid, offs) :: rest
    | [] => [(a.1, [a.2])]

/-- collect per-fragment results: first error wins -/
def collect : List (Res (List Row)) → Res (List (List Row))
  | [] => .ok []
  | r :: t =>
    match r, collect t with
    | .ok v, .ok vs => .ok (v :: vs)
    | .panic, _ => .panic
    | _, .panic => .panic
    | _, _ => .err

def insertAddr (a : Addr) : List Addr → List Addr
  | [] => [a]
  | b :: t => if a.lt b then a :: b :: t else if a = b then b :: t else b :: insertAddr a t

/-- `sorted_row_addrs.sort(); sorted_row_addrs.dedup()` -/
def sortDedup (l : List Addr) : List Addr := l.foldr insertAddr []

/-- one `do_take` of the sorted path: the fragment must exist -/
def readGroup (frags : List Frag) (stable : Bool) (g : Nat × List Nat) : Res (List Row) :=
  match findFrag frags g.1 with
  | none => .err
  | some f => f.takeRows stable g.2

/-- the offsets the slow path requests from fragment `f` -/
def groupOffs (sd : List Addr) (f : Frag) : List Nat := (sd.filter (fun a => a.1 == f.id)).map (·.2)

/-- slow path: `fragments.into_iter().filter_map(|f| row_addrs_per_fragment.remove(&f.id))` then `do_take` each -/
def slowReads (frags : List Frag) (stable : Bool) (sd : List Addr) : List (Res (List Row)) :=
  frags.filterMap (fun f =>
    if (groupOffs sd f).isEmpty then none else some (f.takeRows stable (groupOffs sd f)))

/-- slow path: `batches.pop().unwrap()` panics without a batch; otherwise look every requested address up in the `_rowaddr` column -/
def remap (addrs : List Addr) (bs : List (List Row)) : Res (List Row) :=
  match bs with
  | [] => .panic
  | _ => .ok (addrs.filterMap (fun a => bs.flatten.find? (fun r => r.addr == a)))

def finish (r : Res (List (List Row))) (k : List (List Row) → Res (List Row)) : Res (List Row) :=
  match r with
  | .ok bs => k bs
  | .err => .err
  | .panic => .panic

/-- `do_take_rows` -/
def takeAddrs (frags : List Frag) (stable : Bool) (addrs : List Addr) : Res (List Row) :=
  match addrs with
  | [] => .ok []
  | first :: rest =>
    match checkAddrs (first :: rest) with
    | none => .panic
    | some (sorted, contiguous) =>
      if contiguous then
        match findFrag frags first.1 with
        | none => .err
        | some f => f.readRange stable first.2 ((rest.getLastD first).2 + 1)
      else if sorted then
        finish (collect ((runs (first :: rest)).map (readGroup frags stable))) (fun bs => .ok bs.flatten)
      else
        finish (collect (slowReads frags stable (sortDedup (first :: rest)))) (remap (first :: rest))

/-- `Dataset::take(offsets, projection)` (rows before projection); `none` from the mapper = no return -/
def take (frags : List Frag) (stable : Bool) (offs : List Nat) : Res (List Row) :=
  if offs.isEmpty then .ok []
  else
    match rowOffsetsToAddrs frags offs with
    | none => .panic
    | some addrs => takeAddrs frags stable addrs

/-- `take_scan` (lance/src/dataset/take.rs): one `Dataset::take` per requested range of row offsets, batches in
    range order; the first failing range ends the stream -/
def takeScan (frags : List Frag) (stable : Bool) : List (Nat × Nat) → Res (List Row)
  | [] => .ok []
  | r :: t =>
    match take frags stable (List.range' r.1 (r.2 - r.1)) with
    | .ok a =>
      match takeScan frags stable t with
      | .ok b => .ok (a ++ b)
      | .err => .err
      | .panic => .panic
    | .err => .err
    | .panic => .panic

/-! ## row id -> address (RowIdIndex) and take_rows -/

/-- the (row id, address) pairs `decompose_sequence` yields: live physical rows of every fragment -/
def indexPairs (frags : List Frag) : List (Nat × Addr) :=
  frags.flatMap (fun f => f.liveOffsets.map (fun o => ((f.rowids[o]?).getD 0, (f.id, o))))

/-- `RowIdIndex::get` -/
def indexGet (frags : List Frag) (id : Nat) : Option Addr :=
  ((indexPairs frags).find? (fun p => p.1 == id)).map (·.2)

/-- `TakeBuilder::get_row_addrs` with stable row ids: ids that are not in the index are dropped -/
def idsToAddrs (frags : List Frag) (ids : List Nat) : List Addr := ids.filterMap (indexGet frags)

/-- `Dataset::take_rows(row_ids)` with stable row ids -/
def takeRowsById (frags : List Frag) (ids : List Nat) : Res (List Row) :=
  takeAddrs frags true (idsToAddrs frags ids)

end LanceModel.C15
