import LanceModel.C15.Model
/-
Lemmas about `rangeCard`, the answer predicate `IsAns` and the loop of `map_offset`.
-/
namespace LanceModel.C15

/-- `a` is the position of the `k`-th (0-based) non-deleted offset: it is live and exactly `k`
    live positions precede it -/
def IsAns (dv : List Nat) (k a : Nat) : Prop := a ∉ dv ∧ a - rangeCard dv a = k

theorem rangeCard_zero (dv : List Nat) : rangeCard dv 0 = 0 := by
  simp [rangeCard]

theorem rangeCard_le_length (dv : List Nat) (n : Nat) : rangeCard dv n ≤ dv.length := by
  unfold rangeCard
  exact List.length_filter_le _ _

theorem rangeCard_succ {dv : List Nat} (h : dv.Nodup) (n : Nat) :
    rangeCard dv (n + 1) = rangeCard dv n + (if n ∈ dv then 1 else 0) := by
  induction dv with
  | nil => simp [rangeCard]
  | cons a t ih =>
    have hnd := List.nodup_cons.mp h
    have iht := ih hnd.2
    unfold rangeCard at iht ⊢
    simp only [List.filter_cons, List.mem_cons]
    by_cases h1 : a < n
    · have h2 : a < n + 1 := by omega
      have h3 : n ≠ a := by omega
      simp only [h1, h2, decide_true, if_true, List.length_cons, h3, false_or]
      omega
    · by_cases h4 : a = n
      · subst h4
        have h5 : a ∉ t := hnd.1
        simp only [Nat.lt_irrefl, decide_false, Nat.lt_succ_self, decide_true, if_true,
          List.length_cons, true_or] at iht ⊢
        simp only [h5, if_false] at iht
        simp [iht]
      · have h2 : ¬ a < n + 1 := by omega
        have h3 : n ≠ a := by omega
        simp only [h1, h2, decide_false, h3, false_or]
        exact iht

theorem rangeCard_add {dv : List Nat} (h : dv.Nodup) (a k : Nat) :
    rangeCard dv a ≤ rangeCard dv (a + k) ∧ rangeCard dv (a + k) ≤ rangeCard dv a + k := by
  induction k with
  | zero => simp
  | succ k ih =>
    have := rangeCard_succ h (a + k)
    rw [show a + (k + 1) = a + k + 1 by omega]
    split at this <;> omega

theorem rangeCard_mono {dv : List Nat} (h : dv.Nodup) {a b : Nat} (hab : a ≤ b) :
    rangeCard dv a ≤ rangeCard dv b := by
  obtain ⟨k, rfl⟩ := Nat.exists_eq_add_of_le hab
  exact (rangeCard_add h a k).1

theorem rangeCard_lip {dv : List Nat} (h : dv.Nodup) {a b : Nat} (hab : a ≤ b) :
    rangeCard dv b ≤ rangeCard dv a + (b - a) := by
  obtain ⟨k, rfl⟩ := Nat.exists_eq_add_of_le hab
  have := (rangeCard_add h a k).2
  omega

theorem rangeCard_le {dv : List Nat} (h : dv.Nodup) (n : Nat) : rangeCard dv n ≤ n := by
  have := (rangeCard_add h 0 n).2
  simp [rangeCard_zero] at this
  omega

/-- the number of live positions below `n` never decreases -/
theorem live_mono {dv : List Nat} (h : dv.Nodup) {a b : Nat} (hab : a ≤ b) :
    a - rangeCard dv a ≤ b - rangeCard dv b := by
  have := rangeCard_lip h hab
  have := rangeCard_le h a
  have := rangeCard_le h b
  omega

theorem ans_unique {dv : List Nat} (h : dv.Nodup) {k a b : Nat} (ha : IsAns dv k a) (hb : IsAns dv k b) :
    a = b := by
  obtain ⟨ha1, ha2⟩ := ha
  obtain ⟨hb1, hb2⟩ := hb
  have hca := rangeCard_le h a
  have hcb := rangeCard_le h b
  rcases Nat.lt_trichotomy a b with hlt | heq | hlt
  · exfalso
    have h1 := rangeCard_succ h a
    simp only [ha1, if_false] at h1
    have h2 := rangeCard_lip h (show a + 1 ≤ b by omega)
    omega
  · exact heq
  · exfalso
    have h1 := rangeCard_succ h b
    simp only [hb1, if_false] at h1
    have h2 := rangeCard_lip h (show b + 1 ≤ a by omega)
    omega

/-- answers are strictly increasing in the offset, at least by the offset distance -/
theorem ans_mono {dv : List Nat} (h : dv.Nodup) {k k' a a' : Nat} (ha : IsAns dv k a) (ha' : IsAns dv k' a')
    (hk : k ≤ k') : a + (k' - k) ≤ a' := by
  rcases Nat.lt_or_ge a' a with hlt | hge
  · exfalso
    have hm := live_mono h (show a' ≤ a by omega)
    have hkk : k' = k := by have := ha.2; have := ha'.2; omega
    subst hkk
    have := ans_unique h ha ha'
    omega
  · have := rangeCard_mono h hge
    have := rangeCard_le h a
    have := rangeCard_le h a'
    have := ha.2
    have := ha'.2
    omega

/-- discrete intermediate value: once more than `k` live positions lie below `N`, the `k`-th exists below `N` -/
theorem ans_exists_below {dv : List Nat} (h : dv.Nodup) (k : Nat) :
    ∀ N, k + 1 ≤ N - rangeCard dv N → ∃ a, a < N ∧ IsAns dv k a := by
  intro N
  induction N with
  | zero => intro h0; simp [rangeCard_zero] at h0
  | succ N ih =>
    intro hN
    by_cases hc : k + 1 ≤ N - rangeCard dv N
    · obtain ⟨a, ha, hans⟩ := ih hc
      exact ⟨a, by omega, hans⟩
    · have hs := rangeCard_succ h N
      have hle := rangeCard_le h N
      by_cases hmem : N ∈ dv
      · simp only [hmem, if_true] at hs
        omega
      · simp only [hmem, if_false] at hs
        exact ⟨N, by omega, hmem, by omega⟩

theorem ans_exists {dv : List Nat} (h : dv.Nodup) (k : Nat) :
    ∃ a, a ≤ k + dv.length ∧ IsAns dv k a := by
  have hl := rangeCard_le_length dv (k + dv.length + 1)
  obtain ⟨a, ha, hans⟩ := ans_exists_below h k (k + dv.length + 1) (by omega)
  exact ⟨a, by omega, hans⟩

/-- the answer satisfies the equation the loop tests -/
theorem ans_eq {dv : List Nat} (h : dv.Nodup) {k a : Nat} (ha : IsAns dv k a) :
    a = k + rangeCard dv (a + 1) := by
  have h1 := rangeCard_succ h a
  simp only [ha.1, if_false] at h1
  have := rangeCard_le h a
  have := ha.2
  omega

/-- the loop: under the bracketing invariant and with enough fuel it returns the answer -/
theorem mapLoop_correct {dv : List Nat} (h : dv.Nodup) {offset a : Nat} (ha : IsAns dv offset a) :
    ∀ fuel left mid right, left ≤ a → a ≤ right → left ≤ mid → mid ≤ right →
      2 * (right - left) + (if mid = right then 1 else 0) < fuel →
      ∃ l', mapLoop dv offset fuel left mid right = some (a, l') ∧ left ≤ l' ∧ l' ≤ a := by
  intro fuel
  induction fuel with
  | zero => intro left mid right _ _ _ _ hf; omega
  | succ fuel ih =>
    intro left mid right hl hr hlm hmr hf
    have haeq := ans_eq h ha
    have hca := rangeCard_le h a
    unfold mapLoop
    by_cases hc : mid = offset + rangeCard dv (mid + 1) ∧ mid ∉ dv
    · rw [if_pos hc]
      have hans : IsAns dv offset mid := by
        refine ⟨hc.2, ?_⟩
        have h1 := rangeCard_succ h mid
        simp only [hc.2, if_false] at h1
        have := rangeCard_le h mid
        omega
      have := ans_unique h hans ha
      subst this
      exact ⟨left, rfl, Nat.le_refl _, hl⟩
    · rw [if_neg hc]
      by_cases hlt : mid < offset + rangeCard dv (mid + 1)
      · rw [if_pos hlt]
        -- the answer lies strictly above mid
        have hgt : mid < a := by
          apply Classical.byContradiction
          intro hn
          have hle : a ≤ mid := by omega
          have h2 := rangeCard_lip h (show a + 1 ≤ mid + 1 by omega)
          omega
        have hne : ¬ left = mid + 1 := by omega
        rw [if_neg hne]
        obtain ⟨l', h1, h2, h3⟩ := ih (mid + 1) ((mid + 1) + (right - (mid + 1)) / 2) right
          (by omega) hr (by omega) (by omega) (by split <;> omega)
        exact ⟨l', h1, by omega, h3⟩
      · rw [if_neg hlt]
        have hle : a ≤ mid := by
          apply Classical.byContradiction
          intro hn
          have hlt' : mid < a := by omega
          have h2 := rangeCard_lip h (show mid + 1 ≤ a by omega)
          have h3 := ha.2
          omega
        -- when left = mid the answer is mid and the first branch would have been taken
        have hlm' : left < mid := by
          apply Classical.byContradiction
          intro hn
          have : a = mid := by omega
          subst this
          exact hc ⟨haeq, ha.1⟩
        obtain ⟨l', h1, h2, h3⟩ := ih left (left + (mid - left) / 2) mid
          hl hle (by omega) (by omega) (by split <;> split at hf <;> omega)
        exact ⟨l', h1, h2, h3⟩

/-- state invariant of an `OffsetMapper` after it answered offset `lo` (or freshly created, `lo = 0`) -/
def MInv (dv : List Nat) (m : Mapper) (lo : Nat) : Prop :=
  m.dv = dv ∧ ∃ a, IsAns dv lo a ∧ m.left ≤ lo + m.lastDiff ∧ lo + m.lastDiff ≤ a

theorem minv_new {dv : List Nat} (h : dv.Nodup) : MInv dv (Mapper.new dv) 0 := by
  obtain ⟨a, _, ha⟩ := ans_exists h 0
  exact ⟨rfl, a, ha, by simp [Mapper.new], by simp [Mapper.new]⟩

/-- one call of `map_offset` with an offset not below the previous one -/
theorem mapOffset_spec {dv : List Nat} (h : dv.Nodup) {m : Mapper} {lo o : Nat} (hinv : MInv dv m lo) (hlo : lo ≤ o) :
    ∃ r m', m.mapOffset o = some (r, m') ∧ IsAns dv o r ∧ MInv dv m' o := by
  obtain ⟨hdv, a0, ha0, hl0, hd0⟩ := hinv
  obtain ⟨a, hab, ha⟩ := ans_exists h o
  have hmono := ans_mono h ha0 ha hlo
  have hao : o ≤ a := by have := ha.2; omega
  obtain ⟨l', hloop, hl1, hl2⟩ := mapLoop_correct h ha (fuelFor m o) m.left (o + m.lastDiff) (o + m.dv.length)
    (by omega) (by rw [hdv]; exact hab) (by omega) (by rw [hdv]; omega)
    (by unfold fuelFor; split <;> omega)
  refine ⟨a, { m with left := l', lastDiff := a - o }, ?_, ha, ?_⟩
  · unfold Mapper.mapOffset
    rw [hdv] at hloop ⊢
    rw [hloop]
  · refine ⟨hdv, a, ha, ?_, ?_⟩ <;> simp only <;> omega

end LanceModel.C15
