import LanceModel.C15.MapperLemmas
/-
`row_offsets_to_row_addresses`: the walk over the sorted offsets returns, for every offset, the
address the ordered scan shows at that position (tombstone beyond the end), and the inverse
permutation restores the request order.
-/
namespace LanceModel.C15

/-- well-formed fragment: the deletion vector is a set of physical offsets; the fragment id is a u32 below the tombstone's -/
def WFf (f : Frag) : Prop := f.dv.Nodup ∧ (∀ d ∈ f.dv, d < f.nphys) ∧ f.id < 4294967295

/-! ### filtered ranges -/

theorem filter_range_getElem? (p : Nat → Bool) : ∀ n r, r < n → p r = true →
    ((List.range n).filter p)[((List.range r).filter p).length]? = some r := by
  intro n
  induction n with
  | zero => intro r h; omega
  | succ n ih =>
    intro r hr hp
    rw [List.range_succ, List.filter_append]
    by_cases h : r < n
    · have := ih r h hp
      obtain ⟨hlt, _⟩ := List.getElem?_eq_some_iff.mp this
      rw [List.getElem?_append_left hlt]
      exact this
    · have : r = n := by omega
      subst this
      rw [List.getElem?_append_right (Nat.le_refl _)]
      simp [hp]

theorem live_count {dv : List Nat} (h : dv.Nodup) (r : Nat) :
    ((List.range r).filter (fun o => !dv.contains o)).length + rangeCard dv r = r := by
  induction r with
  | zero => simp [rangeCard_zero]
  | succ r ih =>
    rw [List.range_succ, List.filter_append, List.length_append, rangeCard_succ h]
    by_cases hm : r ∈ dv
    · simp [hm] at ih ⊢; omega
    · simp [hm] at ih ⊢; omega

theorem rangeCard_all {dv : List Nat} {n : Nat} (h : ∀ d ∈ dv, d < n) : rangeCard dv n = dv.length := by
  unfold rangeCard
  rw [List.filter_eq_self.mpr]
  intro a ha
  simp [h a ha]

theorem liveOffsets_length {f : Frag} (h : WFf f) : f.liveOffsets.length = f.countRows := by
  have h1 := live_count h.1 f.nphys
  have h2 := rangeCard_all h.2.1
  unfold Frag.liveOffsets Frag.countRows
  have : f.live = (fun o => !f.dv.contains o) := by funext o; rfl
  rw [this]
  omega

theorem liveOffsets_getElem? {f : Frag} (h : WFf f) {k r : Nat} (ha : IsAns f.dv k r) (hk : k < f.countRows) :
    f.liveOffsets[k]? = some r := by
  have hr : r < f.nphys := by
    apply Classical.byContradiction
    intro hn
    have h1 := rangeCard_mono h.1 (show f.nphys ≤ r by omega)
    have h2 := rangeCard_all h.2.1
    have h3 := rangeCard_le_length f.dv r
    have h4 := ha.2
    unfold Frag.countRows at hk
    omega
  have hlive : f.live r = true := by
    have := ha.1
    simp [Frag.live, this]
  have h1 := filter_range_getElem? f.live f.nphys r hr hlive
  have h2 := live_count h.1 r
  have : f.live = (fun o => !f.dv.contains o) := by funext o; rfl
  rw [this] at h1
  have h3 : ((List.range r).filter (fun o => !f.dv.contains o)).length = k := by
    have := ha.2
    omega
  rw [h3] at h1
  unfold Frag.liveOffsets
  rw [this]
  exact h1

/-! ### the walk -/

/-- the address the ordered scan of `frs` shows at position `o - fo` (tombstone beyond the end) -/
def addrAt (frs : List Frag) (fo o : Nat) : Addr := ((scanAddrs frs)[o - fo]?).getD tombstone

def fragAddrs (f : Frag) : List Addr := f.liveOffsets.map (fun o => (f.id, o))

theorem scanAddrs_cons (f : Frag) (rest : List Frag) : scanAddrs (f :: rest) = fragAddrs f ++ scanAddrs rest := by
  simp [scanAddrs, fragAddrs, List.flatMap_cons]

theorem fragAddrs_length {f : Frag} (h : WFf f) : (fragAddrs f).length = f.countRows := by
  simp [fragAddrs, liveOffsets_length h]

/-- what the head mapper must satisfy before the next offset `o`: it belongs to the head fragment
    and last answered a local offset `lo` with `fo + lo ≤ o` -/
def HeadInv (frs : List Frag) (m : Mapper) (lo : Nat) : Prop :=
  match frs with
  | [] => True
  | f :: _ => MInv f.dv m lo

theorem skipFrags_spec (o : Nat) : ∀ (frs : List Frag) (fo : Nat) (m : Mapper) (lo : Nat),
    (∀ f ∈ frs, WFf f) → HeadInv frs m lo → fo + lo ≤ o →
    ∃ frs' fo' m' lo' pre, skipFrags o frs fo m = (frs', fo', m') ∧
      (∀ f ∈ frs', WFf f) ∧ HeadInv frs' m' lo' ∧ fo' + lo' ≤ o ∧
      scanAddrs frs = pre ++ scanAddrs frs' ∧ fo' = fo + pre.length ∧
      (∀ f rest, frs' = f :: rest → o - fo' < f.countRows) := by
  intro frs
  induction frs with
  | nil =>
    intro fo m lo _ _ hle
    exact ⟨[], fo, m, 0, [], rfl, by simp, trivial, by omega, by simp, by simp, by simp⟩
  | cons f rest ih =>
    intro fo m lo hwf hinv hle
    unfold skipFrags
    by_cases hge : o ≥ fo + f.countRows
    · rw [if_pos hge]
      have hwff := hwf f (by simp)
      cases rest with
      | nil =>
        refine ⟨[], fo + f.countRows, m, 0, fragAddrs f, rfl, by simp, trivial, by omega, ?_, ?_, by simp⟩
        · simp [scanAddrs, fragAddrs]
        · rw [fragAddrs_length hwff]
      | cons g t =>
        have hwfg := hwf g (by simp)
        obtain ⟨frs', fo', m', lo', pre, h1, h2, h3, h4, h5, h6, h7⟩ :=
          ih (fo + f.countRows) (Mapper.new g.dv) 0 (fun x hx => hwf x (by simp [hx])) (minv_new hwfg.1) (by omega)
        refine ⟨frs', fo', m', lo', fragAddrs f ++ pre, h1, h2, h3, h4, ?_, ?_, h7⟩
        · rw [scanAddrs_cons, h5, List.append_assoc]
        · rw [List.length_append, fragAddrs_length hwff]; omega
    · rw [if_neg hge]
      refine ⟨f :: rest, fo, m, lo, [], rfl, hwf, hinv, hle, by simp, by simp, ?_⟩
      intro f' rest' heq
      cases heq
      omega

theorem addrAt_shift {frs frs' : List Frag} {pre : List Addr} {fo fo' : Nat}
    (h5 : scanAddrs frs = pre ++ scanAddrs frs') (h6 : fo' = fo + pre.length) {o : Nat} (ho : fo' ≤ o) :
    addrAt frs fo o = addrAt frs' fo' o := by
  unfold addrAt
  rw [h5, List.getElem?_append_right (by omega)]
  congr 2
  omega

theorem walk_spec : ∀ (os : List Nat) (frs : List Frag) (fo : Nat) (m : Mapper) (lo : Nat),
    (∀ f ∈ frs, WFf f) → HeadInv frs m lo → os.Pairwise (· ≤ ·) → (∀ o ∈ os, fo + lo ≤ o) →
    walk frs fo m os = some (os.map (addrAt frs fo)) := by
  intro os
  induction os with
  | nil => intro frs fo m lo _ _ _ _; simp [walk]
  | cons o os ih =>
    intro frs fo m lo hwf hinv hsorted hle
    obtain ⟨hofirst, hsorted'⟩ := List.pairwise_cons.mp hsorted
    obtain ⟨frs', fo', m', lo', pre, h1, h2, h3, h4, h5, h6, h7⟩ :=
      skipFrags_spec o frs fo m lo hwf hinv (hle o (by simp))
    have hshift : ∀ o' ∈ o :: os, addrAt frs fo o' = addrAt frs' fo' o' := by
      intro o' ho'
      apply addrAt_shift h5 h6
      rcases List.mem_cons.mp ho' with rfl | hmem
      · omega
      · have := hofirst o' hmem; omega
    have hmapshift : (o :: os).map (addrAt frs fo) = (o :: os).map (addrAt frs' fo') :=
      List.map_congr_left hshift
    rw [hmapshift]
    unfold walk
    rw [h1]
    cases frs' with
    | nil =>
      simp only
      rw [ih [] fo' m' 0 (by simp) trivial hsorted' (by intro o' ho'; have := hofirst o' ho'; omega)]
      simp [addrAt, scanAddrs]
    | cons f rest =>
      simp only
      have hwff := h2 f (by simp)
      have hk := h7 f rest rfl
      have hminv : MInv f.dv m' lo' := h3
      by_cases hempty : f.dv.isEmpty
      · rw [if_pos hempty]
        rw [ih (f :: rest) fo' m' lo' h2 h3 hsorted' (by intro o' ho'; have := hofirst o' ho'; omega)]
        have hdv : f.dv = [] := List.isEmpty_iff.mp hempty
        have hans : IsAns f.dv (o - fo') (o - fo') := by
          rw [hdv]; simp [IsAns, rangeCard]
        have hget := liveOffsets_getElem? hwff hans hk
        have : addrAt (f :: rest) fo' o = (f.id, o - fo') := by
          unfold addrAt
          rw [scanAddrs_cons, List.getElem?_append_left (by rw [fragAddrs_length hwff]; exact hk)]
          simp [fragAddrs, hget]
        simp [this]
      · rw [if_neg hempty]
        obtain ⟨r, m'', hm1, hm2, hm3⟩ := mapOffset_spec hwff.1 hminv (show lo' ≤ o - fo' by omega)
        rw [hm1]
        simp only
        rw [ih (f :: rest) fo' m'' (o - fo') h2 hm3 hsorted' (by intro o' ho'; have := hofirst o' ho'; omega)]
        have hget := liveOffsets_getElem? hwff hm2 hk
        have : addrAt (f :: rest) fo' o = (f.id, r) := by
          unfold addrAt
          rw [scanAddrs_cons, List.getElem?_append_left (by rw [fragAddrs_length hwff]; exact hk)]
          simp [fragAddrs, hget]
        simp [this]

/-! ### sort and inverse permutation -/

theorem mem_insertByKey (p q : Nat × Nat) (l : List (Nat × Nat)) : q ∈ insertByKey p l ↔ q = p ∨ q ∈ l := by
  induction l with
  | nil => simp [insertByKey]
  | cons a t ih =>
    unfold insertByKey
    split
    · simp
    · simp [ih]; constructor
      · rintro (h | h | h) <;> simp [h]
      · rintro (h | h | h) <;> simp [h]

theorem mem_sortByKey (q : Nat × Nat) (l : List (Nat × Nat)) : q ∈ sortByKey l ↔ q ∈ l := by
  induction l with
  | nil => simp [sortByKey]
  | cons a t ih =>
    have : sortByKey (a :: t) = insertByKey a (sortByKey t) := rfl
    rw [this, mem_insertByKey, ih]
    simp

theorem length_insertByKey (p : Nat × Nat) (l : List (Nat × Nat)) : (insertByKey p l).length = l.length + 1 := by
  induction l with
  | nil => simp [insertByKey]
  | cons a t ih => unfold insertByKey; split <;> simp [ih]

theorem length_sortByKey (l : List (Nat × Nat)) : (sortByKey l).length = l.length := by
  induction l with
  | nil => simp [sortByKey]
  | cons a t ih =>
    have : sortByKey (a :: t) = insertByKey a (sortByKey t) := rfl
    rw [this, length_insertByKey, ih]; simp

theorem sorted_insertByKey (p : Nat × Nat) (l : List (Nat × Nat)) (h : (l.map (·.1)).Pairwise (· ≤ ·)) :
    ((insertByKey p l).map (·.1)).Pairwise (· ≤ ·) := by
  induction l with
  | nil => simp [insertByKey]
  | cons a t ih =>
    simp only [List.map_cons, List.pairwise_cons] at h
    unfold insertByKey
    split
    · rename_i hle
      simp only [List.map_cons, List.pairwise_cons]
      refine ⟨?_, h.1, h.2⟩
      intro x hx
      rcases List.mem_cons.mp hx with rfl | hx'
      · exact hle
      · have := h.1 x hx'; omega
    · rename_i hnle
      simp only [List.map_cons, List.pairwise_cons]
      refine ⟨?_, ih h.2⟩
      intro x hx
      obtain ⟨q, hq, rfl⟩ := List.mem_map.mp hx
      rcases (mem_insertByKey p q t).mp hq with rfl | hq'
      · omega
      · exact h.1 q.1 (List.mem_map.mpr ⟨q, hq', rfl⟩)

theorem sorted_sortByKey (l : List (Nat × Nat)) : ((sortByKey l).map (·.1)).Pairwise (· ≤ ·) := by
  induction l with
  | nil => simp [sortByKey]
  | cons a t ih => exact sorted_insertByKey a _ ih

theorem find_key {β : Type} (g : Nat → β) (i v : Nat) : ∀ (l : List (Nat × Nat)),
    (∀ p ∈ l, p.2 = i → p.1 = v) → (∃ p ∈ l, p.2 = i) →
    (l.map (fun p => (p.2, g p.1))).find? (fun q => q.1 == i) = some (i, g v) := by
  intro l
  induction l with
  | nil => intro _ h; obtain ⟨p, hp, _⟩ := h; simp at hp
  | cons a t ih =>
    intro huniq hex
    simp only [List.map_cons, List.find?_cons]
    by_cases ha : a.2 = i
    · have := huniq a (by simp) ha
      simp [ha, this]
    · have hne : (a.2 == i) = false := by simp [ha]
      simp only [hne]
      apply ih
      · intro p hp; exact huniq p (by simp [hp])
      · obtain ⟨p, hp, hpi⟩ := hex
        rcases List.mem_cons.mp hp with rfl | hp'
        · exact absurd hpi ha
        · exact ⟨p, hp', hpi⟩

theorem unpermute_sorted {β : Type} (g : Nat → β) (dflt : β) (offs : List Nat) :
    unpermute ((sortByKey offs.zipIdx).map (·.2)) ((sortByKey offs.zipIdx).map (fun p => g p.1)) dflt = offs.map g := by
  unfold unpermute
  rw [List.zip_map']
  apply List.ext_getElem?
  intro i
  simp only [List.length_map, length_sortByKey, List.length_zipIdx, List.getElem?_map]
  by_cases hi : i < offs.length
  · rw [List.getElem?_range hi]
    have hget : offs[i]? = some offs[i] := List.getElem?_eq_getElem hi
    simp only [Option.map_some, hget]
    have := find_key g i offs[i] (sortByKey offs.zipIdx)
      (by
        intro p hp hpi
        have hp' := (mem_sortByKey p _).mp hp
        have := List.mem_zipIdx_iff_getElem?.mp hp'
        rw [hpi, hget] at this
        exact (Option.some.inj this).symm)
      ⟨(offs[i], i), (mem_sortByKey _ _).mpr (List.mem_zipIdx_iff_getElem?.mpr (by simpa using hget)), rfl⟩
    rw [this]
  · have h1 : (List.range offs.length)[i]? = none := by
      apply List.getElem?_eq_none; simp; omega
    have h2 : offs[i]? = none := List.getElem?_eq_none (by omega)
    simp [h1, h2]

/-- all fragments well formed, fragment ids pairwise distinct -/
def WF (frags : List Frag) : Prop := (∀ f ∈ frags, WFf f) ∧ (frags.map (·.id)).Nodup

theorem headInv_init (frags : List Frag) (h : ∀ f ∈ frags, WFf f) : HeadInv frags (initMapper frags) 0 := by
  cases frags with
  | nil => trivial
  | cons f rest => exact minv_new (h f (by simp)).1

/-- `row_offsets_to_row_addresses` returns, in request order, the scan's address at every offset -/
theorem rowOffsetsToAddrs_spec {frags : List Frag} (h : ∀ f ∈ frags, WFf f) (offs : List Nat) :
    rowOffsetsToAddrs frags offs = some (offs.map (addrAt frags 0)) := by
  unfold rowOffsetsToAddrs
  simp only
  rw [walk_spec _ frags 0 (initMapper frags) 0 h (headInv_init frags h) (sorted_sortByKey _) (by simp)]
  simp only [List.map_map]
  have := unpermute_sorted (addrAt frags 0) tombstone offs
  simp only [Function.comp_def] at this ⊢
  rw [this]

end LanceModel.C15
