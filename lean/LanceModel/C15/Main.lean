import LanceModel.C15.Driver
def main : IO Unit := LanceModel.Util.runDriver LanceModel.C15.Driver.step LanceModel.C15.Driver.init
