import LanceModel.C15.Props
import LanceModel.C34.Props
/-
The row id index at the level of its encoding (C34's model of `RowIdIndex::new` / `get`: `decompose_sequence` per
segment, overlap merge, range-map lookup, `U64Segment::position` / `get` on the encoded id and address segments),
composed with the C15 layout: whatever way the row id sequences of the fragments are segmented and encoded, the
encoded index resolves the `_rowid` of every live row to its `_rowaddr`.
-/
namespace LanceModel.C15
open LanceModel

/-- a fragment together with an encoded row id sequence that holds exactly its row ids -/
structure Enc where
  frag : Frag
  seq : C34.Seq

def Enc.ok (e : Enc) : Prop :=
  C34.Seq.WF e.seq ∧ C34.Seq.toList e.seq = e.frag.rowids ∧ e.frag.rowids.length = e.frag.nphys

/-- the input of `RowIdIndex::new`: (fragment id, row id sequence, deletion vector) -/
def Enc.toC34 (e : Enc) : Nat × C34.Seq × List Nat := (e.frag.id, e.seq, e.frag.dv)

theorem zipIdx_eq_range (l : List Nat) :
    l.zipIdx = (List.range l.length).map (fun i => ((l[i]?).getD 0, i)) := by
  apply List.ext_getElem?
  intro i
  rw [List.getElem?_zipIdx, List.getElem?_map]
  by_cases hi : i < l.length
  · rw [List.getElem?_range hi]
    simp [List.getElem?_eq_getElem hi]
  · have h1 : l[i]? = none := List.getElem?_eq_none (by omega)
    have h2 : (List.range l.length)[i]? = none := List.getElem?_eq_none (by simp; omega)
    simp [h1, h2]

theorem filterMap_ite {α β : Type} (c : α → Bool) (g : α → β) : ∀ (l : List α),
    l.filterMap (fun a => if c a then none else some (g a)) = (l.filter (fun a => !c a)).map g := by
  intro l
  induction l with
  | nil => rfl
  | cons a t ih =>
    rw [List.filterMap_cons, List.filter_cons]
    cases h : c a <;> simp [h, ih]

theorem activePairs_eq (f : Frag) (hlen : f.rowids.length = f.nphys) :
    C34.activePairs f.dv 0 (f.id * 4294967296) f.rowids =
      f.liveOffsets.map (fun o => ((f.rowids[o]?).getD 0, Addr.toNat (f.id, o))) := by
  unfold C34.activePairs
  rw [zipIdx_eq_range, List.filterMap_map, hlen]
  have := filterMap_ite (fun o : Nat => f.dv.contains (0 + o))
    (fun o => ((f.rowids[o]?).getD 0, f.id * 4294967296 + o)) (List.range f.nphys)
  simp only [Function.comp_def]
  rw [this]
  unfold Frag.liveOffsets
  congr 1
  apply List.filter_congr
  intro o _
  simp [Frag.live]

theorem livePairs_eq : ∀ (encs : List Enc), (∀ e ∈ encs, e.ok) →
    C34.livePairs (encs.map Enc.toC34) =
      (indexPairs (encs.map (·.frag))).map (fun p => (p.1, Addr.toNat p.2)) := by
  intro encs
  induction encs with
  | nil => intro _; rfl
  | cons e t ih =>
    intro h
    have he := h e (by simp)
    have iht := ih (fun x hx => h x (by simp [hx]))
    unfold C34.livePairs indexPairs at *
    simp only [List.map_cons, List.flatMap_cons, List.map_append]
    rw [iht]
    congr 1
    simp only [Enc.toC34]
    rw [he.2.1, activePairs_eq e.frag he.2.2, List.map_map]
    rfl

/-- **rowid_roundtrip_encoded.** For every table and every segmentation / encoding of its row id sequences, the
encoded index (`RowIdIndex::new`, chunk decomposition and merge included) exists, and `RowIdIndex::get` - range-map
lookup, `position` in the encoded id segment, `get` in the encoded address segment - resolves the `_rowid` of every row
the scan shows to the `_rowaddr` the scan shows for it, and answers `None` for every id no live row carries. -/
theorem rowid_roundtrip_encoded (encs : List Enc) (hok : ∀ e ∈ encs, e.ok)
    (hu : UniqueIds (encs.map (·.frag)))
    (haddr : ((scanRows (encs.map (·.frag)) true).map (fun r => Addr.toNat r.addr)).Nodup)
    (hle : ∀ r ∈ scanRows (encs.map (·.frag)) true, r.rowid ≤ C34.U64MAX ∧ Addr.toNat r.addr ≤ C34.U64MAX) :
    ∃ ix, C34.indexNew (encs.map Enc.toC34) = some ix ∧
      (∀ r ∈ scanRows (encs.map (·.frag)) true, C34.indexGet ix r.rowid = some (Addr.toNat r.addr)) ∧
      (∀ id, (∀ r ∈ scanRows (encs.map (·.frag)) true, r.rowid ≠ id) → C34.indexGet ix id = none) := by
  have hlp := livePairs_eq encs hok
  have hip := indexPairs_eq (encs.map (·.frag))
  have hpairs : C34.livePairs (encs.map Enc.toC34) =
      (scanRows (encs.map (·.frag)) true).map (fun r => (r.rowid, Addr.toNat r.addr)) := by
    rw [hlp, hip, List.map_map]; rfl
  obtain ⟨ix, h1, h2, h3⟩ := C34.index_faithful (encs.map Enc.toC34)
    (by
      intro f hf
      obtain ⟨e, he, rfl⟩ := List.mem_map.mp hf
      exact (hok e he).1)
    (by
      rw [hpairs, List.map_map]
      have : ((indexPairs (encs.map (·.frag))).map (·.1)) =
          (scanRows (encs.map (·.frag)) true).map (fun r => r.rowid) := by rw [hip, List.map_map]; rfl
      unfold UniqueIds at hu
      rw [this] at hu
      exact hu)
    (by rw [hpairs, List.map_map]; exact haddr)
    (by
      intro p hp
      rw [hpairs] at hp
      obtain ⟨r, hr, rfl⟩ := List.mem_map.mp hp
      exact hle r hr)
  refine ⟨ix, h1, ?_, ?_⟩
  · intro r hr
    apply h2
    rw [hpairs]
    exact List.mem_map.mpr ⟨r, hr, rfl⟩
  · intro id hid
    apply h3
    rw [hpairs, List.map_map]
    intro hm
    obtain ⟨r, hr, rfl⟩ := List.mem_map.mp hm
    exact hid r hr rfl

-- non-vacuity: a fragment of 100 rows with the sparse deletions 10, 11 (address segment = range with holes) next to
-- a fragment with unsorted ids; the id right behind the deleted pair resolves to its own address
def encA : Enc := ⟨⟨0, 100, [10, 11], [], [], List.range' 0 100⟩, [C34.Seg.range 0 100]⟩
def encB : Enc := ⟨⟨2, 3, [], [], [], [205, 200, 300]⟩, [C34.fromSlice [205, 200, 300]]⟩
set_option maxRecDepth 20000 in
example : (C34.indexNew [encA.toC34, encB.toC34]).map (fun ix => [C34.indexGet ix 12, C34.indexGet ix 11, C34.indexGet ix 200]) =
    some [some 12, none, some 8589934593] := by decide

example : encB.ok := by
  refine ⟨?_, by decide, by decide⟩
  intro s hs
  simp [encB] at hs
  subst hs
  exact C34.fromSlice_WF _ (by decide) (by decide)

end LanceModel.C15
