import LanceModel.C15.WalkLemmas
/-
`do_take_rows` (take by address): on addresses of live rows every one of the three paths
(contiguous range read, sorted per-fragment reads, sort/dedup/regroup/remap) returns the rows at
those addresses in request order.
-/
namespace LanceModel.C15

/-- the row at an address, through the fragment with that id -/
def rowOf (frags : List Frag) (stable : Bool) (a : Addr) : Row :=
  match findFrag frags a.1 with
  | some f => f.rowAt stable a.2
  | none => { addr := a, k := 0, x := 0, rowid := 0 }

theorem findFrag_of_mem : ∀ {frags : List Frag} {f : Frag}, (frags.map (·.id)).Nodup → f ∈ frags →
    findFrag frags f.id = some f := by
  intro frags
  induction frags with
  | nil => intro f _ h; simp at h
  | cons g t ih =>
    intro f hnd hmem
    simp only [List.map_cons, List.nodup_cons] at hnd
    unfold findFrag
    rw [List.find?_cons]
    rcases List.mem_cons.mp hmem with rfl | hmem'
    · simp
    · have hne : g.id ≠ f.id := by
        intro heq
        exact hnd.1 (List.mem_map.mpr ⟨f, hmem', heq.symm⟩)
      have : (g.id == f.id) = false := by simp [hne]
      simp only [this]
      exact ih hnd.2 hmem'

theorem mem_scanAddrs {frags : List Frag} {a : Addr} :
    a ∈ scanAddrs frags ↔ ∃ f ∈ frags, f.id = a.1 ∧ a.2 ∈ f.liveOffsets := by
  unfold scanAddrs
  rw [List.mem_flatMap]
  constructor
  · rintro ⟨f, hf, ha⟩
    obtain ⟨o, ho, rfl⟩ := List.mem_map.mp ha
    exact ⟨f, hf, rfl, ho⟩
  · rintro ⟨f, hf, hid, ho⟩
    exact ⟨f, hf, List.mem_map.mpr ⟨a.2, ho, by rw [hid]⟩⟩

theorem mem_liveOffsets {f : Frag} {o : Nat} : o ∈ f.liveOffsets ↔ o < f.nphys ∧ f.live o = true := by
  simp [Frag.liveOffsets, List.mem_filter, List.mem_range]

/-- a valid address: the fragment exists, the offset is a live physical row of it -/
theorem valid_addr {frags : List Frag} (hw : WF frags) {a : Addr} (ha : a ∈ scanAddrs frags) :
    ∃ f, f ∈ frags ∧ findFrag frags a.1 = some f ∧ f.id = a.1 ∧ a.2 < f.nphys ∧ f.live a.2 = true ∧
      rowOf frags stable a = f.rowAt stable a.2 ∧ a ≠ tombstone := by
  obtain ⟨f, hf, hid, ho⟩ := mem_scanAddrs.mp ha
  have hfind := findFrag_of_mem hw.2 hf
  rw [hid] at hfind
  obtain ⟨h1, h2⟩ := mem_liveOffsets.mp ho
  refine ⟨f, hf, hfind, hid, h1, h2, by simp [rowOf, hfind], ?_⟩
  intro ht
  have := (hw.1 f hf).2.2
  rw [ht] at hid
  simp [tombstone] at hid
  omega

theorem scanRows_eq_map {frags : List Frag} (hw : WF frags) (stable : Bool) :
    scanRows frags stable = (scanAddrs frags).map (rowOf frags stable) := by
  have key : ∀ l : List Frag, (∀ f ∈ l, f ∈ frags) →
      l.flatMap (fun f => f.liveOffsets.map (f.rowAt stable)) =
        (l.flatMap (fun f => f.liveOffsets.map (fun o => (f.id, o)))).map (rowOf frags stable) := by
    intro l
    induction l with
    | nil => intro _; simp
    | cons g t ih =>
      intro hsub
      rw [List.flatMap_cons, List.flatMap_cons, List.map_append, ih (fun f hf => hsub f (by simp [hf]))]
      congr 1
      rw [List.map_map]
      apply List.map_congr_left
      intro o _
      simp [rowOf, findFrag_of_mem hw.2 (hsub g (by simp))]
  exact key frags (fun f hf => hf)

/-! ### fragment-level reads -/

theorem contiguousOffs_range' : ∀ (offs : List Nat), contiguousOffs offs = true →
    offs = List.range' (offs.headD 0) offs.length ∧ offs.getLastD 0 + 1 = offs.headD 0 + offs.length := by
  intro offs
  induction offs with
  | nil => intro h; simp [contiguousOffs] at h
  | cons a t ih =>
    intro h
    cases t with
    | nil => simp [List.range']
    | cons b t' =>
      simp only [contiguousOffs, Bool.and_eq_true, beq_iff_eq] at h
      obtain ⟨hb, hc⟩ := h
      obtain ⟨h1, h2⟩ := ih hc
      simp only [List.headD_cons, List.length_cons] at h1 h2 ⊢
      constructor
      · rw [List.range'_succ]
        rw [← hb]
        exact congrArg (a :: ·) h1
      · simp only [List.getLastD_cons] at h2 ⊢
        omega

/-- on live, in-range offsets `FileFragment::take_rows` returns the rows at those offsets, whichever reader call it uses -/
theorem takeRows_valid (f : Frag) (stable : Bool) (offs : List Nat)
    (h : ∀ o ∈ offs, o < f.nphys ∧ f.live o = true) :
    f.takeRows stable offs = .ok (offs.map (f.rowAt stable)) := by
  have hfilter : offs.filter f.live = offs := List.filter_eq_self.mpr (fun o ho => (h o ho).2)
  have hany : (offs.any fun o => decide (o ≥ f.nphys)) = false := by
    rw [Bool.eq_false_iff]
    intro hany
    obtain ⟨o, ho, hge⟩ := List.any_eq_true.mp hany
    have := (h o ho).1
    simp at hge
    omega
  unfold Frag.takeRows
  split
  · rename_i hc
    obtain ⟨h1, h2⟩ := contiguousOffs_range' offs hc.2
    unfold Frag.readRange
    have hlast : offs.getLastD 0 ∈ offs := by
      cases offs with
      | nil => simp at hc
      | cons a t => rw [List.getLastD_cons]; exact List.getLastD_mem_cons
    have := (h _ hlast).1
    rw [if_neg (by omega)]
    have hlen : offs.getLastD 0 + 1 - offs.headD 0 = offs.length := by omega
    rw [hlen, ← h1, hfilter]
  · unfold Frag.takeIdx
    rw [hany, hfilter]
    simp

theorem readRange_valid (f : Frag) (stable : Bool) (s n : Nat)
    (h : ∀ o ∈ List.range' s n, o < f.nphys ∧ f.live o = true) (hn : 0 < n) :
    f.readRange stable s (s + n) = .ok ((List.range' s n).map (f.rowAt stable)) := by
  unfold Frag.readRange
  have hlast := (h (s + (n - 1)) (List.mem_range'.mpr ⟨n - 1, by omega, by simp⟩)).1
  rw [if_neg (by omega)]
  have : s + n - s = n := by omega
  rw [this, List.filter_eq_self.mpr (fun o ho => (h o ho).2)]

/-! ### check_row_addrs -/

theorem checkGo_some (ff : Nat) : ∀ (l : List Addr) (last : Addr), (∀ a ∈ last :: l, a ≠ tombstone) →
    ∃ s c, checkGo ff last l = some (s, c) := by
  intro l
  induction l with
  | nil => intro last _; exact ⟨true, true, rfl⟩
  | cons a t ih =>
    intro last h
    unfold checkGo
    rw [if_neg (h last (by simp))]
    obtain ⟨s, c, hsc⟩ := ih a (fun x hx => h x (by simp [hx]))
    rw [hsc]
    exact ⟨_, _, rfl⟩

theorem checkGo_contiguous (ff : Nat) : ∀ (l : List Addr) (last : Addr) (s : Bool),
    checkGo ff last l = some (s, true) →
    last :: l = (List.range' last.2 (l.length + 1)).map (fun o => (last.1, o)) ∧
      (l.getLastD last).2 = last.2 + l.length := by
  intro l
  induction l with
  | nil => intro last s _; simp [List.range']
  | cons a t ih =>
    intro last s h
    unfold checkGo at h
    split at h
    · simp at h
    · split at h
      · simp at h
      · rename_i s' c' hgo
        simp only [Option.some.injEq, Prod.mk.injEq, Bool.and_eq_true, beq_iff_eq] at h
        obtain ⟨_, ⟨⟨ha1, ha2⟩, _⟩, hc'⟩ := h
        subst hc'
        obtain ⟨h1, h2⟩ := ih a s' hgo
        constructor
        · rw [List.range'_succ, List.map_cons]
          congr 1
          simp only [List.length_cons] at h1 ⊢
          rw [← ha1, ← ha2]
          exact h1
        · rw [List.getLastD_cons, h2, ha2]
          simp only [List.length_cons]
          omega

/-! ### collect, runs, sortDedup -/

theorem collect_ok {α : Type} (G : α → Res (List Row)) (H : α → List Row) : ∀ (L : List α),
    (∀ g ∈ L, G g = .ok (H g)) → collect (L.map G) = .ok (L.map H) := by
  intro L
  induction L with
  | nil => intro _; rfl
  | cons a t ih =>
    intro h
    simp only [List.map_cons, collect]
    rw [h a (by simp), ih (fun g hg => h g (by simp [hg]))]

theorem runs_flat : ∀ (l : List Addr), (runs l).flatMap (fun g => g.2.map (fun o => (g.1, o))) = l := by
  intro l
  induction l with
  | nil => simp [runs]
  | cons a t ih =>
    unfold runs
    split
    · rename_i fid offs rest heq
      rw [heq] at ih
      split
      · rename_i hf
        simp only [List.flatMap_cons, List.map_cons, List.cons_append] at ih ⊢
        rw [ih, hf]
      · simp only [List.flatMap_cons, List.map_cons, List.map_nil, List.cons_append, List.nil_append] at ih ⊢
        rw [ih]
    · rename_i heq
      rw [heq] at ih
      simp at ih
      simp [ih]

theorem mem_runs {l : List Addr} {g : Nat × List Nat} (hg : g ∈ runs l) : ∀ o ∈ g.2, (g.1, o) ∈ l := by
  intro o ho
  have := runs_flat l
  rw [← this]
  exact List.mem_flatMap.mpr ⟨g, hg, List.mem_map.mpr ⟨o, ho, rfl⟩⟩

theorem mem_insertAddr (a b : Addr) (l : List Addr) : b ∈ insertAddr a l ↔ b = a ∨ b ∈ l := by
  induction l with
  | nil => simp [insertAddr]
  | cons c t ih =>
    unfold insertAddr
    split
    · simp
    · split
      · rename_i heq
        subst heq
        simp
      · simp only [List.mem_cons, ih]
        constructor
        · rintro (h | h | h) <;> simp [h]
        · rintro (h | h | h) <;> simp [h]

theorem mem_sortDedup (b : Addr) (l : List Addr) : b ∈ sortDedup l ↔ b ∈ l := by
  induction l with
  | nil => simp [sortDedup]
  | cons a t ih =>
    have : sortDedup (a :: t) = insertAddr a (sortDedup t) := rfl
    rw [this, mem_insertAddr, ih]
    simp

theorem find?_unique {α : Type} (p : α → Bool) (v : α) : ∀ (l : List α),
    (∃ r ∈ l, p r = true) → (∀ r ∈ l, p r = true → r = v) → l.find? p = some v := by
  intro l
  induction l with
  | nil => intro h _; obtain ⟨r, hr, _⟩ := h; simp at hr
  | cons a t ih =>
    intro hex huniq
    rw [List.find?_cons]
    cases hpa : p a with
    | true => simp [huniq a (by simp) hpa]
    | false =>
      simp only
      apply ih
      · obtain ⟨r, hr, hpr⟩ := hex
        rcases List.mem_cons.mp hr with rfl | hr'
        · rw [hpa] at hpr; simp at hpr
        · exact ⟨r, hr', hpr⟩
      · intro r hr; exact huniq r (by simp [hr])

theorem filterMap_all_some {α β : Type} (f : α → Option β) (g : α → β) : ∀ (l : List α),
    (∀ a ∈ l, f a = some (g a)) → l.filterMap f = l.map g := by
  intro l
  induction l with
  | nil => intro _; rfl
  | cons a t ih =>
    intro h
    rw [List.filterMap_cons, h a (by simp), List.map_cons, ih (fun x hx => h x (by simp [hx]))]

/-! ### the three paths -/

theorem runs_nonempty : ∀ (l : List Addr) (g : Nat × List Nat), g ∈ runs l → g.2 ≠ [] := by
  intro l
  induction l with
  | nil => intro g hg; simp [runs] at hg
  | cons a t ih =>
    intro g hg
    unfold runs at hg
    split at hg
    · rename_i fid offs rest' heq
      split at hg
      · rcases List.mem_cons.mp hg with rfl | hg'
        · simp
        · exact ih g (by rw [heq]; simp [hg'])
      · rcases List.mem_cons.mp hg with rfl | hg'
        · simp
        · exact ih g (by rw [heq]; exact hg')
    · rcases List.mem_cons.mp hg with rfl | hg'
      · simp
      · simp at hg'

theorem slowReads_eq (stable : Bool) (sd : List Addr) : ∀ (l : List Frag),
    slowReads l stable sd =
      (l.filter (fun f => !(groupOffs sd f).isEmpty)).map (fun f => f.takeRows stable (groupOffs sd f)) := by
  intro l
  induction l with
  | nil => rfl
  | cons g t ih =>
    unfold slowReads at ih ⊢
    rw [List.filterMap_cons, List.filter_cons]
    cases he : (groupOffs sd g).isEmpty with
    | true => simpa using ih
    | false => simpa using ih

/-- sorted path: every run is read from its fragment -/
theorem readGroup_valid {frags : List Frag} (hw : WF frags) (stable : Bool) (l : List Addr)
    (hv : ∀ a ∈ l, a ∈ scanAddrs frags) (g : Nat × List Nat) (hg : g ∈ runs l) :
    readGroup frags stable g = .ok (g.2.map (fun o => rowOf frags stable (g.1, o))) := by
  have hflat := mem_runs hg
  have hne := runs_nonempty l g hg
  cases hoffs : g.2 with
  | nil => exact absurd hoffs hne
  | cons o0 t0 =>
    have hm0 : (g.1, o0) ∈ l := hflat o0 (by rw [hoffs]; simp)
    obtain ⟨f, hf, hfind, hid, _, _, _, _⟩ := valid_addr (stable := stable) hw (hv _ hm0)
    simp only at hfind
    unfold readGroup
    rw [hfind]
    simp only
    rw [← hoffs]
    rw [takeRows_valid f stable g.2 (by
      intro o ho
      obtain ⟨f', hf', hfind', _, hn', hl', _, _⟩ := valid_addr (stable := stable) hw (hv _ (hflat o ho))
      simp only at hfind' hn' hl'
      rw [hfind] at hfind'
      cases hfind'
      exact ⟨hn', hl'⟩)]
    congr 1
    apply List.map_congr_left
    intro o _
    simp [rowOf, hfind]

theorem takeAddrs_valid {frags : List Frag} (hw : WF frags) (stable : Bool) (addrs : List Addr)
    (hv : ∀ a ∈ addrs, a ∈ scanAddrs frags) :
    takeAddrs frags stable addrs = .ok (addrs.map (rowOf frags stable)) := by
  cases addrs with
  | nil => rfl
  | cons first rest =>
    obtain ⟨f0, hf0, hfind0, hid0, hn0, hl0, hrow0, _⟩ := valid_addr (stable := stable) hw (hv first (by simp))
    obtain ⟨s, c, hsc⟩ := checkGo_some first.1 rest first
      (fun a ha => (valid_addr (stable := stable) hw (hv a ha)).choose_spec.2.2.2.2.2.2)
    unfold takeAddrs
    simp only [checkAddrs, hsc]
    cases c with
    | true =>
      -- contiguous: one range read
      simp only [if_true]
      rw [hfind0]
      simp only
      obtain ⟨h1, h2⟩ := checkGo_contiguous first.1 rest first s hsc
      have hall : ∀ o ∈ List.range' first.2 (rest.length + 1), o < f0.nphys ∧ f0.live o = true := by
        intro o ho
        have hmem : (first.1, o) ∈ first :: rest := by
          rw [h1]; exact List.mem_map.mpr ⟨o, ho, rfl⟩
        obtain ⟨f, hf, hfind, hid, hn, hl, _, _⟩ := valid_addr (stable := stable) hw (hv _ hmem)
        simp only at hfind hn hl
        rw [hfind0] at hfind
        cases hfind
        exact ⟨hn, hl⟩
      have hrr := readRange_valid f0 stable first.2 (rest.length + 1) hall (by omega)
      rw [h2]
      rw [show first.2 + rest.length + 1 = first.2 + (rest.length + 1) by omega, hrr]
      congr 1
      rw [h1, List.map_map]
      apply List.map_congr_left
      intro o ho
      simp [rowOf, hfind0]
    | false =>
      simp only [Bool.false_eq_true, if_false]
      cases s with
      | true =>
        -- sorted: per-run reads, concatenated
        simp only [if_true]
        rw [collect_ok (readGroup frags stable) (fun g => g.2.map (fun o => rowOf frags stable (g.1, o)))
          (runs (first :: rest)) (readGroup_valid hw stable (first :: rest) hv)]
        simp only [finish]
        congr 1
        rw [List.flatten_eq_flatMap, List.flatMap_map]
        simp only [id]
        have := runs_flat (first :: rest)
        conv => rhs; rw [← this]
        rw [List.map_flatMap]
        congr 1
        funext g
        rw [List.map_map]
        rfl
      | false =>
        -- slow path: sort, dedup, regroup by fragment, remap by address
        simp only [Bool.false_eq_true, if_false]
        have hper : ∀ f ∈ frags,
            f.takeRows stable (groupOffs (sortDedup (first :: rest)) f) =
              .ok ((groupOffs (sortDedup (first :: rest)) f).map (f.rowAt stable)) := by
          intro f hf
          apply takeRows_valid
          intro o ho
          obtain ⟨a, ha, rfl⟩ := List.mem_map.mp ho
          obtain ⟨ha1, ha2⟩ := List.mem_filter.mp ha
          have hmem := (mem_sortDedup a _).mp ha1
          obtain ⟨f', hf', hfind', hid', hn', hl', _, _⟩ := valid_addr (stable := stable) hw (hv _ hmem)
          have : f' = f := by
            have h1 := findFrag_of_mem hw.2 hf
            have : a.1 = f.id := by simpa using ha2
            rw [this] at hfind'
            rw [h1] at hfind'
            exact (Option.some.inj hfind').symm
          subst this
          exact ⟨hn', hl'⟩
        rw [slowReads_eq]
        rw [collect_ok (fun f : Frag => f.takeRows stable (groupOffs (sortDedup (first :: rest)) f))
          (fun f => (groupOffs (sortDedup (first :: rest)) f).map (f.rowAt stable)) _
          (fun f hf => hper f (List.mem_filter.mp hf).1)]
        simp only [finish]
        -- the fragment of the first address has a non-empty group
        have hgrp : ∀ a ∈ first :: rest, ∀ f, f.id = a.1 → a.2 ∈ groupOffs (sortDedup (first :: rest)) f := by
          intro a ha f hid
          apply List.mem_map.mpr
          exact ⟨a, List.mem_filter.mpr ⟨(mem_sortDedup _ _).mpr ha, by simp [hid]⟩, rfl⟩
        have hselmem : ∀ a ∈ first :: rest, ∀ f, f ∈ frags → f.id = a.1 →
            f ∈ frags.filter (fun f => !(groupOffs (sortDedup (first :: rest)) f).isEmpty) := by
          intro a ha f hf hid
          apply List.mem_filter.mpr
          refine ⟨hf, ?_⟩
          have := hgrp a ha f hid
          cases h : groupOffs (sortDedup (first :: rest)) f with
          | nil => rw [h] at this; simp at this
          | cons _ _ => simp
        have hsel0 := hselmem first (by simp) f0 hf0 hid0
        cases hsel : (frags.filter (fun f => !(groupOffs (sortDedup (first :: rest)) f).isEmpty)).map
            (fun f => (groupOffs (sortDedup (first :: rest)) f).map (f.rowAt stable)) with
        | nil =>
          have := List.map_eq_nil_iff.mp hsel
          rw [this] at hsel0
          simp at hsel0
        | cons b bs =>
          simp only [remap]
          rw [← hsel]
          congr 1
          apply filterMap_all_some
          intro a ha
          obtain ⟨f, hf, hfindf, hid, hn, hl, hrow, _⟩ := valid_addr (stable := stable) hw (hv a ha)
          have hoffs := hgrp a ha f hid
          have hfsel := hselmem a ha f hf hid
          apply find?_unique
          · refine ⟨f.rowAt stable a.2, ?_, ?_⟩
            · rw [List.mem_flatten]
              exact ⟨(groupOffs (sortDedup (first :: rest)) f).map (f.rowAt stable),
                List.mem_map.mpr ⟨f, hfsel, rfl⟩, List.mem_map.mpr ⟨a.2, hoffs, rfl⟩⟩
            · simp [Frag.rowAt, hid]
          · intro r hr hpr
            rw [List.mem_flatten] at hr
            obtain ⟨l, hl', hrl⟩ := hr
            obtain ⟨f', hf', rfl⟩ := List.mem_map.mp hl'
            obtain ⟨o', _, rfl⟩ := List.mem_map.mp hrl
            have haddr : (f'.id, o') = a := by simpa [Frag.rowAt] using hpr
            have hf'mem : f' ∈ frags := (List.mem_filter.mp hf').1
            have : f' = f := by
              have h1 := findFrag_of_mem hw.2 hf'mem
              rw [show f'.id = a.1 by rw [← haddr]] at h1
              rw [hfindf] at h1
              exact (Option.some.inj h1).symm
            subst this
            rw [hrow, ← haddr]

end LanceModel.C15
