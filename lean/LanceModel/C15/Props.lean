import LanceModel.C15.TakeLemmas
/-
C15 — Random access agrees with scanning.

"take by row offsets, take_rows by row ids or addresses … return, for every requested in-range key
and in the requested order (duplicates allowed), exactly the row a full scan shows at that position
or with that id, under any … deletion pattern.  The row id and row address columns a scan reports
always resolve back to the same row."

All theorems quantify over every fragment list (any number of fragments, any deletion vectors,
any data), every key list (any length, unsorted, with duplicates) — no size bound.
-/
namespace LanceModel.C15

instance (f : Frag) : Decidable (WFf f) := by unfold WFf; infer_instance
instance (frags : List Frag) : Decidable (WF frags) := by unfold WF; infer_instance

/-! ## 1. OffsetMapper -/

/-- **map_offset_spec.** For every deletion set and every non-decreasing offset sequence fed to one
`OffsetMapper`, every call returns (the loop ends within `fuelFor`, the `assert_ne!` never fires) and
the k-th call returns the position of the `offset`-th non-deleted row: a live position preceded by
exactly `offset` live positions. -/
theorem map_offset_spec (dv : List Nat) (hdv : dv.Nodup) (offs : List Nat) (hs : offs.Pairwise (· ≤ ·)) :
    ∃ rs, runMapper (Mapper.new dv) offs = some rs ∧ rs.length = offs.length ∧
      ∀ p ∈ offs.zip rs, IsAns dv p.1 p.2 := by
  have key : ∀ (offs : List Nat) (m : Mapper) (lo : Nat), MInv dv m lo → offs.Pairwise (· ≤ ·) →
      (∀ o ∈ offs, lo ≤ o) → ∃ rs, runMapper m offs = some rs ∧ rs.length = offs.length ∧
        ∀ p ∈ offs.zip rs, IsAns dv p.1 p.2 := by
    intro offs
    induction offs with
    | nil => intro m lo _ _ _; exact ⟨[], rfl, rfl, by simp⟩
    | cons o os ih =>
      intro m lo hinv hs hlo
      obtain ⟨h1, h2⟩ := List.pairwise_cons.mp hs
      obtain ⟨r, m', hm, hans, hinv'⟩ := mapOffset_spec hdv hinv (hlo o (by simp))
      obtain ⟨rs, hrs, hlen, hall⟩ := ih m' o hinv' h2 h1
      refine ⟨r :: rs, ?_, by simp [hlen], ?_⟩
      · unfold runMapper
        rw [hm]
        simp [hrs]
      · intro p hp
        simp only [List.zip_cons_cons, List.mem_cons] at hp
        rcases hp with rfl | hp
        · exact hans
        · exact hall p hp
  exact key offs (Mapper.new dv) 0 (minv_new hdv) hs (by simp)

/-- the answer of `map_offset_spec` is unique: it is *the* `offset`-th live position -/
theorem map_offset_answer_unique (dv : List Nat) (hdv : dv.Nodup) (k a b : Nat)
    (ha : IsAns dv k a) (hb : IsAns dv k b) : a = b := ans_unique hdv ha hb

/-- the loop terminates within the fuel (separately from the value it returns) -/
theorem map_offset_terminates (dv : List Nat) (hdv : dv.Nodup) (m : Mapper) (lo o : Nat)
    (hinv : MInv dv m lo) (hlo : lo ≤ o) : (m.mapOffset o).isSome = true := by
  obtain ⟨r, m', hm, _, _⟩ := mapOffset_spec hdv hinv hlo
  simp [hm]

-- non-vacuity: the unit test of deletion.rs, and a duplicate offset
example : runMapper (Mapper.new [3, 5]) [0, 1, 2, 3, 4, 5, 6] = some [0, 1, 2, 4, 6, 7, 8] := by decide
example : runMapper (Mapper.new [0, 1, 2]) [0, 1, 1, 6] = some [3, 4, 4, 9] := by decide
example : ([3, 5] : List Nat).Nodup ∧ ([0, 1, 1, 6] : List Nat).Pairwise (· ≤ ·) := by decide
example : IsAns [3, 5] 3 4 := by simp [IsAns, rangeCard]

/-! ## 2. offsets -> addresses -/

/-- **offsets_to_addresses.** `row_offsets_to_row_addresses` returns, in request order, the address
the ordered scan shows at every requested offset (and the tombstone for offsets beyond the end), for
every offset list — unsorted, with duplicates. -/
theorem offsets_to_addresses (frags : List Frag) (hw : WF frags) (offs : List Nat) :
    rowOffsetsToAddrs frags offs = some (offs.map (fun o => ((scanAddrs frags)[o]?).getD tombstone)) := by
  rw [rowOffsetsToAddrs_spec hw.1]
  simp [addrAt]

/-! ## 3. take = scan -/

theorem scanRows_getElem? {frags : List Frag} (hw : WF frags) (stable : Bool) (o : Nat) :
    (scanRows frags stable)[o]? = ((scanAddrs frags)[o]?).map (rowOf frags stable) := by
  rw [scanRows_eq_map hw, List.getElem?_map]

theorem scanRows_length {frags : List Frag} (hw : WF frags) (stable : Bool) :
    (scanRows frags stable).length = (scanAddrs frags).length := by
  rw [scanRows_eq_map hw, List.length_map]

/-- **take_eq_scan.** For every well-formed table, every deletion pattern and every list of in-range
offsets (unsorted, duplicates allowed), `Dataset::take` returns exactly the rows the ordered scan
shows at those positions, in the requested order. -/
theorem take_eq_scan (frags : List Frag) (stable : Bool) (hw : WF frags) (offs : List Nat)
    (hin : ∀ o ∈ offs, o < (scanRows frags stable).length) :
    ∃ rows, take frags stable offs = .ok rows ∧
      rows.map some = offs.map (fun o => (scanRows frags stable)[o]?) := by
  rw [scanRows_length hw] at hin
  unfold take
  by_cases he : offs.isEmpty
  · have : offs = [] := List.isEmpty_iff.mp he
    subst this
    exact ⟨[], by simp, by simp⟩
  · rw [if_neg he, rowOffsetsToAddrs_spec hw.1]
    simp only
    have hvalid : ∀ a ∈ offs.map (addrAt frags 0), a ∈ scanAddrs frags := by
      intro a ha
      obtain ⟨o, ho, rfl⟩ := List.mem_map.mp ha
      have hlt := hin o ho
      have : (scanAddrs frags)[o]? = some (scanAddrs frags)[o] := List.getElem?_eq_getElem hlt
      simp only [addrAt, Nat.sub_zero, this, Option.getD_some]
      exact List.getElem_mem hlt
    refine ⟨_, takeAddrs_valid hw stable _ hvalid, ?_⟩
    rw [List.map_map, List.map_map]
    apply List.map_congr_left
    intro o ho
    have hlt := hin o ho
    have : (scanAddrs frags)[o]? = some (scanAddrs frags)[o] := List.getElem?_eq_getElem hlt
    simp [scanRows_getElem? hw, addrAt, this]

/-- **take_scan_eq_scan.** `take_scan` over any list of in-range row ranges (overlapping, unordered, empty
ranges allowed) returns the scan's rows of those ranges, range after range. -/
theorem take_scan_eq_scan (frags : List Frag) (stable : Bool) (hw : WF frags) (ranges : List (Nat × Nat))
    (hin : ∀ r ∈ ranges, r.2 ≤ (scanRows frags stable).length) :
    ∃ rows, takeScan frags stable ranges = .ok rows ∧
      rows.map some = ranges.flatMap (fun r => (List.range' r.1 (r.2 - r.1)).map (fun o => (scanRows frags stable)[o]?)) := by
  induction ranges with
  | nil => exact ⟨[], rfl, rfl⟩
  | cons r t ih =>
    obtain ⟨b, hb1, hb2⟩ := ih (fun x hx => hin x (by simp [hx]))
    obtain ⟨a, ha1, ha2⟩ := take_eq_scan frags stable hw (List.range' r.1 (r.2 - r.1)) (by
      intro o ho
      obtain ⟨i, hi, rfl⟩ := List.mem_range'.mp ho
      have := hin r (by simp)
      omega)
    refine ⟨a ++ b, ?_, ?_⟩
    · unfold takeScan
      rw [ha1, hb1]
    · rw [List.map_append, ha2, hb2, List.flatMap_cons]

/-- **take_addr_eq_scan.** Take by address (`TakeBuilder::try_new_from_addresses`, and `take_rows`
without stable row ids): for every list of addresses of live rows — any order, duplicates, across
fragments — the result is the scan's row at each address, in request order. -/
theorem take_addr_eq_scan (frags : List Frag) (stable : Bool) (hw : WF frags) (rs : List Row)
    (hrs : ∀ r ∈ rs, r ∈ scanRows frags stable) :
    takeAddrs frags stable (rs.map (·.addr)) = .ok rs := by
  have hrow : ∀ r ∈ rs, r.addr ∈ scanAddrs frags ∧ rowOf frags stable r.addr = r := by
    intro r hr
    have := hrs r hr
    rw [scanRows_eq_map hw] at this
    obtain ⟨a, ha, rfl⟩ := List.mem_map.mp this
    obtain ⟨f, _, _, hid, _, _, hrow, _⟩ := valid_addr (stable := stable) hw ha
    have haddr : (rowOf frags stable a).addr = a := by rw [hrow]; simp [Frag.rowAt, hid]
    rw [haddr]
    exact ⟨ha, rfl⟩
  rw [takeAddrs_valid hw stable _ (by
    intro a ha
    obtain ⟨r, hr, rfl⟩ := List.mem_map.mp ha
    exact (hrow r hr).1)]
  congr 1
  rw [List.map_map]
  conv => rhs; rw [← List.map_id rs]
  apply List.map_congr_left
  intro r hr
  simp [(hrow r hr).2]

/-! ## 4. row ids resolve back -/

/-- stable row ids of the live rows are pairwise distinct -/
def UniqueIds (frags : List Frag) : Prop := ((indexPairs frags).map (·.1)).Nodup

instance (frags : List Frag) : Decidable (UniqueIds frags) := by unfold UniqueIds; infer_instance

theorem indexPairs_eq (frags : List Frag) :
    indexPairs frags = (scanRows frags true).map (fun r => (r.rowid, r.addr)) := by
  unfold indexPairs scanRows
  rw [List.map_flatMap]
  congr 1
  funext f
  rw [List.map_map]
  apply List.map_congr_left
  intro o _
  simp [Frag.rowAt]

theorem find_pair : ∀ (l : List (Nat × Addr)), (l.map (·.1)).Nodup → ∀ p ∈ l,
    l.find? (fun q => q.1 == p.1) = some p := by
  intro l
  induction l with
  | nil => intro _ p hp; simp at hp
  | cons a t ih =>
    intro hnd p hp
    simp only [List.map_cons, List.nodup_cons] at hnd
    rw [List.find?_cons]
    rcases List.mem_cons.mp hp with rfl | hp'
    · simp
    · have hne : a.1 ≠ p.1 := by
        intro heq
        exact hnd.1 (List.mem_map.mpr ⟨p, hp', heq.symm⟩)
      have : (a.1 == p.1) = false := by simp [hne]
      simp only [this]
      exact ih hnd.2 p hp'

/-- **rowid_roundtrip.** The `_rowid` the scan reports for a row resolves, through the row id index,
to the `_rowaddr` the scan reports for the same row — for every live row of every table. -/
theorem rowid_roundtrip (frags : List Frag) (hu : UniqueIds frags) (r : Row) (hr : r ∈ scanRows frags true) :
    indexGet frags r.rowid = some r.addr := by
  unfold indexGet
  have hmem : (r.rowid, r.addr) ∈ indexPairs frags := by
    rw [indexPairs_eq]; exact List.mem_map.mpr ⟨r, hr, rfl⟩
  rw [find_pair (indexPairs frags) hu _ hmem]
  rfl

/-- an id that no live row carries is not in the index (it is dropped by `take_rows`) -/
theorem rowid_unknown (frags : List Frag) (id : Nat) (h : ∀ r ∈ scanRows frags true, r.rowid ≠ id) :
    indexGet frags id = none := by
  unfold indexGet
  rw [Option.map_eq_none_iff, List.find?_eq_none]
  intro p hp
  rw [indexPairs_eq] at hp
  obtain ⟨r, hr, rfl⟩ := List.mem_map.mp hp
  simpa using h r hr

/-- **take_rows_eq_scan.** With stable row ids, `take_rows` over any list of ids of live rows (any
order, duplicates) returns exactly the scan's rows with those ids, in request order. -/
theorem take_rows_eq_scan (frags : List Frag) (hw : WF frags) (hu : UniqueIds frags) (rs : List Row)
    (hrs : ∀ r ∈ rs, r ∈ scanRows frags true) :
    takeRowsById frags (rs.map (·.rowid)) = .ok rs := by
  unfold takeRowsById idsToAddrs
  have : (rs.map (·.rowid)).filterMap (indexGet frags) = rs.map (·.addr) := by
    rw [List.filterMap_map]
    apply filterMap_all_some
    intro r hr
    exact rowid_roundtrip frags hu r (hrs r hr)
  rw [this]
  exact take_addr_eq_scan frags true hw rs hrs

/-! ## 5. full strength, and where the code falls short of it -/

/-- the property for *arbitrary* key lists: keys beyond the end are outside the property, the
in-range keys of the same request must still be answered (in order) -/
def C15_full : Prop :=
  ∀ (frags : List Frag) (stable : Bool) (offs : List Nat), WF frags →
    ∃ rows, take frags stable offs = .ok rows ∧
      rows.map some = (offs.filter (fun o => decide (o < (scanRows frags stable).length))).map
        (fun o => (scanRows frags stable)[o]?)

/-- what is proved: the full conclusion when no requested key lies beyond the end -/
theorem C15_partial (frags : List Frag) (stable : Bool) (offs : List Nat) (hw : WF frags)
    (hin : ∀ o ∈ offs, o < (scanRows frags stable).length) :
    ∃ rows, take frags stable offs = .ok rows ∧
      rows.map some = (offs.filter (fun o => decide (o < (scanRows frags stable).length))).map
        (fun o => (scanRows frags stable)[o]?) := by
  obtain ⟨rows, h1, h2⟩ := take_eq_scan frags stable hw offs hin
  refine ⟨rows, h1, ?_⟩
  rw [h2, List.filter_eq_self.mpr (by intro o ho; simpa using hin o ho)]

def oneRow : Frag := ⟨0, 1, [], [5], [38], [7]⟩

/-- the code does not meet the full statement: an out-of-range offset in front of an in-range one makes
`check_row_addrs` compute `u64::MAX + 1` (panic with overflow checks); behind it, the request fails with
`InvalidInput`; twice the same out-of-range key reaches `batches.pop().unwrap()` on no batch. -/
theorem C15_counterexample : ¬ C15_full := by
  intro h
  obtain ⟨rows, h1, _⟩ := h [oneRow] false [1, 0] (by decide)
  have : take [oneRow] false [1, 0] = .panic := by decide
  rw [this] at h1
  cases h1

example : take [oneRow] false [0, 1] = .err := by decide
example : takeAddrs [oneRow] false [(5, 0), (5, 0)] = .panic := by decide
example : takeAddrs [oneRow] false [(5, 0), (0, 0)] = .ok [oneRow.rowAt false 0] := by decide

/-! ## non-vacuity of the table theorems -/

def fA : Frag := ⟨0, 4, [1, 2], [0, 9, 9, 3], [3, 9, 9, 24], [10, 11, 12, 13]⟩
def fB : Frag := ⟨3, 3, [1], [4, 9, 6], [31, 9, 45], [2, 14, 1]⟩

example : WF [fA, fB] := by decide
example : UniqueIds [fA, fB] := by decide
example : (scanRows [fA, fB] true).map (·.k) = [0, 3, 4, 6] := by decide
-- unsorted, duplicates, across the fragment boundary, skipping deleted rows
example : (match take [fA, fB] true [3, 0, 0, 2, 1] with | .ok rows => rows.map (·.k) | _ => []) = [6, 0, 0, 4, 3] := by decide
example : ∀ o ∈ [3, 0, 0, 2, 1], o < (scanRows [fA, fB] true).length := by decide
example : (match takeRowsById [fA, fB] [1, 13, 10, 1, 999, 11] with | .ok rows => rows.map (·.k) | _ => []) = [6, 3, 0, 6] := by decide
example : indexGet [fA, fB] 1 = some (3, 2) ∧ indexGet [fA, fB] 11 = none := by decide
example : (match takeScan [fA, fB] true [(2, 4), (0, 1), (1, 1)] with | .ok rows => rows.map (·.k) | _ => []) = [4, 6, 0] := by decide

end LanceModel.C15
