import LanceModel.Util
import LanceModel.C15.Model
/-
C15 driver.  One output line per input line.

  hist …                                   history op executed only by the harness           -> ok
  ds <stable 0|1> <nfrags>                 start a layout                                    -> ok <stable> <nfrags>
  synth <nfrags> / sfrag <id> <nphys> <dv> <rowids> <seglens>   synthetic row-id layout (for idx only)
  frag <id> <nphys> <dv> <ks> <xs> <rowids>   one fragment of the layout (manifest order)    -> echo + live=<count_rows>
  count                                    -> total live rows
  scan                                     -> ordered scan rows  k:x:addr:rowid
  take <cols> <offs>                       Dataset::take
  takerows <cols> <ids>                    Dataset::take_rows (row ids when stable, else addresses)
  takeaddr <cols> <addrs>                  TakeBuilder::try_new_from_addresses
  takescan <cols> <starts> <ends>          Dataset::take_scan over the ranges starts[i]..ends[i] (cols among k, x)
  map <S|B> <dv> <offs>                    OffsetMapper over a Set / Bitmap deletion vector
  idx <ids>                                RowIdIndex::get for each id over the current layout
-/
namespace LanceModel.C15.Driver
open LanceModel.Util LanceModel.C15

structure St where
  stable : Bool
  frags : List Frag

def init : St := ⟨false, []⟩

def bad : String := "bad"

/-- one item of a compact list: `n`, `a..b` (a, a+1, …, b) or `v*n` (n copies of v) -/
def parseItem (t : String) : Option (List Nat) :=
  match t.splitOn ".." with
  | [a, b] =>
    match a.toNat?, b.toNat? with
    | some a, some b => if a ≤ b then some (List.range' a (b - a + 1)) else none
    | _, _ => none
  | _ =>
    match t.splitOn "*" with
    | [v, n] =>
      match v.toNat?, n.toNat? with
      | some v, some n => some (List.replicate n v)
      | _, _ => none
    | _ => t.toNat?.map (fun v => [v])

/-- list of naturals in the compact notation of the harness: `-` or comma separated items -/
def parseCompact (s : String) : Option (List Nat) :=
  if s = "-" then some []
  else ((s.splitOn ",").mapM parseItem).map List.flatten

/-- placeholder the harness writes for the data of a deleted physical row -/
def deletedVal : Nat := 999999

/-- the `x` column token: `=` means the value the harness writes at creation, `x = (7 k + 3) mod 50` -/
def parseXs (tok : String) (ks : List Nat) : Option (List Nat) :=
  if tok = "=" then some (ks.map (fun k => if k = deletedVal then deletedVal else (k * 7 + 3) % 50))
  else parseCompact tok

def dedup : List Nat → List Nat
  | [] => []
  | a :: t => if (dedup t).contains a then dedup t else a :: dedup t

def U32 : Nat := 4294967296

def decodeAddr (v : Nat) : Addr := (v / U32, v % U32)

def showCol (r : Row) (c : Char) : String :=
  match c with
  | 'k' => toString r.k
  | 'x' => toString r.x
  | 'a' => toString r.addr.toNat
  | 'i' => toString r.rowid
  | _ => "?"

def showRow (cols : String) (r : Row) : String := ":".intercalate (cols.toList.map (showCol r))

def showRows (cols : String) (rows : List Row) : String :=
  "ok " ++ toString rows.length ++ " " ++
    (if rows.isEmpty then "-" else " ".intercalate (rows.map (showRow cols)))

def showRes (cols : String) : Res (List Row) → String
  | .ok rows => showRows cols rows
  | .err => "err invalid_input"
  | .panic => "panic"

def validCols (cols : String) : Bool :=
  !cols.isEmpty && cols.toList.all (fun c => c == 'k' || c == 'x' || c == 'a' || c == 'i')

def step (s : St) (line : String) : St × String :=
  match splitTokens line with
  | "hist" :: _ => (s, "ok")
  | ["ds", b, n] =>
    match b, n.toNat? with
    | "0", some n => (⟨false, []⟩, s!"ok 0 {n}")
    | "1", some n => (⟨true, []⟩, s!"ok 1 {n}")
    | _, _ => (s, bad)
  | ["synth", n] =>
    match n.toNat? with
    | some n => (⟨true, []⟩, s!"ok 1 {n}")
    | none => (s, bad)
  | ["sfrag", id, nphys, dv, rowids, seglens] =>
    match id.toNat?, nphys.toNat?, parseCompact dv, parseCompact rowids, parseCompact seglens with
    | some id, some nphys, some dv, some rowids, some _ =>
      if rowids.length = nphys then
        let f : Frag := ⟨id, nphys, dedup dv, [], [], rowids⟩
        (⟨s.stable, s.frags ++ [f]⟩, s!"sfrag {id} live={f.countRows}")
      else (s, bad)
    | _, _, _, _, _ => (s, bad)
  | ["frag", id, nphys, dv, ks, xs, rowids] =>
    match id.toNat?, nphys.toNat?, parseCompact dv, parseCompact ks, parseCompact rowids with
    | some idn, some nphysn, some dvl, some ksl, some ridl =>
      match parseXs xs ksl with
      | some xsl =>
        let f : Frag := ⟨idn, nphysn, dedup dvl, ksl, xsl, ridl⟩
        (⟨s.stable, s.frags ++ [f]⟩, s!"frag {id} {nphys} {dv} {ks} {xs} {rowids} live={f.countRows}")
      | none => (s, bad)
    | _, _, _, _, _ => (s, bad)
  | ["count"] => (s, toString (scanRows s.frags s.stable).length)
  | ["scan"] => (s, showRows "kxai" (scanRows s.frags s.stable))
  | ["take", cols, offs] =>
    match validCols cols, parseCompact offs with
    | true, some offs => (s, showRes cols (take s.frags s.stable offs))
    | _, _ => (s, bad)
  | ["takerows", cols, ids] =>
    match validCols cols, parseCompact ids with
    | true, some ids =>
      if s.stable then (s, showRes cols (takeRowsById s.frags ids))
      else (s, showRes cols (takeAddrs s.frags false (ids.map decodeAddr)))
    | _, _ => (s, bad)
  | ["takeaddr", cols, addrs] =>
    match validCols cols, parseCompact addrs with
    | true, some addrs => (s, showRes cols (takeAddrs s.frags s.stable (addrs.map decodeAddr)))
    | _, _ => (s, bad)
  | ["takescan", cols, starts, ends] =>
    match validCols cols, parseCompact starts, parseCompact ends with
    | true, some starts, some ends =>
      if starts.length = ends.length then (s, showRes cols (takeScan s.frags s.stable (starts.zip ends)))
      else (s, bad)
    | _, _, _ => (s, bad)
  | ["map", kind, dv, offs] =>
    match kind == "S" || kind == "B", parseCompact dv, parseCompact offs with
    | true, some dv, some offs =>
      match runMapper (Mapper.new (dedup dv)) offs with
      | some rs => (s, showNatList rs)
      | none => (s, "noreturn")
    | _, _, _ => (s, bad)
  | ["idx", ids] =>
    match parseCompact ids with
    | some ids =>
      (s, " ".intercalate (ids.map (fun i => match indexGet s.frags i with
                                             | some a => toString a.toNat
                                             | none => "none")))
    | none => (s, bad)
  | _ => (s, bad)

end LanceModel.C15.Driver
