/-
Shared, import-free helpers for the line-protocol drivers.
Conventions: tokens are separated by single spaces; a list of naturals is `1,2,3`, the empty
list is `-`; an absent optional is `none`.
-/
namespace LanceModel.Util

def splitTokens (line : String) : List String :=
  (line.trimAscii.toString.splitOn " ").filter (· ≠ "")

def parseNatList (s : String) : Option (List Nat) :=
  if s = "-" then some []
  else (s.splitOn ",").mapM (·.toNat?)

def showNatList (l : List Nat) : String :=
  if l.isEmpty then "-" else ",".intercalate (l.map toString)

def showOptNat : Option Nat → String
  | none => "none"
  | some n => toString n

def showBool (b : Bool) : String := if b then "true" else "false"

def insertSorted (x : Nat) : List Nat → List Nat
  | [] => [x]
  | y :: t => if x ≤ y then x :: y :: t else y :: insertSorted x t

def sortNat (l : List Nat) : List Nat := l.foldr insertSorted []

/-- run a pure step function over stdin lines, printing one output line per input line.
A line starting with `#` (case header) is echoed and resets the state. -/
partial def loop {σ : Type} (h : IO.FS.Stream) (out : IO.FS.Stream) (step : σ → String → σ × String)
    (init : σ) (s : σ) : IO Unit := do
  let line ← h.getLine
  if line.isEmpty then return ()
  if line.startsWith "#" then
    out.putStrLn (line.dropRightWhile (· == '\n'))
    loop h out step init init
  else
    let (s', o) := step s line
    out.putStrLn o
    loop h out step init s'

def runDriver {σ : Type} (step : σ → String → σ × String) (init : σ) : IO Unit := do
  let stdin ← IO.getStdin
  let stdout ← IO.getStdout
  loop stdin stdout step init init
  stdout.flush

end LanceModel.Util
