import LanceModel.C21.MapLemmas
/-! Membership semantics of every `RowIdTreeMap` operation of the model. -/
namespace LanceModel.C21

/-- membership of offset `o` in an optional selection -/
def selMem : Option Sel → Nat → Bool
  | none, _ => false
  | some .full, _ => true
  | some (.part b), o => b.mem o

theorem contains_eq (m : TreeMap) (v : Nat) : TreeMap.contains m v = selMem (lookup m (frag v)) (off v) := by
  unfold TreeMap.contains selMem
  split <;> simp_all

theorem off_lt (v : Nat) : off v < U32 := Nat.mod_lt _ (by decide)

theorem frag_off_inj {x v : Nat} (h1 : frag x = frag v) (h2 : off x = off v) : x = v := by
  unfold frag off at *
  have a := Nat.div_add_mod x U32
  have b := Nat.div_add_mod v U32
  rw [h1, h2] at a; omega

theorem eq_iff_frag_off (x v : Nat) : x = v ↔ (frag x = frag v ∧ off x = off v) :=
  ⟨fun h => by subst h; exact ⟨rfl, rfl⟩, fun h => frag_off_inj h.1 h.2⟩

/-! ### single-entry steps -/

theorem selMem_orEntry (m : TreeMap) (e : Nat × Sel) (k o : Nat) :
    selMem (lookup (TreeMap.orEntry m e) k) o =
      if k = e.1 then (selMem (lookup m k) o || selMem (some e.2) o) else selMem (lookup m k) o := by
  obtain ⟨ke, se⟩ := e
  unfold TreeMap.orEntry
  by_cases hk : k = ke
  · subst hk
    simp only [↓reduceIte]
    cases hl : lookup m k with
    | none => simp [lookup_set, selMem]
    | some s =>
      cases s with
      | full => simp [hl, selMem]
      | part lb =>
        cases se with
        | full => simp [lookup_set, selMem]
        | part rb => simp [lookup_set, selMem, Bits.mem_union]
  · simp only [hk, ↓reduceIte]
    cases hl : lookup m ke with
    | none => simp [lookup_set, hk]
    | some s =>
      cases s with
      | full => simp
      | part lb => cases se <;> simp [lookup_set, hk]

theorem selMem_subEntry (m : TreeMap) (e : Nat × Sel) (k o : Nat) (ho : o < U32) :
    selMem (lookup (TreeMap.subEntry m e) k) o =
      if k = e.1 then (selMem (lookup m k) o && !selMem (some e.2) o) else selMem (lookup m k) o := by
  obtain ⟨ke, se⟩ := e
  unfold TreeMap.subEntry
  by_cases hk : k = ke
  · subst hk
    simp only [↓reduceIte]
    cases hl : lookup m k with
    | none => simp [selMem, hl]
    | some s =>
      cases s with
      | full =>
        cases se with
        | full => simp [lookup_erase, selMem]
        | part rb => simp [lookup_set, selMem, Bits.mem_diff, Bits.mem_full, ho]
      | part lb =>
        cases se with
        | full => simp [lookup_erase, selMem]
        | part rb =>
          simp only []
          by_cases hem : (lb.diff rb).isEmpty
          · simp only [hem, ↓reduceIte, lookup_erase, selMem]
            have := Bits.mem_of_isEmpty _ o hem
            rw [Bits.mem_diff] at this
            simp [this]
          · simp [hem, lookup_set, selMem, Bits.mem_diff]
  · simp only [hk, ↓reduceIte]
    cases hl : lookup m ke with
    | none => simp
    | some s =>
      cases s with
      | full => cases se <;> simp [lookup_set, lookup_erase, hk]
      | part lb =>
        cases se with
        | full => simp [lookup_erase, hk]
        | part rb =>
          simp only []
          by_cases hem : (lb.diff rb).isEmpty <;> simp [hem, lookup_set, lookup_erase, hk]

end LanceModel.C21

namespace LanceModel.C21

theorem selMem_unionAllEntry (m : TreeMap) (e : Nat × Sel) (k o : Nat) :
    selMem (lookup (TreeMap.unionAllEntry m e) k) o =
      if k = e.1 then (selMem (lookup m k) o || selMem (some e.2) o) else selMem (lookup m k) o := by
  obtain ⟨ke, se⟩ := e
  unfold TreeMap.unionAllEntry
  by_cases hk : k = ke
  · subst hk
    simp only [↓reduceIte]
    cases hl : lookup m k with
    | none => cases se <;> simp [lookup_set, selMem, Bits.mem_union]
    | some s =>
      cases s with
      | full => simp [hl, selMem]
      | part lb =>
        cases se with
        | full => simp [lookup_set, selMem]
        | part rb => simp [lookup_set, selMem, Bits.mem_union]
  · simp only [hk, ↓reduceIte]
    cases hl : lookup m ke with
    | none => simp [lookup_set, hk]
    | some s =>
      cases s with
      | full => simp
      | part lb => cases se <;> simp [lookup_set, hk]

/-- a fold of a pointwise step over a sorted entry list acts pointwise -/
theorem foldl_pointwise (step : TreeMap → Nat × Sel → TreeMap) (F : Bool → Bool → Bool)
    (hF : ∀ x, F x false = x) (o : Nat)
    (hstep : ∀ m e k, selMem (lookup (step m e) k) o =
      if k = e.1 then F (selMem (lookup m k) o) (selMem (some e.2) o) else selMem (lookup m k) o)
    (b : TreeMap) (hb : Sorted b) (a : TreeMap) (k : Nat) :
    selMem (lookup (b.foldl step a) k) o = F (selMem (lookup a k) o) (selMem (lookup b k) o) := by
  induction b generalizing a with
  | nil => simp [lookup, selMem, hF]
  | cons e t ih =>
    obtain ⟨ke, se⟩ := e
    unfold Sorted at hb
    rw [List.pairwise_cons] at hb
    simp only [List.foldl_cons]
    rw [ih hb.2, hstep]
    by_cases hk : k = ke
    · subst hk
      have : lookup t k = none :=
        lookup_none_of_lt t k (fun e he => by have := hb.1 e he; simpa using this)
      simp [lookup, this, selMem, hF]
    · simp [lookup, hk]

theorem sorted_foldl (step : TreeMap → Nat × Sel → TreeMap)
    (hstep : ∀ m e, Sorted m → Sorted (step m e)) (b a : TreeMap) (ha : Sorted a) :
    Sorted (b.foldl step a) := by
  induction b generalizing a with
  | nil => simpa
  | cons e t ih => exact ih _ (hstep a e ha)

theorem sorted_orEntry (m : TreeMap) (e : Nat × Sel) (h : Sorted m) : Sorted (TreeMap.orEntry m e) := by
  unfold TreeMap.orEntry
  split
  · exact sorted_set _ _ _ h
  · exact h
  · split <;> exact sorted_set _ _ _ h

theorem sorted_subEntry (m : TreeMap) (e : Nat × Sel) (h : Sorted m) : Sorted (TreeMap.subEntry m e) := by
  unfold TreeMap.subEntry
  split
  · exact h
  · split
    · exact sorted_erase _ _ h
    · exact sorted_set _ _ _ h
  · split
    · exact sorted_erase _ _ h
    · split
      · exact sorted_erase _ _ h
      · exact sorted_set _ _ _ h

theorem sorted_unionAllEntry (m : TreeMap) (e : Nat × Sel) (h : Sorted m) :
    Sorted (TreeMap.unionAllEntry m e) := by
  unfold TreeMap.unionAllEntry
  split
  · exact sorted_set _ _ _ h
  · exact h
  · split <;> exact sorted_set _ _ _ h

theorem sorted_or (a b : TreeMap) (ha : Sorted a) : Sorted (TreeMap.or a b) :=
  sorted_foldl _ sorted_orEntry b a ha

theorem sorted_sub (a b : TreeMap) (ha : Sorted a) : Sorted (TreeMap.sub a b) :=
  sorted_foldl _ sorted_subEntry b a ha

/-! ### set operations -/

theorem contains_or (a b : TreeMap) (hb : Sorted b) (v : Nat) :
    (TreeMap.or a b).contains v = (a.contains v || b.contains v) := by
  simp only [contains_eq]
  exact foldl_pointwise _ (· || ·) (by simp) _ (fun m e k => selMem_orEntry m e k _) b hb a _

theorem contains_sub (a b : TreeMap) (hb : Sorted b) (v : Nat) :
    (TreeMap.sub a b).contains v = (a.contains v && !b.contains v) := by
  simp only [contains_eq]
  exact foldl_pointwise _ (fun x y => x && !y) (by simp) _
    (fun m e k => selMem_subEntry m e k _ (off_lt v)) b hb a _

theorem andSel_mem (l r : Sel) (o : Nat) :
    selMem (some (TreeMap.andSel l r)) o = (selMem (some l) o && selMem (some r) o) := by
  cases l <;> cases r <;> simp [TreeMap.andSel, selMem, Bits.mem_inter]

theorem selNonEmpty_false (s : Sel) (o : Nat) (h : TreeMap.selNonEmpty s = false) :
    selMem (some s) o = false := by
  cases s with
  | full => simp [TreeMap.selNonEmpty] at h
  | part b =>
    simp [TreeMap.selNonEmpty] at h
    simpa [selMem] using Bits.mem_of_isEmpty b o h

/-- the per-entry function of `BitAndAssign` -/
def andG (b : TreeMap) (k : Nat) (s : Sel) : Option Sel := (lookup b k).map (TreeMap.andSel s)

theorem and_eq (a b : TreeMap) :
    TreeMap.and a b =
      (a.filterMap (fun e => (andG b e.1 e.2).map (fun s => (e.1, s)))).filter
        (fun e => TreeMap.selNonEmpty e.2) := by
  unfold TreeMap.and
  congr 1
  congr 1
  funext e
  unfold andG
  cases lookup b e.1 <;> simp

theorem contains_and (a b : TreeMap) (ha : Sorted a) (v : Nat) :
    (TreeMap.and a b).contains v = (a.contains v && b.contains v) := by
  simp only [contains_eq]
  rw [and_eq, lookup_filter_val _ _ _ (sorted_filterMap a (andG b) ha), lookup_filterMap a (andG b) _ ha]
  cases hl : lookup a (frag v) with
  | none => simp [selMem]
  | some l =>
    cases hr : lookup b (frag v) with
    | none => simp [selMem, andG, hr]
    | some r =>
      simp only [Option.bind_some, andG, hr, Option.map_some]
      by_cases hne : TreeMap.selNonEmpty (TreeMap.andSel l r)
      · simp only [hne, ↓reduceIte]; exact andSel_mem l r _
      · simp only [hne]
        have := selNonEmpty_false _ (off v) (by simpa using hne)
        rw [andSel_mem] at this
        rw [this]
        simp [selMem]

theorem sorted_and (a b : TreeMap) (ha : Sorted a) : Sorted (TreeMap.and a b) := by
  rw [and_eq]; exact sorted_filter _ _ (sorted_filterMap a (andG b) ha)

/-- entries of all maps folded in sequence -/
theorem contains_unionAll_aux (ms : List TreeMap) (hms : ∀ m ∈ ms, Sorted m) (acc : TreeMap) (v : Nat) :
    TreeMap.contains (ms.foldl (fun acc m => m.foldl TreeMap.unionAllEntry acc) acc) v =
      (acc.contains v || ms.any (fun m => m.contains v)) := by
  induction ms generalizing acc with
  | nil => simp
  | cons m t ih =>
    simp only [List.foldl_cons, List.any_cons]
    rw [ih (fun m hm => hms m (by simp [hm]))]
    have : TreeMap.contains (m.foldl TreeMap.unionAllEntry acc) v = (acc.contains v || m.contains v) := by
      simp only [contains_eq]
      exact foldl_pointwise _ (· || ·) (by simp) _ (fun m e k => selMem_unionAllEntry m e k _) m
        (hms m (by simp)) acc _
    rw [this, Bool.or_assoc]

theorem contains_unionAll (ms : List TreeMap) (hms : ∀ m ∈ ms, Sorted m) (v : Nat) :
    (TreeMap.unionAll ms).contains v = ms.any (fun m => m.contains v) := by
  unfold TreeMap.unionAll
  rw [contains_unionAll_aux ms hms [] v]
  simp [TreeMap.contains, lookup]

theorem sorted_unionAll (ms : List TreeMap) : Sorted (TreeMap.unionAll ms) := by
  unfold TreeMap.unionAll
  generalize hacc : ([] : TreeMap) = acc
  have hs : Sorted acc := by subst hacc; exact sorted_nil
  clear hacc
  induction ms generalizing acc with
  | nil => simpa
  | cons m t ih => exact ih _ (sorted_foldl _ sorted_unionAllEntry m acc hs)

/-! ### point updates -/

theorem contains_insert (m : TreeMap) (v x : Nat) :
    (m.insert v).1.contains x = (decide (x = v) || m.contains x) := by
  simp only [contains_eq]
  unfold TreeMap.insert
  have hiff := eq_iff_frag_off x v
  cases hl : lookup m (frag v) with
  | none =>
    simp only [lookup_set]
    by_cases hf : frag x = frag v
    · simp [hf, hl, selMem, Bits.mem_insert _ _ _ (off_lt v), hiff]
    · simp [hf, hiff]
  | some s =>
    cases s with
    | full =>
      by_cases hf : frag x = frag v
      · simp [hf, hl, selMem]
      · simp [hf, hiff]
    | part b =>
      simp only [lookup_set]
      by_cases hf : frag x = frag v
      · simp [hf, hl, selMem, Bits.mem_insert _ _ _ (off_lt v), hiff]
      · simp [hf, hiff]

theorem insert_result (m : TreeMap) (v : Nat) : (m.insert v).2 = !m.contains v := by
  unfold TreeMap.insert TreeMap.contains
  cases hl : lookup m (frag v) with
  | none => simp
  | some s => cases s <;> simp

theorem contains_remove (m : TreeMap) (v x : Nat) :
    (m.remove v).1.contains x = (!decide (x = v) && m.contains x) := by
  simp only [contains_eq]
  unfold TreeMap.remove
  have hiff := eq_iff_frag_off x v
  cases hl : lookup m (frag v) with
  | none =>
    by_cases hf : frag x = frag v
    · simp [hf, hl, selMem]
    · simp [hf, hiff]
  | some s =>
    cases s with
    | full =>
      simp only [lookup_set]
      by_cases hf : frag x = frag v
      · simp [hf, hl, selMem, Bits.mem_remove _ _ _ (off_lt v), Bits.mem_full, off_lt, hiff]
      · simp [hf, hiff]
    | part b =>
      simp only []
      by_cases hem : (b.remove (off v)).isEmpty
      · simp only [hem, ↓reduceIte, lookup_erase]
        by_cases hf : frag x = frag v
        · have := Bits.mem_of_isEmpty _ (off x) hem
          rw [Bits.mem_remove _ _ _ (off_lt v)] at this
          simp only [hf, ↓reduceIte, hl, selMem, hiff, true_and]
          simpa [selMem] using this.symm
        · simp [hf, hiff]
      · simp only [hem, Bool.false_eq_true, ↓reduceIte, lookup_set]
        by_cases hf : frag x = frag v
        · simp [hf, hl, selMem, Bits.mem_remove _ _ _ (off_lt v), hiff]
        · simp [hf, hiff]

theorem remove_result (m : TreeMap) (v : Nat) : (m.remove v).2 = m.contains v := by
  unfold TreeMap.remove TreeMap.contains
  cases hl : lookup m (frag v) with
  | none => simp
  | some s =>
    cases s with
    | full => simp
    | part b => simp only []; split <;> rfl

theorem contains_insertFragment (m : TreeMap) (f x : Nat) :
    (m.insertFragment f).contains x = (decide (frag x = f) || m.contains x) := by
  simp only [contains_eq, TreeMap.insertFragment, lookup_set]
  by_cases hf : frag x = f <;> simp [hf, selMem]

theorem contains_insertBitmap (m : TreeMap) (f : Nat) (b : Bits) (x : Nat) :
    (m.insertBitmap f b).contains x = (if frag x = f then b.mem (off x) else m.contains x) := by
  simp only [contains_eq, TreeMap.insertBitmap, lookup_set]
  by_cases hf : frag x = f <;> simp [hf, selMem]

theorem lookup_filter_key (m : TreeMap) (q : Nat → Bool) (k : Nat) :
    lookup (m.filter (fun e => q e.1)) k = if q k then lookup m k else none := by
  induction m with
  | nil => simp [lookup]
  | cons e t ih =>
    obtain ⟨ke, ve⟩ := e
    by_cases hq : q ke
    · simp only [List.filter_cons, hq, ↓reduceIte, lookup, ih]
      by_cases hk : k = ke
      · subst hk; simp [hq]
      · simp [hk]
    · simp only [List.filter_cons, hq, Bool.false_eq_true, ↓reduceIte, lookup, ih]
      by_cases hk : k = ke
      · subst hk; simp [hq]
      · simp [hk]

theorem contains_retainFragments (m : TreeMap) (fs : List Nat) (x : Nat) :
    (m.retainFragments fs).contains x = (fs.contains (frag x) && m.contains x) := by
  simp only [contains_eq, TreeMap.retainFragments, lookup_filter_key]
  by_cases h : frag x ∈ fs <;> simp [h, selMem]

theorem contains_extendIds (m : TreeMap) (vs : List Nat) (x : Nat) :
    (m.extendIds vs).contains x = (vs.contains x || m.contains x) := by
  unfold TreeMap.extendIds
  induction vs generalizing m with
  | nil => simp
  | cons v t ih =>
    simp only [List.foldl_cons]
    rw [ih, contains_insert]
    by_cases h1 : x = v <;> simp [h1]

theorem sorted_insert (m : TreeMap) (v : Nat) (h : Sorted m) : Sorted (m.insert v).1 := by
  unfold TreeMap.insert
  split
  · exact sorted_set _ _ _ h
  · exact h
  · exact sorted_set _ _ _ h

theorem sorted_remove (m : TreeMap) (v : Nat) (h : Sorted m) : Sorted (m.remove v).1 := by
  unfold TreeMap.remove
  split
  · exact h
  · exact sorted_set _ _ _ h
  · split
    · exact sorted_erase _ _ h
    · exact sorted_set _ _ _ h

end LanceModel.C21
