import LanceModel.C21.BitsLemmas
/-! Lookup / sortedness lemmas for the association-list model of `BTreeMap<u32, RowIdSelection>`
and the membership semantics of every `RowIdTreeMap` operation. -/
namespace LanceModel.C21

/-- keys strictly increasing (the `BTreeMap` invariant) -/
def Sorted (m : TreeMap) : Prop := m.Pairwise (fun a b => a.1 < b.1)

theorem sorted_nil : Sorted [] := List.Pairwise.nil

theorem lookup_set (m : TreeMap) (k k' : Nat) (v : Sel) :
    lookup (set m k v) k' = if k' = k then some v else lookup m k' := by
  induction m with
  | nil => simp [set, lookup]
  | cons e t ih =>
    obtain ⟨ke, ve⟩ := e
    unfold set
    by_cases h1 : k < ke
    · simp [h1, lookup]
    · by_cases h2 : k = ke
      · subst h2; simp [lookup]
        by_cases h3 : k' = k <;> simp [h3]
      · simp only [h1, h2, ↓reduceIte, lookup, ih]
        by_cases h3 : k' = ke <;> by_cases h4 : k' = k <;> simp [h3, h4] <;> omega

theorem lookup_erase (m : TreeMap) (k k' : Nat) :
    lookup (erase m k) k' = if k' = k then none else lookup m k' := by
  induction m with
  | nil => simp [erase, lookup]
  | cons e t ih =>
    obtain ⟨ke, ve⟩ := e
    unfold erase at *
    by_cases h : ke = k
    · subst h
      simp only [List.filter, bne_self_eq_false, lookup, ih]
      by_cases h3 : k' = ke <;> simp [h3]
    · have hb : (ke != k) = true := by simp [h]
      simp only [List.filter, hb, lookup, ih]
      by_cases h3 : k' = ke <;> by_cases h4 : k' = k <;> simp [h3, h4] <;> omega

theorem lookup_none_of_lt (m : TreeMap) (k : Nat) (h : ∀ e ∈ m, k < e.1) : lookup m k = none := by
  induction m with
  | nil => simp [lookup]
  | cons e t ih =>
    obtain ⟨ke, ve⟩ := e
    have h1 := h (ke, ve) (by simp)
    simp at h1
    have h2 : ¬ k = ke := by omega
    simp only [lookup, h2, ↓reduceIte]
    exact ih (fun e he => h e (by simp [he]))

theorem mem_keys_of_lookup {m : TreeMap} {k : Nat} {v : Sel} (h : lookup m k = some v) :
    (k, v) ∈ m := by
  induction m with
  | nil => simp [lookup] at h
  | cons e t ih =>
    obtain ⟨ke, ve⟩ := e
    simp [lookup] at h
    by_cases h1 : k = ke
    · simp [h1] at h; simp [h1, h]
    · simp [h1] at h; simp [ih h]

theorem sorted_set (m : TreeMap) (k : Nat) (v : Sel) (h : Sorted m) : Sorted (set m k v) := by
  unfold Sorted at *
  induction m with
  | nil => simp [set]
  | cons e t ih =>
    obtain ⟨ke, ve⟩ := e
    rw [List.pairwise_cons] at h
    unfold set
    by_cases h1 : k < ke
    · simp only [h1, ↓reduceIte]
      rw [List.pairwise_cons]
      refine ⟨?_, List.pairwise_cons.mpr h⟩
      intro a ha
      simp at ha
      rcases ha with rfl | ha
      · exact h1
      · have := h.1 a ha; simp at this; omega
    · by_cases h2 : k = ke
      · subst h2; simp only [Nat.lt_irrefl, ↓reduceIte]
        rw [List.pairwise_cons]; exact ⟨h.1, h.2⟩
      · simp only [h1, h2, ↓reduceIte]
        rw [List.pairwise_cons]
        refine ⟨?_, ih h.2⟩
        intro a ha
        -- every key of `set t k v` is `k` or a key of `t`
        have key : ∀ (t : TreeMap) a, a ∈ set t k v → a = (k, v) ∨ a ∈ t := by
          intro t
          induction t with
          | nil => intro a ha; simp [set] at ha; simp [ha]
          | cons e' t' ih' =>
            intro a ha
            obtain ⟨ke', ve'⟩ := e'
            unfold set at ha
            by_cases g1 : k < ke'
            · simp [g1] at ha; rcases ha with rfl | rfl | ha <;> simp [*]
            · by_cases g2 : k = ke'
              · simp [g2] at ha; rcases ha with rfl | ha <;> simp [*]
              · simp [g1, g2] at ha
                rcases ha with rfl | ha
                · simp
                · rcases ih' a ha with rfl | h' <;> simp [*]
        rcases key t a ha with rfl | ha'
        · simp; omega
        · exact h.1 a ha'

theorem sorted_erase (m : TreeMap) (k : Nat) (h : Sorted m) : Sorted (erase m k) := by
  unfold Sorted erase at *; exact h.filter _

theorem sorted_filter (m : TreeMap) (p : Nat × Sel → Bool) (h : Sorted m) : Sorted (m.filter p) := by
  unfold Sorted at *; exact h.filter _

/-- lookup in a sorted list through a key-preserving `filterMap` -/
theorem lookup_filterMap (m : TreeMap) (g : Nat → Sel → Option Sel) (k : Nat) (h : Sorted m) :
    lookup (m.filterMap (fun e => (g e.1 e.2).map (fun s => (e.1, s)))) k = (lookup m k).bind (g k) := by
  unfold Sorted at h
  induction m with
  | nil => simp [lookup]
  | cons e t ih =>
    obtain ⟨ke, ve⟩ := e
    rw [List.pairwise_cons] at h
    by_cases hk : k = ke
    · subst hk
      cases hg : g k ve with
      | none =>
        simp [List.filterMap_cons, hg, lookup]
        rw [ih h.2]
        have : lookup t k = none := lookup_none_of_lt t k (fun e he => by have := h.1 e he; simpa using this)
        simp [this]
      | some s => simp [List.filterMap_cons, hg, lookup]
    · cases hg : g ke ve with
      | none => simp [List.filterMap_cons, hg, lookup, hk, ih h.2]
      | some s => simp [List.filterMap_cons, hg, lookup, hk, ih h.2]

theorem sorted_filterMap (m : TreeMap) (g : Nat → Sel → Option Sel) (h : Sorted m) :
    Sorted (m.filterMap (fun e => (g e.1 e.2).map (fun s => (e.1, s)))) := by
  unfold Sorted at *
  refine List.Pairwise.filterMap _ ?_ h
  intro a a' hlt b hb b' hb'
  simp [Option.map_eq_some_iff] at hb hb'
  obtain ⟨_, _, rfl⟩ := hb
  obtain ⟨_, _, rfl⟩ := hb'
  exact hlt

/-- lookup in a sorted list through a value-only filter -/
theorem lookup_filter_val (m : TreeMap) (p : Sel → Bool) (k : Nat) (h : Sorted m) :
    lookup (m.filter (fun e => p e.2)) k = (lookup m k).bind (fun s => if p s then some s else none) := by
  have := lookup_filterMap m (fun _ s => if p s then some s else none) k h
  rw [← this]
  congr 1
  induction m with
  | nil => rfl
  | cons e t ih =>
    simp only [List.filter_cons, List.filterMap_cons]
    have h' : Sorted t := by unfold Sorted at *; exact (List.pairwise_cons.mp h).2
    have ih' := ih h' (lookup_filterMap t (fun _ s => if p s then some s else none) k h')
    by_cases hp : p e.2 <;> simp [hp, ih']

end LanceModel.C21
