import LanceModel.C21.SetLemmas
/-! `insert_range`: the per-fragment loop inserts exactly the ids between the two bounds. -/
namespace LanceModel.C21

theorem contains_insertRangeFrag (m : TreeMap) (f lo hi x : Nat) (hhi : hi < U32) :
    (TreeMap.insertRangeFrag m f lo hi).1.contains x =
      ((decide (frag x = f) && decide (lo ≤ off x) && decide (off x ≤ hi)) || m.contains x) := by
  simp only [contains_eq]
  unfold TreeMap.insertRangeFrag
  cases hl : lookup m f with
  | none =>
    simp only [lookup_set]
    by_cases hf : frag x = f
    · subst hf; simp [hl, selMem, Bits.mem_insertRange _ _ _ _ hhi]
    · simp [hf]
  | some s =>
    cases s with
    | full =>
      by_cases hf : frag x = f
      · subst hf; simp [hl, selMem]
      · simp [hf]
    | part b =>
      simp only [lookup_set]
      by_cases hf : frag x = f
      · subst hf; simp [hl, selMem, Bits.mem_insertRange _ _ _ _ hhi]
      · simp [hf]

theorem sorted_insertRangeFrag (m : TreeMap) (f lo hi : Nat) (h : Sorted m) :
    Sorted (TreeMap.insertRangeFrag m f lo hi).1 := by
  unfold TreeMap.insertRangeFrag
  split
  · exact sorted_set _ _ _ h
  · exact h
  · exact sorted_set _ _ _ h

/-- lexicographic "between (sh, sl) and (eh, el)" on (fragment, offset) -/
def InLex (sh sl eh el x : Nat) : Prop :=
  sh ≤ frag x ∧ frag x ≤ eh ∧ (frag x = sh → sl ≤ off x) ∧ (frag x = eh → off x ≤ el)

theorem contains_insertRangeFrag_iff (m : TreeMap) (f lo hi x : Nat) (hhi : hi < U32) :
    (TreeMap.insertRangeFrag m f lo hi).1.contains x = true ↔
      ((frag x = f ∧ lo ≤ off x ∧ off x ≤ hi) ∨ m.contains x = true) := by
  rw [contains_insertRangeFrag _ _ _ _ _ hhi]
  simp [and_assoc]

theorem contains_insertRangeLoop (fuel : Nat) (m : TreeMap) (sh sl eh el c x : Nat)
    (hel : el < U32) (hfuel : eh + 1 - sh ≤ fuel) :
    (TreeMap.insertRangeLoop m sh sl eh el c fuel).1.contains x = true ↔
      (InLex sh sl eh el x ∨ m.contains x = true) := by
  induction fuel generalizing m sh sl c with
  | zero =>
    simp only [TreeMap.insertRangeLoop, InLex]
    constructor
    · intro h; exact Or.inr h
    · rintro (h | h)
      · omega
      · exact h
  | succ n ih =>
    unfold TreeMap.insertRangeLoop
    by_cases hle : sh ≤ eh
    · simp only [hle, ↓reduceIte]
      rw [ih _ _ _ _ (by omega)]
      have ho := off_lt x
      have hU : U32 = 4294967296 := rfl
      by_cases e1 : sh = eh
      · subst e1
        simp only [↓reduceIte]
        rw [contains_insertRangeFrag_iff _ _ _ _ _ hel]
        unfold InLex
        by_cases hc : m.contains x = true
        · simp [hc]
        · simp only [eq_false hc, or_false]
          omega
      · simp only [e1, ↓reduceIte]
        rw [contains_insertRangeFrag_iff _ _ _ _ _ (by omega)]
        unfold InLex
        by_cases hc : m.contains x = true
        · simp [hc]
        · simp only [eq_false hc, or_false]
          omega
    · simp only [hle, ↓reduceIte, InLex]
      constructor
      · intro h; exact Or.inr h
      · rintro (h | h)
        · omega
        · exact h

theorem sorted_insertRangeLoop (fuel : Nat) (m : TreeMap) (sh sl eh el c : Nat) (h : Sorted m) :
    Sorted (TreeMap.insertRangeLoop m sh sl eh el c fuel).1 := by
  induction fuel generalizing m sh sl c with
  | zero => simpa [TreeMap.insertRangeLoop]
  | succ n ih =>
    unfold TreeMap.insertRangeLoop
    split
    · exact ih _ _ _ _ (sorted_insertRangeFrag _ _ _ _ h)
    · exact h

/-- lexicographic order on (fragment, offset) is the numeric order on ids -/
theorem le_iff_lex (a b : Nat) :
    a ≤ b ↔ (frag a < frag b ∨ (frag a = frag b ∧ off a ≤ off b)) := by
  unfold frag off
  have ha := Nat.div_add_mod a U32
  have hb := Nat.div_add_mod b U32
  have la := Nat.mod_lt a (show 0 < U32 by decide)
  have lb := Nat.mod_lt b (show 0 < U32 by decide)
  constructor
  · intro h
    by_cases c : a / U32 < b / U32
    · exact Or.inl c
    · right
      have : a / U32 ≤ b / U32 := Nat.div_le_div_right h
      have e : a / U32 = b / U32 := by omega
      refine ⟨e, ?_⟩
      rw [e] at ha; omega
  · rintro (h | ⟨h1, h2⟩)
    · have : U32 * (a / U32 + 1) ≤ U32 * (b / U32) := Nat.mul_le_mul_left _ h
      rw [Nat.mul_add] at this
      omega
    · rw [h1] at ha; omega

theorem inLex_iff (S E x : Nat) :
    InLex (frag S) (off S) (frag E) (off E) x ↔ (S ≤ x ∧ x ≤ E) := by
  have h1 := le_iff_lex S x
  have h2 := le_iff_lex x E
  unfold InLex
  rw [h1, h2]
  omega

end LanceModel.C21
