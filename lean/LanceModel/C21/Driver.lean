import LanceModel.Util
import LanceModel.C21.Model
/-
C21 driver: register machine over tree maps and masks.  One output line per input line.
-/
namespace LanceModel.C21.Driver
open LanceModel.Util LanceModel.C21

inductive Val where
  | tm (m : TreeMap)
  | mask (m : Mask)

abbrev St := List (String × Val)

def getTm (s : St) (r : String) : Option TreeMap :=
  match s.lookup r with
  | some (.tm m) => some m
  | _ => none

def getMask (s : St) (r : String) : Option Mask :=
  match s.lookup r with
  | some (.mask m) => some m
  | _ => none

/-- optional tree map register: `none` means absent -/
def getOptTm (s : St) (r : String) : Option (Option TreeMap) :=
  if r = "none" then some none else (getTm s r).map some

def put (s : St) (r : String) (v : Val) : St := (r, v) :: s.filter (·.1 ≠ r)

def showBits (b : Bits) : String :=
  (if b.co then "!" else "") ++ "[" ++ showNatList (sortNat b.l) ++ "]"

def showSel : Sel → String
  | .full => "F"
  | .part b => showBits b

def showTm (m : TreeMap) : String :=
  if List.isEmpty m then "{}" else
  "{" ++ " ".intercalate (m.map (fun e => toString e.1 ++ ":" ++ showSel e.2)) ++ "}"

def showOptTm : Option TreeMap → String
  | none => "none"
  | some m => showTm m

def showMask (m : Mask) : String := "allow=" ++ showOptTm m.allow ++ " block=" ++ showOptTm m.block

def showOptList : Option (List Nat) → String
  | none => "none"
  | some l => "[" ++ showNatList l ++ "]"

def parseBound (k v : String) : Option TreeMap.Bound :=
  match k with
  | "i" => v.toNat?.map .incl
  | "e" => v.toNat?.map .excl
  | "u" => some .unbounded
  | _ => none

/-- expression in prefix form: `E r salt`, `M r salt`, `L r salt` leaves (register of an allow-list tree map; the salt only
    seeds the harness's choice of ground truth and is ignored here),
    `X m` / `Y m` / `Z m` leaves carrying a full mask register (exact / at-most / at-least),
    `! e`, `& e e`, `| e e` -/
def parseExpr (s : St) : Nat → List String → Option (Expr × List String)
  | 0, _ => none
  | fuel + 1, toks =>
    match toks with
    | "E" :: r :: _salt :: rest => (getTm s r).map (fun m => (.leaf (.exact (Mask.fromAllowed m)), rest))
    | "M" :: r :: _salt :: rest => (getTm s r).map (fun m => (.leaf (.atMost (Mask.fromAllowed m)), rest))
    | "L" :: r :: _salt :: rest => (getTm s r).map (fun m => (.leaf (.atLeast (Mask.fromAllowed m)), rest))
    | "X" :: r :: rest => (getMask s r).map (fun m => (.leaf (.exact m), rest))
    | "Y" :: r :: rest => (getMask s r).map (fun m => (.leaf (.atMost m), rest))
    | "Z" :: r :: rest => (getMask s r).map (fun m => (.leaf (.atLeast m), rest))
    | "!" :: rest =>
      match parseExpr s fuel rest with
      | some (e, rest') => some (.not e, rest')
      | none => none
    | "&" :: rest =>
      match parseExpr s fuel rest with
      | some (l, rest') =>
        match parseExpr s fuel rest' with
        | some (r, rest'') => some (.and l r, rest'')
        | none => none
      | none => none
    | "|" :: rest =>
      match parseExpr s fuel rest with
      | some (l, rest') =>
        match parseExpr s fuel rest' with
        | some (r, rest'') => some (.or l r, rest'')
        | none => none
      | none => none
    | _ => none

def bad : String := "bad-op"

def step (s : St) (line : String) : St × String :=
  match splitTokens line with
  | ["new", r] => (put s r (.tm []), "ok")
  | ["ins", r, v] =>
    match getTm s r, v.toNat? with
    | some m, some v => let (m', b) := m.insert v; (put s r (.tm m'), showBool b)
    | _, _ => (s, bad)
  | ["rem", r, v] =>
    match getTm s r, v.toNat? with
    | some m, some v => let (m', b) := m.remove v; (put s r (.tm m'), showBool b)
    | _, _ => (s, bad)
  | ["insr", r, sk, sv, ek, ev] =>
    match getTm s r, parseBound sk sv, parseBound ek ev with
    | some m, some sb, some eb => let (m', c) := m.insertRange sb eb; (put s r (.tm m'), toString c)
    | _, _, _ => (s, bad)
  | ["insfrag", r, f] =>
    match getTm s r, f.toNat? with
    | some m, some f => (put s r (.tm (m.insertFragment f)), "ok")
    | _, _ => (s, bad)
  | ["insbm", r, f, xs] =>
    match getTm s r, f.toNat?, parseNatList xs with
    | some m, some f, some xs =>
      (put s r (.tm (m.insertBitmap f (xs.foldl Bits.insert Bits.empty))), "ok")
    | _, _, _ => (s, bad)
  | ["ext", r, xs] =>
    match getTm s r, parseNatList xs with
    | some m, some xs => (put s r (.tm (m.extendIds xs)), "ok")
    | _, _ => (s, bad)
  | ["retain", r, fs] =>
    match getTm s r, parseNatList fs with
    | some m, some fs => (put s r (.tm (m.retainFragments fs)), "ok")
    | _, _ => (s, bad)
  | ["or", r, a, b] =>
    match getTm s a, getTm s b with
    | some x, some y => (put s r (.tm (TreeMap.or x y)), "ok")
    | _, _ => (s, bad)
  | ["and", r, a, b] =>
    match getTm s a, getTm s b with
    | some x, some y => (put s r (.tm (TreeMap.and x y)), "ok")
    | _, _ => (s, bad)
  | ["sub", r, a, b] =>
    match getTm s a, getTm s b with
    | some x, some y => (put s r (.tm (TreeMap.sub x y)), "ok")
    | _, _ => (s, bad)
  | "unionall" :: r :: regs =>
    match regs.mapM (getTm s) with
    | some ms => (put s r (.tm (TreeMap.unionAll ms)), "ok")
    | none => (s, bad)
  | ["tmmask", r, a, k] =>
    match getTm s a, getMask s k with
    | some x, some k => (put s r (.tm (x.applyMask k)), "ok")
    | _, _ => (s, bad)
  | ["contains", r, v] =>
    match getTm s r, v.toNat? with
    | some m, some v => (s, showBool (m.contains v))
    | _, _ => (s, bad)
  | ["len", r] =>
    match getTm s r with
    | some m => (s, showOptNat m.len)
    | none => (s, bad)
  | ["isempty", r] =>
    match getTm s r with
    | some m => (s, showBool m.isEmpty)
    | none => (s, bad)
  | ["ids", r] =>
    match getTm s r with
    | some m => (s, if m.len.isSome && m.hasBig then "big" else showOptList m.rowIds)
    | none => (s, bad)
  | ["dump", r] =>
    match s.lookup r with
    | some (.tm m) => (s, showTm m)
    | some (.mask m) => (s, showMask m)
    | none => (s, bad)
  | ["mask", r, a, b] =>
    match getOptTm s a, getOptTm s b with
    | some x, some y => (put s r (.mask ⟨x, y⟩), "ok")
    | _, _ => (s, bad)
  | ["mnot", r, m] =>
    match getMask s m with
    | some x => (put s r (.mask x.not), "ok")
    | none => (s, bad)
  | ["mnorm", r, m] =>
    match getMask s m with
    | some x => (put s r (.mask x.normalize), "ok")
    | none => (s, bad)
  | ["mand", r, a, b] =>
    match getMask s a, getMask s b with
    | some x, some y => (put s r (.mask (x.and y)), "ok")
    | _, _ => (s, bad)
  | ["mor", r, a, b] =>
    match getMask s a, getMask s b with
    | some x, some y => (put s r (.mask (x.or y)), "ok")
    | _, _ => (s, bad)
  | ["malsoblock", r, m, t] =>
    match getMask s m, getTm s t with
    | some x, some y => (put s r (.mask (x.alsoBlock y)), "ok")
    | _, _ => (s, bad)
  | ["malsoallow", r, m, t] =>
    match getMask s m, getTm s t with
    | some x, some y => (put s r (.mask (x.alsoAllow y)), "ok")
    | _, _ => (s, bad)
  | ["msel", m, v] =>
    match getMask s m, v.toNat? with
    | some x, some v => (s, showBool (x.selected v))
    | _, _ => (s, bad)
  | ["mmaxlen", m] =>
    match getMask s m with
    | some x => (s, showOptNat x.maxLen)
    | none => (s, bad)
  | ["miter", m] =>
    match getMask s m with
    | some x =>
      (s, if (x.allow.bind TreeMap.len).isSome && (x.allow.map TreeMap.hasBig).getD false then "big"
          else showOptList x.iterIds)
    | none => (s, bad)
  | "eval" :: r :: toks =>
    match parseExpr s (toks.length + 1) toks with
    | some (e, []) =>
      let res := e.eval
      (put s r (.mask res.mask), toString res.discriminant)
    | _ => (s, bad)
  | ["reset"] => ([], "ok")
  | _ => (s, bad)

end LanceModel.C21.Driver
