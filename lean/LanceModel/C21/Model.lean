/-
C21 model: `RowIdTreeMap`, `RowIdMask` (rust/lance-core/src/utils/mask.rs) and the
NOT/AND/OR combination tables of `ScalarIndexExpr::evaluate`
(rust/lance-index/src/scalar/expression.rs).

Import-free (core only) so that the driver links natively.

Modelling choices
* u64 row ids are `Nat`; fragment = `v / 2^32`, offset = `v % 2^32`.
* `RoaringBitmap` (a set of u32) is `Bits`: a finite list or the complement (within u32) of a
  finite list, so `RoaringBitmap::full()` and `full - x` are representable.  Only membership
  matters; list order is not part of the semantics.
* `BTreeMap<u32, RowIdSelection>` is an association list kept sorted by key (`set`).
-/
namespace LanceModel.C21

def U32 : Nat := 4294967296

/-! ## Bits: model of RoaringBitmap -/

structure Bits where
  co : Bool
  l : List Nat
deriving Repr, DecidableEq, Inhabited

namespace Bits

def empty : Bits := ⟨false, []⟩
def full : Bits := ⟨true, []⟩

/-- membership of a u32 value -/
def mem (b : Bits) (x : Nat) : Bool := decide (x < U32) && (b.co != b.l.contains x)

/-- `RoaringBitmap::insert` (returns the new bitmap; the bool result is `!mem` before) -/
def insert (b : Bits) (x : Nat) : Bits :=
  if b.co then ⟨true, b.l.filter (· != x)⟩
  else if b.l.contains x then b else ⟨false, x :: b.l⟩

def remove (b : Bits) (x : Nat) : Bits :=
  if b.co then (if b.l.contains x then b else ⟨true, x :: b.l⟩)
  else ⟨false, b.l.filter (· != x)⟩

def union (a b : Bits) : Bits :=
  match a.co, b.co with
  | false, false => ⟨false, a.l ++ b.l.filter (fun x => !a.l.contains x)⟩
  | true, false => ⟨true, a.l.filter (fun x => !b.l.contains x)⟩
  | false, true => ⟨true, b.l.filter (fun x => !a.l.contains x)⟩
  | true, true => ⟨true, a.l.filter (fun x => b.l.contains x)⟩

def inter (a b : Bits) : Bits :=
  match a.co, b.co with
  | false, false => ⟨false, a.l.filter (fun x => b.l.contains x)⟩
  | false, true => ⟨false, a.l.filter (fun x => !b.l.contains x)⟩
  | true, false => ⟨false, b.l.filter (fun x => !a.l.contains x)⟩
  | true, true => ⟨true, a.l ++ b.l.filter (fun x => !a.l.contains x)⟩

def compl (b : Bits) : Bits := ⟨!b.co, b.l⟩

def diff (a b : Bits) : Bits := inter a (compl b)

/-- number of members (exact under `WF`) -/
def card (b : Bits) : Nat := if b.co then U32 - b.l.length else b.l.length


/-- `lo, lo+1, …, lo+n-1` -/
def rangeFrom (lo : Nat) : Nat → List Nat
  | 0 => []
  | n + 1 => lo :: rangeFrom (lo + 1) n

/-- inclusive range list (empty when `hi < lo`) -/
def rangeIncl (lo hi : Nat) : List Nat := rangeFrom lo (hi + 1 - lo)

/-- `RoaringBitmap::is_empty`.  For the complement form the (astronomically expensive) exact
test is guarded by a length test that fails for every list the driver can build. -/
def isEmpty (b : Bits) : Bool :=
  if b.co then decide (U32 ≤ b.l.length) && (rangeFrom 0 U32).all (fun x => b.l.contains x)
  else b.l.isEmpty

/-- `RoaringBitmap::insert_range(lo..=hi)`; the representation is chosen by size only -/
def insertRange (b : Bits) (lo hi : Nat) : Bits :=
  if b.co then ⟨true, b.l.filter (fun x => !(decide (lo ≤ x) && decide (x ≤ hi)))⟩
  else if hi - lo < 2147483648 then
    ⟨false, b.l ++ (rangeIncl lo hi).filter (fun x => !b.l.contains x)⟩
  else
    ⟨true, ((rangeIncl 0 (lo - 1)).filter (fun x => decide (x < lo)) ++ rangeIncl (hi + 1) (U32 - 1)).filter
      (fun x => !b.l.contains x)⟩

/-- ascending list of members; `none` for complement form (never iterated by the model) -/
def insertSorted (x : Nat) : List Nat → List Nat
  | [] => [x]
  | y :: t => if x ≤ y then x :: y :: t else y :: insertSorted x t

def sort (l : List Nat) : List Nat := l.foldr insertSorted []

def toSorted (b : Bits) : List Nat := sort b.l

/-- well-formedness: members are u32 and listed once -/
def WF (b : Bits) : Prop := b.l.Nodup ∧ ∀ x ∈ b.l, x < U32

end Bits

/-! ## RowIdTreeMap -/

inductive Sel where
  | full
  | part (b : Bits)
deriving Repr, DecidableEq, Inhabited

abbrev TreeMap := List (Nat × Sel)

def lookup : TreeMap → Nat → Option Sel
  | [], _ => none
  | (k, v) :: t, f => if f = k then some v else lookup t f

/-- `BTreeMap::insert`: sorted insert / replace -/
def set : TreeMap → Nat → Sel → TreeMap
  | [], k, v => [(k, v)]
  | (k', v') :: t, k, v =>
    if k < k' then (k, v) :: (k', v') :: t
    else if k = k' then (k, v) :: t
    else (k', v') :: set t k v

def erase (m : TreeMap) (k : Nat) : TreeMap := m.filter (fun e => e.1 != k)

def frag (v : Nat) : Nat := v / U32
def off (v : Nat) : Nat := v % U32

namespace TreeMap

def contains (m : TreeMap) (v : Nat) : Bool :=
  match lookup m (frag v) with
  | none => false
  | some .full => true
  | some (.part b) => b.mem (off v)

/-- `RowIdTreeMap::insert`: (new map, "was newly inserted") -/
def insert (m : TreeMap) (v : Nat) : TreeMap × Bool :=
  match lookup m (frag v) with
  | none => (set m (frag v) (.part (Bits.empty.insert (off v))), true)
  | some .full => (m, false)
  | some (.part b) => (set m (frag v) (.part (b.insert (off v))), !b.mem (off v))

/-- `RowIdTreeMap::remove` -/
def remove (m : TreeMap) (v : Nat) : TreeMap × Bool :=
  match lookup m (frag v) with
  | none => (m, false)
  | some .full => (set m (frag v) (.part (Bits.full.remove (off v))), true)
  | some (.part b) =>
    if (b.remove (off v)).isEmpty then (erase m (frag v), b.mem (off v))
    else (set m (frag v) (.part (b.remove (off v))), b.mem (off v))

/-- one iteration of the `while start_high <= end_high` loop for fragment `f`, offsets `lo..=hi` -/
def insertRangeFrag (m : TreeMap) (f lo hi : Nat) : TreeMap × Nat :=
  match lookup m f with
  | none =>
    (set m f (.part (Bits.empty.insertRange lo hi)), (Bits.empty.insertRange lo hi).card)
  | some .full => (m, 0)
  | some (.part b) =>
    (set m f (.part (b.insertRange lo hi)), (b.insertRange lo hi).card - b.card)

/-- the loop of `insert_range`, over fragments `sh ..= eh` (fuel = number of iterations) -/
def insertRangeLoop (m : TreeMap) (sh sl eh el : Nat) (count : Nat) : Nat → TreeMap × Nat
  | 0 => (m, count)
  | fuel + 1 =>
    if sh ≤ eh then
      let r := insertRangeFrag m sh sl (if sh = eh then el else U32 - 1)
      insertRangeLoop r.1 (sh + 1) 0 eh el (count + r.2) fuel
    else (m, count)

/-- range bounds as in `std::ops::Bound` -/
inductive Bound where
  | incl (v : Nat)
  | excl (v : Nat)
  | unbounded
deriving Repr, DecidableEq, Inhabited

def U64MAX : Nat := 18446744073709551615

/-- the start bound conversion of `insert_range`; `none` = the range is empty -/
def startOf : Bound → Option Nat
  | .incl s => some s
  | .excl s => if s = U64MAX then none else some (s + 1)
  | .unbounded => some 0

/-- the end bound conversion of `insert_range`; `none` = the range is empty -/
def endOf : Bound → Option Nat
  | .incl e => some e
  | .excl e => if e = 0 then none else some (e - 1)
  | .unbounded => some U64MAX

/-- `RowIdTreeMap::insert_range` -/
def insertRange (m : TreeMap) (s e : Bound) : TreeMap × Nat :=
  match startOf s, endOf e with
  | some S, some E =>
    insertRangeLoop m (frag S) (off S) (frag E) (off E) 0 (frag E + 1 - frag S)
  | _, _ => (m, 0)

/-- membership in a Rust range with the given bounds -/
def inBounds (s e : Bound) (x : Nat) : Bool :=
  (match s with
    | .incl a => decide (a ≤ x)
    | .excl a => decide (a < x)
    | .unbounded => true) &&
  (match e with
    | .incl b => decide (x ≤ b)
    | .excl b => decide (x < b)
    | .unbounded => true)

def insertBitmap (m : TreeMap) (f : Nat) (b : Bits) : TreeMap := set m f (.part b)
def insertFragment (m : TreeMap) (f : Nat) : TreeMap := set m f .full

def isEmpty (m : TreeMap) : Bool := List.isEmpty m

/-- `RowIdTreeMap::len` -/
def len : TreeMap → Option Nat
  | [] => some 0
  | (_, .full) :: _ => none
  | (_, .part b) :: t => (len t).map (· + b.card)

/-- does the map hold a bitmap in complement form (≥ 2^31 members)?  The driver answers `big`
instead of enumerating such maps, as the harness does. -/
def hasBig : TreeMap → Bool
  | [] => false
  | (_, .full) :: t => hasBig t
  | (_, .part b) :: t => b.co || hasBig t

/-- `RowIdTreeMap::row_ids` (ascending when the map is sorted) -/
def rowIds : TreeMap → Option (List Nat)
  | [] => some []
  | (_, .full) :: _ => none
  | (f, .part b) :: t => (rowIds t).map (fun r => (b.toSorted.map (fun o => f * U32 + o)) ++ r)

def retainFragments (m : TreeMap) (fs : List Nat) : TreeMap := m.filter (fun e => fs.contains e.1)

/-- `BitOrAssign`: fold over the entries of `rhs` -/
def orEntry (m : TreeMap) (e : Nat × Sel) : TreeMap :=
  match lookup m e.1 with
  | none => set m e.1 e.2
  | some .full => m
  | some (.part lb) =>
    match e.2 with
    | .full => set m e.1 .full
    | .part rb => set m e.1 (.part (lb.union rb))

def or (a b : TreeMap) : TreeMap := b.foldl orEntry a

/-- `BitAndAssign` -/
def andSel (l : Sel) (r : Sel) : Sel :=
  match l, r with
  | l, .full => l
  | .part lb, .part rb => .part (lb.inter rb)
  | .full, .part rb => .part rb

def selNonEmpty : Sel → Bool
  | .full => true
  | .part b => !b.isEmpty

def and (a b : TreeMap) : TreeMap :=
  (a.filterMap (fun e => match lookup b e.1 with
    | none => none
    | some r => some (e.1, andSel e.2 r))).filter (fun e => selNonEmpty e.2)

/-- `SubAssign`: fold over the entries of `rhs` -/
def subEntry (m : TreeMap) (e : Nat × Sel) : TreeMap :=
  match lookup m e.1 with
  | none => m
  | some .full =>
    match e.2 with
    | .full => erase m e.1
    | .part rb => set m e.1 (.part (Bits.full.diff rb))
  | some (.part lb) =>
    match e.2 with
    | .full => erase m e.1
    | .part rb =>
      if (lb.diff rb).isEmpty then erase m e.1 else set m e.1 (.part (lb.diff rb))

def sub (a b : TreeMap) : TreeMap := b.foldl subEntry a

/-- `RowIdSelection::union_all` folded per fragment; `RowIdTreeMap::union_all` -/
def unionAllEntry (m : TreeMap) (e : Nat × Sel) : TreeMap :=
  match lookup m e.1 with
  | none =>
    -- `Partial(union of the partial bitmaps)` unless a Full was seen
    set m e.1 (match e.2 with | .full => .full | .part b => .part (Bits.empty.union b))
  | some .full => m
  | some (.part lb) =>
    match e.2 with
    | .full => set m e.1 .full
    | .part rb => set m e.1 (.part (lb.union rb))

def unionAll (ms : List TreeMap) : TreeMap := ms.foldl (fun acc m => m.foldl unionAllEntry acc) []

/-- `FromIterator<u64>` / `Extend<u64>` -/
def extendIds (m : TreeMap) (vs : List Nat) : TreeMap := vs.foldl (fun acc v => (insert acc v).1) m

end TreeMap

/-! ## RowIdMask -/

structure Mask where
  allow : Option TreeMap
  block : Option TreeMap
deriving Repr, DecidableEq, Inhabited

namespace Mask

def allRows : Mask := ⟨none, none⟩
def allowNothing : Mask := ⟨some [], none⟩
def fromAllowed (a : TreeMap) : Mask := ⟨some a, none⟩
def fromBlock (b : TreeMap) : Mask := ⟨none, some b⟩

def selected (m : Mask) (v : Nat) : Bool :=
  match m.allow, m.block with
  | none, none => true
  | some a, none => TreeMap.contains a v
  | none, some b => !TreeMap.contains b v
  | some a, some b => TreeMap.contains a v && !TreeMap.contains b v

def normalize (m : Mask) : Mask :=
  match m.allow, m.block with
  | some a, some b => ⟨some (TreeMap.sub a b), none⟩
  | _, _ => m

def alsoBlock (m : Mask) (bl : TreeMap) : Mask :=
  if TreeMap.isEmpty bl then m
  else match m.block with
    | some ex => ⟨m.allow, some (TreeMap.or ex bl)⟩
    | none => ⟨m.allow, some bl⟩

def alsoAllow (m : Mask) (al : TreeMap) : Mask :=
  match m.allow with
  | some ex => ⟨some (TreeMap.or ex al), m.block⟩
  | none => ⟨none, m.block⟩

def maxLen (m : Mask) : Option Nat :=
  match m.allow with
  | some a => TreeMap.len a
  | none => none

/-- `impl Not for RowIdMask` -/
def not (m : Mask) : Mask :=
  match m.allow, m.block with
  | none, none => allowNothing
  | some a, some b => ⟨none, some (TreeMap.sub a b)⟩
  | a, b => ⟨b, a⟩

/-- `impl BitAnd for RowIdMask` -/
def and (l r : Mask) : Mask :=
  { block := match l.block, r.block with
      | none, none => none
      | some a, none => some a
      | none, some b => some b
      | some a, some b => some (TreeMap.or a b),
    allow := match l.allow, r.allow with
      | none, none => none
      | some a, none => some a
      | none, some b => some b
      | some a, some b => some (TreeMap.and a b) }

/-- `impl BitOr for RowIdMask` (after both sides are normalised) -/
def orN (t r : Mask) : Mask :=
  { block := match t.block with
      | some sb =>
        (match r.allow, r.block with
          | none, none => none
          | some ra, none => some (TreeMap.sub sb ra)
          | none, some rb => some (TreeMap.and sb rb)
          | some _, some _ => none) -- unreachable after normalize
      | none =>
        (match r.block with
          | some rb =>
            (match t.allow with
              | some ta => some (TreeMap.sub rb ta)
              | none => none)
          | none => none),
    allow := match t.allow, r.allow with
      | some a, some b => some (TreeMap.or a b)
      | _, _ => none }

def or (l r : Mask) : Mask := orN l.normalize r.normalize

/-- merge-style iteration of `iter_ids`: allow ids (ascending) minus block ids -/
def iterIds (m : Mask) : Option (List Nat) :=
  match m.allow with
  | none => none
  | some a =>
    match TreeMap.rowIds a with
    | none => none
    | some ids =>
      match m.block with
      | none => some ids
      | some b =>
        match TreeMap.rowIds b with
        | none => none
        | some bids => some (ids.filter (fun x => !bids.contains x))

end Mask

/-- `RowIdTreeMap::mask` -/
def TreeMap.applyMask (m : TreeMap) (k : Mask) : TreeMap :=
  let m1 := match k.allow with | some a => TreeMap.and m a | none => m
  match k.block with | some b => TreeMap.sub m1 b | none => m1

/-! ## IndexExprResult combination -/

inductive Res where
  | exact (m : Mask)
  | atMost (m : Mask)
  | atLeast (m : Mask)
deriving Repr, DecidableEq, Inhabited

namespace Res

def mask : Res → Mask
  | exact m => m | atMost m => m | atLeast m => m

def discriminant : Res → Nat
  | exact _ => 0 | atMost _ => 1 | atLeast _ => 2

def not : Res → Res
  | exact m => exact m.not
  | atMost m => atLeast m.not
  | atLeast m => atMost m.not

def and : Res → Res → Res
  | exact l, exact r => exact (l.and r)
  | exact l, atMost r => atMost (l.and r)
  | atMost l, exact r => atMost (l.and r)
  | exact l, atLeast _ => atMost l
  | atLeast _, exact r => atMost r
  | atMost l, atMost r => atMost (l.and r)
  | atLeast l, atLeast r => atLeast (l.and r)
  | atLeast _, atMost r => atMost r
  | atMost l, atLeast _ => atMost l

def or : Res → Res → Res
  | exact l, exact r => exact (l.or r)
  | exact l, atMost r => atMost (l.or r)
  | atMost l, exact r => atMost (l.or r)
  | exact l, atLeast r => atLeast (l.or r)
  | atLeast l, exact r => atLeast (l.or r)
  | atMost l, atMost r => atMost (l.or r)
  | atLeast l, atLeast r => atLeast (l.or r)
  | atLeast l, atMost _ => atLeast l
  | atMost _, atLeast r => atLeast r

end Res

/-- `ScalarIndexExpr` with the leaf search results inlined -/
inductive Expr where
  | leaf (r : Res)
  | not (e : Expr)
  | and (l r : Expr)
  | or (l r : Expr)
deriving Repr, Inhabited

def Expr.eval : Expr → Res
  | .leaf r => r
  | .not e => e.eval.not
  | .and l r => l.eval.and r.eval
  | .or l r => l.eval.or r.eval

end LanceModel.C21
