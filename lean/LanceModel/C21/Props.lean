import LanceModel.C21.MaskLemmas
import LanceModel.C21.SizeLemmas
/-!
# C21 — property theorems

"Combining index answers with NOT, AND and OR keeps each answer's guarantee … The row-set masks
… behave as mathematical sets under membership, union, intersection, difference, complement,
size, iteration and serialisation."

Everything below is about the model in `Model.lean`; the tie to
`rust/lance-core/src/utils/mask.rs` and `rust/lance-index/src/scalar/expression.rs` is the
correspondence run of `./check C21`.

`Sorted m` is the `BTreeMap` invariant (strictly increasing fragment keys).  It holds for the
empty map and is preserved by every operation (`wf_*` theorems), so it holds for every map the
API can build; the semantic theorems assume it only for the operand that is *iterated*.
-/
namespace LanceModel.C21

/-! ## Part 1: tree maps are sets of row ids -/

/-- invariant: every map reachable through the API is sorted -/
theorem wf_reachable :
    Sorted ([] : TreeMap) ∧
    (∀ m v, Sorted m → Sorted (TreeMap.insert m v).1) ∧
    (∀ m v, Sorted m → Sorted (TreeMap.remove m v).1) ∧
    (∀ m f, Sorted m → Sorted (TreeMap.insertFragment m f)) ∧
    (∀ m f b, Sorted m → Sorted (TreeMap.insertBitmap m f b)) ∧
    (∀ m s e, Sorted m → Sorted (TreeMap.insertRange m s e).1) ∧
    (∀ m fs, Sorted m → Sorted (TreeMap.retainFragments m fs)) ∧
    (∀ a b, Sorted a → Sorted (TreeMap.or a b)) ∧
    (∀ a b, Sorted a → Sorted (TreeMap.and a b)) ∧
    (∀ a b, Sorted a → Sorted (TreeMap.sub a b)) ∧
    (∀ ms, Sorted (TreeMap.unionAll ms)) := by
  refine ⟨sorted_nil, sorted_insert, sorted_remove, ?_, ?_, ?_, ?_, sorted_or, sorted_and, sorted_sub,
    sorted_unionAll⟩
  · intro m f h; exact sorted_set _ _ _ h
  · intro m f b h; exact sorted_set _ _ _ h
  · intro m s e h
    unfold TreeMap.insertRange
    split
    · exact sorted_insertRangeLoop _ _ _ _ _ _ _ h
    · exact h
  · intro m fs h; exact sorted_filter _ _ h

/-- membership, union, intersection, difference: the operations are the set operations -/
theorem set_semantics (a b : TreeMap) (ha : Sorted a) (hb : Sorted b) (x : Nat) :
    (TreeMap.or a b).contains x = (a.contains x || b.contains x) ∧
    (TreeMap.and a b).contains x = (a.contains x && b.contains x) ∧
    (TreeMap.sub a b).contains x = (a.contains x && !b.contains x) :=
  ⟨contains_or a b hb x, contains_and a b ha x, contains_sub a b hb x⟩

theorem union_all_semantics (ms : List TreeMap) (h : ∀ m ∈ ms, Sorted m) (x : Nat) :
    (TreeMap.unionAll ms).contains x = ms.any (fun m => m.contains x) :=
  contains_unionAll ms h x

/-- point updates -/
theorem insert_semantics (m : TreeMap) (v x : Nat) :
    (m.insert v).1.contains x = (decide (x = v) || m.contains x) ∧ (m.insert v).2 = !m.contains v :=
  ⟨contains_insert m v x, insert_result m v⟩

theorem remove_semantics (m : TreeMap) (v x : Nat) :
    (m.remove v).1.contains x = (!decide (x = v) && m.contains x) ∧ (m.remove v).2 = m.contains v :=
  ⟨contains_remove m v x, remove_result m v⟩

theorem fragment_semantics (m : TreeMap) (f : Nat) (b : Bits) (fs : List Nat) (x : Nat) :
    (m.insertFragment f).contains x = (decide (frag x = f) || m.contains x) ∧
    (m.insertBitmap f b).contains x = (if frag x = f then b.mem (off x) else m.contains x) ∧
    (m.retainFragments fs).contains x = (fs.contains (frag x) && m.contains x) :=
  ⟨contains_insertFragment m f x, contains_insertBitmap m f b x, contains_retainFragments m fs x⟩

theorem extend_semantics (m : TreeMap) (vs : List Nat) (x : Nat) :
    (m.extendIds vs).contains x = (vs.contains x || m.contains x) :=
  contains_extendIds m vs x

/-- a bound that fits in a u64 -/
def Bound64 : TreeMap.Bound → Prop
  | .incl v => v ≤ TreeMap.U64MAX
  | .excl v => v ≤ TreeMap.U64MAX
  | .unbounded => True

/-- `insert_range` inserts exactly the ids of the Rust range, for every combination of
included / excluded / unbounded bounds, empty and inverted ranges included, at any position
relative to the 2^32 fragment boundaries. -/
theorem insert_range_semantics (m : TreeMap) (s e : TreeMap.Bound) (hs : Bound64 s) (he : Bound64 e)
    (x : Nat) (hx : x ≤ TreeMap.U64MAX) :
    (m.insertRange s e).1.contains x = (TreeMap.inBounds s e x || m.contains x) := by
  unfold TreeMap.insertRange
  cases hS : TreeMap.startOf s with
  | none =>
    -- excluded u64::MAX start: nothing is in the range
    cases s <;> simp [TreeMap.startOf] at hS
    subst hS
    simp only [TreeMap.inBounds]
    have : ¬ (TreeMap.U64MAX < x) := by omega
    simp [this]
  | some S =>
    cases hE : TreeMap.endOf e with
    | none =>
      cases e <;> simp [TreeMap.endOf] at hE
      subst hE
      simp [TreeMap.inBounds]
    | some E =>
      simp only []
      have key := contains_insertRangeLoop (frag E + 1 - frag S) m (frag S) (off S) (frag E) (off E) 0 x
        (off_lt E) (Nat.le_refl _)
      rw [inLex_iff] at key
      have hb : TreeMap.inBounds s e x = (decide (S ≤ x) && decide (x ≤ E)) := by
        cases s <;> cases e <;> simp [TreeMap.startOf, TreeMap.endOf] at hS hE <;>
          simp only [TreeMap.inBounds, Bound64] at * <;> (try obtain ⟨_, rfl⟩ := hS) <;>
          (try obtain ⟨_, rfl⟩ := hE) <;> (try subst hS) <;> (try subst hE) <;>
          (apply Bool.eq_iff_iff.mpr; first | (simp; done) | (simp; omega))
      rw [hb]
      apply Bool.eq_iff_iff.mpr
      rw [key]
      simp

/-! ## Part 2: masks select the set `allow \ block`, and NOT / AND / OR are complement,
intersection and union -/

theorem mask_algebra (l r : Mask) (hl : WFMask l) (hr : WFMask r) (x : Nat) :
    l.not.selected x = (!l.selected x) ∧
    (l.and r).selected x = (l.selected x && r.selected x) ∧
    (l.or r).selected x = (l.selected x || r.selected x) ∧
    l.normalize.selected x = l.selected x :=
  ⟨selected_not l hl x, selected_and l r hl hr x, selected_or l r hl hr x, selected_normalize l hl x⟩

theorem mask_wf_closed (l r : Mask) (hl : WFMask l) (hr : WFMask r) :
    WFMask l.not ∧ WFMask (l.and r) ∧ WFMask (l.or r) ∧ WFMask l.normalize :=
  ⟨wf_not l hl, wf_and l r hl hr, wf_or l r hl hr, wf_normalize l hl⟩

theorem mask_also_block (m : Mask) (bl : TreeMap) (hb : Sorted bl) (x : Nat) :
    (m.alsoBlock bl).selected x = (m.selected x && !bl.contains x) :=
  selected_alsoBlock m bl hb x

theorem tree_map_mask (m : TreeMap) (k : Mask) (hm : Sorted m) (hk : WFMask k) (x : Nat) :
    (m.applyMask k).contains x = (m.contains x && k.selected x) :=
  contains_applyMask m k hm hk x

/-! ## Part 3: index answers keep their guarantee under NOT / AND / OR -/

/-- what an answer promises about the true set `S` of matching rows -/
def Sem : Res → (Nat → Bool) → Prop
  | .exact m, S => ∀ x, m.selected x = S x
  | .atMost m, S => ∀ x, S x = true → m.selected x = true
  | .atLeast m, S => ∀ x, m.selected x = true → S x = true

def WFRes (r : Res) : Prop := WFMask r.mask

theorem not_sound (r : Res) (S : Nat → Bool) (hw : WFRes r) (h : Sem r S) :
    Sem r.not (fun x => !S x) ∧ WFRes r.not := by
  cases r with
  | exact m =>
    simp only [Res.not, Sem, WFRes, Res.mask] at *
    refine ⟨?_, wf_not _ hw⟩
    intro x; rw [selected_not _ hw, h x]
  | atMost m =>
    simp only [Res.not, Sem, WFRes, Res.mask] at *
    refine ⟨?_, wf_not _ hw⟩
    intro x; rw [selected_not _ hw]
    intro hx
    cases hS : S x
    · rfl
    · have := h x hS; simp_all
  | atLeast m =>
    simp only [Res.not, Sem, WFRes, Res.mask] at *
    refine ⟨?_, wf_not _ hw⟩
    intro x; rw [selected_not _ hw]
    intro hx
    cases hm : m.selected x
    · rfl
    · have := h x hm; simp_all

theorem and_sound (a b : Res) (S T : Nat → Bool) (ha : WFRes a) (hb : WFRes b)
    (h1 : Sem a S) (h2 : Sem b T) :
    Sem (a.and b) (fun x => S x && T x) ∧ WFRes (a.and b) := by
  cases a <;> cases b <;> simp only [Res.and, Sem, WFRes, Res.mask] at * <;>
    (first
      | (refine ⟨?_, wf_and _ _ ha hb⟩; intro x; rw [selected_and _ _ ha hb]; have := h1 x; have := h2 x;
         grind)
      | (refine ⟨?_, ha⟩; intro x; have := h1 x; have := h2 x; grind)
      | (refine ⟨?_, hb⟩; intro x; have := h1 x; have := h2 x; grind))

theorem or_sound (a b : Res) (S T : Nat → Bool) (ha : WFRes a) (hb : WFRes b)
    (h1 : Sem a S) (h2 : Sem b T) :
    Sem (a.or b) (fun x => S x || T x) ∧ WFRes (a.or b) := by
  cases a <;> cases b <;> simp only [Res.or, Sem, WFRes, Res.mask] at * <;>
    (first
      | (refine ⟨?_, wf_or _ _ ha hb⟩; intro x; rw [selected_or _ _ ha hb]; have := h1 x; have := h2 x;
         grind)
      | (refine ⟨?_, ha⟩; intro x; have := h1 x; have := h2 x; grind)
      | (refine ⟨?_, hb⟩; intro x; have := h1 x; have := h2 x; grind))

/-- an index expression whose leaves are annotated with the true set of rows they stand for -/
inductive TExpr where
  | leaf (r : Res) (S : Nat → Bool)
  | not (e : TExpr)
  | and (l r : TExpr)
  | or (l r : TExpr)

def TExpr.erase : TExpr → Expr
  | .leaf r _ => .leaf r
  | .not e => .not e.erase
  | .and l r => .and l.erase r.erase
  | .or l r => .or l.erase r.erase

/-- the rows that truly satisfy the expression -/
def TExpr.truth : TExpr → Nat → Bool
  | .leaf _ S => S
  | .not e => fun x => !e.truth x
  | .and l r => fun x => l.truth x && r.truth x
  | .or l r => fun x => l.truth x || r.truth x

/-- every leaf answer is well formed and keeps its promise -/
def TExpr.LeavesSound : TExpr → Prop
  | .leaf r S => WFRes r ∧ Sem r S
  | .not e => e.LeavesSound
  | .and l r => l.LeavesSound ∧ r.LeavesSound
  | .or l r => l.LeavesSound ∧ r.LeavesSound

/-- **Index result combination is sound**: for every expression tree of any shape and depth
over exact / at-most / at-least leaves, if every leaf keeps its guarantee then the combined
answer keeps the guarantee of its kind with respect to the expression's true row set. -/
theorem guarantee_preserved (t : TExpr) (h : t.LeavesSound) :
    Sem t.erase.eval t.truth ∧ WFRes t.erase.eval := by
  induction t with
  | leaf r S => exact ⟨h.2, h.1⟩
  | not e ih =>
    have := ih h
    exact not_sound _ _ this.2 this.1
  | and l r ihl ihr =>
    have a := ihl h.1
    have b := ihr h.2
    exact and_sound _ _ _ _ a.2 b.2 a.1 b.1
  | or l r ihl ihr =>
    have a := ihl h.1
    have b := ihr h.2
    exact or_sound _ _ _ _ a.2 b.2 a.1 b.1

/-! ## Part 4: size is consistent with membership and iteration -/

/-- `RowIdTreeMap::len` counts exactly the ids `row_ids` enumerates, and `RowIdMask::max_len` is an upper bound on
the number of ids `iter_ids` yields (hence on the number of selected rows): a "maximum" below the real count would
let callers that cap results by it (KNN late search, FTS flat-search choice) drop matching rows.
`NoCo`: no bitmap is held in complement form (≥ 2^31 members) — such maps are never enumerated. -/
theorem size_consistent :
    (∀ (m : TreeMap) (ids : List Nat), NoCo m → TreeMap.rowIds m = some ids → TreeMap.len m = some ids.length) ∧
    (∀ (m : Mask) (a : TreeMap) (n : Nat) (ids : List Nat), m.allow = some a → NoCo a →
        m.maxLen = some n → m.iterIds = some ids → ids.length ≤ n) := by
  refine ⟨len_eq_rowIds_length, ?_⟩
  intro m a n ids ha hc hn hi
  simp only [Mask.maxLen, ha] at hn
  simp only [Mask.iterIds, ha] at hi
  cases hr : TreeMap.rowIds a with
  | none => simp [hr] at hi
  | some r =>
    have hl := len_eq_rowIds_length a r hc hr
    rw [hn] at hl
    have hnr : n = r.length := by simpa using hl
    simp only [hr] at hi
    cases hb : m.block with
    | none => simp [hb] at hi; subst hi; omega
    | some b =>
      simp only [hb] at hi
      cases hbr : TreeMap.rowIds b with
      | none => simp [hbr] at hi
      | some bids =>
        simp only [hbr, Option.some.injEq] at hi
        subst hi
        have := List.length_filter_le (fun x => !bids.contains x) r
        omega

/-! ## Non-vacuity: concrete states meeting the hypotheses -/

example : Sorted ([(0, .part ⟨false, [1, 2]⟩), (3, .full)] : TreeMap) := by
  unfold Sorted; decide

def exA : TreeMap := [(0, .part ⟨false, [1]⟩)]
def exB : TreeMap := [(0, .part ⟨false, [1, 2]⟩), (4, .full)]

/-- NOT(a AND NOT(b)) with an exact and an at-most leaf: the shape that was wrong before the fix -/
example : (TExpr.not (.and (.leaf (.exact (Mask.fromAllowed exA)) (fun x => exA.contains x))
    (.not (.leaf (.atMost (Mask.fromAllowed exB)) (fun x => exB.contains x && x == 2))))).LeavesSound := by
  refine ⟨⟨?_, ?_⟩, ?_, ?_⟩
  · exact wf_fromAllowed _ (by unfold Sorted exA; decide)
  · intro x; rfl
  · exact wf_fromAllowed _ (by unfold Sorted exB; decide)
  · intro x hx
    simp only [Bool.and_eq_true] at hx
    exact hx.1

/-- a mask with both lists where the block list has ids outside the allow list: `max_len` (2) still bounds `iter_ids` (1 id) -/
example : (⟨some [(0, .part ⟨false, [1, 2]⟩)], some [(0, .part ⟨false, [2, 7]⟩)]⟩ : Mask).maxLen = some 2 ∧
    (⟨some [(0, .part ⟨false, [1, 2]⟩)], some [(0, .part ⟨false, [2, 7]⟩)]⟩ : Mask).iterIds = some [1] := by decide

end LanceModel.C21
