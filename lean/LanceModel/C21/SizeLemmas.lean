import LanceModel.C21.Model
/-! Size (`len`, `max_len`) is consistent with iteration (`row_ids`, `iter_ids`). -/
namespace LanceModel.C21

theorem length_insertSorted (x : Nat) (l : List Nat) : (Bits.insertSorted x l).length = l.length + 1 := by
  induction l with
  | nil => rfl
  | cons y t ih =>
    simp only [Bits.insertSorted]
    split
    · rfl
    · simp [ih]

theorem length_sort (l : List Nat) : (Bits.sort l).length = l.length := by
  induction l with
  | nil => rfl
  | cons x t ih => simp [Bits.sort, List.foldr, length_insertSorted] at *; omega

/-- no bitmap of the map is held in complement form (what the harness and the driver answer `big` for) -/
def NoCo : TreeMap → Prop
  | [] => True
  | (_, .full) :: t => NoCo t
  | (_, .part b) :: t => b.co = false ∧ NoCo t

/-- `len` is the number of ids `row_ids` enumerates -/
theorem len_eq_rowIds_length (m : TreeMap) (ids : List Nat) (hc : NoCo m) (h : TreeMap.rowIds m = some ids) :
    TreeMap.len m = some ids.length := by
  induction m generalizing ids with
  | nil => simp [TreeMap.rowIds] at h; subst h; rfl
  | cons e t ih =>
    obtain ⟨f, s⟩ := e
    cases s with
    | full => simp [TreeMap.rowIds] at h
    | part b =>
      simp only [TreeMap.rowIds, Option.map_eq_some_iff] at h
      obtain ⟨r, hr, rfl⟩ := h
      have := ih r hc.2 hr
      simp only [TreeMap.len, this, Option.map_some, List.length_append, List.length_map, Bits.toSorted,
        length_sort, Bits.card, hc.1]
      simp; omega

end LanceModel.C21
