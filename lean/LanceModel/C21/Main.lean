import LanceModel.C21.Driver
def main : IO Unit := LanceModel.Util.runDriver LanceModel.C21.Driver.step []
