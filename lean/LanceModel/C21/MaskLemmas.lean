import LanceModel.C21.RangeLemmas
/-! Well-formedness and selection semantics of `RowIdMask` operations. -/
namespace LanceModel.C21

/-- both lists (when present) satisfy the `BTreeMap` invariant -/
def WFMask (m : Mask) : Prop :=
  (∀ a, m.allow = some a → Sorted a) ∧ (∀ b, m.block = some b → Sorted b)

theorem wf_allRows : WFMask Mask.allRows := by simp [WFMask, Mask.allRows]
theorem wf_allowNothing : WFMask Mask.allowNothing := by
  simp only [WFMask, Mask.allowNothing]
  refine ⟨?_, by simp⟩
  intro a h; cases h; exact sorted_nil
theorem wf_fromAllowed (a : TreeMap) (h : Sorted a) : WFMask (Mask.fromAllowed a) := by
  simp only [WFMask, Mask.fromAllowed]
  refine ⟨?_, by simp⟩
  intro a' h'; cases h'; exact h

/-- closes Bool tautologies over opaque `contains` atoms -/
macro "bool_cases" : tactic =>
  `(tactic| (repeat' (first | rfl | (generalize TreeMap.contains _ _ = p; cases p))))

theorem selected_normalize (m : Mask) (h : WFMask m) (x : Nat) :
    m.normalize.selected x = m.selected x := by
  obtain ⟨a, b⟩ := m
  cases a <;> cases b <;> simp only [Mask.normalize, Mask.selected]
  rename_i a b
  exact contains_sub a b (h.2 b rfl) x

theorem wf_normalize (m : Mask) (h : WFMask m) : WFMask m.normalize := by
  obtain ⟨a, b⟩ := m
  cases a <;> cases b <;> simp only [Mask.normalize] <;> try exact h
  rename_i a b
  refine ⟨?_, by simp⟩
  intro a' h'; cases h'; exact sorted_sub a b (h.1 a rfl)

theorem contains_nil (x : Nat) : TreeMap.contains [] x = false := by
  simp [TreeMap.contains, lookup]

theorem selected_not (m : Mask) (h : WFMask m) (x : Nat) : m.not.selected x = !m.selected x := by
  obtain ⟨a, b⟩ := m
  cases a <;> cases b <;> simp only [Mask.not, Mask.selected, Mask.allowNothing, contains_nil]
  · rfl
  · bool_cases
  · rename_i a b
    rw [contains_sub a b (h.2 b rfl) x]
    bool_cases

theorem wf_not (m : Mask) (h : WFMask m) : WFMask m.not := by
  obtain ⟨a, b⟩ := m
  cases a <;> cases b <;> simp only [Mask.not]
  · exact wf_allowNothing
  · exact ⟨fun a' h' => h.2 a' h', by simp⟩
  · exact ⟨by simp, fun b' h' => h.1 b' h'⟩
  · rename_i a b
    refine ⟨by simp, ?_⟩
    intro b' h'; cases h'; exact sorted_sub a b (h.1 a rfl)

theorem selected_and (l r : Mask) (hl : WFMask l) (hr : WFMask r) (x : Nat) :
    (l.and r).selected x = (l.selected x && r.selected x) := by
  obtain ⟨la, lb⟩ := l
  obtain ⟨ra, rb⟩ := r
  cases la <;> cases lb <;> cases ra <;> cases rb <;> simp only [Mask.and, Mask.selected] <;>
    (try rw [contains_and _ _ (hl.1 _ rfl)]) <;> (try rw [contains_or _ _ (hr.2 _ rfl)]) <;>
    bool_cases

theorem wf_and (l r : Mask) (hl : WFMask l) (hr : WFMask r) : WFMask (l.and r) := by
  obtain ⟨la, lb⟩ := l
  obtain ⟨ra, rb⟩ := r
  constructor
  · intro a h
    cases la <;> cases ra <;> simp only [Mask.and] at h <;> cases h
    · exact hr.1 _ rfl
    · exact hl.1 _ rfl
    · exact sorted_and _ _ (hl.1 _ rfl)
  · intro b h
    cases lb <;> cases rb <;> simp only [Mask.and] at h <;> cases h
    · exact hr.2 _ rfl
    · exact hl.2 _ rfl
    · exact sorted_or _ _ (hl.2 _ rfl)

/-- `orN` on normalised operands (at most one list each… the both-lists shape is excluded) -/
theorem selected_orN (t r : Mask) (ht : WFMask t) (hr : WFMask r)
    (nt : ¬ (t.allow.isSome ∧ t.block.isSome)) (nr : ¬ (r.allow.isSome ∧ r.block.isSome)) (x : Nat) :
    (Mask.orN t r).selected x = (t.selected x || r.selected x) := by
  obtain ⟨ta, tb⟩ := t
  obtain ⟨ra, rb⟩ := r
  cases ta <;> cases tb <;> cases ra <;> cases rb <;> simp at nt nr <;>
    simp only [Mask.orN, Mask.selected] <;>
    (try rw [contains_sub _ _ (hr.1 _ rfl)]) <;> (try rw [contains_sub _ _ (ht.1 _ rfl)]) <;>
    (try rw [contains_and _ _ (ht.2 _ rfl)]) <;> (try rw [contains_or _ _ (hr.1 _ rfl)]) <;>
    bool_cases

theorem normalize_shape (m : Mask) : ¬ (m.normalize.allow.isSome ∧ m.normalize.block.isSome) := by
  obtain ⟨a, b⟩ := m
  cases a <;> cases b <;> simp [Mask.normalize]

theorem selected_or (l r : Mask) (hl : WFMask l) (hr : WFMask r) (x : Nat) :
    (l.or r).selected x = (l.selected x || r.selected x) := by
  unfold Mask.or
  rw [selected_orN _ _ (wf_normalize l hl) (wf_normalize r hr) (normalize_shape l) (normalize_shape r),
    selected_normalize l hl, selected_normalize r hr]

theorem wf_orN (t r : Mask) (ht : WFMask t) (hr : WFMask r) : WFMask (Mask.orN t r) := by
  obtain ⟨ta, tb⟩ := t
  obtain ⟨ra, rb⟩ := r
  constructor
  · intro a h
    cases ta <;> cases ra <;> simp only [Mask.orN] at h <;> cases h
    exact sorted_or _ _ (ht.1 _ rfl)
  · intro b h
    cases tb <;> cases ta <;> cases ra <;> cases rb <;> simp only [Mask.orN] at h <;> cases h
    all_goals first
      | exact sorted_sub _ _ (hr.2 _ rfl)
      | exact sorted_sub _ _ (ht.2 _ rfl)
      | exact sorted_and _ _ (ht.2 _ rfl)

theorem wf_or (l r : Mask) (hl : WFMask l) (hr : WFMask r) : WFMask (l.or r) :=
  wf_orN _ _ (wf_normalize l hl) (wf_normalize r hr)

theorem selected_alsoBlock (m : Mask) (bl : TreeMap) (hb : Sorted bl) (x : Nat) :
    (m.alsoBlock bl).selected x = (m.selected x && !bl.contains x) := by
  obtain ⟨a, b⟩ := m
  unfold Mask.alsoBlock
  by_cases he : TreeMap.isEmpty bl
  · have : bl = [] := by
      cases bl with
      | nil => rfl
      | cons _ _ => simp [TreeMap.isEmpty] at he
    subst this
    simp [TreeMap.isEmpty, contains_nil]
  · simp only [he, Bool.false_eq_true, ↓reduceIte]
    cases a <;> cases b <;> simp only [Mask.selected] <;> (try rw [contains_or _ _ hb]) <;> bool_cases

theorem selected_alsoAllow (m : Mask) (al : TreeMap) (ha : Sorted al) (x : Nat) :
    (m.alsoAllow al).selected x =
      (((m.allow.map (fun a => TreeMap.contains a x)).getD true || al.contains x) &&
        !(m.block.map (fun b => TreeMap.contains b x)).getD false) := by
  obtain ⟨a, b⟩ := m
  cases a <;> cases b <;> simp only [Mask.alsoAllow, Mask.selected, Option.map, Option.getD] <;>
    (try rw [contains_or _ _ ha]) <;> bool_cases

theorem contains_applyMask (m : TreeMap) (k : Mask) (hm : Sorted m) (hk : WFMask k) (x : Nat) :
    (m.applyMask k).contains x = (m.contains x && k.selected x) := by
  obtain ⟨a, b⟩ := k
  cases a <;> cases b <;> simp only [TreeMap.applyMask, Mask.selected] <;>
    (try rw [contains_sub _ _ (hk.2 _ rfl)]) <;> (try rw [contains_and _ _ hm]) <;> bool_cases

end LanceModel.C21
