import LanceModel.C21.Model
/-! Membership semantics of the `Bits` model of RoaringBitmap. -/
namespace LanceModel.C21.Bits

@[simp] theorem mem_empty (x : Nat) : empty.mem x = false := by
  simp [mem, empty]

theorem mem_full (x : Nat) : full.mem x = decide (x < U32) := by
  simp [mem, full]

theorem mem_lt {b : Bits} {x : Nat} (h : b.mem x = true) : x < U32 := by
  simp [mem] at h; exact h.1

theorem mem_insert (b : Bits) (x y : Nat) (hx : x < U32) :
    (b.insert x).mem y = (decide (y = x) || b.mem y) := by
  obtain ⟨co, l⟩ := b
  unfold insert mem
  cases co <;> simp
  · by_cases hc : x ∈ l <;> by_cases hy : y = x <;> simp [hc, hy, hx]
  · by_cases hy : y = x <;> simp [hy, hx]

theorem mem_remove (b : Bits) (x y : Nat) (hx : x < U32) :
    (b.remove x).mem y = (!decide (y = x) && b.mem y) := by
  obtain ⟨co, l⟩ := b
  unfold remove mem
  cases co <;> simp
  · by_cases hy : y = x <;> simp [hy, hx]
  · by_cases hc : x ∈ l <;> by_cases hy : y = x <;> simp [hc, hy, hx]

theorem mem_union (a b : Bits) (y : Nat) : (a.union b).mem y = (a.mem y || b.mem y) := by
  unfold union mem
  cases ha : a.co <;> cases hb : b.co <;> simp [List.mem_filter] <;>
    by_cases h1 : y ∈ a.l <;> by_cases h2 : y ∈ b.l <;> by_cases h3 : y < U32 <;> simp [h1, h2, h3]

theorem mem_inter (a b : Bits) (y : Nat) : (a.inter b).mem y = (a.mem y && b.mem y) := by
  unfold inter mem
  cases ha : a.co <;> cases hb : b.co <;> simp [List.mem_filter] <;>
    by_cases h1 : y ∈ a.l <;> by_cases h2 : y ∈ b.l <;> by_cases h3 : y < U32 <;> simp [h1, h2, h3]

theorem mem_compl (b : Bits) (y : Nat) : (b.compl).mem y = (decide (y < U32) && !b.mem y) := by
  unfold compl mem
  cases hb : b.co <;> by_cases h1 : y ∈ b.l <;> by_cases h3 : y < U32 <;> simp [h1, h3]

theorem mem_diff (a b : Bits) (y : Nat) : (a.diff b).mem y = (a.mem y && !b.mem y) := by
  unfold diff
  rw [mem_inter, mem_compl]
  by_cases h : a.mem y = true
  · simp [h, mem_lt h]
  · simp [h]

theorem mem_rangeFrom (lo n y : Nat) : y ∈ rangeFrom lo n ↔ lo ≤ y ∧ y < lo + n := by
  induction n generalizing lo with
  | zero => simp [rangeFrom]
  | succ n ih => simp [rangeFrom, ih]; omega

theorem mem_rangeIncl (lo hi y : Nat) : y ∈ rangeIncl lo hi ↔ lo ≤ y ∧ y ≤ hi := by
  unfold rangeIncl; rw [mem_rangeFrom]; omega

theorem mem_of_isEmpty (b : Bits) (o : Nat) (h : b.isEmpty = true) : b.mem o = false := by
  obtain ⟨co, l⟩ := b
  unfold isEmpty at h
  unfold mem
  cases co
  · simp at h; simp [h]
  · simp only [↓reduceIte, Bool.and_eq_true, decide_eq_true_eq, List.all_eq_true] at h
    by_cases ho : o < U32
    · have := h.2 o ((mem_rangeFrom 0 U32 o).mpr ⟨Nat.zero_le _, by omega⟩)
      simp at this
      simp [this]
    · simp [ho]

theorem mem_insertRange (b : Bits) (lo hi y : Nat) (hhi : hi < U32) :
    (b.insertRange lo hi).mem y = ((decide (lo ≤ y) && decide (y ≤ hi)) || b.mem y) := by
  unfold insertRange mem
  by_cases hco : b.co
  · simp [hco, List.mem_filter]
    by_cases h1 : y ∈ b.l <;> by_cases h3 : y < U32 <;> by_cases h4 : lo ≤ y <;> by_cases h5 : y ≤ hi <;>
      simp [h1, h3, h4, h5] <;> omega
  · simp only [hco, Bool.false_eq_true, ↓reduceIte]
    by_cases hsz : hi - lo < 2147483648
    · simp [hsz, List.mem_filter, mem_rangeIncl]
      by_cases h1 : y ∈ b.l <;> by_cases h3 : y < U32 <;> by_cases h4 : lo ≤ y <;> by_cases h5 : y ≤ hi <;>
        simp [h1, h3, h4, h5] <;> omega
    · simp [hsz, List.mem_filter, mem_rangeIncl]
      by_cases h1 : y ∈ b.l <;> by_cases h3 : y < U32 <;> by_cases h4 : lo ≤ y <;> by_cases h5 : y ≤ hi <;>
        simp [h1, h3, h4, h5] <;> (try unfold U32 at *) <;> omega

end LanceModel.C21.Bits
