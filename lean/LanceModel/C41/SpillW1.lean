import LanceModel.C41.SpillInv
/-! C41 — `SpillSender::write` (first segment) preserves the invariant. -/
namespace LanceModel.C41
variable {s : Sys}

theorem inv_wstart (h : Inv s) (b : Batch) : Inv (wstart s b).1 := by
  obtain ⟨hg, hr⟩ := h
  unfold wstart
  split
  · exact ⟨hg, hr⟩
  split
  · exact ⟨hg, hr⟩
  · exact ⟨hg, hr⟩
  · rename_i bs seen total hst
    have hb := hg.sBuf _ _ _ hst
    have hcl : s.st.closed = false := by rw [hst]; rfl
    split
    · refine ⟨?_, fun i => ?_⟩
      · obtain ⟨g1, g2, g3, g4, g5, g6, g7, g8, g9, g10, g11, g12, g13, g14⟩ := hg
        constructor
        case sTrans =>
          intro todo k b' h
          dsimp only at h ⊢
          simp only [SState.trans.injEq] at h
          obtain ⟨rfl, rfl, rfl⟩ := h
          exact ⟨[], Or.inl ⟨hb.2.1, rfl⟩, by simp [hb.1], by simp [hb.2.2.1], by simp, hb.2.2.2⟩
        all_goals leaf
      · rsplit (hr i)
    · refine ⟨?_, fun i => ?_⟩
      · gsplit hg
      · rsplit (hr i)
  · rename_i n hst
    have hb := hg.sSpill _ hst
    have hcl : s.st.closed = false := by rw [hst]; rfl
    refine ⟨?_, fun i => ?_⟩
    · gsplit hg
    · rsplit (hr i)
  · exact ⟨hg, hr⟩

end LanceModel.C41
