import LanceModel.C41.ChunkModel
/-!
C41 — lemmas about the chunker model: what one `BatchReaderChunker::next` does to the pending rows.
-/
namespace LanceModel.C41.Chunk

variable {α : Type}

/-- every item but the last has exactly `n` rows; the last has between 1 and `n` -/
def ExactButLast (n : Nat) : List (List α) → Prop
  | [] => True
  | [c] => 0 < c.length ∧ c.length ≤ n
  | c :: c' :: rest => c.length = n ∧ ExactButLast n (c' :: rest)

theorem ebl_cons {n : Nat} {c : List α} {tl : List (List α)} (h0 : 0 < c.length) (hn : c.length ≤ n)
    (hx : tl ≠ [] → c.length = n) (ht : ExactButLast n tl) : ExactButLast n (c :: tl) := by
  cases tl with
  | nil => exact ⟨h0, hn⟩
  | cons c' rest => exact ⟨hx (by simp), ht⟩

theorem ebl_pos {n : Nat} (hn : 0 < n) : ∀ {l : List (List α)}, ExactButLast n l → ∀ c ∈ l, 0 < c.length
  | [], _, c, hc => by cases hc
  | [c0], h, c, hc => by
    simp only [List.mem_singleton] at hc; subst hc; exact h.1
  | c0 :: c1 :: rest, h, c, hc => by
    rcases List.mem_cons.mp hc with rfl | hc
    · rw [h.1]; exact hn
    · exact ebl_pos hn h.2 c hc

theorem ebl_le {n : Nat} : ∀ {l : List (List α)}, ExactButLast n l → ∀ c ∈ l, c.length ≤ n
  | [], _, c, hc => by cases hc
  | [c0], h, c, hc => by
    simp only [List.mem_singleton] at hc; subst hc; exact h.2
  | c0 :: c1 :: rest, h, c, hc => by
    rcases List.mem_cons.mp hc with rfl | hc
    · exact Nat.le_of_eq h.1
    · exact ebl_le h.2 c hc

theorem ebl_dropLast {n : Nat} : ∀ {l : List (List α)}, ExactButLast n l → ∀ c ∈ l.dropLast, c.length = n
  | [], _, c, hc => by cases hc
  | [c0], _, c, hc => by cases hc
  | c0 :: c1 :: rest, h, c, hc => by
    rw [List.dropLast_cons_cons] at hc
    rcases List.mem_cons.mp hc with rfl | hc
    · exact h.1
    · exact ebl_dropLast h.2 c hc

theorem flatten_ne_nil_of_pos {l : List (List α)} (hne : l ≠ []) (h : ∀ c ∈ l, 0 < c.length) : l.flatten ≠ [] := by
  cases l with
  | nil => exact absurd rfl hne
  | cons c rest =>
    intro hf
    have := h c (by simp)
    rw [List.flatten_cons] at hf
    have : c = [] := (List.append_eq_nil_iff.mp hf).1
    subst this; simp at *

/-- `i` is an offset into the first buffered batch -/
def WF (buffered : List (List α)) (i : Nat) : Prop := i = 0 ∨ ∃ b rest, buffered = b :: rest ∧ i < b.length

theorem wf_le {buffered : List (List α)} {i : Nat} (h : WF buffered i) : i ≤ buffered.flatten.length := by
  rcases h with rfl | ⟨b, rest, rfl, hi⟩
  · exact Nat.zero_le _
  · simp only [List.flatten_cons, List.length_append]; omega

theorem wf_snoc {buffered : List (List α)} {i : Nat} (h : WF buffered i) (b : List α) : WF (buffered ++ [b]) i := by
  rcases h with rfl | ⟨b0, rest, rfl, hi⟩
  · exact Or.inl rfl
  · exact Or.inr ⟨b0, rest ++ [b], rfl, hi⟩

theorem bufferedLen_eq (buffered : List (List α)) (i : Nat) :
    bufferedLen buffered i = (buffered.flatten.drop i).length := by
  simp [bufferedLen, List.length_flatten]

theorem fill_spec (n i : Nat) : ∀ (inner buffered : List (List α)), WF buffered i →
    (fill n i inner buffered).2.flatten.drop i ++ (fill n i inner buffered).1.flatten
        = buffered.flatten.drop i ++ inner.flatten ∧
    WF (fill n i inner buffered).2 i ∧
    (n ≤ ((fill n i inner buffered).2.flatten.drop i).length ∨ (fill n i inner buffered).1 = [])
  | [], buffered, h => by simp [fill, h]
  | b :: rest, buffered, h => by
    unfold fill
    split
    · have ih := fill_spec n i rest (buffered ++ [b]) (wf_snoc h b)
      refine ⟨?_, ih.2.1, ih.2.2⟩
      rw [ih.1]
      simp only [List.flatten_append, List.flatten_cons, List.flatten_nil, List.append_nil]
      rw [List.drop_append_of_le_length (wf_le h), List.append_assoc]
    · rename_i hlt
      refine ⟨rfl, h, Or.inl ?_⟩
      rw [bufferedLen_eq] at hlt
      exact Nat.le_of_not_lt hlt

theorem collect_spec : ∀ (buffered : List (List α)) (need i : Nat), WF buffered i →
    (collect need buffered i).1.flatten = (buffered.flatten.drop i).take need ∧
    (collect need buffered i).2.1.flatten.drop (collect need buffered i).2.2 = (buffered.flatten.drop i).drop need ∧
    WF (collect need buffered i).2.1 (collect need buffered i).2.2 ∧
    (∀ x ∈ (collect need buffered i).1, 0 < x.length)
  | [], need, i, h => by
    have hi : i = 0 := by
      rcases h with h | ⟨_, _, h, _⟩
      · exact h
      · cases h
    subst hi
    simp [collect, WF]
  | b :: rest, need, i, h => by
    have hib : i = 0 ∨ i < b.length := by
      rcases h with h | ⟨b', rest', heq, hi⟩
      · exact Or.inl h
      · cases heq; exact Or.inr hi
    unfold collect
    split
    · rename_i hz
      subst hz
      simp [h]
    split
    · rename_i hz hb
      have hb' : b = [] := List.eq_nil_of_length_eq_zero hb
      subst hb'
      have hi0 : i = 0 := by rcases hib with h | h
                             · exact h
                             · simp at h
      subst hi0
      have ih := collect_spec rest need 0 (Or.inl rfl)
      simpa using ih
    split
    · rename_i hz hb hle
      have ih := collect_spec rest (need - (b.length - i)) 0 (Or.inl rfl)
      have hile : i ≤ b.length := by omega
      have hdl : (b.drop i).length = b.length - i := List.length_drop
      have hP : (b :: rest).flatten.drop i = b.drop i ++ rest.flatten := by
        rw [List.flatten_cons, List.drop_append_of_le_length hile]
      simp only [List.drop_zero] at ih
      refine ⟨?_, ?_, ih.2.2.1, ?_⟩
      · show (b.drop i :: (collect (need - (b.length - i)) rest 0).1).flatten = _
        have e : (b.drop i).take need = b.drop i := List.take_of_length_le (by rw [hdl]; exact hle)
        rw [List.flatten_cons, ih.1, hP, List.take_append, hdl, e]
      · show (collect (need - (b.length - i)) rest 0).2.1.flatten.drop (collect (need - (b.length - i)) rest 0).2.2 = _
        have e : (b.drop i).drop need = [] := List.drop_of_length_le (by rw [hdl]; exact hle)
        rw [ih.2.1, hP, List.drop_append, hdl, e, List.nil_append]
      · intro x hx
        rcases List.mem_cons.mp hx with rfl | hx
        · rw [hdl]; omega
        · exact ih.2.2.2 x hx
    · rename_i hz hb hle
      have hile : i ≤ b.length := by omega
      have hdl : (b.drop i).length = b.length - i := List.length_drop
      have hP : (b :: rest).flatten.drop i = b.drop i ++ rest.flatten := by
        rw [List.flatten_cons, List.drop_append_of_le_length hile]
      refine ⟨?_, ?_, ?_, ?_⟩
      · show [(b.drop i).take need].flatten = _
        rw [hP, List.take_append_of_le_length (by rw [hdl]; omega)]
        simp
      · show (b :: rest).flatten.drop (i + need) = _
        rw [← List.drop_drop]
      · show WF (b :: rest) (i + need)
        exact Or.inr ⟨b, rest, rfl, by omega⟩
      · intro x hx
        have hx' : x = (b.drop i).take need := by simpa using hx
        subst hx'
        rw [List.length_take, hdl]
        omega

/-- one `next()`: rows are handed out in order, nothing is lost, and a short chunk is the last one -/
theorem next_spec {n : Nat} (hn : 0 < n) (s : St α) (h : WF s.buffered s.i) :
    (next n s = none → pending s = []) ∧
    (∀ out s', next n s = some (out, s') →
      out.flatten ++ pending s' = pending s ∧ WF s'.buffered s'.i ∧ 0 < out.flatten.length ∧
      out.flatten.length ≤ n ∧ (out.flatten.length = n ∨ pending s' = []) ∧ ∀ x ∈ out, 0 < x.length) := by
  have hf := fill_spec n s.i s.inner s.buffered h
  have hc := collect_spec (fill n s.i s.inner s.buffered).2 n s.i hf.2.1
  have hP : pending s = (fill n s.i s.inner s.buffered).2.flatten.drop s.i ++ (fill n s.i s.inner s.buffered).1.flatten := by
    rw [hf.1]; rfl
  generalize (fill n s.i s.inner s.buffered).2.flatten.drop s.i = P at hf hc hP
  have hnext : next n s =
      if (collect n (fill n s.i s.inner s.buffered).2 s.i).1.isEmpty then none
      else some ((collect n (fill n s.i s.inner s.buffered).2 s.i).1,
        ⟨(fill n s.i s.inner s.buffered).1, (collect n (fill n s.i s.inner s.buffered).2 s.i).2.1,
         (collect n (fill n s.i s.inner s.buffered).2 s.i).2.2⟩) := by
    simp only [next]
  rw [hnext]
  constructor
  · intro hnone
    split at hnone
    · rename_i hemp
      have : (collect n (fill n s.i s.inner s.buffered).2 s.i).1 = [] := List.isEmpty_iff.mp hemp
      have ht : P.take n = [] := by rw [← hc.1, this]; rfl
      have hPnil : P = [] := by
        cases P with
        | nil => rfl
        | cons x xs => cases n with
          | zero => omega
          | succ m => simp at ht
      subst hPnil
      rcases hf.2.2 with hle | hin
      · simp at hle; omega
      · rw [hP, hin]; rfl
    · cases hnone
  · intro out s' hsome
    split at hsome
    · cases hsome
    · rename_i hemp
      simp only [Option.some.injEq, Prod.mk.injEq] at hsome
      obtain ⟨rfl, rfl⟩ := hsome
      have hne : (collect n (fill n s.i s.inner s.buffered).2 s.i).1 ≠ [] := by
        intro h0; rw [h0] at hemp; exact hemp rfl
      have hpos := flatten_ne_nil_of_pos hne hc.2.2.2
      refine ⟨?_, hc.2.2.1, Nat.pos_of_ne_zero (fun h0 => hpos (List.eq_nil_of_length_eq_zero h0)), ?_, ?_, hc.2.2.2⟩
      · show _ ++ (_ ++ _) = _
        simp only []
        rw [hc.1, hc.2.1, hP, ← List.append_assoc, List.take_append_drop]
      · rw [hc.1, List.length_take]; exact Nat.min_le_left _ _
      · by_cases hle : n ≤ P.length
        · left; rw [hc.1, List.length_take]; exact Nat.min_eq_left hle
        · rcases hf.2.2 with hle' | hin
          · exact absurd hle' hle
          · right
            show _ ++ _ = []
            simp only []
            rw [hc.2.1, hin, List.drop_of_length_le (by omega)]; rfl

end LanceModel.C41.Chunk
