import LanceModel.C41.SpillR1
/-! C41 — the readers' blocking file operations preserve the invariant. -/
namespace LanceModel.C41
variable {s : Sys}

theorem inv_rioR (h : Inv s) (i : Nat) (r : Reader) (hr : ROk s r) : Inv (rioR s i r).1 := by
  have hg := h.g
  unfold rioR
  split
  · rename_i hpc
    split
    · apply inv_setRd' h
      rsplit hr
    · rename_i f hf
      apply inv_setRd' h
      rsplit hr
  · rename_i j hpc
    split
    · rename_i f c hf hc
      have p3 := hg.eosClosed
      have p4 : c < f.length := by
        obtain ⟨c', hc', hsum, hj, f', hf', hgood⟩ := hr.skipping j hpc
        rw [hc] at hc'; cases hc'
        rw [hf] at hf'; cases hf'
        rcases hgood with hlt | ⟨he, hrl⟩
        · omega
        · have := (p3 he).1
          rw [hf] at this; cases this
          omega
      simp only [p4, if_true]
      apply inv_setRd' h
      rsplit hr
    · exact h
  · rename_i hpc
    split
    · rename_i f c hf hc
      have p1 := hg.filePre _ hf
      have p3 := hg.eosClosed
      split
      · rename_i b hb
        apply inv_setRd' h
        rsplit hr
      · rename_i hb
        have p2 : f.length ≤ c := List.getElem?_eq_none_iff.mp hb
        apply inv_setRd' h
        rsplit hr
    · exact h
  · exact h

theorem inv_rio (h : Inv s) (i : Nat) : Inv (rio s i).1 := inv_rioR h i _ (h.r i)

end LanceModel.C41
