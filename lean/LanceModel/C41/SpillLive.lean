import LanceModel.C41.SpillRun
/-!
C41 — progress: once `finish()` has been published (and no error sent), a reader that keeps being polled reaches
the end of its stream after a bounded number of polls.
-/
namespace LanceModel.C41

/-- number of steps reader `r` still needs (an upper bound that every enabled step decreases) -/
def nu (s : Sys) (r : Reader) : Nat :=
  match r.pc with
  | .ended => 0
  | .failed _ => 0
  | .got none => 1
  | .got (some _) => 3 * (s.log.length - r.read) + 1
  | .reading => 3 * (s.log.length - r.read) + 2
  | .skipping j => j + 3 * (s.log.length - r.read) + 2
  | .opening => r.read + 3 * (s.log.length - r.read) + 3
  | .idle =>
    match s.status.loc, r.cur with
    | .buffered _, _ => (s.log.length - r.read) + 1
    | .spilled _, some _ => 3 * (s.log.length - r.read) + 3
    | .spilled _, none => r.read + 3 * (s.log.length - r.read) + 4

/-- the spill is finished, published, and carries no error -/
structure Fin (s : Sys) : Prop where
  inv : Inv s
  fin : s.status.finished = true
  noErr : s.status.error = false

theorem rpollR_same (s : Sys) (i : Nat) (r : Reader) :
    (rpollR s i r).1.st = s.st ∧ (rpollR s i r).1.log = s.log ∧ (rpollR s i r).1.status = s.status ∧
    (rpollR s i r).1.file = s.file ∧ (rpollR s i r).1.eos = s.eos := by
  unfold rpollR
  repeat' split
  all_goals exact ⟨rfl, rfl, rfl, rfl, rfl⟩

theorem rioR_same (s : Sys) (i : Nat) (r : Reader) :
    (rioR s i r).1.st = s.st ∧ (rioR s i r).1.log = s.log ∧ (rioR s i r).1.status = s.status ∧
    (rioR s i r).1.file = s.file ∧ (rioR s i r).1.eos = s.eos := by
  unfold rioR
  repeat' split
  all_goals exact ⟨rfl, rfl, rfl, rfl, rfl⟩

theorem fin_rpoll {s : Sys} (h : Fin s) (i : Nat) : Fin (rpoll s i).1 := by
  have e := rpollR_same s i (s.rd i)
  exact ⟨inv_rpoll h.inv i, by rw [rpoll, e.2.2.1]; exact h.fin, by rw [rpoll, e.2.2.1]; exact h.noErr⟩

theorem fin_rio {s : Sys} (h : Fin s) (i : Nat) : Fin (rio s i).1 := by
  have e := rioR_same s i (s.rd i)
  exact ⟨inv_rio h.inv i, by rw [rio, e.2.2.1]; exact h.fin, by rw [rio, e.2.2.1]; exact h.noErr⟩

/-- the measure only looks at the log length, the published location and the reader -/
theorem nu_congr {s s' : Sys} (r : Reader) (h1 : s'.log = s.log) (h2 : s'.status = s.status) : nu s' r = nu s r := by
  simp only [nu, h1, h2]

/-- a poll either makes progress or (while a file operation is pending / after termination) changes nothing;
    it makes progress whenever the reader is between file operations; it never fails the reader -/
theorem rpollR_progress {s : Sys} (h : Fin s) (i : Nat) (r : Reader) (hr : ROk s r) (hri : s.rd i = r) :
    (nu s ((rpollR s i r).1.rd i) < nu s r ∨ (rpollR s i r).1.rd i = r ∧ (rpollR s i r).1 = s) ∧
    ((r.pc = .idle ∨ ∃ b, r.pc = .got b) → nu s ((rpollR s i r).1.rd i) < nu s r) ∧
    ((∀ k, r.pc ≠ .failed k) → ∀ k, ((rpollR s i r).1.rd i).pc ≠ .failed k) := by
  have hg := h.inv.g
  have hfin := h.fin
  have herr := h.noErr
  unfold rpollR
  split
  · rename_i hpc
    have hc : (false || s.status.finished || decide (s.status.written > r.read)) = true := by simp [hfin]
    simp only [herr, hc, if_true, Bool.false_eq_true, if_false]
    split
    · rename_i bs hloc
      have hbs : bs = s.log := hg.finBuf hfin herr bs hloc
      subst hbs
      split
      · rename_i b hb
        have hlt : r.read < s.log.length := by
          rcases Nat.lt_or_ge r.read s.log.length with h | h
          · exact h
          · rw [List.getElem?_eq_none_iff.mpr h] at hb; cases hb
        simp only [setRd, upd_apply, if_true, nu, hpc, hloc]
        refine ⟨Or.inl (by omega), fun _ => by omega, fun _ k => by simp⟩
      · simp only [setRd, upd_apply, if_true, nu, hpc, hloc]
        refine ⟨Or.inl (by omega), fun _ => by omega, fun _ k => by simp⟩
    · rename_i n hloc
      split
      · rename_i hcur
        simp only [setRd, upd_apply, if_true, nu, hpc, hloc, hcur]
        refine ⟨Or.inl (by omega), fun _ => by omega, fun _ k => by simp⟩
      · rename_i c hcur
        simp only [setRd, upd_apply, if_true, nu, hpc, hloc, hcur]
        refine ⟨Or.inl (by omega), fun _ => by omega, fun _ k => by simp⟩
  · rename_i b hpc
    obtain ⟨hcur, hlog⟩ := hr.gotSome b hpc
    have hlt : r.read < s.log.length := by
      rcases Nat.lt_or_ge r.read s.log.length with h | h
      · exact h
      · rw [List.getElem?_eq_none_iff.mpr h] at hlog; cases hlog
    obtain ⟨_, hsp⟩ := hr.curOk _ hcur
    have hloc : ∃ n, s.status.loc = .spilled n := by
      rcases hsp with h | h
      · rw [herr] at h; cases h
      · exact h
    obtain ⟨n, hloc⟩ := hloc
    simp only [setRd, upd_apply, if_true, nu, hpc, hloc, hcur]
    refine ⟨Or.inl (by omega), fun _ => by omega, fun _ k => by simp⟩
  · rename_i hpc
    simp only [setRd, upd_apply, if_true, nu, hpc]
    refine ⟨Or.inl (by omega), fun _ => by omega, fun _ k => by simp⟩
  all_goals
    rename_i hpc
    refine ⟨Or.inr ⟨hri, rfl⟩, ?_, fun hk => ?_⟩
    · intro hh
      rcases hh with hh | ⟨b, hh⟩
      · rw [hpc] at hh; cases hh
      · rw [hpc] at hh; cases hh
    · rw [hri]; exact hk

/-- a blocking file operation of the reader either makes progress or (none pending) changes nothing;
    it makes progress whenever one is pending; it never fails the reader -/
theorem rioR_progress {s : Sys} (h : Fin s) (i : Nat) (r : Reader) (hr : ROk s r) (hri : s.rd i = r) :
    (nu s ((rioR s i r).1.rd i) < nu s r ∨ (rioR s i r).1.rd i = r ∧ (rioR s i r).1 = s) ∧
    ((r.pc = .opening ∨ (∃ j, r.pc = .skipping j) ∨ r.pc = .reading) → nu s ((rioR s i r).1.rd i) < nu s r) ∧
    ((∀ k, r.pc ≠ .failed k) → ∀ k, ((rioR s i r).1.rd i).pc ≠ .failed k) := by
  have hg := h.inv.g
  have hfin := h.fin
  have herr := h.noErr
  unfold rioR
  split
  · rename_i hpc
    obtain ⟨hcur, ⟨f, hf, _⟩, _⟩ := hr.opening hpc
    simp only [hf]
    by_cases h0 : r.read = 0
    · simp only [setRd, upd_apply, if_true, nu, hpc, h0]
      refine ⟨Or.inl (by omega), fun _ => by omega, fun _ k => by simp⟩
    · simp only [setRd, upd_apply, if_true, nu, hpc, h0, if_false]
      refine ⟨Or.inl (by omega), fun _ => by omega, fun _ k => by simp⟩
  · rename_i j hpc
    obtain ⟨c, hcur, hsum, hj, f, hf, _⟩ := hr.skipping j hpc
    simp only [hf, hcur]
    by_cases h1 : j ≤ 1
    · simp only [setRd, upd_apply, if_true, nu, hpc, h1]
      refine ⟨Or.inl (by omega), fun _ => by omega, fun _ k => by simp⟩
    · simp only [setRd, upd_apply, if_true, nu, hpc, h1, if_false]
      refine ⟨Or.inl (by omega), fun _ => by omega, fun _ k => by simp⟩
  · rename_i hpc
    obtain ⟨hcur, f, hf, _⟩ := hr.reading hpc
    simp only [hf, hcur]
    split
    · simp only [setRd, upd_apply, if_true, nu, hpc]
      refine ⟨Or.inl (by omega), fun _ => by omega, fun _ k => by simp⟩
    · simp only [setRd, upd_apply, if_true, nu, hpc]
      refine ⟨Or.inl (by omega), fun _ => by omega, fun _ k => by simp⟩
  · rename_i hne1 hne2 hne3
    refine ⟨Or.inr ⟨hri, rfl⟩, ?_, fun hk => by rw [hri]; exact hk⟩
    intro hh
    rcases hh with hh | ⟨j, hh⟩ | hh
    · exact absurd hh hne1
    · exact absurd hh (hne2 j)
    · exact absurd hh hne3

/-- one poll of reader `i` followed by the blocking file operation it may have started -/
def round (s : Sys) (i : Nat) : Sys := (rio (rpoll s i).1 i).1

/-- `k` polls of reader `i`, nothing else happening -/
def pollSched (i : Nat) : Nat → List Step
  | 0 => []
  | k + 1 => .rpoll i :: .rio i :: pollSched i k

theorem run_pollSched_succ (s : Sys) (i k : Nat) : run s (pollSched i (k + 1)) = run (round s i) (pollSched i k) := rfl

theorem round_progress {s : Sys} (h : Fin s) (i : Nat) (hnf : ∀ k, (s.rd i).pc ≠ .failed k)
    (hne : (s.rd i).pc ≠ .ended) :
    Fin (round s i) ∧ nu (round s i) ((round s i).rd i) < nu s (s.rd i) ∧
    (∀ k, ((round s i).rd i).pc ≠ .failed k) := by
  have h1 := fin_rpoll h i
  have h2 := fin_rio h1 i
  have e1 := rpollR_same s i (s.rd i)
  have e2 := rioR_same (rpoll s i).1 i ((rpoll s i).1.rd i)
  have P1 := rpollR_progress h i (s.rd i) (h.inv.r i) rfl
  have P2 := rioR_progress h1 i ((rpoll s i).1.rd i) (h1.inv.r i) rfl
  have c1 : ∀ r, nu (rpoll s i).1 r = nu s r := fun r => nu_congr r e1.2.1 e1.2.2.1
  have c2 : ∀ r, nu (round s i) r = nu s r := fun r =>
    (nu_congr r e2.2.1 e2.2.2.1).trans (c1 r)
  refine ⟨h2, ?_, P2.2.2 (P1.2.2 hnf)⟩
  rw [c2]
  have hle : nu s ((round s i).rd i) ≤ nu s ((rpoll s i).1.rd i) := by
    rcases P2.1 with hlt | ⟨heq, _⟩
    · rw [c1, c1] at hlt; exact Nat.le_of_lt hlt
    · exact Nat.le_of_eq (congrArg (nu s) heq)
  cases hpc : (s.rd i).pc with
  | idle => exact Nat.lt_of_le_of_lt hle (P1.2.1 (Or.inl hpc))
  | got b => exact Nat.lt_of_le_of_lt hle (P1.2.1 (Or.inr ⟨b, hpc⟩))
  | ended => exact absurd hpc hne
  | failed k => exact absurd hpc (hnf k)
  | opening =>
    rcases P1.1 with hlt | ⟨heq, hs⟩
    · exact Nat.lt_of_le_of_lt hle hlt
    · have hpc' : ((rpoll s i).1.rd i).pc = .opening := by rw [show (rpoll s i).1.rd i = s.rd i from heq]; exact hpc
      have := P2.2.1 (Or.inl hpc')
      rw [c1, c1] at this
      exact Nat.lt_of_lt_of_eq this (congrArg (nu s) heq)
  | skipping j =>
    rcases P1.1 with hlt | ⟨heq, hs⟩
    · exact Nat.lt_of_le_of_lt hle hlt
    · have hpc' : ((rpoll s i).1.rd i).pc = .skipping j := by rw [show (rpoll s i).1.rd i = s.rd i from heq]; exact hpc
      have := P2.2.1 (Or.inr (Or.inl ⟨j, hpc'⟩))
      rw [c1, c1] at this
      exact Nat.lt_of_lt_of_eq this (congrArg (nu s) heq)
  | reading =>
    rcases P1.1 with hlt | ⟨heq, hs⟩
    · exact Nat.lt_of_le_of_lt hle hlt
    · have hpc' : ((rpoll s i).1.rd i).pc = .reading := by rw [show (rpoll s i).1.rd i = s.rd i from heq]; exact hpc
      have := P2.2.1 (Or.inr (Or.inr hpc'))
      rw [c1, c1] at this
      exact Nat.lt_of_lt_of_eq this (congrArg (nu s) heq)

/-- a reader of a finished, error-free spill that keeps being polled ends within `nu` polls -/
theorem completes_aux : ∀ (m : Nat) (s : Sys) (i : Nat), Fin s → (∀ k, (s.rd i).pc ≠ .failed k) →
    nu s (s.rd i) ≤ m → ∃ k, k ≤ m ∧ ((run s (pollSched i k)).rd i).pc = .ended
  | 0, s, i, h, hnf, hm => by
    by_cases he : (s.rd i).pc = .ended
    · exact ⟨0, Nat.le_refl _, he⟩
    · have := (round_progress h i hnf he).2.1
      omega
  | m + 1, s, i, h, hnf, hm => by
    by_cases he : (s.rd i).pc = .ended
    · exact ⟨0, Nat.zero_le _, he⟩
    · obtain ⟨hf, hlt, hnf'⟩ := round_progress h i hnf he
      obtain ⟨k, hk, hend⟩ := completes_aux m (round s i) i hf hnf' (by omega)
      exact ⟨k + 1, by omega, by rw [run_pollSched_succ]; exact hend⟩

end LanceModel.C41
