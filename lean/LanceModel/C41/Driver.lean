import LanceModel.Util
import LanceModel.C41.Model
import LanceModel.C41.ChunkModel
/-
C41 driver.  One output line per input line.

spill ops  : new <limit> | w base blen off rows | wb base blen off rows | fb | ws | fin | err | drop | open | poll i | next i | drain i
conc ops   : conc limit k delays
chunk ops  : chunk n lens | concat n lens | break n lens | strict n lens      (lens = 3,0,5 or -)
-/
namespace LanceModel.C41.Driver
open LanceModel.Util LanceModel.C41

structure DSt where
  sys : Sys
  readers : Nat

def dinit : DSt := ⟨init 0, 0⟩

def showBatch (b : Batch) : String := toString b.v0 ++ "+" ++ toString b.rows

def showFile (s : Sys) : String :=
  match s.file with
  | none => "file=-"
  | some f => "file=" ++ toString f.length ++ (if s.eos then "!" else "")

def showKind : ErrKind → String
  | .orig => "orig"
  | .copy => "copy"
  | .dropped => "dropped"
  | .io => "io"

def showObs : Obs → String
  | .none => "none"
  | .accepted => "ok"
  | .rejFinished => "err-finished"
  | .rejErrored => "err-errored"
  | .busy => "busy"
  | .wait => "wait"
  | .io => "io"
  | .batch b => "batch " ++ showBatch b
  | .end_ => "end"
  | .error k => "error " ++ showKind k
  | .done => "done"

/-- one resumption of the sender's in-flight future (one poll + the blocking operation it spawned) -/
def senderStep (s : Sys) : Sys × Bool :=
  match s.st with
  | .appended _ => ((wpub s).1, true)
  | .finishedPending _ => ((wpub s).1, true)
  | _ => ((wio s).1, false)

/-- run the in-flight sender call to completion -/
def settle : Nat → Sys → Sys
  | 0, s => s
  | fuel + 1, s => if s.st.idle then s else settle fuel (senderStep s).1

/-- one poll of reader `i` by the harness: the poll itself plus the blocking operation it spawned -/
def pollOnce (s : Sys) (i : Nat) : Sys × Obs :=
  match (s.rd i).pc with
  | .idle =>
    match rpoll s i with
    | (s1, .io) => ((rio s1 i).1, .io)
    | (s1, o) => (s1, o)
  | .got _ => rpoll s i
  | .opening => ((rio s i).1, .io)
  | .skipping _ => ((rio s i).1, .io)
  | .reading => ((rio s i).1, .io)
  | .ended => (s, .done)
  | .failed _ => (s, .done)

/-- poll until the stream yields something or waits for the writer -/
def nextItem : Nat → Sys → Nat → Sys × Obs
  | 0, s, _ => (s, .io)
  | fuel + 1, s, i =>
    match pollOnce s i with
    | (s1, .io) => nextItem fuel s1 i
    | r => r

def drain : Nat → Sys → Nat → List String → Sys × String
  | 0, s, _, acc => (s, " ".intercalate (acc.reverse ++ ["fuel"]))
  | fuel + 1, s, i, acc =>
    match nextItem 100000 s i with
    | (s1, .batch b) => drain fuel s1 i (showBatch b :: acc)
    | (s1, o) => (s1, " ".intercalate (acc.reverse ++ [showObs o]))

/-- `w base blen off rows`: rows `off .. off+rows` of the base array `(base, blen)`, an Int32 array of `blen` values
    `base*100 + j`.  The buffer pointer of the slice is `ptr(base, blen) + 4*off` (all empty arrays share the dangling
    pointer), its capacity that of the whole base buffer. -/
def mkBatch (a b c d : String) : Option Batch :=
  match a.toNat?, b.toNat?, c.toNat?, d.toNat? with
  | some base, some blen, some off, some rows =>
    if off + rows ≤ blen then
      some ⟨if rows = 0 then 0 else base * 100 + off, rows, if blen = 0 then 0 else (base * 100 + blen) * 1000 + off + 1, blen * 4⟩
    else none
  | _, _, _, _ => none

/-! chunker side -/

/-- batches of consecutive row numbers with the given lengths -/
def mkInput : Nat → List Nat → List (List Nat)
  | _, [] => []
  | start, l :: ls => (List.range' start l) :: mkInput (start + l) ls

def isConsecutive : Nat → List Nat → Bool
  | _, [] => true
  | v, x :: xs => x == v && isConsecutive (v + 1) xs

def showPiece (p : List Nat) : String :=
  match p with
  | [] => "e"
  | v :: _ => if isConsecutive v p then toString v ++ "+" ++ toString p.length else "[" ++ showNatList p ++ "]"

def showPieces (ps : List (List Nat)) : String :=
  if ps.isEmpty then "-" else ",".intercalate (ps.map showPiece)

def showChunks (cs : List (List (List Nat))) : String :=
  if cs.isEmpty then "-" else "|".intercalate (cs.map showPieces)

def bad : String := "bad-op"

def step (d : DSt) (line : String) : DSt × String :=
  let s := d.sys
  match splitTokens line with
  | ["new", l] =>
    match l.toNat? with
    | some l => (⟨init l, 0⟩, "ok")
    | none => (d, bad)
  | ["w", a, b, c, e] =>
    match mkBatch a b c e with
    | some bt =>
      match wstart s bt with
      | (s1, .accepted) => let s2 := settle (s1.log.length + 8) s1; ({ d with sys := s2 }, "ok " ++ showFile s2)
      | (s1, o) => ({ d with sys := s1 }, showObs o ++ " " ++ showFile s1)
    | none => (d, bad)
  | ["wb", a, b, c, e] =>
    match mkBatch a b c e with
    | some bt =>
      match wstart s bt with
      | (s1, .accepted) =>
        if s1.st.idle then ({ d with sys := s1 }, "ok " ++ showFile s1)
        else let s2 := (wio s1).1; ({ d with sys := s2 }, "pending " ++ showFile s2)
      | (s1, o) => ({ d with sys := s1 }, showObs o ++ " " ++ showFile s1)
    | none => (d, bad)
  | ["fb"] =>
    match fstart s with
    | (s1, .accepted) =>
      if s1.st.idle then ({ d with sys := s1 }, "ok " ++ showFile s1)
      else let s2 := (wio s1).1; ({ d with sys := s2 }, "pending " ++ showFile s2)
    | (s1, o) => ({ d with sys := s1 }, showObs o ++ " " ++ showFile s1)
  | ["fin"] =>
    match fstart s with
    | (s1, .accepted) => let s2 := settle 8 s1; ({ d with sys := s2 }, "ok " ++ showFile s2)
    | (s1, o) => ({ d with sys := s1 }, showObs o ++ " " ++ showFile s1)
  | ["ws"] =>
    if s.st.idle then (d, "idle " ++ showFile s)
    else
      match senderStep s with
      | (s1, true) => ({ d with sys := s1 }, "ok " ++ showFile s1)
      | (s1, false) => ({ d with sys := s1 }, "pending " ++ showFile s1)
  | ["err"] =>
    match sendErr s with
    | (s1, o) => ({ d with sys := s1 }, showObs o ++ " " ++ showFile s1)
  | ["drop"] =>
    match dropSender s with
    | (s1, o) => ({ d with sys := s1 }, showObs o ++ " " ++ showFile s1)
  | ["open"] => ({ d with readers := d.readers + 1 }, "ok r" ++ toString d.readers)
  | ["poll", i] =>
    match i.toNat? with
    | some i =>
      if i < d.readers then
        match pollOnce s i with
        | (s1, o) => ({ d with sys := s1 }, showObs o)
      else (d, bad)
    | none => (d, bad)
  | ["next", i] =>
    match i.toNat? with
    | some i =>
      if i < d.readers then
        match nextItem 100000 s i with
        | (s1, o) => ({ d with sys := s1 }, showObs o)
      else (d, bad)
    | none => (d, bad)
  | ["drain", i] =>
    match i.toNat? with
    | some i =>
      if i < d.readers then
        match drain 100000 s i [] with
        | (s1, o) => ({ d with sys := s1 }, o)
      else (d, bad)
    | none => (d, bad)
  | ["conc", l, k, delays] =>
    -- black-box concurrent run: whatever the interleaving, every reader that completes has seen the k batches
    -- (theorem `reader_sees_all`); the harness reports exactly that or an oracle failure
    match l.toNat?, k.toNat?, parseNatList delays with
    | some _, some k, some ds =>
      let all := if k = 0 then "-" else ",".intercalate ((List.range k).map (fun j => toString (j * 100) ++ "+4"))
      if ds.isEmpty then (d, "-")
      else (d, ";".intercalate ((List.range ds.length).map (fun i => "r" ++ toString i ++ "=" ++ all)))
    | _, _, _ => (d, bad)
  | ["chunk", n, lens] =>
    match n.toNat?, parseNatList lens with
    | some n, some lens => (d, showChunks (Chunk.chunkStream n (mkInput 0 lens)))
    | _, _ => (d, bad)
  | ["concat", n, lens] =>
    match n.toNat?, parseNatList lens with
    | some n, some lens => (d, showPieces (Chunk.chunkConcatStream n (mkInput 0 lens)))
    | _, _ => (d, bad)
  | ["break", n, lens] =>
    match n.toNat?, parseNatList lens with
    | some n, some lens => if n = 0 then (d, bad) else (d, showPieces (Chunk.breakStream n 0 (mkInput 0 lens)))
    | _, _ => (d, bad)
  | ["strict", n, lens] =>
    match n.toNat?, parseNatList lens with
    | some n, some lens => if n = 0 then (d, bad) else (d, showPieces (Chunk.strictStream n (mkInput 0 lens)))
    | _, _ => (d, bad)
  | _ => (d, bad)

end LanceModel.C41.Driver
