/-!
C41 — replay spill (rust/lance-datafusion/src/spill.rs), labelled transition system.

One `SpillSender` (the single writer; its methods take `&mut self`, so calls on it are sequential),
the `tokio::sync::watch` channel carrying `WriteStatus`, the Arrow IPC stream file at `path`, and
unboundedly many readers `i : Nat` (`SpillReceiver::read()` streams; creating one touches no shared
state, so "a reader opened at any point" = a reader whose first poll happens at any point).

Granularity: one global step is the code between two `.await` points of one task, or one blocking file
operation (`tokio::task::spawn_blocking` closure of `AsyncStreamWriter` / `AsyncStreamReader`), or one
publication on the watch channel.  File effects, publications and deliveries of results are separate
steps, so every interleaving of a multi-threaded runtime is a schedule of the model
(the file is only ever appended to; a reader's `StreamReader::next()` on the file is one step).
-/
namespace LanceModel.C41

/-- a record batch: `v0`/`rows` identify the content (values `v0 .. v0+rows-1`), `key` is the identity
    of its buffer pointer and `cap` that buffer's capacity (what `MemoryAccumulator::record_batch` looks at) -/
structure Batch where
  v0 : Nat
  rows : Nat
  key : Nat
  cap : Nat
deriving DecidableEq, Repr

/-- spill.rs `DataLocation` -/
inductive Loc
  | buffered (bs : List Batch)
  | spilled (n : Nat)
deriving DecidableEq, Repr

/-- spill.rs `WriteStatus` (the value in the watch channel) -/
structure Status where
  error : Bool
  finished : Bool
  loc : Loc
deriving DecidableEq, Repr

/-- spill.rs `WriteStatus::batches_written` -/
def Status.written (st : Status) : Nat :=
  match st.loc with
  | .buffered bs => bs.length
  | .spilled n => n

/-- spill.rs `SpillState` refined by the `.await` point the sender is suspended at.
    `buffering / spilling / finished / errored` are the four Rust variants with no call in flight.
    `trans todo k b`    : inside `write(b)`, Buffering arm, memory limit exceeded; `todo` = what `batches.drain(..)`
                          has not yet yielded, `k` = the local `batches_written = batches.len()`
    `appending n b`     : inside `write(b)`, state `Spilling{n}`, `writer.write(b)` not yet executed
    `appended n`        : `writer.write(b)` executed, `*batches_written += 1` + `send_replace` not yet
    `finishing n`       : inside `finish()`, Spilling arm (Rust state = the temporary `Finished{0,None}`), `writer.finish()` not yet executed
    `finishedPending n` : `writer.finish()` executed (end-of-stream marker in the file), publication not yet -/
inductive SState
  | buffering (bs : List Batch) (seen : List Nat) (total : Nat)
  | trans (todo : List Batch) (k : Nat) (b : Batch)
  | spilling (n : Nat)
  | appending (n : Nat) (b : Batch)
  | appended (n : Nat)
  | finishing (n : Nat)
  | finishedPending (n : Nat)
  | finished (bs : Option (List Batch)) (n : Nat)
  | errored
deriving DecidableEq, Repr

/-- spill.rs `impl From<&SpillState> for WriteStatus` (only evaluated in the four Rust variants) -/
def statusOf : SState → Status
  | .buffering bs _ _ => ⟨false, false, .buffered bs⟩
  | .spilling n => ⟨false, false, .spilled n⟩
  | .finished (some bs) _ => ⟨false, true, .buffered bs⟩
  | .finished none n => ⟨false, true, .spilled n⟩
  | .errored => ⟨true, true, .buffered []⟩
  | .trans todo _ _ => ⟨false, false, .buffered todo⟩
  | .appending n _ => ⟨false, false, .spilled n⟩
  | .appended n => ⟨false, false, .spilled n⟩
  | .finishing _ => ⟨false, true, .spilled 0⟩
  | .finishedPending _ => ⟨false, true, .spilled 0⟩

/-- no further `write` is accepted -/
def SState.closed : SState → Bool
  | .finishing _ => true
  | .finishedPending _ => true
  | .finished _ _ => true
  | .errored => true
  | _ => false

/-- no call on the sender is in flight -/
def SState.idle : SState → Bool
  | .buffering _ _ _ => true
  | .spilling _ => true
  | .finished _ _ => true
  | .errored => true
  | _ => false

/-- lance-arrow memory.rs `MemoryAccumulator::record_batch` for a one-column batch without nulls:
    the buffer's capacity is added unless its pointer was seen before -/
def record (seen : List Nat) (total : Nat) (b : Batch) : List Nat × Nat :=
  if b.key ∈ seen then (seen, total) else (b.key :: seen, total + b.cap)

inductive ErrKind
  | orig      -- the `DataFusionError` given to `send_error` (handed out once)
  | copy      -- `Execution(original.to_string())`
  | dropped   -- "Spill has been dropped before reader has finish."
  | io        -- file could not be opened
deriving DecidableEq, Repr

/-- where a `SpillReader` is suspended.
    `idle`       : between two `read()` calls, or inside `wait_for`
    `opening`    : `get_reader`: `AsyncStreamReader::open` not yet executed
    `skipping j` : `get_reader`: `j` more skip reads to execute
    `reading`    : `reader.read()` (the one whose result is returned) not yet executed
    `got r`      : that read executed with result `r`, not yet delivered to the stream consumer -/
inductive RPc
  | idle
  | opening
  | skipping (j : Nat)
  | reading
  | got (r : Option Batch)
  | ended
  | failed (k : ErrKind)
deriving DecidableEq, Repr

/-- spill.rs `SpillReader`: `read` = `batches_read`; `cur` = position of the `StreamReader` in the file when
    `state = SpillReaderState::Reader`, `none` when `Buffered`; `out` = ghost: everything the stream yielded -/
structure Reader where
  pc : RPc
  read : Nat
  cur : Option Nat
  out : List Batch
deriving DecidableEq, Repr

def Reader.init : Reader := ⟨.idle, 0, none, []⟩

structure Sys where
  limit : Nat                     -- `memory_limit`
  st : SState                     -- `SpillSender.state` + suspension point
  status : Status                 -- value of the watch channel
  file : Option (List Batch)      -- record batches in the IPC stream file (`none`: not created)
  eos : Bool                      -- end-of-stream marker written (`StreamWriter::finish`)
  dropped : Bool                  -- `SpillSender` dropped (watch channel closed)
  errTaken : Bool                 -- `SpillError::Original` already replaced by `Copy`
  rd : Nat → Reader
  log : List Batch                -- ghost: batches accepted by `write`, in call order

def init (limit : Nat) : Sys :=
  { limit, st := .buffering [] [] 0, status := ⟨false, false, .buffered []⟩, file := none, eos := false,
    dropped := false, errTaken := false, rd := fun _ => Reader.init, log := [] }

def upd {α} (f : Nat → α) (i : Nat) (v : α) : Nat → α := fun j => if j = i then v else f j

theorem upd_apply {α} (f : Nat → α) (i j : Nat) (v : α) : upd f i v j = if j = i then v else f j := rfl

inductive Step
  | wstart (b : Batch)   -- `SpillSender::write(b)` called; runs to its first `.await` (or to completion)
  | fstart               -- `SpillSender::finish()` called
  | wio                  -- the next blocking file operation of the sender is executed
  | wpub                 -- the sender resumes after its last file operation and publishes
  | sendErr              -- `SpillSender::send_error`
  | drop                 -- the `SpillSender` is dropped
  | rpoll (i : Nat)      -- reader `i` is polled
  | rio (i : Nat)        -- the next blocking file operation of reader `i` is executed
deriving DecidableEq, Repr

/-- what the caller of a step observes -/
inductive Obs
  | none
  | accepted | rejFinished | rejErrored | busy
  | wait            -- pending on the watch channel
  | io              -- pending on a blocking file operation
  | batch (b : Batch)
  | end_
  | error (k : ErrKind)
  | done            -- the stream had already terminated
deriving DecidableEq, Repr

/-- spill.rs `SpillSender::write`, up to the first `.await` -/
def wstart (s : Sys) (b : Batch) : Sys × Obs :=
  if s.dropped then (s, .busy) else
  match s.st with
  | .finished _ _ => (s, .rejFinished)
  | .errored => (s, .rejErrored)
  | .buffering bs seen total =>
    if (record seen total b).2 > s.limit then
      ({ s with st := .trans bs bs.length b, log := s.log ++ [b] }, .accepted)
    else
      ({ s with st := .buffering (bs ++ [b]) (record seen total b).1 (record seen total b).2,
                status := statusOf (.buffering (bs ++ [b]) (record seen total b).1 (record seen total b).2),
                log := s.log ++ [b] }, .accepted)
  | .spilling n => ({ s with st := .appending n b, log := s.log ++ [b] }, .accepted)
  | _ => (s, .busy)

/-- spill.rs `SpillSender::finish`, up to the first `.await` -/
def fstart (s : Sys) : Sys × Obs :=
  if s.dropped then (s, .busy) else
  match s.st with
  -- `std::mem::replace(&mut self.state, Finished{0, None})` is not undone on the two error returns: the sender's
  -- private state forgets `batches` / the error (the watch channel still holds the last published status)
  | .finished _ _ => ({ s with st := .finished none 0 }, .rejFinished)
  | .errored => ({ s with st := .finished none 0 }, .rejErrored)
  | .buffering bs _ _ =>
    ({ s with st := .finished (some bs) bs.length, status := statusOf (.finished (some bs) bs.length) }, .accepted)
  | .spilling n => ({ s with st := .finishing n }, .accepted)
  | _ => (s, .busy)

/-- the sender's blocking file operations: `AsyncStreamWriter::{open, write, finish}` closures -/
def wio (s : Sys) : Sys × Obs :=
  match s.st with
  | .trans todo k b =>
    match s.file with
    | none => ({ s with file := some [] }, .none)                                   -- File::create + schema
    | some f =>
      match todo with
      | t :: ts => ({ s with file := some (f ++ [t]), st := .trans ts k b }, .none) -- drained batch
      | [] => ({ s with file := some (f ++ [b]), st := .appended k }, .none)        -- state = Spilling{k}; write(b)
  | .appending n b =>
    match s.file with
    | some f => ({ s with file := some (f ++ [b]), st := .appended n }, .none)
    | none => (s, .none)
  | .finishing n => ({ s with eos := true, st := .finishedPending n }, .none)
  | _ => (s, .none)

/-- the sender resumes: `*batches_written += 1; send_replace(..)` / `state = Finished{..}; send_replace(..)` -/
def wpub (s : Sys) : Sys × Obs :=
  match s.st with
  | .appended n => ({ s with st := .spilling (n + 1), status := statusOf (.spilling (n + 1)) }, .accepted)
  | .finishedPending n => ({ s with st := .finished none n, status := statusOf (.finished none n) }, .accepted)
  | _ => (s, .none)

/-- spill.rs `SpillSender::send_error` (a fresh `SpillError::Original`) -/
def sendErr (s : Sys) : Sys × Obs :=
  if s.dropped then (s, .busy) else
  if s.st.idle then ({ s with st := .errored, status := statusOf .errored, errTaken := false }, .accepted)
  else (s, .busy)

def dropSender (s : Sys) : Sys × Obs :=
  if s.st.idle then ({ s with dropped := true }, .accepted) else (s, .busy)

def setRd (s : Sys) (i : Nat) (r : Reader) : Sys := { s with rd := upd s.rd i r }

/-- a poll of the stream returned by `SpillReceiver::read()`:
    spill.rs `SpillReader::read` / `wait_for_more_data` up to the next `.await` that is not ready -/
def rpollR (s : Sys) (i : Nat) (r : Reader) : Sys × Obs :=
  match r.pc with
  | .idle =>
    if s.status.error || s.status.finished || decide (s.status.written > r.read) then
      if s.status.error then
        (setRd { s with errTaken := true } i { r with pc := .failed (if s.errTaken then .copy else .orig) },
         .error (if s.errTaken then .copy else .orig))
      else
        match s.status.loc with
        | .buffered bs =>
          match bs[r.read]? with
          | some b => (setRd s i { r with read := r.read + 1, out := r.out ++ [b] }, .batch b)
          | none => (setRd s i { r with pc := .ended }, .end_)
        | .spilled _ =>
          match r.cur with
          | none => (setRd s i { r with pc := .opening }, .io)
          | some _ => (setRd s i { r with pc := .reading }, .io)
    else if s.dropped then (setRd s i { r with pc := .failed .dropped }, .error .dropped)
    else (s, .wait)
  | .got (some b) => (setRd s i { r with pc := .idle, read := r.read + 1, out := r.out ++ [b] }, .batch b)
  | .got none => (setRd s i { r with pc := .ended }, .end_)
  | .opening => (s, .io)
  | .skipping _ => (s, .io)
  | .reading => (s, .io)
  | .ended => (s, .done)
  | .failed _ => (s, .done)

def rpoll (s : Sys) (i : Nat) : Sys × Obs := rpollR s i (s.rd i)

/-- the reader's blocking file operations: `AsyncStreamReader::{open, read}` closures.
    arrow-ipc `StreamReader::next` at the physical end of the file (marker or not) returns `None`. -/
def rioR (s : Sys) (i : Nat) (r : Reader) : Sys × Obs :=
  match r.pc with
  | .opening =>
    match s.file with
    | none => (setRd s i { r with pc := .failed .io }, .none)
    | some _ => (setRd s i { r with cur := some 0, pc := if r.read = 0 then .reading else .skipping r.read }, .none)
  | .skipping j =>
    match s.file, r.cur with
    | some f, some c =>
      (setRd s i { r with cur := some (if c < f.length then c + 1 else c),
                          pc := if j ≤ 1 then .reading else .skipping (j - 1) }, .none)
    | _, _ => (s, .none)
  | .reading =>
    match s.file, r.cur with
    | some f, some c =>
      match f[c]? with
      | some b => (setRd s i { r with cur := some (c + 1), pc := .got (some b) }, .none)
      | none => (setRd s i { r with pc := .got none }, .none)
    | _, _ => (s, .none)
  | _ => (s, .none)

def rio (s : Sys) (i : Nat) : Sys × Obs := rioR s i (s.rd i)

def step (s : Sys) : Step → Sys × Obs
  | .wstart b => wstart s b
  | .fstart => fstart s
  | .wio => wio s
  | .wpub => wpub s
  | .sendErr => sendErr s
  | .drop => dropSender s
  | .rpoll i => rpoll s i
  | .rio i => rio s i

def run (s : Sys) : List Step → Sys
  | [] => s
  | a :: as => run (step s a).1 as

end LanceModel.C41
