import LanceModel.C41.SpillInv
/-! C41 — `finish` (first segment), publications, `send_error`, drop preserve the invariant. -/
namespace LanceModel.C41
variable {s : Sys}

theorem inv_fstart (h : Inv s) : Inv (fstart s).1 := by
  obtain ⟨hg, hr⟩ := h
  unfold fstart
  split
  · exact ⟨hg, hr⟩
  split
  · rename_i hst
    have hcl : s.st.closed = true := by rw [hst]; rfl
    refine ⟨?_, fun i => ?_⟩
    · gsplit hg
    · rsplit (hr i)
  · rename_i hst
    have hcl : s.st.closed = true := by rw [hst]; rfl
    refine ⟨?_, fun i => ?_⟩
    · gsplit hg
    · rsplit (hr i)
  · rename_i bs seen total hst
    have hb := hg.sBuf _ _ _ hst
    refine ⟨?_, fun i => ?_⟩
    · gsplit hg
    · have hgf := hg.filePre
      rsplit (hr i)
  · rename_i n hst
    have hb := hg.sSpill _ hst
    refine ⟨?_, fun i => ?_⟩
    · gsplit hg
    · rsplit (hr i)
  · exact ⟨hg, hr⟩

theorem inv_wpub (h : Inv s) : Inv (wpub s).1 := by
  obtain ⟨hg, hr⟩ := h
  unfold wpub
  split
  · rename_i n hst
    have hb := hg.sAppended _ hst
    refine ⟨?_, fun i => ?_⟩
    · gsplit hg
    · rsplit (hr i)
  · rename_i n hst
    have hb := hg.sFinPend _ hst
    refine ⟨?_, fun i => ?_⟩
    · gsplit hg
    · rsplit (hr i)
  · exact ⟨hg, hr⟩

theorem inv_sendErr (h : Inv s) : Inv (sendErr s).1 := by
  obtain ⟨hg, hr⟩ := h
  unfold sendErr
  split
  · exact ⟨hg, hr⟩
  split
  · rename_i hidle
    refine ⟨?_, fun i => ?_⟩
    · gsplit hg
    · have hgc := hg.eosClosed
      rsplit (hr i)
  · exact ⟨hg, hr⟩

theorem inv_drop (h : Inv s) : Inv (dropSender s).1 := by
  obtain ⟨hg, hr⟩ := h
  unfold dropSender
  split
  · refine ⟨?_, fun i => ?_⟩
    · gsplit hg
    · rsplit (hr i)
  · exact ⟨hg, hr⟩

end LanceModel.C41
