import LanceModel.C41.SpillW1
import LanceModel.C41.SpillW2
import LanceModel.C41.SpillW3
import LanceModel.C41.SpillR2
/-! C41 — the invariant holds in every reachable state; facts about closed spills. -/
namespace LanceModel.C41

theorem inv_step {s : Sys} (h : Inv s) (a : Step) : Inv (step s a).1 := by
  cases a with
  | wstart b => exact inv_wstart h b
  | fstart => exact inv_fstart h
  | wio => exact inv_wio h
  | wpub => exact inv_wpub h
  | sendErr => exact inv_sendErr h
  | drop => exact inv_drop h
  | rpoll i => exact inv_rpoll h i
  | rio i => exact inv_rio h i

theorem inv_run {s : Sys} (h : Inv s) (sched : List Step) : Inv (run s sched) := by
  induction sched generalizing s with
  | nil => exact h
  | cons a as ih => exact ih (inv_step h a)

theorem run_append (s : Sys) (a b : List Step) : run s (a ++ b) = run (run s a) b := by
  induction a generalizing s with
  | nil => rfl
  | cons x xs ih => exact ih _

/-! ### once the sender is closed (finish called, or an error sent) the log is final -/

theorem setRd_st (s : Sys) (i : Nat) (r : Reader) : (setRd s i r).st = s.st := rfl
theorem setRd_log (s : Sys) (i : Nat) (r : Reader) : (setRd s i r).log = s.log := rfl

theorem rpollR_shared (s : Sys) (i : Nat) (r : Reader) :
    (rpollR s i r).1.st = s.st ∧ (rpollR s i r).1.log = s.log := by
  unfold rpollR
  repeat' split
  all_goals exact ⟨rfl, rfl⟩

theorem rioR_shared (s : Sys) (i : Nat) (r : Reader) :
    (rioR s i r).1.st = s.st ∧ (rioR s i r).1.log = s.log := by
  unfold rioR
  repeat' split
  all_goals exact ⟨rfl, rfl⟩

theorem closed_step {s : Sys} (a : Step) (hc : s.st.closed = true) :
    (step s a).1.st.closed = true ∧ (step s a).1.log = s.log := by
  cases a with
  | wstart b =>
    simp only [step, wstart]
    repeat' split
    all_goals simp_all [SState.closed]
  | fstart =>
    simp only [step, fstart]
    repeat' split
    all_goals simp_all [SState.closed]
  | wio =>
    simp only [step, wio]
    repeat' split
    all_goals simp_all [SState.closed]
  | wpub =>
    simp only [step, wpub]
    repeat' split
    all_goals simp_all [SState.closed]
  | sendErr =>
    simp only [step, sendErr]
    repeat' split
    all_goals simp_all [SState.closed]
  | drop =>
    simp only [step, dropSender]
    repeat' split
    all_goals simp_all [SState.closed]
  | rpoll i =>
    have := rpollR_shared s i (s.rd i)
    simp only [step, rpoll]
    rw [this.1, this.2]; exact ⟨hc, rfl⟩
  | rio i =>
    have := rioR_shared s i (s.rd i)
    simp only [step, rio]
    rw [this.1, this.2]; exact ⟨hc, rfl⟩

theorem closed_run {s : Sys} (sched : List Step) (hc : s.st.closed = true) :
    (run s sched).st.closed = true ∧ (run s sched).log = s.log := by
  induction sched generalizing s with
  | nil => exact ⟨hc, rfl⟩
  | cons a as ih =>
    have h1 := closed_step a hc
    have h2 := ih h1.1
    exact ⟨h2.1, h2.2.trans h1.2⟩

/-- a terminated stream is never touched again -/
theorem ended_step {s : Sys} (a : Step) (i : Nat) (he : (s.rd i).pc = .ended) :
    (step s a).1.rd i = s.rd i := by
  cases a with
  | wstart b => simp only [step, wstart]; repeat' split
                all_goals rfl
  | fstart => simp only [step, fstart]; repeat' split
              all_goals rfl
  | wio => simp only [step, wio]; repeat' split
           all_goals rfl
  | wpub => simp only [step, wpub]; repeat' split
            all_goals rfl
  | sendErr => simp only [step, sendErr]; repeat' split
               all_goals rfl
  | drop => simp only [step, dropSender]; repeat' split
            all_goals rfl
  | rpoll j =>
    simp only [step, rpoll]
    by_cases hj : i = j
    · subst hj
      unfold rpollR
      rw [he]
    · unfold rpollR
      repeat' split
      all_goals simp [setRd, upd_apply, hj]
  | rio j =>
    simp only [step, rio]
    by_cases hj : i = j
    · subst hj
      unfold rioR
      rw [he]
    · unfold rioR
      repeat' split
      all_goals simp [setRd, upd_apply, hj]

theorem ended_run {s : Sys} (sched : List Step) (i : Nat) (he : (s.rd i).pc = .ended) :
    (run s sched).rd i = s.rd i := by
  induction sched generalizing s with
  | nil => rfl
  | cons a as ih =>
    have h1 := ended_step a i he
    have h2 := ih (s := (step s a).1) (by rw [h1]; exact he)
    exact h2.trans h1

end LanceModel.C41
