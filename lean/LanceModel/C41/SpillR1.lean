import LanceModel.C41.SpillInv
/-! C41 — reader transitions preserve the invariant. -/
namespace LanceModel.C41
variable {s : Sys}

theorem gok_congr {s s' : Sys} (h1 : s'.st = s.st) (h2 : s'.status = s.status) (h3 : s'.file = s.file)
    (h4 : s'.eos = s.eos) (h5 : s'.log = s.log) (h : GOk s) : GOk s' := by
  obtain ⟨g1, g2, g3, g4, g5, g6, g7, g8, g9, g10, g11, g12, g13, g14⟩ := h
  constructor <;> simp only [h1, h2, h3, h4, h5] <;> assumption

theorem rok_congr {s s' : Sys} {r : Reader} (h1 : s'.st = s.st) (h2 : s'.status = s.status) (h3 : s'.file = s.file)
    (h4 : s'.eos = s.eos) (h5 : s'.log = s.log) (h : ROk s r) : ROk s' r := by
  obtain ⟨g1, g2, g3, g4, g5, g6, g7, g8, g9, g10⟩ := h
  constructor <;> simp only [SpOrErr, Good, h1, h2, h3, h4, h5] at * <;> assumption

/-- a step that only replaces reader `i` (and possibly the error's `Original → Copy` flag) -/
theorem inv_setRd (h : Inv s) (i : Nat) (r' : Reader) (e : Bool) (hr' : ROk s r') :
    Inv (setRd { s with errTaken := e } i r') := by
  refine ⟨gok_congr (s := s) (s' := setRd { s with errTaken := e } i r') rfl rfl rfl rfl rfl h.g, fun j => ?_⟩
  apply rok_congr (s := s) (s' := setRd { s with errTaken := e } i r') rfl rfl rfl rfl rfl
  simp only [setRd, upd_apply]
  split
  · exact hr'
  · exact h.r j

theorem inv_setRd' (h : Inv s) (i : Nat) (r' : Reader) (hr' : ROk s r') : Inv (setRd s i r') :=
  inv_setRd (s := s) h i r' s.errTaken hr'

theorem inv_rpollR (h : Inv s) (i : Nat) (r : Reader) (hr : ROk s r) : Inv (rpollR s i r).1 := by
  have hg := h.g
  unfold rpollR
  split
  · rename_i hpc
    split
    · rename_i hcond
      split
      · apply inv_setRd h
        rsplit hr
      · rename_i herr
        split
        · rename_i bs hloc
          split
          · rename_i b hb
            apply inv_setRd' h
            have p1 := hg.statPre _ hloc
            rsplit hr
          · rename_i hb
            apply inv_setRd' h
            have p1 := hg.statPre _ hloc
            have p2 := hg.finBuf
            have p3 := hg.finClosed
            have p4 : s.status.written = bs.length := by simp [Status.written, hloc]
            rsplit hr
        · rename_i n hloc
          have p1 := hg.spFile _ hloc
          have p2 := hg.finSp
          have p3 := hg.eosClosed
          have p4 : s.status.written = n := by simp [Status.written, hloc]
          have p5 := hg.filePre
          split
          · apply inv_setRd' h
            rsplit hr
          · apply inv_setRd' h
            rsplit hr
    · split
      · apply inv_setRd' h
        rsplit hr
      · exact h
  · rename_i b hpc
    apply inv_setRd' h
    rsplit hr
  · rename_i hpc
    apply inv_setRd' h
    rsplit hr
  all_goals exact h

theorem inv_rpoll (h : Inv s) (i : Nat) : Inv (rpoll s i).1 := inv_rpollR h i _ (h.r i)

end LanceModel.C41
