import LanceModel.C41.Driver
def main : IO Unit := LanceModel.Util.runDriver LanceModel.C41.Driver.step LanceModel.C41.Driver.dinit
