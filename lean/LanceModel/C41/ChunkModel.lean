/-!
C41 — stream re-chunking (rust/lance-datafusion/src/chunker.rs).

A record batch is the list of its rows (`List α`); `RecordBatch::slice(off, len)` is `(b.drop off).take len`;
`concat_batches` is `++`.  A (finite, error free) inner stream is the list of its batches.
-/
namespace LanceModel.C41.Chunk

variable {α : Type}

/-! ### `BatchReaderChunker` / `chunk_stream` / `chunk_concat_stream` -/

/-- chunker.rs `BatchReaderChunker`: `inner` = what the inner stream will still yield -/
structure St (α : Type) where
  inner : List (List α)
  buffered : List (List α)
  i : Nat

/-- chunker.rs `BatchReaderChunker::buffered_len` (usize subtraction; see `WF`) -/
def bufferedLen (buffered : List (List α)) (i : Nat) : Nat := (buffered.map List.length).sum - i

/-- chunker.rs `BatchReaderChunker::fill_buffer`: pull from the inner stream while fewer than `n` rows are buffered -/
def fill (n i : Nat) : (inner buffered : List (List α)) → List (List α) × List (List α)
  | [], buffered => ([], buffered)
  | b :: rest, buffered =>
    if bufferedLen buffered i < n then fill n i rest (buffered ++ [b]) else (b :: rest, buffered)

/-- chunker.rs `BatchReaderChunker::next`, the `while rows_collected < self.output_size` loop;
    `need = output_size - rows_collected`.  Result: (slices pushed to `batches`, `buffered`, `i`). -/
def collect : (need : Nat) → (buffered : List (List α)) → (i : Nat) → List (List α) × List (List α) × Nat
  | _, [], i => ([], [], i)
  | need, b :: rest, i =>
    if need = 0 then ([], b :: rest, i)
    else if b.length = 0 then collect need rest i                    -- "Skip empty batch"
    else if b.length - i ≤ need then                                  -- rows_to_take == rows_remaining_in_batch
      match collect (need - (b.length - i)) rest 0 with
      | (out, buf', i') => ((b.drop i) :: out, buf', i')
    else ([(b.drop i).take need], b :: rest, i + need)                -- slice, push the batch back to the front

/-- chunker.rs `BatchReaderChunker::next` -/
def next (n : Nat) (s : St α) : Option (List (List α) × St α) :=
  match fill n s.i s.inner s.buffered with
  | (inner', buf) =>
    match collect n buf s.i with
    | (out, buf', i') => if out.isEmpty then none else some (out, ⟨inner', buf', i'⟩)

/-- the `futures::stream::unfold` of `chunk_stream`, `fuel` polls -/
def unfoldChunks (n : Nat) : (fuel : Nat) → St α → List (List (List α))
  | 0, _ => []
  | fuel + 1, s =>
    match next n s with
    | none => []
    | some (out, s') => out :: unfoldChunks n fuel s'

/-- rows the chunker has not yet handed out -/
def pending (s : St α) : List α := s.buffered.flatten.drop s.i ++ s.inner.flatten

/-- chunker.rs `chunk_stream(stream, n)` collected; one more poll than there are rows always reaches the end (`chunk_complete`) -/
def chunkStream (n : Nat) (input : List (List α)) : List (List (List α)) :=
  unfoldChunks n (input.flatten.length + 1) ⟨input, [], 0⟩

/-- chunker.rs `chunk_concat_stream(stream, n)` collected -/
def chunkConcatStream (n : Nat) (input : List (List α)) : List (List α) :=
  (chunkStream n input).map List.flatten

/-! ### `break_stream` -/

/-- chunker.rs `BreakStreamState::next` unfolded over one input batch; `seen` = `rows_seen` -/
def breakBatch (max : Nat) : (fuel : Nat) → (seen : Nat) → (batch : List α) → List (List α)
  | 0, _, _ => []
  | fuel + 1, seen, batch =>
    if batch.length = 0 then []
    else if batch.length + seen ≤ max then [batch]
    else batch.take (max - seen) :: breakBatch max fuel 0 (batch.drop (max - seen))

/-- chunker.rs `break_stream(stream, max)` collected; `seen` = `rows_already_seen` -/
def breakStream (max : Nat) : (seen : Nat) → List (List α) → List (List α)
  | _, [] => []
  | seen, b :: rest => breakBatch max (b.length + 1) seen b ++ breakStream max ((seen + b.length) % max) rest

/-! ### `StrictBatchSizeStream` -/

/-- "Combine with residual if any": `concat_batches(&[residual, batch])` -/
def combine (res : Option (List α)) (b : List α) : List α :=
  match res with
  | some r => r ++ b
  | none => b

/-- chunker.rs `StrictBatchSizeStream::poll_next`, from "Poll the inner stream for next batch" on.
    Result: (emitted batch, rest of inner, residual). -/
def strictPull (n : Nat) : (inner : List (List α)) → (residual : Option (List α)) →
    Option (List α × List (List α) × Option (List α))
  | [], some r => if r.length > 0 then some (r, [], none) else none
  | [], none => none
  | b :: rest, res =>
    if (combine res b).length ≥ n then
      some ((combine res b).take n, rest,
            if ((combine res b).drop n).length > 0 then some ((combine res b).drop n) else none)
    else strictPull n rest (some (combine res b))

/-- chunker.rs `StrictBatchSizeStream::poll_next` ("Process residual first if present") -/
def strictNext (n : Nat) (inner : List (List α)) (residual : Option (List α)) :
    Option (List α × List (List α) × Option (List α)) :=
  match residual with
  | some r => if r.length ≥ n then some (r.take n, inner, some (r.drop n)) else strictPull n inner (some r)
  | none => strictPull n inner none

def strictUnfold (n : Nat) : (fuel : Nat) → List (List α) → Option (List α) → List (List α)
  | 0, _, _ => []
  | fuel + 1, inner, res =>
    match strictNext n inner res with
    | none => []
    | some (out, inner', res') => out :: strictUnfold n fuel inner' res'

/-- `StrictBatchSizeStream::new(stream, n)` collected -/
def strictStream (n : Nat) (input : List (List α)) : List (List α) :=
  strictUnfold n (input.flatten.length + 1) input none

end LanceModel.C41.Chunk
