import LanceModel.C41.SpillRun
import LanceModel.C41.SpillLive
import LanceModel.C41.ChunkRun
/-!
C41 — Replay spills and stream chunking deliver every batch exactly once.

"A replay spill yields to every reader, including readers opened before, during or after writing and any
number of times, exactly the batches written in order, whether or not the memory limit forced data to disk;
the chunking stream re-slices its input into batches of exactly the requested size (except the last) whose
concatenation equals the input."

Spill part.  All theorems quantify over EVERY memory limit and EVERY schedule `List Step` of the transition
system of `Model.lean`: any interleaving of `write` calls (each split at its `.await` points and blocking file
operations), `finish`, `send_error`, dropping the sender, and polls / blocking file reads of unboundedly many
readers `i : Nat`, a reader being "opened" wherever its first poll falls.  `s.log` is the list of batches
accepted by `write`, in call order.
-/
namespace LanceModel.C41

/-- states reachable from a fresh `create_replay_spill(path, schema, limit)` -/
def Reachable (limit : Nat) (s : Sys) : Prop := ∃ sched, s = run (init limit) sched

theorem inv_reachable {limit : Nat} {s : Sys} (h : Reachable limit s) : Inv s := by
  obtain ⟨sched, rfl⟩ := h
  exact inv_run (inv_init limit) sched

/-- the spill part of the property at full strength -/
def SpillFull : Prop :=
  ∀ (limit : Nat) (sched : List Step) (i : Nat),
    ((run (init limit) sched).rd i).pc = .ended → ((run (init limit) sched).rd i).out = (run (init limit) sched).log

/-- **reader_sees_all**: a reader whose stream ended normally has been given exactly the batches written, in
    order — for every memory limit, every interleaving, every reader. -/
theorem reader_sees_all : SpillFull := by
  intro limit sched i he
  have h := (inv_run (inv_init limit) sched).r i
  rw [h.outEq, (h.ended he).1, List.take_length]

/-- **reader_exactly_once**: at every moment what a reader has been given is a duplicate-free-by-position prefix
    of the batches written: its `k`-th item is the `k`-th batch written, nothing is skipped, repeated or invented,
    and the reader's private counter `batches_read` is exactly the number of items handed out. -/
theorem reader_exactly_once (limit : Nat) (sched : List Step) (i : Nat) :
    let s := run (init limit) sched
    (s.rd i).out = s.log.take (s.rd i).read ∧ (s.rd i).out.length = (s.rd i).read ∧ (s.rd i).out <+: s.log := by
  intro s
  have h := (inv_run (inv_init limit) sched).r i
  refine ⟨h.outEq, ?_, ?_⟩
  · rw [h.outEq, List.length_take]; exact Nat.min_eq_left h.readLe
  · rw [h.outEq]; exact List.take_prefix _ _

/-- **ended_final**: when a reader has ended, the set of written batches is final — whatever happens afterwards
    (more calls on the sender, other readers), the log and this reader's output stay what they are.  So "the batches
    written" in `reader_sees_all` is the complete list, not a snapshot. -/
theorem ended_final (limit : Nat) (sched later : List Step) (i : Nat)
    (he : ((run (init limit) sched).rd i).pc = .ended) :
    (run (init limit) (sched ++ later)).log = (run (init limit) sched).log ∧
    ((run (init limit) (sched ++ later)).rd i).out = (run (init limit) sched).log ∧
    ((run (init limit) (sched ++ later)).rd i).pc = .ended := by
  have h := (inv_run (inv_init limit) sched).r i
  have hc := (h.ended he).2
  rw [run_append]
  have h1 := closed_run later hc
  have h2 := ended_run later i he
  refine ⟨h1.2, ?_, ?_⟩
  · rw [h2]; exact reader_sees_all limit sched i he
  · rw [h2]; exact he

/-- **no_premature_eof**: a reader never executes a file read that would hit the physical end of a file whose
    end-of-stream marker has not been written (arrow's `StreamReader` reports that as a normal end of stream, which
    would silently truncate the replay).  Also: the spill file it is about to open exists. -/
theorem no_premature_eof (limit : Nat) (sched : List Step) (i : Nat) :
    let s := run (init limit) sched
    ((s.rd i).pc = .reading → ∃ f, s.file = some f ∧ (s.rd i).cur = some (s.rd i).read ∧
        ((s.rd i).read < f.length ∨ (s.eos = true ∧ (s.rd i).read = s.log.length))) ∧
    ((s.rd i).pc = .opening → s.file.isSome = true) := by
  intro s
  have h := (inv_run (inv_init limit) sched).r i
  constructor
  · intro hp
    obtain ⟨hc, f, hf, hg⟩ := h.reading hp
    exact ⟨f, hf, hc, hg⟩
  · intro hp
    obtain ⟨_, ⟨f, hf, _⟩, _⟩ := h.opening hp
    rw [hf]; rfl

/-- **file_is_prefix**: the spill file only ever holds a prefix of the written batches, in order, and the published
    count never exceeds what is in the file; once the end-of-stream marker is there the file holds all of them. -/
theorem file_is_prefix (limit : Nat) (sched : List Step) :
    let s := run (init limit) sched
    (∀ f, s.file = some f → f <+: s.log) ∧
    (∀ n, s.status.loc = .spilled n → ∃ f, s.file = some f ∧ n ≤ f.length) ∧
    (s.eos = true → s.file = some s.log) := by
  intro s
  have h := (inv_run (inv_init limit) sched).g
  exact ⟨h.filePre, h.spFile, fun he => (h.eosClosed he).1⟩

/-- **memory_or_disk**: while the sender is buffering nothing is on disk and the channel carries exactly the batches
    written so far; while it is spilling (no call in flight) the file holds exactly the batches written so far. -/
theorem memory_or_disk (limit : Nat) (sched : List Step) :
    let s := run (init limit) sched
    (∀ bs seen total, s.st = .buffering bs seen total → s.file = none ∧ bs = s.log ∧ s.status.loc = .buffered s.log) ∧
    (∀ n, s.st = .spilling n → s.file = some s.log ∧ n = s.log.length ∧ s.status.loc = .spilled n) := by
  intro s
  have h := (inv_run (inv_init limit) sched).g
  constructor
  · intro bs seen total hst
    obtain ⟨h1, h2, h3, _⟩ := h.sBuf bs seen total hst
    refine ⟨h2, h1.symm, ?_⟩
    rw [h3, h1]
  · intro n hst
    obtain ⟨h1, h2, h3, _⟩ := h.sSpill n hst
    refine ⟨h1, h2, ?_⟩
    rw [h3]


/-- **reader_not_blocked** (no lost wake-up, step level): whenever no call on the sender is in flight, the count
    published on the watch channel is the number of batches written, so a reader that has not yet been given every
    written batch — or any reader of a finished spill — is not left waiting on the channel by its next poll, and (no
    error having been sent) is not failed either: the poll hands out the next batch, the end of the stream, or starts
    the file read that will. -/
theorem reader_not_blocked (limit : Nat) (sched : List Step) (i : Nat) :
    let s := run (init limit) sched
    s.st.idle = true → s.st ≠ .errored → s.dropped = false →
    (s.st.closed = false → s.status.written = s.log.length) ∧
    ((s.rd i).pc = .idle → s.status.error = false →
      ((s.rd i).read < s.status.written ∨ s.status.finished = true) →
      (rpoll s i).2 ≠ .wait ∧ ∀ k, (rpoll s i).2 ≠ .error k) := by
  intro s hidle hne hdrop
  have hg := (inv_run (inv_init limit) sched).g
  constructor
  · intro hcl
    cases hst : s.st with
    | buffering bs seen total =>
      obtain ⟨h1, _, h3, _⟩ := hg.sBuf bs seen total hst
      rw [Status.written, h3, h1]
    | spilling n =>
      obtain ⟨_, h2, h3, _⟩ := hg.sSpill n hst
      rw [Status.written, h3]; exact h2
    | _ => simp [hst, SState.idle, SState.closed] at hidle hcl
  · intro hpc herr hcond
    have hc : (s.status.finished || decide ((s.rd i).read < s.status.written)) = true := by
      rcases hcond with h | h
      · simp [h]
      · simp [h]
    unfold rpoll rpollR
    simp only [hpc, herr, Bool.false_or, gt_iff_lt, hc, if_true, Bool.false_eq_true, if_false]
    constructor
    · split
      · split <;> simp
      · split <;> simp
    · intro k
      split
      · split <;> simp
      · split <;> simp

/-- **reader_completes** (progress): in every reachable state in which `finish()` has been published and no error
    was sent, every reader that has not failed — whether it was never polled, is in the middle of the in-memory
    batches, or is anywhere inside its file operations — ends after finitely many further polls (at most `nu`, which
    is linear in the number of batches), and then it has been given exactly the written batches. -/
theorem reader_completes (limit : Nat) (sched : List Step) (i : Nat) :
    let s := run (init limit) sched
    s.status.finished = true → s.status.error = false → (∀ k, (s.rd i).pc ≠ .failed k) →
    ∃ k, k ≤ nu s (s.rd i) ∧
      ((run (init limit) (sched ++ pollSched i k)).rd i).pc = .ended ∧
      ((run (init limit) (sched ++ pollSched i k)).rd i).out = s.log := by
  intro s hfin herr hnf
  have hF : Fin s := ⟨inv_run (inv_init limit) sched, hfin, herr⟩
  obtain ⟨k, hk, hend⟩ := completes_aux (nu s (s.rd i)) s i hF hnf (Nat.le_refl _)
  refine ⟨k, hk, ?_, ?_⟩
  · rw [run_append]; exact hend
  · have h1 := reader_sees_all limit (sched ++ pollSched i k) i (by rw [run_append]; exact hend)
    rw [h1, run_append]
    have hc : s.st.closed = true := hF.inv.g.finClosed hfin
    exact (closed_run (pollSched i k) hc).2

/-! ### non-vacuity: concrete schedules in which readers do end, in memory and through the file -/

private def b0 : Batch := ⟨0, 3, 1, 12⟩
private def b1 : Batch := ⟨100, 2, 2, 8⟩

/-- limit 0: reader 0 is polled before anything is written, reader 1 between the writes (it first reads from
    memory… here everything is on disk), reader 2 after `finish`; all three end with both batches. -/
private def schedDisk : List Step :=
  [.rpoll 0, .wstart b0, .wio, .wio, .wpub, .rpoll 0, .rio 0, .rio 0, .rpoll 0, .rpoll 1, .rio 1, .rio 1, .rpoll 1,
   .wstart b1, .wio, .wpub, .fstart, .wio, .wpub,
   .rpoll 0, .rio 0, .rpoll 0, .rpoll 0, .rio 0, .rpoll 0,
   .rpoll 1, .rio 1, .rpoll 1, .rpoll 1, .rio 1, .rpoll 1,
   .rpoll 2, .rio 2, .rio 2, .rpoll 2, .rpoll 2, .rio 2, .rpoll 2, .rpoll 2, .rio 2, .rpoll 2]

set_option maxRecDepth 20000 in
example : ((run (init 0) schedDisk).rd 0).pc = .ended ∧ ((run (init 0) schedDisk).rd 1).pc = .ended ∧
    ((run (init 0) schedDisk).rd 2).pc = .ended ∧ ((run (init 0) schedDisk).rd 2).out = [b0, b1] ∧
    (run (init 0) schedDisk).file = some [b0, b1] := by decide

/-- limit 16: the first batch is buffered and read from memory by reader 0, the second forces the spill; reader 0
    continues from the file (skipping one batch), reader 1 reads everything from the file. -/
private def schedMixed : List Step :=
  [.wstart b0, .rpoll 0, .wstart b1, .wio, .wio, .wio, .wpub,
   .rpoll 0, .rio 0, .rio 0, .rio 0, .rpoll 0, .fstart, .wio, .wpub, .rpoll 0, .rio 0, .rpoll 0,
   .rpoll 1, .rio 1, .rio 1, .rpoll 1, .rpoll 1, .rio 1, .rpoll 1, .rpoll 1, .rio 1, .rpoll 1]

set_option maxRecDepth 20000 in
example : ((run (init 16) schedMixed).rd 0).pc = .ended ∧ ((run (init 16) schedMixed).rd 0).out = [b0, b1] ∧
    ((run (init 16) schedMixed).rd 1).pc = .ended ∧ (run (init 16) schedMixed).file = some [b0, b1] ∧
    (run (init 16) schedMixed).eos = true := by decide

/-- limit 1000: nothing is spilled -/
example : ((run (init 1000) [.wstart b0, .rpoll 0, .wstart b1, .fstart, .rpoll 0, .rpoll 0, .rpoll 1, .rpoll 1, .rpoll 1]).rd 1).pc = .ended ∧
    (run (init 1000) [.wstart b0, .rpoll 0, .wstart b1, .fstart, .rpoll 0, .rpoll 0, .rpoll 1, .rpoll 1, .rpoll 1]).file = none := by decide

/-- hypotheses of `reader_completes`: finished, no error, reader 1 in the middle of its file operations -/
example : (run (init 0) [.wstart b0, .wio, .wio, .wpub, .fstart, .wio, .wpub, .rpoll 1, .rio 1]).status.finished = true ∧
    (run (init 0) [.wstart b0, .wio, .wio, .wpub, .fstart, .wio, .wpub, .rpoll 1, .rio 1]).status.error = false ∧
    ((run (init 0) [.wstart b0, .wio, .wio, .wpub, .fstart, .wio, .wpub, .rpoll 1, .rio 1]).rd 1).pc = .reading := by decide

/-- a reader in the `reading` state exists (hypothesis of `no_premature_eof`) -/
example : ((run (init 0) [.wstart b0, .wio, .wio, .wpub, .rpoll 0, .rio 0]).rd 0).pc = .reading := by decide

/-! ## Chunking part

A batch is the list of its rows, an input stream the list of its batches (over an arbitrary row type `α`).
`requested size` `n > 0`; with `n = 0` the real functions degenerate (`chunk_stream` yields nothing,
`StrictBatchSizeStream` never ends, `break_stream` divides by zero), see `chunk_size_zero_counterexample`. -/

namespace Chunk

/-- the chunking part of the property for a given requested size -/
def ChunkExact (n : Nat) : Prop :=
  ∀ (α : Type) (input : List (List α)),
    ((chunkStream n input).map List.flatten).flatten = input.flatten ∧
    ExactButLast n ((chunkStream n input).map List.flatten)

/-- **chunk_exact**: `chunk_stream(stream, n)`: the concatenation of all output slices is the input, every chunk
    but the last has exactly `n` rows and the last between 1 and `n` — for every list of batch lengths (empty batches
    included) and every row type. -/
theorem chunk_exact (n : Nat) (hn : 0 < n) : ChunkExact n := by
  intro α input
  have h := unfoldChunks_spec hn (input.flatten.length + 1) (⟨input, [], 0⟩ : St α) (Or.inl rfl)
    (by simp [pending])
  exact ⟨by simpa [chunkStream, pending] using h.1, h.2.1⟩

/-- **chunk_shape**: the same fact in index-free form, plus: no slice inside a chunk is empty. -/
theorem chunk_shape (n : Nat) (hn : 0 < n) {α : Type} (input : List (List α)) :
    (∀ c ∈ ((chunkStream n input).map List.flatten).dropLast, c.length = n) ∧
    (∀ c ∈ (chunkStream n input).map List.flatten, 0 < c.length ∧ c.length ≤ n) ∧
    (∀ c ∈ chunkStream n input, ∀ x ∈ c, x ≠ []) := by
  have h := unfoldChunks_spec hn (input.flatten.length + 1) (⟨input, [], 0⟩ : St α) (Or.inl rfl)
    (by simp [pending])
  refine ⟨ebl_dropLast h.2.1, fun c hc => ⟨ebl_pos hn h.2.1 c hc, ebl_le h.2.1 c hc⟩, ?_⟩
  intro c hc x hx hnil
  have := h.2.2 c hc x hx
  rw [hnil] at this; exact Nat.lt_irrefl 0 this

/-- **chunk_concat_exact**: `chunk_concat_stream(stream, n)` yields batches of exactly `n` rows (except the last)
    whose concatenation is the input. -/
theorem chunk_concat_exact (n : Nat) (hn : 0 < n) {α : Type} (input : List (List α)) :
    (chunkConcatStream n input).flatten = input.flatten ∧ ExactButLast n (chunkConcatStream n input) :=
  chunk_exact n hn α input

/-- **strict_exact**: `StrictBatchSizeStream::new(stream, n)`: concatenation = input, every batch but the last has
    exactly `n` rows, the last between 1 and `n`. -/
theorem strict_exact (n : Nat) (hn : 0 < n) {α : Type} (input : List (List α)) :
    (strictStream n input).flatten = input.flatten ∧ ExactButLast n (strictStream n input) := by
  have h := strictUnfold_spec hn (input.flatten.length + 1) input none (by simp [spending])
  exact ⟨by simpa [strictStream, spending] using h.1, h.2⟩

/-- **break_exact**: `break_stream(stream, max)`: concatenation = input; no output batch is empty or crosses a
    multiple of `max` rows (`Windows`); every output batch is a piece of one input batch and the pieces of an input
    batch concatenate to it (nothing is combined). -/
theorem break_exact (max : Nat) (hm : 0 < max) {α : Type} (input : List (List α)) :
    (breakStream max 0 input).flatten = input.flatten ∧ Windows max 0 (breakStream max 0 input) ∧
    ∃ groups : List (List (List α)), breakStream max 0 input = groups.flatten ∧ groups.map List.flatten = input := by
  have h := breakStream_spec hm input 0 hm
  exact ⟨h.1, h.2, breakGroups max 0 input, breakGroups_spec hm input 0 hm⟩

/-- the statement without the side condition `0 < n` does not hold: size 0 makes `chunk_stream` drop everything -/
theorem chunk_size_zero_counterexample : ¬ ∀ n, ChunkExact n := by
  intro h
  have := (h 0 Nat [[1]]).1
  revert this
  decide

/-! non-vacuity -/
example : chunkStream 3 [[1, 2], [], [3, 4, 5, 6], [7]] = [[[1, 2], [3]], [[4, 5, 6]], [[7]]] := by decide
example : chunkConcatStream 3 [[1, 2], [], [3, 4, 5, 6], [7]] = [[1, 2, 3], [4, 5, 6], [7]] := by decide
example : strictStream 3 [[1, 2], [], [3, 4, 5, 6], [7]] = [[1, 2, 3], [4, 5, 6], [7]] := by decide
example : breakStream 4 0 [[1, 2, 3], [4, 5, 6, 7, 8], [9]] = [[1, 2, 3], [4], [5, 6, 7, 8], [9]] := by decide
example : ExactButLast 3 [[1, 2, 3], [4, 5, 6], [7]] := by simp [ExactButLast]
example : ¬ ExactButLast 3 [[1, 2], [4, 5, 6]] := by simp [ExactButLast]

end Chunk

end LanceModel.C41
