import LanceModel.C41.SpillRun
/-!
C41 — Replay spills and stream chunking deliver every batch exactly once.

"A replay spill yields to every reader, including readers opened before, during or after writing and any
number of times, exactly the batches written in order, whether or not the memory limit forced data to disk;
the chunking stream re-slices its input into batches of exactly the requested size (except the last) whose
concatenation equals the input."

Spill part.  All theorems quantify over EVERY memory limit and EVERY schedule `List Step` of the transition
system of `Model.lean`: any interleaving of `write` calls (each split at its `.await` points and blocking file
operations), `finish`, `send_error`, dropping the sender, and polls / blocking file reads of unboundedly many
readers `i : Nat`, a reader being "opened" wherever its first poll falls.  `s.log` is the list of batches
accepted by `write`, in call order.
-/
namespace LanceModel.C41

/-- states reachable from a fresh `create_replay_spill(path, schema, limit)` -/
def Reachable (limit : Nat) (s : Sys) : Prop := ∃ sched, s = run (init limit) sched

theorem inv_reachable {limit : Nat} {s : Sys} (h : Reachable limit s) : Inv s := by
  obtain ⟨sched, rfl⟩ := h
  exact inv_run (inv_init limit) sched

/-- the spill part of the property at full strength -/
def SpillFull : Prop :=
  ∀ (limit : Nat) (sched : List Step) (i : Nat),
    ((run (init limit) sched).rd i).pc = .ended → ((run (init limit) sched).rd i).out = (run (init limit) sched).log

/-- **reader_sees_all**: a reader whose stream ended normally has been given exactly the batches written, in
    order — for every memory limit, every interleaving, every reader. -/
theorem reader_sees_all : SpillFull := by
  intro limit sched i he
  have h := (inv_run (inv_init limit) sched).r i
  rw [h.outEq, (h.ended he).1, List.take_length]

/-- **reader_exactly_once**: at every moment what a reader has been given is a duplicate-free-by-position prefix
    of the batches written: its `k`-th item is the `k`-th batch written, nothing is skipped, repeated or invented,
    and the reader's private counter `batches_read` is exactly the number of items handed out. -/
theorem reader_exactly_once (limit : Nat) (sched : List Step) (i : Nat) :
    let s := run (init limit) sched
    (s.rd i).out = s.log.take (s.rd i).read ∧ (s.rd i).out.length = (s.rd i).read ∧ (s.rd i).out <+: s.log := by
  intro s
  have h := (inv_run (inv_init limit) sched).r i
  refine ⟨h.outEq, ?_, ?_⟩
  · rw [h.outEq, List.length_take]; exact Nat.min_eq_left h.readLe
  · rw [h.outEq]; exact List.take_prefix _ _

/-- **ended_final**: when a reader has ended, the set of written batches is final — whatever happens afterwards
    (more calls on the sender, other readers), the log and this reader's output stay what they are.  So "the batches
    written" in `reader_sees_all` is the complete list, not a snapshot. -/
theorem ended_final (limit : Nat) (sched later : List Step) (i : Nat)
    (he : ((run (init limit) sched).rd i).pc = .ended) :
    (run (init limit) (sched ++ later)).log = (run (init limit) sched).log ∧
    ((run (init limit) (sched ++ later)).rd i).out = (run (init limit) sched).log ∧
    ((run (init limit) (sched ++ later)).rd i).pc = .ended := by
  have h := (inv_run (inv_init limit) sched).r i
  have hc := (h.ended he).2
  rw [run_append]
  have h1 := closed_run later hc
  have h2 := ended_run later i he
  refine ⟨h1.2, ?_, ?_⟩
  · rw [h2]; exact reader_sees_all limit sched i he
  · rw [h2]; exact he

/-- **no_premature_eof**: a reader never executes a file read that would hit the physical end of a file whose
    end-of-stream marker has not been written (arrow's `StreamReader` reports that as a normal end of stream, which
    would silently truncate the replay).  Also: the spill file it is about to open exists. -/
theorem no_premature_eof (limit : Nat) (sched : List Step) (i : Nat) :
    let s := run (init limit) sched
    ((s.rd i).pc = .reading → ∃ f, s.file = some f ∧ (s.rd i).cur = some (s.rd i).read ∧
        ((s.rd i).read < f.length ∨ (s.eos = true ∧ (s.rd i).read = s.log.length))) ∧
    ((s.rd i).pc = .opening → s.file.isSome = true) := by
  intro s
  have h := (inv_run (inv_init limit) sched).r i
  constructor
  · intro hp
    obtain ⟨hc, f, hf, hg⟩ := h.reading hp
    exact ⟨f, hf, hc, hg⟩
  · intro hp
    obtain ⟨_, ⟨f, hf, _⟩, _⟩ := h.opening hp
    rw [hf]; rfl

/-- **file_is_prefix**: the spill file only ever holds a prefix of the written batches, in order, and the published
    count never exceeds what is in the file; once the end-of-stream marker is there the file holds all of them. -/
theorem file_is_prefix (limit : Nat) (sched : List Step) :
    let s := run (init limit) sched
    (∀ f, s.file = some f → f <+: s.log) ∧
    (∀ n, s.status.loc = .spilled n → ∃ f, s.file = some f ∧ n ≤ f.length) ∧
    (s.eos = true → s.file = some s.log) := by
  intro s
  have h := (inv_run (inv_init limit) sched).g
  exact ⟨h.filePre, h.spFile, fun he => (h.eosClosed he).1⟩

/-- **memory_or_disk**: while the sender is buffering nothing is on disk and the channel carries exactly the batches
    written so far; while it is spilling (no call in flight) the file holds exactly the batches written so far. -/
theorem memory_or_disk (limit : Nat) (sched : List Step) :
    let s := run (init limit) sched
    (∀ bs seen total, s.st = .buffering bs seen total → s.file = none ∧ bs = s.log ∧ s.status.loc = .buffered s.log) ∧
    (∀ n, s.st = .spilling n → s.file = some s.log ∧ n = s.log.length ∧ s.status.loc = .spilled n) := by
  intro s
  have h := (inv_run (inv_init limit) sched).g
  constructor
  · intro bs seen total hst
    obtain ⟨h1, h2, h3, _⟩ := h.sBuf bs seen total hst
    refine ⟨h2, h1.symm, ?_⟩
    rw [h3, h1]
  · intro n hst
    obtain ⟨h1, h2, h3, _⟩ := h.sSpill n hst
    refine ⟨h1, h2, ?_⟩
    rw [h3]

/-! ### non-vacuity: concrete schedules in which readers do end, in memory and through the file -/

private def b0 : Batch := ⟨0, 3, 1, 12⟩
private def b1 : Batch := ⟨100, 2, 2, 8⟩

/-- limit 0: reader 0 is polled before anything is written, reader 1 between the writes (it first reads from
    memory… here everything is on disk), reader 2 after `finish`; all three end with both batches. -/
private def schedDisk : List Step :=
  [.rpoll 0, .wstart b0, .wio, .wio, .wpub, .rpoll 0, .rio 0, .rio 0, .rpoll 0, .rpoll 1, .rio 1, .rio 1, .rpoll 1,
   .wstart b1, .wio, .wpub, .fstart, .wio, .wpub,
   .rpoll 0, .rio 0, .rpoll 0, .rpoll 0, .rio 0, .rpoll 0,
   .rpoll 1, .rio 1, .rpoll 1, .rpoll 1, .rio 1, .rpoll 1,
   .rpoll 2, .rio 2, .rio 2, .rpoll 2, .rpoll 2, .rio 2, .rpoll 2, .rpoll 2, .rio 2, .rpoll 2]

set_option maxRecDepth 20000 in
example : ((run (init 0) schedDisk).rd 0).pc = .ended ∧ ((run (init 0) schedDisk).rd 1).pc = .ended ∧
    ((run (init 0) schedDisk).rd 2).pc = .ended ∧ ((run (init 0) schedDisk).rd 2).out = [b0, b1] ∧
    (run (init 0) schedDisk).file = some [b0, b1] := by decide

/-- limit 16: the first batch is buffered and read from memory by reader 0, the second forces the spill; reader 0
    continues from the file (skipping one batch), reader 1 reads everything from the file. -/
private def schedMixed : List Step :=
  [.wstart b0, .rpoll 0, .wstart b1, .wio, .wio, .wio, .wpub,
   .rpoll 0, .rio 0, .rio 0, .rio 0, .rpoll 0, .fstart, .wio, .wpub, .rpoll 0, .rio 0, .rpoll 0,
   .rpoll 1, .rio 1, .rio 1, .rpoll 1, .rpoll 1, .rio 1, .rpoll 1, .rpoll 1, .rio 1, .rpoll 1]

set_option maxRecDepth 20000 in
example : ((run (init 16) schedMixed).rd 0).pc = .ended ∧ ((run (init 16) schedMixed).rd 0).out = [b0, b1] ∧
    ((run (init 16) schedMixed).rd 1).pc = .ended ∧ (run (init 16) schedMixed).file = some [b0, b1] ∧
    (run (init 16) schedMixed).eos = true := by decide

/-- limit 1000: nothing is spilled -/
example : ((run (init 1000) [.wstart b0, .rpoll 0, .wstart b1, .fstart, .rpoll 0, .rpoll 0, .rpoll 1, .rpoll 1, .rpoll 1]).rd 1).pc = .ended ∧
    (run (init 1000) [.wstart b0, .rpoll 0, .wstart b1, .fstart, .rpoll 0, .rpoll 0, .rpoll 1, .rpoll 1, .rpoll 1]).file = none := by decide

/-- a reader in the `reading` state exists (hypothesis of `no_premature_eof`) -/
example : ((run (init 0) [.wstart b0, .wio, .wio, .wpub, .rpoll 0, .rio 0]).rd 0).pc = .reading := by decide

end LanceModel.C41
