import LanceModel.C41.Model
/-!
C41 — the spill invariant and its preservation by every transition.
-/
namespace LanceModel.C41

/-- the watch channel says "on disk" or carries an error -/
def SpOrErr (s : Sys) : Prop := s.status.error = true ∨ ∃ n, s.status.loc = .spilled n

/-- the file read a reader is about to make cannot hit the physical end of an unfinished file -/
def Good (s : Sys) (read : Nat) : Prop :=
  ∃ f, s.file = some f ∧ (read < f.length ∨ (s.eos = true ∧ read = s.log.length))

/-- shared part -/
structure GOk (s : Sys) : Prop where
  filePre : ∀ f, s.file = some f → f <+: s.log
  statPre : ∀ bs, s.status.loc = .buffered bs → bs <+: s.log
  finBuf : s.status.finished = true → s.status.error = false → ∀ bs, s.status.loc = .buffered bs → bs = s.log
  finSp : s.status.finished = true → s.status.error = false → ∀ n, s.status.loc = .spilled n → s.eos = true
  spFile : ∀ n, s.status.loc = .spilled n → ∃ f, s.file = some f ∧ n ≤ f.length
  eosClosed : s.eos = true → s.file = some s.log ∧ s.st.closed = true
  finClosed : s.status.finished = true → s.st.closed = true
  sBuf : ∀ bs seen total, s.st = .buffering bs seen total →
    s.log = bs ∧ s.file = none ∧ s.status = ⟨false, false, .buffered bs⟩ ∧ s.eos = false
  sTrans : ∀ todo k b, s.st = .trans todo k b →
    ∃ pre, ((s.file = none ∧ pre = []) ∨ s.file = some pre) ∧ s.log = pre ++ todo ++ [b] ∧
      s.status = ⟨false, false, .buffered (pre ++ todo)⟩ ∧ k = (pre ++ todo).length ∧ s.eos = false
  sSpill : ∀ n, s.st = .spilling n →
    s.file = some s.log ∧ n = s.log.length ∧ s.status = ⟨false, false, .spilled n⟩ ∧ s.eos = false
  sAppending : ∀ n b, s.st = .appending n b →
    ∃ l, s.log = l ++ [b] ∧ s.file = some l ∧ n = l.length ∧ s.status = ⟨false, false, .spilled n⟩ ∧ s.eos = false
  sAppended : ∀ n, s.st = .appended n →
    s.file = some s.log ∧ n + 1 = s.log.length ∧ s.eos = false ∧ s.status.finished = false ∧ s.status.error = false
  sFinishing : ∀ n, s.st = .finishing n →
    s.file = some s.log ∧ n = s.log.length ∧ s.status = ⟨false, false, .spilled n⟩ ∧ s.eos = false
  sFinPend : ∀ n, s.st = .finishedPending n →
    s.file = some s.log ∧ n = s.log.length ∧ s.status = ⟨false, false, .spilled n⟩ ∧ s.eos = true

/-- per-reader part -/
structure ROk (s : Sys) (r : Reader) : Prop where
  outEq : r.out = s.log.take r.read
  readLe : r.read ≤ s.log.length
  ended : r.pc = .ended → r.read = s.log.length ∧ s.st.closed = true
  curOk : ∀ c, r.cur = some c → (∃ f, s.file = some f ∧ c ≤ f.length) ∧ SpOrErr s
  idle : r.pc = .idle → ∀ c, r.cur = some c → c = r.read
  opening : r.pc = .opening → r.cur = none ∧ Good s r.read ∧ SpOrErr s
  skipping : ∀ j, r.pc = .skipping j → ∃ c, r.cur = some c ∧ c + j = r.read ∧ 1 ≤ j ∧ Good s r.read
  reading : r.pc = .reading → r.cur = some r.read ∧ Good s r.read
  gotSome : ∀ b, r.pc = .got (some b) → r.cur = some (r.read + 1) ∧ s.log[r.read]? = some b
  gotNone : r.pc = .got none → r.read = s.log.length ∧ s.st.closed = true

structure Inv (s : Sys) : Prop where
  g : GOk s
  r : ∀ i, ROk s (s.rd i)

/-! ### list facts -/

theorem pre_snoc {α} {f l : List α} (b : α) (h : f <+: l) : f <+: l ++ [b] :=
  h.trans (List.prefix_append l [b])

theorem pre_getElem? {α} {f l : List α} (h : f <+: l) {k : Nat} {b : α} (hk : f[k]? = some b) : l[k]? = some b := by
  obtain ⟨t, rfl⟩ := h
  have hlt : k < f.length := by
    rcases Nat.lt_or_ge k f.length with h | h
    · exact h
    · rw [List.getElem?_eq_none_iff.mpr h] at hk; cases hk
  rw [List.getElem?_append_left hlt]; exact hk

theorem pre_length {α} {f l : List α} (h : f <+: l) : f.length ≤ l.length := h.length_le

theorem take_snoc_of_le {α} {l : List α} {n : Nat} (b : α) (h : n ≤ l.length) : (l ++ [b]).take n = l.take n :=
  List.take_append_of_le_length h

theorem getElem?_snoc_of_some {α} {l : List α} {n : Nat} {x : α} (b : α) (h : l[n]? = some x) :
    (l ++ [b])[n]? = some x :=
  pre_getElem? (List.prefix_append l [b]) h

theorem take_succ_of_getElem? {α} {l : List α} {n : Nat} {b : α} (h : l[n]? = some b) :
    l.take (n + 1) = l.take n ++ [b] := by
  rw [List.take_add_one, h]; rfl

theorem take_all_of_getElem?_none {α} {l : List α} {n : Nat} (h : l[n]? = none) : l.take n = l :=
  List.take_of_length_le (List.getElem?_eq_none_iff.mp h)

/-! ### proof automation: one leaf tactic for every field of the invariant -/

macro "leaf" : tactic =>
  `(tactic| (simp only [statusOf, SpOrErr, Good, setRd, upd_apply] at * <;>
     grind [pre_snoc, take_snoc_of_le, getElem?_snoc_of_some, pre_getElem?, take_succ_of_getElem?,
            take_all_of_getElem?_none, SState.closed, SState.idle]))

macro "gsplit" hg:ident : tactic =>
  `(tactic| (obtain ⟨g1, g2, g3, g4, g5, g6, g7, g8, g9, g10, g11, g12, g13, g14⟩ := $hg
             constructor <;> leaf))

macro "rsplit" hr:term : tactic =>
  `(tactic| (obtain ⟨h1, h2, h3, h4, h5, h6, h7, h8, h9, h10⟩ := $hr
             constructor <;> leaf))

/-! ### initial state -/

theorem inv_init (limit : Nat) : Inv (init limit) := by
  refine ⟨?_, ?_⟩
  · constructor <;> simp [init, SState.closed]
  · intro i
    constructor <;> simp [init, Reader.init]

end LanceModel.C41
