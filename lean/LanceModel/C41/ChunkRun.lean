import LanceModel.C41.ChunkLemmas
/-!
C41 — the chunking streams as a whole: `chunk_stream`, `StrictBatchSizeStream`, `break_stream`.
-/
namespace LanceModel.C41.Chunk

variable {α : Type}

/-! ### chunk_stream -/

theorem unfoldChunks_spec {n : Nat} (hn : 0 < n) : ∀ (fuel : Nat) (s : St α), WF s.buffered s.i →
    (pending s).length < fuel →
    ((unfoldChunks n fuel s).map List.flatten).flatten = pending s ∧
    ExactButLast n ((unfoldChunks n fuel s).map List.flatten) ∧
    (∀ c ∈ unfoldChunks n fuel s, ∀ x ∈ c, 0 < x.length)
  | 0, _, _, hlt => by omega
  | fuel + 1, s, hwf, hlt => by
    have hs := next_spec hn s hwf
    unfold unfoldChunks
    split
    · rename_i hnone
      rw [hs.1 hnone]
      exact ⟨rfl, trivial, fun c hc => by cases hc⟩
    · rename_i out s' hsome
      obtain ⟨heq, hwf', hpos, hle, hlast, hne⟩ := hs.2 out s' hsome
      have hlen : (pending s').length < fuel := by
        have : (pending s).length = out.flatten.length + (pending s').length := by
          rw [← heq, List.length_append]
        omega
      have ih := unfoldChunks_spec hn fuel s' hwf' hlen
      refine ⟨?_, ?_, ?_⟩
      · rw [List.map_cons, List.flatten_cons, ih.1, heq]
      · rw [List.map_cons]
        refine ebl_cons hpos hle ?_ ih.2.1
        intro htl
        rcases hlast with h | h
        · exact h
        · exfalso
          have := flatten_ne_nil_of_pos htl (ebl_pos hn ih.2.1)
          rw [ih.1, h] at this
          exact this rfl
      · intro c hc
        rcases List.mem_cons.mp hc with rfl | hc
        · exact hne
        · exact ih.2.2 c hc

/-! ### StrictBatchSizeStream -/

def spending (inner : List (List α)) (res : Option (List α)) : List α := res.getD [] ++ inner.flatten

theorem combine_eq (res : Option (List α)) (b : List α) : combine res b = res.getD [] ++ b := by
  cases res <;> simp [combine]

theorem strictPull_spec {n : Nat} (hn : 0 < n) : ∀ (inner : List (List α)) (res : Option (List α)),
    (∀ r, res = some r → r.length < n) →
    (strictPull n inner res = none → spending inner res = []) ∧
    (∀ out inner' res', strictPull n inner res = some (out, inner', res') →
      out ++ spending inner' res' = spending inner res ∧ 0 < out.length ∧ out.length ≤ n ∧
      (out.length = n ∨ spending inner' res' = []))
  | [], none, _ => by simp [strictPull, spending]
  | [], some r, h => by
    have hr := h r rfl
    unfold strictPull
    split
    · rename_i hpos
      refine ⟨fun h => (by cases h), ?_⟩
      intro out inner' res' he
      simp only [Option.some.injEq, Prod.mk.injEq] at he
      obtain ⟨rfl, rfl, rfl⟩ := he
      exact ⟨by simp [spending], hpos, Nat.le_of_lt hr, Or.inr (by simp [spending])⟩
    · rename_i hpos
      refine ⟨fun _ => ?_, fun _ _ _ he => by cases he⟩
      have : r = [] := List.eq_nil_of_length_eq_zero (by omega)
      simp [spending, this]
  | b :: rest, res, h => by
    unfold strictPull
    split
    · rename_i hge
      refine ⟨fun h => (by cases h), ?_⟩
      intro out inner' res' he
      simp only [Option.some.injEq, Prod.mk.injEq] at he
      obtain ⟨rfl, rfl, rfl⟩ := he
      have hd : (if ((combine res b).drop n).length > 0 then some ((combine res b).drop n) else none).getD []
          = (combine res b).drop n := by
        split
        · rfl
        · rename_i h0
          have : (combine res b).drop n = [] := List.eq_nil_of_length_eq_zero (by omega)
          rw [this]; rfl
      refine ⟨?_, ?_, ?_, Or.inl ?_⟩
      · simp only [spending]
        rw [hd, ← List.append_assoc, List.take_append_drop, combine_eq, List.flatten_cons, List.append_assoc]
      · rw [List.length_take]; omega
      · rw [List.length_take]; omega
      · rw [List.length_take]; omega
    · rename_i hlt
      have ih := strictPull_spec hn rest (some (combine res b)) (by
        intro r hr; cases hr; omega)
      have e : spending rest (some (combine res b)) = spending (b :: rest) res := by
        simp [spending, combine_eq]
      rw [e] at ih
      exact ih

theorem strictNext_spec {n : Nat} (hn : 0 < n) (inner : List (List α)) (res : Option (List α)) :
    (strictNext n inner res = none → spending inner res = []) ∧
    (∀ out inner' res', strictNext n inner res = some (out, inner', res') →
      out ++ spending inner' res' = spending inner res ∧ 0 < out.length ∧ out.length ≤ n ∧
      (out.length = n ∨ spending inner' res' = [])) := by
  unfold strictNext
  split
  · rename_i r
    split
    · rename_i hge
      refine ⟨fun h => (by cases h), ?_⟩
      intro out inner' res' he
      simp only [Option.some.injEq, Prod.mk.injEq] at he
      obtain ⟨rfl, rfl, rfl⟩ := he
      refine ⟨?_, ?_, ?_, Or.inl ?_⟩
      · simp only [spending, Option.getD_some]
        rw [← List.append_assoc, List.take_append_drop]
      · rw [List.length_take]; omega
      · rw [List.length_take]; omega
      · rw [List.length_take]; omega
    · rename_i hlt
      exact strictPull_spec hn inner (some r) (by intro r' hr'; cases hr'; omega)
  · exact strictPull_spec hn inner none (by intro r hr; cases hr)

theorem strictUnfold_spec {n : Nat} (hn : 0 < n) : ∀ (fuel : Nat) (inner : List (List α)) (res : Option (List α)),
    (spending inner res).length < fuel →
    (strictUnfold n fuel inner res).flatten = spending inner res ∧ ExactButLast n (strictUnfold n fuel inner res)
  | 0, _, _, hlt => by omega
  | fuel + 1, inner, res, hlt => by
    have hs := strictNext_spec hn inner res
    unfold strictUnfold
    split
    · rename_i hnone
      rw [hs.1 hnone]
      exact ⟨rfl, trivial⟩
    · rename_i out inner' res' hsome
      obtain ⟨heq, hpos, hle, hlast⟩ := hs.2 out inner' res' hsome
      have hlen : (spending inner' res').length < fuel := by
        have : (spending inner res).length = out.length + (spending inner' res').length := by
          rw [← heq, List.length_append]
        omega
      have ih := strictUnfold_spec hn fuel inner' res' hlen
      refine ⟨?_, ?_⟩
      · rw [List.flatten_cons, ih.1, heq]
      · refine ebl_cons hpos hle ?_ ih.2
        intro htl
        rcases hlast with h | h
        · exact h
        · exfalso
          have := flatten_ne_nil_of_pos htl (ebl_pos hn ih.2)
          rw [ih.1, h] at this
          exact this rfl

/-! ### break_stream -/

/-- consecutive pieces, the first starting `seen` rows into a window of `max` rows: no piece is empty and none
    crosses a window boundary -/
def Windows (max : Nat) : Nat → List (List α) → Prop
  | _, [] => True
  | seen, p :: ps => 0 < p.length ∧ seen + p.length ≤ max ∧ Windows max ((seen + p.length) % max) ps

theorem windows_append {max : Nat} (hm : 0 < max) : ∀ (a b : List (List α)) (seen : Nat), seen < max →
    Windows max seen a → Windows max ((seen + a.flatten.length) % max) b → Windows max seen (a ++ b)
  | [], b, seen, hs, _, hb => by
    simpa [Nat.mod_eq_of_lt hs] using hb
  | p :: ps, b, seen, hs, ha, hb => by
    obtain ⟨h0, hle, hrest⟩ := ha
    refine ⟨h0, hle, ?_⟩
    apply windows_append hm ps b _ (Nat.mod_lt _ hm) hrest
    rw [Nat.mod_add_mod]
    simpa [List.flatten_cons, List.length_append, Nat.add_assoc] using hb

theorem breakBatch_spec {max : Nat} (hm : 0 < max) : ∀ (fuel seen : Nat) (batch : List α), seen < max →
    batch.length < fuel →
    (breakBatch max fuel seen batch).flatten = batch ∧ Windows max seen (breakBatch max fuel seen batch)
  | 0, _, _, _, hlt => by omega
  | fuel + 1, seen, batch, hs, hlt => by
    unfold breakBatch
    split
    · rename_i h0
      have : batch = [] := List.eq_nil_of_length_eq_zero h0
      subst this
      exact ⟨rfl, trivial⟩
    split
    · rename_i h0 hle
      exact ⟨by simp, ⟨by omega, by omega, trivial⟩⟩
    · rename_i h0 hle
      have hk : max - seen ≤ batch.length := by omega
      have ih := breakBatch_spec hm fuel 0 (batch.drop (max - seen)) hm (by rw [List.length_drop]; omega)
      have hlen : (batch.take (max - seen)).length = max - seen := by
        rw [List.length_take]; exact Nat.min_eq_left hk
      refine ⟨?_, ?_, ?_, ?_⟩
      · rw [List.flatten_cons, ih.1, List.take_append_drop]
      · rw [hlen]; omega
      · rw [hlen]; omega
      · rw [hlen]
        have : seen + (max - seen) = max := by omega
        rw [this, Nat.mod_self]
        exact ih.2

theorem breakStream_spec {max : Nat} (hm : 0 < max) : ∀ (input : List (List α)) (seen : Nat), seen < max →
    (breakStream max seen input).flatten = input.flatten ∧ Windows max seen (breakStream max seen input)
  | [], _, _ => ⟨rfl, trivial⟩
  | b :: rest, seen, hs => by
    have hb := breakBatch_spec hm (b.length + 1) seen b hs (Nat.lt_succ_self _)
    have ih := breakStream_spec hm rest ((seen + b.length) % max) (Nat.mod_lt _ hm)
    unfold breakStream
    refine ⟨?_, ?_⟩
    · rw [List.flatten_append, hb.1, ih.1, List.flatten_cons]
    · apply windows_append hm _ _ seen hs hb.2
      rw [hb.1]; exact ih.2

/-- the pieces grouped by the input batch they were cut from -/
def breakGroups (max : Nat) : (seen : Nat) → List (List α) → List (List (List α))
  | _, [] => []
  | seen, b :: rest => breakBatch max (b.length + 1) seen b :: breakGroups max ((seen + b.length) % max) rest

theorem breakGroups_spec {max : Nat} (hm : 0 < max) : ∀ (input : List (List α)) (seen : Nat), seen < max →
    breakStream max seen input = (breakGroups max seen input).flatten ∧
    (breakGroups max seen input).map List.flatten = input
  | [], _, _ => ⟨rfl, rfl⟩
  | b :: rest, seen, hs => by
    have hb := breakBatch_spec hm (b.length + 1) seen b hs (Nat.lt_succ_self _)
    have ih := breakGroups_spec hm rest ((seen + b.length) % max) (Nat.mod_lt _ hm)
    unfold breakStream breakGroups
    refine ⟨?_, ?_⟩
    · rw [List.flatten_cons, ih.1]
    · rw [List.map_cons, hb.1, ih.2]

end LanceModel.C41.Chunk
