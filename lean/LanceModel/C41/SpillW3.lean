import LanceModel.C41.SpillInv
/-! C41 — the sender's blocking file operations preserve the invariant. -/
namespace LanceModel.C41
variable {s : Sys}

theorem inv_wio_open (h : Inv s) {todo k b} (hst : s.st = .trans todo k b) (hnone : s.file = none) :
    Inv { s with file := some [] } := by
  obtain ⟨hg, hr⟩ := h
  obtain ⟨pre, hfile, hlog, hstat, hk, heos⟩ := hg.sTrans _ _ _ hst
  refine ⟨?_, fun i => ?_⟩
  · gsplit hg
  · rsplit (hr i)

theorem inv_wio_drain (h : Inv s) {t ts k b f} (hst : s.st = .trans (t :: ts) k b) (hsome : s.file = some f) :
    Inv { s with file := some (f ++ [t]), st := .trans ts k b } := by
  obtain ⟨hg, hr⟩ := h
  obtain ⟨pre, hfile, hlog, hstat, hk, heos⟩ := hg.sTrans _ _ _ hst
  have hpre : pre = f := by
    rcases hfile with ⟨h1, _⟩ | h1
    · rw [h1] at hsome; cases hsome
    · rw [h1] at hsome; exact Option.some.inj hsome
  subst hpre
  have e1 : pre ++ t :: ts = (pre ++ [t]) ++ ts := by simp
  have e2 : pre ++ [t] <+: s.log := ⟨ts ++ [b], by rw [hlog]; simp⟩
  rw [e1] at hlog hstat hk
  clear hfile e1
  refine ⟨?_, fun i => ?_⟩
  · gsplit hg
  · rsplit (hr i)

theorem inv_wio_last (h : Inv s) {k b f} (hst : s.st = .trans [] k b) (hsome : s.file = some f) :
    Inv { s with file := some (f ++ [b]), st := .appended k } := by
  obtain ⟨hg, hr⟩ := h
  obtain ⟨pre, hfile, hlog, hstat, hk, heos⟩ := hg.sTrans _ _ _ hst
  have hpre : pre = f := by
    rcases hfile with ⟨h1, _⟩ | h1
    · rw [h1] at hsome; cases hsome
    · rw [h1] at hsome; exact Option.some.inj hsome
  subst hpre
  have e1 : s.log = pre ++ [b] := by rw [hlog]; simp
  have e2 : k = pre.length := by rw [hk]; simp
  have e3 : s.status = ⟨false, false, .buffered pre⟩ := by rw [hstat]; simp
  clear hfile hlog hk hstat
  refine ⟨?_, fun i => ?_⟩
  · gsplit hg
  · rsplit (hr i)

theorem inv_wio_append (h : Inv s) {n b f} (hst : s.st = .appending n b) (hsome : s.file = some f) :
    Inv { s with file := some (f ++ [b]), st := .appended n } := by
  obtain ⟨hg, hr⟩ := h
  obtain ⟨l, hlog, hfile, hn, hstat, heos⟩ := hg.sAppending _ _ hst
  have hl : l = f := by rw [hfile] at hsome; exact Option.some.inj hsome
  subst hl
  refine ⟨?_, fun i => ?_⟩
  · gsplit hg
  · rsplit (hr i)

theorem inv_wio_eos (h : Inv s) {n} (hst : s.st = .finishing n) :
    Inv { s with eos := true, st := .finishedPending n } := by
  obtain ⟨hg, hr⟩ := h
  have hb := hg.sFinishing _ hst
  refine ⟨?_, fun i => ?_⟩
  · gsplit hg
  · rsplit (hr i)

theorem inv_wio (h : Inv s) : Inv (wio s).1 := by
  unfold wio
  split
  · rename_i todo k b hst
    split
    · exact inv_wio_open h hst ‹_›
    · split
      · exact inv_wio_drain h hst ‹_›
      · exact inv_wio_last h hst ‹_›
  · rename_i n b hst
    split
    · exact inv_wio_append h hst ‹_›
    · exact h
  · exact inv_wio_eos h ‹_›
  · exact h

end LanceModel.C41
