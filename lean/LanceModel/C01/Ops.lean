import LanceModel.C01.Model
/-
C01 — the write operations of the correspondence run as PROGRAMS of storage calls.

Each builder is the counterpart of the storage-call skeleton of one public lance operation on a small table with Int64
columns `c0, c1, …` (what it writes, in which order, and the manifest it publishes).  Row-level semantics are kept to what
is needed to predict the scan of every version (multiset of rows), the number of files per class and the call trace;
the row semantics of the operations themselves are the subject of C11–C14.

  create / append / overwrite   InsertBuilder::execute → write_fragments_internal ; commit            (write/insert.rs)
  dappend                       InsertBuilder::execute_uncommitted ; CommitBuilder::with_detached     (write/commit.rs)
  delete                        Dataset::delete → deletion files ; Operation::Delete                  (dataset/write/delete.rs)
  update / upsert               UpdateBuilder / MergeInsertBuilder → new fragment ; deletion files ; Operation::Update
  compact                       compact_files → rewrite_files ; reserve_fragment_ids (own commit) ; remap_indices ;
                                commit_compaction (Operation::Rewrite)                                (dataset/optimize.rs)
  index                         create_index(BTree) → two index files ; Operation::CreateIndex
  addcol / dropcol              add_columns(SqlExpressions) → one data file per fragment ; Operation::Merge / Project
  config                        update_config ; Operation::UpdateConfig
  restore                       checkout_version(v).restore() ; Operation::Restore                    (transaction.rs)
-/
namespace LanceModel.C01
open LanceModel.C33 (Scheme)

inductive Op where
  | create (f : Nat) (rows : List Row)
  | append (f : Nat) (rows : List Row)
  | overwrite (f : Nat) (rows : List Row)
  | dappend (f : Nat) (rows : List Row)
  | delete (x : Int)
  | update (x y : Int)
  | upsert (rows : List Row)
  | compact
  | index
  | addcol
  | dropcol
  | config (n : Nat)
  | restore (v : Nat)
  deriving Repr

inductive Err where
  | alreadyExists
  | notFound
  | invalidInput
  | other
  | width
  | multiBin
  deriving DecidableEq, Repr

structure OCfg where
  cfg : Cfg
  stable : Bool
  deriving Repr

/-- the program of an operation -/
structure Plan where
  calls : List Call
  /-- identifiers reserved for the operation (an upper bound on those its calls use) -/
  ids : Nat := 0
  /-- error the operation reports after its calls ran -/
  after : Option Err := none
  /-- the commit is detached -/
  detached : Bool := false

/-! ### helpers -/

def chunks (f : Nat) : Nat → List Row → List (List Row)
  | 0, _ => []
  | _, [] => []
  | fuel + 1, rows => rows.take (max f 1) :: chunks f fuel (rows.drop (max f 1))

def colsOf (fields : List Nat) (rows : List Row) : List (Nat × List Cell) :=
  (fields.zipIdx).map (fun e => (e.1, rows.map (fun r => (r[e.2]?).join)))

def dataObj (fields : List Nat) (rows : List Row) : Obj := .cols (colsOf fields rows)

def rowWidthOk (k : Nat) (rows : List Row) : Bool := rows.all (fun r => r.length == k)

/-- new fragments for `rows` cut into files of `f` rows: data file ids `u, u+1, …`, fragment ids `fid, fid+1, …` -/
def newFrags (fields : List Nat) (f u fid : Nat) (rows : List Row) : List (Frag × Call) :=
  ((chunks f rows.length rows).zipIdx).map (fun e =>
    (({ id := fid + e.2, files := [⟨u + e.2, fields⟩], del := none, phys := e.1.length } : Frag),
     Call.put (.file .data (u + e.2) 0) (dataObj fields e.1)))

/-- `write_transaction_file` then `CommitHandler::commit` -/
def commitTxn (cfg : Cfg) (base v tx u : Nat) (m : Manifest) : List Call :=
  Call.put (.file .txn tx 0) .blob :: commitCalls cfg base v u { m with version := v, txn := tx }

def c0Of (r : Row) : Cell := (r[0]?).join

def geMatch (x : Int) (r : Row) : Bool :=
  match c0Of r with
  | some c => decide (x ≤ c)
  | none => false

/-- result of removing the rows `hit` from a fragment: unchanged / removed / new deletion file `did` -/
def deleteFrom (objs : List (Path × Option Obj)) (fields : List Nat) (hit : Row → Bool) (did : Nat) (fr : Frag) :
    Option Frag × List Call :=
  let live := fragRowsOff objs fields fr
  let gone := live.filter (fun e => hit e.2)
  if gone.isEmpty then (some fr, [])
  else if gone.length == live.length then (none, [])
  else (some { fr with del := some did }, [Call.put (.file .del did 0) (.dels (fragDeleted objs fr ++ gone.map (·.1)))])

/-- apply `deleteFrom` to every fragment; deletion file ids `u, u+1, …` (one per fragment position) -/
def deleteAll (objs : List (Path × Option Obj)) (fields : List Nat) (hit : Row → Bool) (u : Nat) (frags : List Frag) :
    List Frag × List Call :=
  let rs := (frags.zipIdx).map (fun e => deleteFrom objs fields hit (u + e.2) e.1)
  (rs.filterMap (·.1), rs.flatMap (·.2))

def setAt (r : Row) (i : Nat) (c : Cell) : Row := r.set i c

def covered (m : Manifest) (fid : Nat) : Bool := m.indices.any (fun i => i.frags.contains fid)

def numDeleted (objs : List (Path × Option Obj)) (fr : Frag) : Nat := (fragDeleted objs fr).length

/-- optimize.rs `plan_compaction` with `target_rows_per_fragment` above every fragment size: maximal runs of adjacent
    fragments with the same index coverage -/
def binsOf (m : Manifest) : List Frag → List (List Frag)
  | [] => []
  | f :: t =>
    match binsOf m t with
    | [] => [[f]]
    | b :: bs =>
      match b with
      | g :: _ => if covered m f.id == covered m g.id then (f :: b) :: bs else [f] :: b :: bs
      | [] => [f] :: bs

/-- `CandidateBin::is_noop` negated: more than one fragment, or one whose deletions exceed 10 % -/
def binWorth (objs : List (Path × Option Obj)) (b : List Frag) : Bool :=
  match b with
  | [] => false
  | [f] => decide (10 * numDeleted objs f > f.phys)
  | _ => true

/-! ### the builders -/

def maxNat (a b : Nat) : Nat := if a ≤ b then b else a

def buildCalls (oc : OCfg) (st : St) (op : Op) : Except Err Plan :=
  let cfg := oc.cfg
  let s := st.store
  let u := st.uid
  let n := latestN s
  match op with
  | .create f rows =>
    if n ≠ 0 then .error .alreadyExists
    else
      let k := match rows with
        | r :: _ => r.length
        | [] => 2
      if !rowWidthOk k rows || k == 0 then .error .width
      else
        let fields := List.range k
        let nf := newFrags fields f u 0 rows
        let m : Manifest := { version := 1, fields := fields, nextField := k, frags := nf.map (·.1), nextFrag := nf.length,
                              indices := [], cfg := none, txn := 0 }
        .ok { calls := nf.map (·.2) ++ commitTxn cfg 0 1 (u + nf.length) (u + nf.length + 1) m }
  | _ =>
    match manifestAt s n with
    | none => .error .notFound
    | some m =>
      let objs := derefs s m
      let k := m.fields.length
      let v := n + 1
      match op with
      | .create .. => .error .other
      | .append f rows =>
        if !rowWidthOk k rows then .error .width
        else
          let nf := newFrags m.fields f u m.nextFrag rows
          let m' := { m with frags := m.frags ++ nf.map (·.1), nextFrag := m.nextFrag + nf.length }
          .ok { calls := nf.map (·.2) ++ commitTxn cfg n v (u + nf.length) (u + nf.length + 1) m' }
      | .dappend f rows =>
        if !rowWidthOk k rows then .error .width
        else
          let nf := newFrags m.fields f u m.nextFrag rows
          let m' := { m with frags := m.frags ++ nf.map (·.1), nextFrag := m.nextFrag + nf.length }
          if cfg.sch = .V1 then .ok { calls := nf.map (·.2), after := some .other }
          else
            .ok { calls := nf.map (·.2) ++ commitTxn cfg n (2 ^ 63 + u) (u + nf.length) (u + nf.length + 1) m',
                  detached := true }
      | .overwrite f rows =>
        let k' := match rows with
          | r :: _ => r.length
          | [] => k
        if !rowWidthOk k' rows || k' == 0 then .error .width
        else
          let fields := List.range k'
          let nf := newFrags fields f u m.nextFrag rows
          let m' := { m with fields := fields, nextField := k', frags := nf.map (·.1), nextFrag := m.nextFrag + nf.length,
                             indices := [] }
          .ok { calls := nf.map (·.2) ++ commitTxn cfg n v (u + nf.length) (u + nf.length + 1) m' }
      | .delete x =>
        let r := deleteAll objs m.fields (geMatch x) u m.frags
        let w := m.frags.length
        .ok { calls := r.2 ++ commitTxn cfg n v (u + w) (u + w + 1) { m with frags := r.1 } }
      | .update x y =>
        if k < 2 then .error .invalidInput
        else
          let hitRows := (m.frags.flatMap (fragRows objs m.fields)).filter (geMatch x)
          let newRows := hitRows.map (fun r => setAt r 1 (some y))
          let w := m.frags.length
          let r := deleteAll objs m.fields (geMatch x) (u + 1) m.frags
          let nf := if newRows.isEmpty then [] else newFrags m.fields (newRows.length) u m.nextFrag newRows
          let m' := { m with frags := r.1 ++ nf.map (·.1), nextFrag := m.nextFrag + nf.length }
          .ok { calls := nf.map (·.2) ++ r.2 ++ commitTxn cfg n v (u + w + 1) (u + w + 2) m' }
      | .upsert rows =>
        if !rowWidthOk k rows then .error .width
        else
          let keys := rows.filterMap c0Of
          let hit : Row → Bool := fun r =>
            match c0Of r with
            | some c => keys.contains c
            | none => false
          let live := m.frags.flatMap (fragRows objs m.fields)
          let hitRows := live.filter hit
          let liveKeys := live.filterMap c0Of
          -- a target row matched by two source rows is an error ("ambiguous merge"), raised before anything is written
          if liveKeys.any (fun c => decide ((keys.filter (fun x => x == c)).length ≥ 2)) then .error .other else
          -- one output row per matched (target, source) pair, then the unmatched source rows
          let updated := hitRows.filterMap (fun t => rows.find? (fun r => c0Of r == c0Of t))
          let inserted := rows.filter (fun r =>
            match c0Of r with
            | some c => !liveKeys.contains c
            | none => true)
          let newRows := updated ++ inserted
          let w := m.frags.length
          let r := deleteAll objs m.fields hit (u + 1) m.frags
          let nf := if newRows.isEmpty then [] else newFrags m.fields (newRows.length) u m.nextFrag newRows
          let m' := { m with frags := r.1 ++ nf.map (·.1), nextFrag := m.nextFrag + nf.length }
          .ok { calls := nf.map (·.2) ++ r.2 ++ commitTxn cfg n v (u + w + 1) (u + w + 2) m' }
      | .compact =>
        let bins := (binsOf m m.frags).filter (binWorth objs)
        match bins with
        | [] => .ok { calls := [] }
        | [b] =>
          let ids := b.map (·.id)
          let rows := b.flatMap (fragRows objs m.fields)
          let newId := m.nextFrag
          let nfr : Frag := { id := newId, files := [⟨u, m.fields⟩], del := none, phys := rows.length }
          let frags' := (m.frags.filter (fun f => !ids.contains f.id)) ++ [nfr]
          let mRes := { m with nextFrag := m.nextFrag + 1 }
          -- indices: remapped (new uuid, two files, both WRITTEN: since /repo 360e86b `BTreeIndex::remap` retrains on the remapped
          -- entries instead of rewriting the pages and copying the lookup file) when row addresses change; bitmap updated
          let touch : Index → Bool := fun i => ids.any (fun x => i.frags.contains x)
          let remap := !oc.stable
          let idx' := (m.indices.zipIdx).map (fun e =>
            if touch e.1 then
              ({ id := if remap then u + 3 + e.2 else e.1.id, nfiles := e.1.nfiles,
                 frags := e.1.frags.filter (fun x => !ids.contains x) ++ [newId] } : Index)
            else e.1)
          let idxCalls := if remap then (m.indices.zipIdx).flatMap (fun e =>
            if touch e.1 then
              [Call.put (.file .idx (u + 3 + e.2) 0) .blob, Call.put (.file .idx (u + 3 + e.2) 1) .blob]
            else []) else []
          let w := m.indices.length
          let mNew := { mRes with frags := frags', indices := idx' }
          .ok { calls := [Call.put (.file .data u 0) (dataObj m.fields rows)] ++
                  commitTxn cfg n v (u + 1) (u + 2) mRes ++ idxCalls ++
                  commitTxn cfg v (v + 1) (u + 3 + w) (u + 4 + w) mNew }
        | _ => .error .multiBin
      | .index =>
        let ix : Index := { id := u, nfiles := 2, frags := m.frags.map (·.id) }
        .ok { calls := [Call.put (.file .idx u 0) .blob, Call.put (.file .idx u 1) .blob] ++
                commitTxn cfg n v (u + 1) (u + 2) { m with indices := [ix] } }
      | .addcol =>
        let nfid := m.nextField
        let c0f := (m.fields[0]?).getD 0
        let w := m.frags.length
        let upd := (m.frags.zipIdx).map (fun e =>
          let col := (fragColumn objs e.1 c0f).map (fun c => c.map (· + 1))
          (({ e.1 with files := e.1.files ++ [⟨u + e.2, [nfid]⟩] } : Frag),
           Call.put (.file .data (u + e.2) 0) (.cols [(nfid, col)])))
        let m' := { m with fields := m.fields ++ [nfid], nextField := nfid + 1, frags := upd.map (·.1) }
        .ok { calls := upd.map (·.2) ++ commitTxn cfg n v (u + w) (u + w + 1) m' }
      | .dropcol =>
        if k < 2 then .error .invalidInput
        else .ok { calls := commitTxn cfg n v u (u + 1) { m with fields := m.fields.dropLast } }
      | .config c => .ok { calls := commitTxn cfg n v u (u + 1) { m with cfg := some c } }
      | .restore rv =>
        if !(versions s).contains rv then .error .notFound
        else
          match manifestAt s rv with
          | none => .error .notFound
          | some old =>
            let m' := { old with nextFrag := maxNat old.nextFrag m.nextFrag, nextField := maxNat old.nextField m.nextField }
            .ok { calls := commitTxn cfg rv v u (u + 1) m' }

/-- the program of `op` on the current table; it reserves one identifier per call (each call creates at most one new
    object) plus one per fragment / index position used for numbering -/
def build (oc : OCfg) (st : St) (op : Op) : Except Err Plan :=
  match buildCalls oc st op with
  | .error e => .error e
  | .ok p =>
    let extra := match manifestAt st.store (latestN st.store) with
      | some m => m.frags.length + m.indices.length
      | none => 0
    .ok { p with ids := p.calls.length + extra + 8 }

end LanceModel.C01
