import LanceModel.C01.Props
/-
C01 — operations with several commit calls (compaction: `ReserveFragments`, then `Rewrite`).

`visible_prefix`: whatever fault hits a program, what a reader sees afterwards is what he would see after the program
had run, unfaulted, up to and including one of its commit calls — or nothing of it at all.  Never anything else.
-/
namespace LanceModel.C01

theorem run_cons_some {cfg : Cfg} {uid0 bound : Nat} {W : List Path} {s s1 : Store} {c : Call} (cs : List Call)
    (f : Option (Nat × Fault)) (hf : ∀ fl, f ≠ some (0, fl))
    (hg : guard cfg uid0 bound W s c = true) (he : exec cfg s c = some s1) :
    (runCalls cfg uid0 bound W s (c :: cs) f).1 =
      (runCalls cfg uid0 bound (W ++ c.target) s1 cs (f.map (fun x => (x.1 - 1, x.2)))).1 := by
  conv => lhs; unfold runCalls
  simp only [hg, Bool.true_eq_false, if_false]
  match f with
  | none => simp [he]
  | some (0, fl) => exact absurd rfl (hf fl)
  | some (k + 1, fl) => simp [he]

theorem visible_prefix (cfg : Cfg) (uid0 bound : Nat) (calls : List Call) :
    ∀ (W : List Path) (s : Store) (f : Option (Nat × Fault)), J cfg uid0 bound W s →
      ∃ j, j ≤ calls.length ∧ (j = 0 ∨ ∃ c, calls[j - 1]? = some c ∧ c.isPub = true) ∧
        SameObs (runCalls cfg uid0 bound W s (calls.take j) none).1 (runCalls cfg uid0 bound W s calls f).1 := by
  induction calls with
  | nil =>
    intro W s f _
    exact ⟨0, Nat.le_refl _, Or.inl rfl, by simp only [List.take_nil, runCalls]; exact SameObs.refl s⟩
  | cons c cs ih =>
    intro W s f h
    have zero : ∀ r, SameObs s r →
        ∃ j, j ≤ (c :: cs).length ∧ (j = 0 ∨ ∃ x, (c :: cs)[j - 1]? = some x ∧ x.isPub = true) ∧
          SameObs (runCalls cfg uid0 bound W s ((c :: cs).take j) none).1 r := by
      intro r hr
      exact ⟨0, Nat.zero_le _, Or.inl rfl, by simp only [List.take_zero, runCalls]; exact hr⟩
    by_cases hg : guard cfg uid0 bound W s c = true
    · cases he : exec cfg s c with
      | none =>
        have : (runCalls cfg uid0 bound W s (c :: cs) f).1 = s := by
          unfold runCalls
          simp only [hg, Bool.true_eq_false, if_false, he]
          match f with
          | some (0, .crash) => rfl
          | some (0, .failBefore) => rfl
          | some (0, .lost) => rfl
          | some (k + 1, fl) => rfl
          | none => rfl
        rw [this]; exact zero s (SameObs.refl s)
      | some s1 =>
        have h1 := J_exec h hg he
        -- the state right after `c` alone
        have one : (runCalls cfg uid0 bound W s [c] none).1 = s1 := by
          rw [run_cons_some [] none (by intro fl e; cases e) hg he]; simp [runCalls]
        have afterC : ∀ r, SameObs s1 r →
            ∃ j, j ≤ (c :: cs).length ∧ (j = 0 ∨ ∃ x, (c :: cs)[j - 1]? = some x ∧ x.isPub = true) ∧
              SameObs (runCalls cfg uid0 bound W s ((c :: cs).take j) none).1 r := by
          intro r hr
          cases hp : c.isPub with
          | true =>
            refine ⟨1, by simp, Or.inr ⟨c, by simp, hp⟩, ?_⟩
            simp only [List.take_succ_cons, List.take_zero]
            rw [one]; exact hr
          | false => exact zero r (SameObs.trans (only_commit_calls_are_visible h hp hg he) hr)
        match f with
        | some (0, .crash) =>
          have : (runCalls cfg uid0 bound W s (c :: cs) (some (0, .crash))).1 = s := by
            unfold runCalls; simp [hg]
          rw [this]; exact zero s (SameObs.refl s)
        | some (0, .failBefore) =>
          have : (runCalls cfg uid0 bound W s (c :: cs) (some (0, .failBefore))).1 = s := by
            unfold runCalls; simp [hg]
          rw [this]; exact zero s (SameObs.refl s)
        | some (0, .lost) =>
          have : (runCalls cfg uid0 bound W s (c :: cs) (some (0, .lost))).1 = s1 := by
            unfold runCalls; simp [hg, he]
          rw [this]; exact afterC s1 (SameObs.refl s1)
        | some (k + 1, fl) =>
          rw [run_cons_some cs (some (k + 1, fl)) (by intro fl' e; cases e) hg he]
          obtain ⟨j, hj, hpub, hobs⟩ := ih (W ++ c.target) s1 (Option.map (fun x : Nat × Fault => (x.1 - 1, x.2)) (some (k + 1, fl))) h1
          cases j with
          | zero =>
            simp only [List.take_zero, runCalls] at hobs
            exact afterC _ hobs
          | succ j =>
            refine ⟨j + 2, by simp at hj ⊢; omega, Or.inr ?_, ?_⟩
            · rcases hpub with e | ⟨x, hx, hxp⟩
              · cases e
              · exact ⟨x, by simpa using hx, hxp⟩
            · simp only [List.take_succ_cons]
              rw [run_cons_some (cs.take (j + 1)) none (by intro fl' e; cases e) hg he]
              exact hobs
        | none =>
          rw [run_cons_some cs none (by intro fl' e; cases e) hg he]
          obtain ⟨j, hj, hpub, hobs⟩ := ih (W ++ c.target) s1 (Option.map (fun x : Nat × Fault => (x.1 - 1, x.2)) none) h1
          cases j with
          | zero =>
            simp only [List.take_zero, runCalls] at hobs
            exact afterC _ hobs
          | succ j =>
            refine ⟨j + 2, by simp at hj ⊢; omega, Or.inr ?_, ?_⟩
            · rcases hpub with e | ⟨x, hx, hxp⟩
              · cases e
              · exact ⟨x, by simpa using hx, hxp⟩
            · simp only [List.take_succ_cons]
              rw [run_cons_some (cs.take (j + 1)) none (by intro fl' e; cases e) hg he]
              exact hobs
    · have hg' : guard cfg uid0 bound W s c = false := by cases hx : guard cfg uid0 bound W s c <;> simp_all
      have : (runCalls cfg uid0 bound W s (c :: cs) f).1 = s := by
        unfold runCalls; simp [hg']
      rw [this]; exact zero s (SameObs.refl s)

/-- the same for one operation of a history -/
theorem visible_prefix_op (cfg : Cfg) (st : St) (hI : Inv cfg st) (p : Prog) :
    ∃ j, j ≤ p.calls.length ∧ (j = 0 ∨ ∃ c, p.calls[j - 1]? = some c ∧ c.isPub = true) ∧
      SameObs (stepOp cfg st ⟨p.calls.take j, p.ids, none⟩).1.store (stepOp cfg st p).1.store := by
  have h0 : J cfg st.uid p.ids [] st.store :=
    ⟨hI.fresh, hI.wpres, (fun q hq => by cases hq), hI.closed, hI.wf, hI.dense, hI.typed⟩
  exact visible_prefix cfg st.uid p.ids p.calls [] st.store p.fault h0

end LanceModel.C01
