import LanceModel.C01.Visible
/-
C01 — the programs of `Ops.build` satisfy the guards: generic part.

`GuardsOk W s calls`: every call of `calls`, executed in order without faults from `(W, s)`, passes its `guard` (the run
may stop at a commit call that finds its slot taken; it never stops because a precondition of the model fails).
`runOk`: the state after the whole program, when every call passed its guard and succeeded.
-/
namespace LanceModel.C01
open LanceModel.C33 (Name Scheme manifestName isDetached dec cand)

def GuardsOk (cfg : Cfg) (uid0 bound : Nat) : List Path → Store → List Call → Prop
  | _, _, [] => True
  | W, s, c :: cs => guard cfg uid0 bound W s c = true ∧
      ∀ s', exec cfg s c = some s' → GuardsOk cfg uid0 bound (W ++ c.target) s' cs

def runOk (cfg : Cfg) (uid0 bound : Nat) : List Path → Store → List Call → Option (List Path × Store)
  | W, s, [] => some (W, s)
  | W, s, c :: cs =>
    if guard cfg uid0 bound W s c = true then
      match exec cfg s c with
      | some s' => runOk cfg uid0 bound (W ++ c.target) s' cs
      | none => none
    else none

theorem guardsOk_append (cfg : Cfg) (uid0 bound : Nat) (a b : List Call) : ∀ (W : List Path) (s : Store),
    GuardsOk cfg uid0 bound W s a →
    (∀ r, runOk cfg uid0 bound W s a = some r → GuardsOk cfg uid0 bound r.1 r.2 b) →
    GuardsOk cfg uid0 bound W s (a ++ b) := by
  induction a with
  | nil => intro W s _ hb; exact hb (W, s) rfl
  | cons c cs ih =>
    intro W s ha hb
    refine ⟨ha.1, fun s' he => ih _ _ (ha.2 s' he) (fun r hr => hb r ?_)⟩
    simp only [runOk, ha.1, if_true, he]; exact hr

theorem runOk_append (cfg : Cfg) (uid0 bound : Nat) (a b : List Call) : ∀ (W : List Path) (s : Store),
    runOk cfg uid0 bound W s (a ++ b) = (runOk cfg uid0 bound W s a).bind (fun r => runOk cfg uid0 bound r.1 r.2 b) := by
  induction a with
  | nil => intro W s; rfl
  | cons c cs ih =>
    intro W s
    simp only [List.cons_append, runOk]
    split
    · cases exec cfg s c with
      | none => rfl
      | some s' => exact ih _ _
    · rfl

/-- a program whose calls all pass their guards never ends as `invalid`, whatever fault hits it -/
theorem guardsOk_never_invalid (cfg : Cfg) (uid0 bound : Nat) (calls : List Call) :
    ∀ (W : List Path) (s : Store) (f : Option (Nat × Fault)), GuardsOk cfg uid0 bound W s calls →
      (runCalls cfg uid0 bound W s calls f).2 ≠ .invalid := by
  induction calls with
  | nil => intro W s f _; simp [runCalls]
  | cons c cs ih =>
    intro W s f h
    unfold runCalls
    simp only [h.1, Bool.true_eq_false, if_false]
    match f with
    | some (0, .crash) => simp
    | some (0, .failBefore) => simp
    | some (0, .lost) => simp
    | some (k + 1, fl) =>
      cases he : exec cfg s c with
      | none => simp
      | some s' => exact ih _ _ _ (h.2 s' he)
    | none =>
      cases he : exec cfg s c with
      | none => simp
      | some s' => exact ih _ _ _ (h.2 s' he)

/-- the unfaulted run of a program that `runOk` completes is `done` in that state -/
theorem runOk_done (cfg : Cfg) (uid0 bound : Nat) (calls : List Call) :
    ∀ (W : List Path) (s : Store) (r : List Path × Store), runOk cfg uid0 bound W s calls = some r →
      runCalls cfg uid0 bound W s calls none = (r.2, .done) := by
  induction calls with
  | nil => intro W s r h; simp only [runOk, Option.some.injEq] at h; subst h; rfl
  | cons c cs ih =>
    intro W s r h
    simp only [runOk] at h
    split at h
    · rename_i hg
      cases he : exec cfg s c with
      | none => rw [he] at h; cases h
      | some s' =>
        rw [he] at h
        unfold runCalls
        simp only [hg, Bool.true_eq_false, if_false, he]
        exact ih _ _ _ h
    · cases h

theorem runOk_J (cfg : Cfg) (uid0 bound : Nat) (calls : List Call) :
    ∀ (W : List Path) (s : Store) (r : List Path × Store), J cfg uid0 bound W s →
      runOk cfg uid0 bound W s calls = some r → J cfg uid0 bound r.1 r.2 := by
  induction calls with
  | nil => intro W s r hJ h; simp only [runOk, Option.some.injEq] at h; subst h; exact hJ
  | cons c cs ih =>
    intro W s r hJ h
    simp only [runOk] at h
    split at h
    · rename_i hg
      cases he : exec cfg s c with
      | none => rw [he] at h; cases h
      | some s' => rw [he] at h; exact ih _ _ _ (J_exec hJ hg he) h
    · cases h

/-! ### the write phase: `put`s of new files -/

def putCalls (l : List (Path × Obj)) : List Call := l.map (fun e => Call.put e.1 e.2)

def InRange (uid0 bound : Nat) (p : Path) : Prop := ∃ c id sub, p = Path.file c id sub ∧ uid0 ≤ id ∧ id < uid0 + bound

theorem freshFile_of {uid0 bound : Nat} {W : List Path} {p : Path} (hr : InRange uid0 bound p) (hw : p ∉ W) :
    freshFile uid0 bound W p = true := by
  obtain ⟨c, id, sub, rfl, h1, h2⟩ := hr
  simp [freshFile, h1, h2, hw]

/-- what the store looks like after a run of `put`s of files: `_versions/` untouched, old files untouched -/
structure FilesOnly (s s' : Store) : Prop where
  ver : ∀ n, get s' (.ver n) = get s (.ver n)
  mono : ∀ p, present s p = true → present s' p = true
  names : names s' = names s

theorem FilesOnly.refl (s : Store) : FilesOnly s s := ⟨fun _ => rfl, fun _ h => h, rfl⟩

theorem FilesOnly.put {s s' : Store} (h : FilesOnly s s') (c : Cls) (id sub : Nat) (o : Obj) :
    FilesOnly s (put s' (.file c id sub) o) :=
  ⟨fun n => by rw [get_put]; simp [h.ver n], fun p hp => by rw [present_put, h.mono p hp]; simp,
   by rw [names_put_file, h.names]⟩

theorem FilesOnly.latestN_eq {s s' : Store} (h : FilesOnly s s') : latestN s' = latestN s := by
  simp [latestN, latest, h.names]

theorem FilesOnly.versions_eq {s s' : Store} (h : FilesOnly s s') : versions s' = versions s := by
  simp [versions, h.names]

theorem FilesOnly.manifestAt_eq {s s' : Store} (h : FilesOnly s s') (v : Nat) : manifestAt s' v = manifestAt s v := by
  have hp : ∀ n, present s' (.ver n) = present s (.ver n) := fun n => by simp [present, h.ver n]
  have : resolveVersion s' v = resolveVersion s v := by
    unfold resolveVersion; rw [hp]
  unfold manifestAt
  rw [this]
  have hres : ∃ n, resolveVersion s v = .ver n := by
    unfold resolveVersion; split
    · exact ⟨_, rfl⟩
    · split <;> exact ⟨_, rfl⟩
  obtain ⟨n, hn⟩ := hres
  rw [hn, h.ver n]

theorem runOk_puts (cfg : Cfg) (uid0 bound : Nat) (l : List (Path × Obj)) :
    ∀ (W : List Path) (s : Store), (∀ e ∈ l, InRange uid0 bound e.1) → (∀ e ∈ l, e.1 ∉ W) →
      (l.map (·.1)).Nodup →
      GuardsOk cfg uid0 bound W s (putCalls l) ∧
        ∃ s', runOk cfg uid0 bound W s (putCalls l) = some (W ++ l.map (·.1), s') ∧ FilesOnly s s' := by
  induction l with
  | nil => intro W s _ _ _; exact ⟨trivial, s, by simp [putCalls, runOk], FilesOnly.refl s⟩
  | cons e t ih =>
    intro W s hr hw hnd
    have hg : guard cfg uid0 bound W s (Call.put e.1 e.2) = true :=
      freshFile_of (hr e (by simp)) (hw e (by simp))
    simp only [List.map_cons, List.nodup_cons] at hnd
    have hW' : ∀ x ∈ t, x.1 ∉ W ++ [e.1] := by
      intro x hx hin
      simp only [List.mem_append, List.mem_singleton] at hin
      rcases hin with hin | hin
      · exact hw x (by simp [hx]) hin
      · exact hnd.1 (by rw [← hin]; exact List.mem_map_of_mem hx)
    obtain ⟨hgo, s', hrun, hfo⟩ := ih (W ++ [e.1]) (put s e.1 e.2) (fun x hx => hr x (by simp [hx])) hW' hnd.2
    obtain ⟨c, id, sub, hp, _, _⟩ := hr e (by simp)
    refine ⟨⟨hg, fun s1 he => ?_⟩, s', ?_, ?_⟩
    · simp only [exec, Option.some.injEq] at he; subst he; exact hgo
    · simp only [putCalls, List.map_cons, runOk, hg, if_true, exec, Call.target]
      simp only [putCalls] at hrun
      rw [hrun]; simp
    · have h0 : FilesOnly s (put s e.1 e.2) := by rw [hp]; exact (FilesOnly.refl s).put c id sub e.2
      exact ⟨fun n => (hfo.ver n).trans (h0.ver n), fun p hp' => hfo.mono p (h0.mono p hp'),
        hfo.names.trans h0.names⟩

/-! ### the commit phase: transaction file, then the handler's calls -/

theorem targetOk_filesOnly {s s' : Store} (h : FilesOnly s s') (v : Nat) : targetOk s' v = targetOk s v := by
  simp [targetOk, h.latestN_eq]

theorem refsOk_of {s : Store} {W : List Path} {base : Nat} {m : Manifest} (hb : base < 2 ^ 64)
    (h : ∀ p ∈ m.refs, p ∈ W ∨ ∃ mb, manifestAt s base = some mb ∧ p ∈ mb.refs) : refsOk s W base m = true := by
  simp only [refsOk, Bool.and_eq_true, decide_eq_true_eq, List.all_eq_true, Bool.or_eq_true, List.contains_eq_mem]
  refine ⟨hb, fun p hp => ?_⟩
  rcases h p hp with hw | ⟨mb, hm, hin⟩
  · exact Or.inl hw
  · right; rw [hm]; simpa using hin

/-- refs of the manifest `commitTxn` publishes -/
theorem refs_commit (m : Manifest) (v tx : Nat) :
    ({ m with version := v, txn := tx } : Manifest).refs =
      m.frags.flatMap Frag.refs ++ m.indices.flatMap Index.refs ++ [Path.file .txn tx 0] := rfl

theorem guardsOk_commitTxn {cfg : Cfg} {uid0 bound : Nat} {W : List Path} {s : Store} (hJ : J cfg uid0 bound W s)
    (base v tx u : Nat) (m : Manifest) (ht : targetOk s v = true) (hb : base < 2 ^ 64)
    (htx : uid0 ≤ tx ∧ tx < uid0 + bound) (htxW : Path.file .txn tx 0 ∉ W)
    (hrefs : ∀ p ∈ m.frags.flatMap Frag.refs ++ m.indices.flatMap Index.refs,
      p ∈ W ∨ ∃ mb, manifestAt s base = some mb ∧ p ∈ mb.refs) :
    GuardsOk cfg uid0 bound W s (commitTxn cfg base v tx u m) := by
  have hg0 : guard cfg uid0 bound W s (Call.put (.file .txn tx 0) .blob) = true :=
    freshFile_of ⟨_, _, _, rfl, htx.1, htx.2⟩ htxW
  refine ⟨hg0, fun s1 he => ?_⟩
  simp only [exec, Option.some.injEq] at he; subst he
  have hfo : FilesOnly s (put s (.file .txn tx 0) .blob) := (FilesOnly.refl s).put _ _ _ _
  have ht1 : targetOk (put s (.file .txn tx 0) .blob) v = true := by rw [targetOk_filesOnly hfo]; exact ht
  have hr1 : refsOk (put s (.file .txn tx 0) .blob) (W ++ [Path.file .txn tx 0]) base
      { m with version := v, txn := tx } = true := by
    apply refsOk_of hb
    intro p hp
    rw [refs_commit] at hp
    simp only [List.mem_append, List.mem_singleton] at hp
    rcases hp with hp | rfl
    · rcases hrefs p (by simpa using hp) with hw | ⟨mb, hm, hin⟩
      · exact Or.inl (by simp [hw])
      · exact Or.inr ⟨mb, by rw [hfo.manifestAt_eq]; exact hm, hin⟩
    · exact Or.inl (by simp)
  simp only [Call.target]
  unfold commitCalls
  cases hh : cfg.handler with
  | cond =>
    simp only
    refine ⟨by simp [guard, ht1, hr1], fun _ _ => trivial⟩
  | lock =>
    simp only
    refine ⟨by simp [guard, ht1, hr1], fun _ _ => trivial⟩
  | rename =>
    simp only
    refine ⟨by simp [guard, ht1, hr1], fun s2 he2 => ⟨?_, fun _ _ => trivial⟩⟩
    simp only [exec, Option.some.injEq] at he2; subst he2
    have hv64 : v < 2 ^ 64 := by
      unfold targetOk at ht
      split at ht
      · simpa using ht
      · simp only [Bool.and_eq_true, decide_eq_true_eq] at ht; omega
    have hlat : latestN (put (put s (.file .txn tx 0) .blob) (stagePath cfg.sch v u)
        (.man { m with version := v, txn := tx })) = latestN (put s (.file .txn tx 0) .blob) := by
      simp only [latestN, stagePath, latest_put_noise _ _ _ (stage_noise cfg.sch v u hv64)]
    have ht2 : targetOk (put (put s (.file .txn tx 0) .blob) (stagePath cfg.sch v u)
        (.man { m with version := v, txn := tx })) v = true := by
      simp only [targetOk, hlat]; simpa [targetOk] using ht1
    simp only [guard, ht2, Call.target, List.append_nil, Bool.true_and, Bool.and_eq_true, decide_eq_true_eq]
    exact ⟨trivial, by rw [get_put]; simp⟩

end LanceModel.C01
