import LanceModel.C01.Model
import LanceModel.C33.Props
/-
C01 — lemmas about the store (`get` / `put` / `erase` / `names`) and about the names under `_versions/`.
-/
namespace LanceModel.C01
open LanceModel.C33 (Name Scheme manifestName isDetached dec cand)

/-! ### get / put / erase -/

theorem get_erase (s : Store) (p q : Path) : get (erase s p) q = if p = q then none else get s q := by
  induction s with
  | nil => simp [erase, get]
  | cons e t ih =>
    obtain ⟨r, o⟩ := e
    by_cases hr : r = p
    · subst hr
      have : erase ((r, o) :: t) r = erase t r := by simp [erase]
      rw [this, ih]
      by_cases hq : r = q
      · simp [hq]
      · simp [hq, get]
    · have : erase ((r, o) :: t) p = (r, o) :: erase t p := by simp [erase, hr]
      rw [this]
      simp only [get]
      by_cases hq : r = q
      · subst hq
        have : ¬ p = r := fun h => hr h.symm
        simp [this]
      · simp only [hq, if_false]; exact ih

theorem get_put (s : Store) (p q : Path) (o : Obj) : get (put s p o) q = if p = q then some o else get s q := by
  simp only [put, get]
  by_cases h : p = q
  · simp [h]
  · simp only [h, if_false]; rw [get_erase]; simp [h]

theorem present_put (s : Store) (p q : Path) (o : Obj) :
    present (put s p o) q = (decide (p = q) || present s q) := by
  simp only [present, get_put]
  by_cases h : p = q <;> simp [h]

theorem present_erase (s : Store) (p q : Path) :
    present (erase s p) q = (!decide (p = q) && present s q) := by
  simp only [present, get_erase]
  by_cases h : p = q <;> simp [h]

/-! ### names -/

theorem mem_names (s : Store) (n : Name) : n ∈ names s ↔ present s (.ver n) = true := by
  induction s with
  | nil => simp [names, present, get]
  | cons e t ih =>
    obtain ⟨r, o⟩ := e
    have hc : names ((r, o) :: t) = (match verName r with
        | some x => x :: names t
        | none => names t) := by
      simp only [names, List.filterMap_cons]
      cases verName r <;> rfl
    rw [hc]
    simp only [present, get]
    cases r with
    | file c id sub =>
      simp only [verName]
      have : ¬ (Path.file c id sub = Path.ver n) := by intro h; cases h
      simp only [this, if_false]
      exact ih
    | ver x =>
      simp only [verName, List.mem_cons]
      by_cases hx : x = n
      · subst hx; simp
      · have : ¬ (Path.ver x = Path.ver n) := by intro h; cases h; exact hx rfl
        simp only [this, if_false]
        have hx' : ¬ n = x := fun h => hx h.symm
        simp only [hx', false_or]
        exact ih

theorem names_erase_file (s : Store) (c : Cls) (id sub : Nat) : names (erase s (.file c id sub)) = names s := by
  induction s with
  | nil => rfl
  | cons e t ih =>
    obtain ⟨r, o⟩ := e
    by_cases hr : r = .file c id sub
    · subst hr
      have : erase ((Path.file c id sub, o) :: t) (.file c id sub) = erase t (.file c id sub) := by simp [erase]
      rw [this, ih]
      simp [names, verName]
    · have : erase ((r, o) :: t) (.file c id sub) = (r, o) :: erase t (.file c id sub) := by simp [erase, hr]
      rw [this]
      simp only [names, List.filterMap_cons] at ih ⊢
      rw [ih]

theorem names_put_file (s : Store) (c : Cls) (id sub : Nat) (o : Obj) : names (put s (.file c id sub) o) = names s := by
  have : names (put s (.file c id sub) o) = names (erase s (.file c id sub)) := by
    simp [put, names, verName]
  rw [this, names_erase_file]

theorem names_erase_ver (s : Store) (n : Name) : names (erase s (.ver n)) = (names s).filter (fun x => decide (x ≠ n)) := by
  induction s with
  | nil => rfl
  | cons e t ih =>
    obtain ⟨r, o⟩ := e
    cases r with
    | file c id sub =>
      have : erase ((Path.file c id sub, o) :: t) (.ver n) = (Path.file c id sub, o) :: erase t (.ver n) := by
        simp [erase]
      rw [this]
      simp only [names, List.filterMap_cons, verName] at ih ⊢
      exact ih
    | ver x =>
      by_cases hx : x = n
      · subst hx
        have : erase ((Path.ver x, o) :: t) (.ver x) = erase t (.ver x) := by simp [erase]
        rw [this, ih]
        simp [names, verName]
      · have : erase ((Path.ver x, o) :: t) (.ver n) = (Path.ver x, o) :: erase t (.ver n) := by
          simp [erase, hx]
        rw [this]
        simp only [names, List.filterMap_cons, verName] at ih ⊢
        rw [ih]
        simp [hx]

theorem names_put_ver (s : Store) (n : Name) (o : Obj) :
    names (put s (.ver n) o) = n :: (names s).filter (fun x => decide (x ≠ n)) := by
  have : names (put s (.ver n) o) = n :: names (erase s (.ver n)) := by simp [put, names, verName]
  rw [this, names_erase_ver]

/-! ### `valid` / `versions` are blind to names without a version -/

theorem valid_filter_noise (L : List Name) (n : Name) (h : cand n = none) :
    C33.valid (L.filter (fun x => decide (x ≠ n))) = C33.valid L := by
  induction L with
  | nil => rfl
  | cons a t ih =>
    by_cases ha : a = n
    · subst ha
      simp only [List.filter_cons, ne_eq, not_true_eq_false, decide_false]
      simp only [C33.valid, List.filterMap_cons, h] at ih ⊢
      exact ih
    · simp only [List.filter_cons, ne_eq, ha, not_false_eq_true, decide_true, if_true]
      simp only [C33.valid, List.filterMap_cons] at ih ⊢
      rw [ih]

theorem versions_put_noise (s : Store) (n : Name) (o : Obj) (h : cand n = none) :
    versions (put s (.ver n) o) = versions s := by
  simp only [versions, C33.versions, names_put_ver]
  have : C33.valid (n :: (names s).filter (fun x => decide (x ≠ n))) =
      C33.valid ((names s).filter (fun x => decide (x ≠ n))) := by
    simp [C33.valid, List.filterMap_cons, h]
  rw [this, valid_filter_noise _ _ h]

theorem latest_put_noise (s : Store) (n : Name) (o : Obj) (h : cand n = none) :
    latest (put s (.ver n) o) = latest s := by
  simp only [latest, C33.currentManifestPath, names_put_ver]
  have : C33.valid (n :: (names s).filter (fun x => decide (x ≠ n))) = C33.valid (names s) := by
    have h1 : C33.valid (n :: (names s).filter (fun x => decide (x ≠ n))) =
        C33.valid ((names s).filter (fun x => decide (x ≠ n))) := by
      simp [C33.valid, List.filterMap_cons, h]
    rw [h1, valid_filter_noise _ _ h]
  rw [this]

theorem versions_put_file (s : Store) (c : Cls) (id sub : Nat) (o : Obj) :
    versions (put s (.file c id sub) o) = versions s := by
  simp [versions, names_put_file]

theorem latest_put_file (s : Store) (c : Cls) (id sub : Nat) (o : Obj) :
    latest (put s (.file c id sub) o) = latest s := by
  simp [latest, names_put_file]

/-! ### names under `_versions/` -/

theorem manifestExt_last : C33.manifestExt.getLast? = some 't' := by decide

/-- every manifest name (attached or detached) ends in `t` -/
theorem manifestName_last (sch : Scheme) (v : Nat) (hv : v < 2 ^ 64) : (manifestName sch v).getLast? = some 't' := by
  by_cases h : v < 2 ^ 63
  · cases sch
    · rw [C33.Names.name_v1 v h]; simp [List.getLast?_append, manifestExt_last]
    · rw [C33.Names.name_v2 v h]; simp [List.getLast?_append, manifestExt_last]
  · rw [C33.Names.name_detached sch v (by omega) hv]
    simp [List.getLast?_cons, List.getLast?_append, manifestExt_last]

/-- a decimal ends in a digit -/
theorem dec_last (u : Nat) : ∃ c, (dec u).getLast? = some c ∧ c ≠ 't' := by
  have hne := C33.Dec.dec_ne_nil u
  obtain ⟨c, hc⟩ : ∃ c, (dec u).getLast? = some c := by
    cases h : (dec u).getLast? with
    | none => exact absurd (List.getLast?_eq_none_iff.1 h) hne
    | some c => exact ⟨c, rfl⟩
  refine ⟨c, hc, ?_⟩
  have hmem : c ∈ dec u := List.mem_of_getLast? hc
  obtain ⟨d, hd, rfl⟩ := C33.Dec.mem_dec hmem
  intro h
  have := C33.Dec.digitChar_toNat d hd
  rw [h] at this
  have : ('t' : Char).toNat = 116 := by decide
  omega

/-- a staging name carries no version -/
theorem stage_noise (sch : Scheme) (v u : Nat) (hv : v < 2 ^ 64) : cand (manifestName sch v ++ '-' :: dec u) = none := by
  obtain ⟨c, hc, hne⟩ := dec_last u
  exact C33.noise_staging sch v hv (dec u) c hc hne

/-- a staging name is not a manifest name -/
theorem stage_ne_manifest (sch sch' : Scheme) (v v' u : Nat) (hv' : v' < 2 ^ 64) :
    manifestName sch v ++ '-' :: dec u ≠ manifestName sch' v' := by
  intro h
  have h1 := manifestName_last sch' v' hv'
  rw [← h] at h1
  obtain ⟨c, hc, hne⟩ := dec_last u
  have : (manifestName sch v ++ '-' :: dec u).getLast? = some c := by
    simp [List.getLast?_append, List.getLast?_cons, hc]
  rw [this] at h1
  exact hne (Option.some.inj h1)

theorem detached_noise (sch : Scheme) (v : Nat) (h1 : isDetached v = true) (h2 : v < 2 ^ 64) :
    cand (manifestName sch v) = none :=
  C33.noise_detached sch v ((C33.Names.isDetached_iff v h2).1 h1) h2

theorem attached_cand (sch : Scheme) (v : Nat) (hv : v < 2 ^ 63) :
    cand (manifestName sch v) = some ⟨sch, v, manifestName sch v⟩ := C33.Names.cand_attached sch v hv

/-- manifest names of different versions (below 2^64), same scheme, differ -/
theorem manifestName_inj (sch : Scheme) (v w : Nat) (hv : v < 2 ^ 64) (hw : w < 2 ^ 63)
    (h : manifestName sch v = manifestName sch w) : v = w := by
  by_cases h' : v < 2 ^ 63
  · exact C33.Names.name_inj sch v w h' hw h
  · have := (C33.detached_never_attached sch sch v (by omega) hv).2.2 w hw
    exact absurd h.symm this

/-- an attached name of one scheme is not an attached name of the other -/
theorem attached_scheme (s1 s2 : Scheme) (v w : Nat) (hv : v < 2 ^ 63) (hw : w < 2 ^ 63)
    (h : manifestName s1 v = manifestName s2 w) : s1 = s2 := by
  have a := attached_cand s1 v hv
  have b := attached_cand s2 w hw
  rw [h, b] at a
  injection a with a
  injection a with a1
  exact a1.symm

end LanceModel.C01
